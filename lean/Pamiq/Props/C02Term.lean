/-
C02, "nothing deadlocks / launch() returns" part — **no reachable state is a trap**.

`can_always_return`: from *every* reachable state of the protocol model — any number of threads, any
retry limit, whatever the threads are in the middle of (a pause attempt with workers out, an
acknowledged pause, a runtime save, a hook, a failed start-up, an unwinding exception) — there is a
finite continuation after which `launch()` has returned. The continuation is the one a keyboard
interrupt produces (`cExc`, unless shutdown was already under way): the control thread shuts down,
every started thread is driven to its exit, the epilogue deals with every thread, the final state is
written. So the system has no deadlock and no state from which termination is impossible; together
with `shutdown_work_bounded` (every continuation after shutdown does a bounded amount of background
work) and a fair scheduler this is termination of `launch()` after any shutdown cause.

The only assumption is the one stated in DESIGN §6: user callbacks terminate (a callback in flight
is ended by `bCbEnd`).
-/
import Pamiq.Props.C02Live
namespace Pamiq.Proto

/-- Number of threads inside a user callback. -/
def inCbCount (thr : List BThread) : Nat := (thr.map fun th => if th.inCb.isSome then 1 else 0).sum

/-- Termination measure after shutdown: twice the total distance to exit plus the callbacks in flight. -/
def mu (s : St) : Nat := 2 * totalRank s.thr + inCbCount s.thr

theorem inCbCount_set {thr : List BThread} {t : Nat} {th th' : BThread} (hget : thr[t]? = some th) :
    inCbCount (thr.set t th') + (if th.inCb.isSome then 1 else 0) =
      inCbCount thr + (if th'.inCb.isSome then 1 else 0) := by
  induction thr generalizing t with
  | nil => simp at hget
  | cons x xs ih =>
    cases t with
    | zero =>
      simp only [List.getElem?_cons_zero, Option.some.injEq] at hget
      subst hget
      simp only [List.set_cons_zero, inCbCount, List.map_cons, List.sum_cons]
      omega
    | succ t =>
      simp only [List.getElem?_cons_succ] at hget
      have := ih hget
      simp only [List.set_cons_succ, inCbCount, List.map_cons, List.sum_cons] at this ⊢
      omega

/-- A background action leaves the control record, the shutdown event and the clock alone. -/
theorem bstep_frame {s s' : St} {t : Nat} {th : BThread} {a : Act} (hs : bstep s t th a = some s') :
    s'.ctl = s.ctl ∧ s'.shutdown = s.shutdown ∧ s'.resume = s.resume ∧ s'.clockPaused = s.clockPaused := by
  cases a <;> simp only [bstep] at hs
  all_goals
    (repeat' split at hs
     all_goals first
       | contradiction
       | (cases hs; exact ⟨rfl, rfl, rfl, rfl⟩))

/-- **A live thread can always get nearer to its exit after shutdown** (or someone holds the resume
lock): there is an enabled action of the thread that is not the *begin* of a user callback and that
decreases the measure. -/
theorem bg_can_progress {n mx : Nat} {s : St} (hr : Reachable n mx s)
    (hsd : s.shutdown = true) (t : Nat) (th : BThread) (hget : s.thr[t]? = some th)
    (hnew : th.pc ≠ .new) (hdone : th.pc ≠ .done) :
    (∃ a s', step s a = some s' ∧ a.thread = some t ∧ mu s' < mu s) ∨
      (th.pc = .afterWait ∧ th.localPaused = true ∧
        (s.ctl.holds = true ∨ s.thr.all (fun x => !x.holds) = false)) := by
  have hrs := shutdown_wakes hr hsd
  have hI := reachable_inv hr
  have hT := hI.2 th (mem_of_getElem? hget)
  have hlen : t < s.thr.length := by
    rcases Nat.lt_or_ge t s.thr.length with h | h
    · exact h
    · simp [List.getElem?_eq_none_iff.mpr h] at hget
  -- every candidate below is an action of thread `t`; its effect on the measure:
  have work : ∀ a, a.thread = some t → a.isCbBoundary = false → (∃ s', bstep s t th a = some s') →
      (∃ a s', step s a = some s' ∧ a.thread = some t ∧ mu s' < mu s) := by
    intro a hat hnb hex
    obtain ⟨s', hs⟩ := hex
    refine ⟨a, s', by simp [step, hat, hget, hs], hat, ?_⟩
    obtain ⟨thx, hthr, _, _⟩ := bstep_thr hs
    have hgetx : s'.thr[t]? = some thx := by rw [hthr]; exact List.getElem?_set_self hlen
    unfold TInv at hT
    obtain ⟨th', hget', hlt⟩ := bg_rank_decreases s s' t th a hsd hrs hget hT.2.1 hnb hs
    rw [hgetx] at hget'; cases hget'
    have h1 := totalRank_set (th' := thx) hget
    have h2 := inCbCount_set (th' := thx) hget
    rw [← hthr] at h1 h2
    -- a non-boundary action never puts the thread inside a callback
    have hcb : thx.inCb.isSome = true → th.inCb.isSome = true := by
      have : s'.thr[t]? = some thx := hgetx
      cases a <;> simp only [bstep, Act.isCbBoundary] at hs hnb <;> try contradiction
      all_goals
        (repeat' split at hs
         all_goals first
           | contradiction
           | (cases hs
              simp only [St.setThr] at hgetx
              rw [List.getElem?_set_self hlen] at hgetx
              cases hgetx
              simp_all))
    simp only [mu]
    split at h2 <;> split at h2 <;> simp_all <;> omega
  unfold TInv at hT
  cases hin : th.inCb with
  | some k =>
    left
    obtain ⟨s', hs⟩ : ∃ s', bstep s t th (.bCbEnd t k) = some s' := by simp [bstep, hin]
    refine ⟨.bCbEnd t k, s', by simp [step, Act.thread, hget, hs], rfl, ?_⟩
    obtain ⟨thx, hthr, _, _⟩ := bstep_thr hs
    have hgetx : s'.thr[t]? = some thx := by rw [hthr]; exact List.getElem?_set_self hlen
    obtain ⟨th', hget', heq⟩ := bg_rank_cb s s' t th (.bCbEnd t k) hget rfl hs
    rw [hgetx] at hget'; cases hget'
    have hxin : thx.inCb = none := by
      simp only [bstep, hin, if_true] at hs
      cases hs
      simp only [St.setThr] at hgetx
      rw [List.getElem?_set_self hlen] at hgetx
      cases hgetx
      rfl
    have h1 := totalRank_set (th' := thx) hget
    have h2 := inCbCount_set (th' := thx) hget
    rw [← hthr] at h1 h2
    simp only [mu]
    simp [hin, hxin] at h2
    omega
  | none =>
    have hlp : th.localPaused = true → th.inWait = true := hT.2.2.2.2.2.2.2.2.2.2.2.2.2.2.2
    cases hpc : th.pc
    case new => exact absurd hpc hnew
    case done => exact absurd hpc hdone
    case start =>
      have hl : th.localPaused = false := by
        cases h : th.localPaused
        · rfl
        · have := hlp h; simp [BThread.inWait, hpc] at this
      left; exact work (.bReadResume t true) rfl rfl (by simp [bstep, hpc, hin, hl, hrs])
    case top =>
      cases hl : th.localPaused
      · left; exact work (.bReadResume t true) rfl rfl (by simp [bstep, hpc, hin, hl, hrs])
      · left; exact work (.bWaitImm t) rfl rfl (by simp [bstep, hpc, hl, hrs])
    case hooksP =>
      left; exact work (.bSetPaused t) rfl rfl (by simp [bstep, hpc, hin])
    case waitEnter =>
      left; exact work (.bWaitImm t) rfl rfl (by simp [bstep, hpc, hrs])
    case blocked =>
      cases hn : th.notified
      · left; exact work (.bWaitTimeout t) rfl rfl (by simp [bstep, hpc, hn])
      · left; exact work (.bWaitWoken t) rfl rfl (by simp [bstep, hpc, hn])
    case afterWait =>
      cases hl : th.localPaused
      · left; exact work (.bReadShutdown t true) rfl rfl (by simp [bstep, hpc, hl, hsd])
      · cases hch : s.ctl.holds
        · cases hall : s.thr.all (fun x => !x.holds)
          · right; exact ⟨rfl, rfl, Or.inr rfl⟩
          · left; exact work (.bAcquire t) rfl rfl (by simp [bstep, hpc, hl, hch, hall])
        · right; exact ⟨rfl, rfl, Or.inl rfl⟩
    case leave =>
      left; exact work (.bLeaveRead t true) rfl rfl (by simp [bstep, hpc, hrs])
    case clearing =>
      left; exact work (.bClearPaused t) rfl rfl (by simp [bstep, hpc])
    case hooksR =>
      left; exact work (.bRelease t) rfl rfl (by simp [bstep, hpc, hin])
    case leaveBack =>
      left; exact work (.bRelease t) rfl rfl (by simp [bstep, hpc])
    case chk =>
      left; exact work (.bReadShutdown t true) rfl rfl (by simp [bstep, hpc, hsd])
    case tick =>
      left; exact work (.bLoopSleep t) rfl rfl (by simp [bstep, hpc, hin])
    case excHeld =>
      left; exact work (.bRelease t) rfl rfl (by simp [bstep, hpc])
    case exc =>
      left; exact work (.bSetExc t) rfl rfl (by simp [bstep, hpc])
    case fin =>
      left; exact work (.bExit t) rfl rfl (by simp [bstep, hpc, hin])
    case dying =>
      left; exact work (.bExit t) rfl rfl (by simp [bstep, hpc])

/-- After shutdown, with the resume lock not held by the control thread, some background thread can
move nearer to its exit as long as one of them is alive. -/
theorem exists_progress {n mx : Nat} {s : St} (hr : Reachable n mx s) (hsd : s.shutdown = true)
    (hch : s.ctl.holds = false) (t : Nat) (th : BThread) (hget : s.thr[t]? = some th)
    (hnew : th.pc ≠ .new) (hdone : th.pc ≠ .done) :
    ∃ a s' u, step s a = some s' ∧ a.thread = some u ∧ mu s' < mu s := by
  rcases bg_can_progress hr hsd t th hget hnew hdone with ⟨a, s', hs, hat, hlt⟩ | ⟨_, _, hlock⟩
  · exact ⟨a, s', t, hs, hat, hlt⟩
  · rcases hlock with hc | hb
    · simp [hch] at hc
    · -- some background thread holds the lock: it is inside the leave-pause section and can move
      have hex : ∃ x ∈ s.thr, x.holds = true := by
        apply Classical.byContradiction
        intro hcon
        have : s.thr.all (fun x => !x.holds) = true := by
          rw [List.all_eq_true]
          intro x hx
          cases hxh : x.holds with
          | false => rfl
          | true => exact absurd ⟨x, hx, hxh⟩ hcon
        simp [this] at hb
      obtain ⟨x, hx, hxh⟩ := hex
      obtain ⟨u, hu, hgetu⟩ := List.getElem_of_mem hx
      have hgetu' : s.thr[u]? = some x := by rw [List.getElem?_eq_getElem hu, hgetu]
      have hlp := reachable_holds hr x hx hxh
      have hxnew : x.pc ≠ .new := by intro h; simp [h, lockPc] at hlp
      have hxdone : x.pc ≠ .done := by intro h; simp [h, lockPc] at hlp
      rcases bg_can_progress hr hsd u x hgetu' hxnew hxdone with ⟨a, s', hs, hat, hlt⟩ | ⟨hpc, _, _⟩
      · exact ⟨a, s', u, hs, hat, hlt⟩
      · simp [hpc, lockPc] at hlp

/-- A background action leaves the control record, the two events it does not own and the clock alone. -/
theorem step_bg_frame {s s' : St} {a : Act} {u : Nat} (hs : step s a = some s') (hat : a.thread = some u) :
    s'.ctl = s.ctl ∧ s'.shutdown = s.shutdown ∧ s'.resume = s.resume ∧ s'.clockPaused = s.clockPaused := by
  simp only [step, hat] at hs
  split at hs
  · exact bstep_frame hs
  · contradiction

/-- **Every started thread can be driven to its exit** once shutdown is set: a finite sequence of
background actions after which every thread has exited or was never started. -/
theorem drain_threads {n mx : Nat} : ∀ (m : Nat) (s : St), Reachable n mx s → s.shutdown = true →
    s.ctl.holds = false → mu s ≤ m →
    ∃ tr s', run s tr = some s' ∧ s'.ctl = s.ctl ∧ s'.shutdown = true ∧
      s'.clockPaused = s.clockPaused ∧ ∀ th ∈ s'.thr, th.pc = .done ∨ th.pc = .new := by
  intro m
  induction m with
  | zero =>
    intro s hr hsd hch hmu
    by_cases hall : ∀ th ∈ s.thr, th.pc = .done ∨ th.pc = .new
    · exact ⟨[], s, rfl, rfl, hsd, rfl, hall⟩
    · exfalso
      have hex : ∃ th ∈ s.thr, th.pc ≠ .done ∧ th.pc ≠ .new := by
        apply Classical.byContradiction
        intro hcon
        apply hall
        intro th hth
        by_cases h1 : th.pc = .done
        · exact Or.inl h1
        · by_cases h2 : th.pc = .new
          · exact Or.inr h2
          · exact absurd ⟨th, hth, h1, h2⟩ hcon
      obtain ⟨th, hth, hd, hn⟩ := hex
      obtain ⟨t, ht, hgett⟩ := List.getElem_of_mem hth
      have hget : s.thr[t]? = some th := by rw [List.getElem?_eq_getElem ht, hgett]
      obtain ⟨a, s', u, hs, hat, hlt⟩ := exists_progress hr hsd hch t th hget hn hd
      omega
  | succ m ih =>
    intro s hr hsd hch hmu
    by_cases hall : ∀ th ∈ s.thr, th.pc = .done ∨ th.pc = .new
    · exact ⟨[], s, rfl, rfl, hsd, rfl, hall⟩
    · have hex : ∃ th ∈ s.thr, th.pc ≠ .done ∧ th.pc ≠ .new := by
        apply Classical.byContradiction
        intro hcon
        apply hall
        intro th hth
        by_cases h1 : th.pc = .done
        · exact Or.inl h1
        · by_cases h2 : th.pc = .new
          · exact Or.inr h2
          · exact absurd ⟨th, hth, h1, h2⟩ hcon
      obtain ⟨th, hth, hd, hn⟩ := hex
      obtain ⟨t, ht, hgett⟩ := List.getElem_of_mem hth
      have hget : s.thr[t]? = some th := by rw [List.getElem?_eq_getElem ht, hgett]
      obtain ⟨a, s1, u, hs, hat, hlt⟩ := exists_progress hr hsd hch t th hget hn hd
      obtain ⟨hc1, hsd1, _, hcp1⟩ := step_bg_frame hs hat
      have hr1 := reachable_step hr hs
      obtain ⟨tr, s', hrun, hc', hsd', hcp', hall'⟩ :=
        ih s1 hr1 (by rw [hsd1]; exact hsd) (by rw [hc1]; exact hch) (by omega)
      refine ⟨a :: tr, s', ?_, ?_, hsd', ?_, hall'⟩
      · simp [run, hs, hrun]
      · rw [hc', hc1]
      · rw [hcp', hcp1]

theorem reachable_run {n mx : Nat} {s s' : St} (h : Reachable n mx s) (tr : List Act)
    (hr : run s tr = some s') : Reachable n mx s' := by
  obtain ⟨tr0, h0⟩ := h
  exact ⟨tr0 ++ tr, by rw [run_append, h0]; simpa using hr⟩

theorem run_trans {s s1 s2 : St} {tr1 tr2 : List Act} (h1 : run s tr1 = some s1)
    (h2 : run s1 tr2 = some s2) : run s (tr1 ++ tr2) = some s2 := by
  rw [run_append, h1]; simpa using h2

/-- **The epilogue can deal with every thread** once all of them have exited or were never started:
one liveness test per thread (no join is needed), after which every thread is marked. -/
theorem mark_all (post : List BThread) : ∀ (pre : List BThread) (s : St), s.thr = pre ++ post →
    s.ctl.pc = .idle → s.ctl.stopped = true → (∀ th ∈ post, th.pc = .done ∨ th.pc = .new) →
    (∀ th ∈ pre, th.joined = true) →
    ∃ tr s', run s tr = some s' ∧ s'.ctl = s.ctl ∧ (∀ th ∈ s'.thr, th.joined = true) := by
  induction post with
  | nil =>
    intro pre s hthr _ _ _ hpre
    refine ⟨[], s, rfl, rfl, ?_⟩
    intro th hth
    rw [hthr] at hth
    simpa using hpre th (by simpa using hth)
  | cons th rest ih =>
    intro pre s hthr hpc hst hpost hpre
    have hget : s.thr[pre.length]? = some th := by rw [hthr]; simp
    have hv : (th.pc != .new && th.pc != .done) = false := by
      rcases hpost th (by simp) with h | h <;> simp [h]
    have hs : step s (.cIsAlive pre.length false) =
        some (s.setThr pre.length { th with joined := true }) := by
      simp [step, Act.thread, cstep, hget, hpc, hst, hv]
    have hthr' : (s.setThr pre.length { th with joined := true }).thr =
        (pre ++ [{ th with joined := true }]) ++ rest := by
      simp [St.setThr, hthr]
    obtain ⟨tr, s', hrun, hc, hall⟩ := ih (pre ++ [{ th with joined := true }]) _ hthr'
      (by simpa [St.setThr] using hpc) (by simpa [St.setThr] using hst)
      (fun x hx => hpost x (by simp [hx]))
      (by
        intro x hx
        rcases List.mem_append.mp hx with h | h
        · exact hpre x h
        · simp at h; subst h; rfl)
    exact ⟨.cIsAlive pre.length false :: tr, s', by simp [run, hs, hrun], by rw [hc]; rfl, hall⟩

/-- Once the final save has begun it can be completed and `launch()` returns. -/
theorem final_save_completes (s : St) (h : s.ctl.pc = .finalIn) :
    ∃ tr s', run s tr = some s' ∧ s'.ctl.pc = .returned := by
  cases hc : s.ctl.inCb
  · refine ⟨[.cFinalSaveEnd], { s with ctl := { s.ctl with pc := .returned, saves := s.ctl.saves + 1 } }, ?_, rfl⟩
    simp [run, step, Act.thread, cstep, h, hc]
  · refine ⟨[.cSaveCbEnd, .cFinalSaveEnd],
      { s with ctl := { s.ctl with inCb := false, pc := .returned, saves := s.ctl.saves + 1 } }, ?_, rfl⟩
    simp [run, step, Act.thread, cstep, h, hc]

/-- From the epilogue's resting point (loop stopped, shutdown complete, lock free) `launch()` can return. -/
theorem idle_stopped_returns {n mx : Nat} {s : St} (hr : Reachable n mx s) (hpc : s.ctl.pc = .idle)
    (hst : s.ctl.stopped = true) (hch : s.ctl.holds = false) :
    ∃ tr s', run s tr = some s' ∧ s'.ctl.pc = .returned := by
  have hC2 := (reachable_inv hr).1.2
  unfold CInv2 at hC2
  obtain ⟨_, _, _, _, _, _, _, _, _, _, _, _, _, c14⟩ := hC2
  have hsd : s.shutdown = true := (c14 hst).2.2.1
  obtain ⟨tr1, s1, hrun1, hc1, _, _, hall1⟩ := drain_threads (mu s) s hr hsd hch (Nat.le_refl _)
  obtain ⟨tr2, s2, hrun2, hc2, hall2⟩ := mark_all s1.thr [] s1 (by simp) (by rw [hc1]; exact hpc)
    (by rw [hc1]; exact hst) hall1 (by simp)
  have hjoin : s2.thr.all (fun x => x.joined) = true := by
    rw [List.all_eq_true]; intro x hx; simp [hall2 x hx]
  have hpc2 : s2.ctl.pc = .idle := by rw [hc2, hc1]; exact hpc
  have hst2 : s2.ctl.stopped = true := by rw [hc2, hc1]; exact hst
  have hs3 : step s2 .cFinalSaveBegin = some { s2 with ctl := { s2.ctl with pc := .finalIn } } := by
    simp [step, Act.thread, cstep, hpc2, hst2, hjoin]
  obtain ⟨tr4, s4, hrun4, hret⟩ := final_save_completes { s2 with ctl := { s2.ctl with pc := .finalIn } } rfl
  refine ⟨tr1 ++ (tr2 ++ (.cFinalSaveBegin :: tr4)), s4, ?_, hret⟩
  apply run_trans hrun1
  apply run_trans hrun2
  simp [run, hs3, hrun4]

/-- If the control thread still holds the resume lock when it is back in its loop (an interrupt hit
it inside `pause()`), the unwinding `with` statement releases it. -/
theorem release_if_held (s : St) (hpc : s.ctl.pc = .idle) :
    ∃ tr s', run s tr = some s' ∧ s'.ctl.pc = .idle ∧ s'.ctl.holds = false ∧
      s'.ctl.stopped = s.ctl.stopped ∧ s'.ctl.mustStop = s.ctl.mustStop ∧ s'.shutdown = s.shutdown := by
  cases hh : s.ctl.holds
  · exact ⟨[], s, rfl, hpc, hh, rfl, rfl, rfl⟩
  · refine ⟨[.cRelease], { s with ctl := { s.ctl with holds := false } }, ?_, hpc, rfl, rfl, rfl, rfl⟩
    simp [run, step, Act.thread, cstep, hpc, hh]

/-- `shutdown()` called from the control loop's resting point runs to completion. -/
theorem shutdown_completes (s : St) (hpc : s.ctl.pc = .idle)
    (hcause : s.ctl.cause = true ∨ s.ctl.mustStop = true ∨ s.ctl.stopped = true) :
    ∃ tr s', run s tr = some s' ∧ s'.ctl.pc = .idle ∧ s'.ctl.stopped = true ∧ s'.ctl.holds = s.ctl.holds := by
  cases hsd : s.shutdown
  · refine ⟨[.cShutdown, .cClockResume, .cSetResume, .cSetShutdown, .cShutdownRet],
      { s with resume := true, shutdown := true, clockPaused := false, thr := notifyAll s.thr,
               ctl := { s.ctl with pc := .idle, paused := false, stopped := true } }, ?_, rfl, rfl, rfl⟩
    simp [run, step, Act.thread, cstep, hpc, hcause, hsd]
  · refine ⟨[.cShutdown, .cClockResume, .cShutdownRet],
      { s with clockPaused := false, ctl := { s.ctl with pc := .idle, paused := false, stopped := true } },
      ?_, rfl, rfl, rfl⟩
    simp [run, step, Act.thread, cstep, hpc, hcause, hsd]

/-- The control state right after an exception or interrupt has unwound whatever it was doing. -/
def unwound (s : St) : St :=
  { s with ctl := { s.ctl with pc := .idle, mustStop := true, ctlFault := true, inCb := false } }

/-- **No reachable state is a trap: `launch()` can always return.** From every reachable state — any
number of threads, any retry limit, whatever the control thread, the pause workers and the background
threads are in the middle of — there is a finite continuation after which `launch()` has returned. -/
theorem can_always_return {n mx : Nat} {s : St} (hr : Reachable n mx s) :
    ∃ tr s', run s tr = some s' ∧ s'.ctl.pc = .returned := by
  have hC2 := (reachable_inv hr).1.2
  unfold CInv2 at hC2
  obtain ⟨_, _, _, _, _, _, _, _, c9, _, _, _, _, c14⟩ := hC2
  -- first reach the resting point `idle ∧ stopped ∧ lock free`, or a later point of the epilogue
  have rest : ∃ tr s', run s tr = some s' ∧
      (s'.ctl.pc = .returned ∨ s'.ctl.pc = .finalIn ∨
        (s'.ctl.pc = .idle ∧ s'.ctl.stopped = true ∧ s'.ctl.holds = false)) := by
    cases hst : s.ctl.stopped
    · -- the loop is still running: an interrupt unwinds it, then `shutdown()` runs
      have h1 : s.ctl.pc ≠ .returned := by intro h; have := c9 (Or.inr h); simp [hst] at this
      have h2 : s.ctl.pc ≠ .finalIn := by intro h; have := c9 (Or.inl h); simp [hst] at this
      have hs1 : step s .cExc = some (unwound s) := by
        simp [step, Act.thread, cstep, h1, h2, hst, unwound]
      obtain ⟨tr2, s2, hrun2, hpc2, hh2, _, hm2, _⟩ := release_if_held (unwound s) rfl
      obtain ⟨tr3, s3, hrun3, hpc3, hst3, hh3⟩ := shutdown_completes s2 hpc2 (Or.inr (Or.inl (by rw [hm2]; rfl)))
      refine ⟨.cExc :: (tr2 ++ tr3), s3, ?_, Or.inr (Or.inr ⟨hpc3, hst3, by rw [hh3]; exact hh2⟩)⟩
      simp only [run, hs1]
      exact run_trans hrun2 hrun3
    · have hpcs := (c14 hst).2.2.2
      have hsd : s.shutdown = true := (c14 hst).2.2.1
      rcases hpcs with h | h | h | h | h
      · obtain ⟨tr, s', hrun, hpc', hh', hst', _, _⟩ := release_if_held s h
        exact ⟨tr, s', hrun, Or.inr (Or.inr ⟨hpc', by rw [hst']; exact hst, hh'⟩)⟩
      · -- inside a repeated `shutdown()`: finish it
        have hs1 : run s [.cClockResume, .cShutdownRet] =
            some { s with clockPaused := false, ctl := { s.ctl with pc := .idle, stopped := true } } := by
          simp [run, step, Act.thread, cstep, h, hsd]
        obtain ⟨tr, s', hrun, hpc', hh', hst', _, _⟩ := release_if_held
          { s with clockPaused := false, ctl := { s.ctl with pc := .idle, stopped := true } } rfl
        exact ⟨_, s', run_trans hs1 hrun, Or.inr (Or.inr ⟨hpc', by rw [hst'], hh'⟩)⟩
      · have hs1 : run s [.cShutdownRet] = some { s with ctl := { s.ctl with pc := .idle, stopped := true } } := by
          simp [run, step, Act.thread, cstep, h]
        obtain ⟨tr, s', hrun, hpc', hh', hst', _, _⟩ := release_if_held
          { s with ctl := { s.ctl with pc := .idle, stopped := true } } rfl
        exact ⟨_, s', run_trans hs1 hrun, Or.inr (Or.inr ⟨hpc', by rw [hst'], hh'⟩)⟩
      · exact ⟨[], s, rfl, Or.inr (Or.inl h)⟩
      · exact ⟨[], s, rfl, Or.inl h⟩
  obtain ⟨tr1, s1, hrun1, hcase⟩ := rest
  have hr1 := reachable_run hr tr1 hrun1
  rcases hcase with h | h | ⟨hpc, hst, hh⟩
  · exact ⟨tr1, s1, hrun1, h⟩
  · obtain ⟨tr2, s2, hrun2, hret⟩ := final_save_completes s1 h
    exact ⟨tr1 ++ tr2, s2, run_trans hrun1 hrun2, hret⟩
  · obtain ⟨tr2, s2, hrun2, hret⟩ := idle_stopped_returns hr1 hpc hst hh
    exact ⟨tr1 ++ tr2, s2, run_trans hrun1 hrun2, hret⟩

/-- In particular no reachable state is a deadlock: unless `launch()` has returned, some action is enabled. -/
theorem no_deadlock {n mx : Nat} {s : St} (hr : Reachable n mx s) (hnr : s.ctl.pc ≠ .returned) :
    ∃ a, (step s a).isSome = true := by
  obtain ⟨tr, s', hrun, hret⟩ := can_always_return hr
  cases tr with
  | nil => simp only [run, Option.some.injEq] at hrun; subst hrun; exact absurd hret hnr
  | cons a rest =>
    refine ⟨a, ?_⟩
    simp only [run] at hrun
    cases hs : step s a with
    | none => simp [hs] at hrun
    | some _ => rfl

/-! Non-vacuity: the theorem applies to the middle of a pause attempt with both workers out
(`C01.witnessTrace` cut before the acknowledgements), a state no command can leave by itself. -/
example : ∃ s, Reachable 2 2 s ∧ s.ctl.pc = .tpSpawn ∧ s.resume = false ∧
    ∃ tr s', run s tr = some s' ∧ s'.ctl.pc = .returned := by
  have hr : Reachable 2 2 ((run (init 2 2) (witnessTrace.take 9)).get (by decide)) :=
    ⟨witnessTrace.take 9, by simp⟩
  exact ⟨_, hr, by decide, by decide, can_always_return hr⟩

end Pamiq.Proto
