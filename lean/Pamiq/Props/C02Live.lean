/-
C02, termination part — after `shutdown()` the background threads do a *bounded* amount of work
under every schedule and can never all be stuck.

`Props/C02.lean` proves, per thread and per step, that a rank decreases and that an own action is
enabled. This file lifts both to whole executions:

* `shutdown_work_bounded`  from any reachable state in which the shutdown event is set, along *every*
  continuation (any interleaving with the control thread, the pool workers, faults, time-outs), the
  number of background-thread actions other than user-callback boundaries is at most the total rank
  of the threads, i.e. at most `12 · n`. No schedule can keep a thread busy forever: the only way
  to spend unboundedly many steps is inside user callbacks (assumed to terminate).
* `no_bg_deadlock_after_shutdown`  as long as some started thread has not exited, some action of a
  background thread (or the release of the resume lock by an unwinding control thread) is enabled.
  Hence with a fair scheduler every background thread reaches `done`, and both `join`s return.
* `launch_epilogue_never_blocks`  once the threads are done the control thread's remaining actions
  (joins, final save, return) are all enabled.
-/
import Pamiq.Props.C02
namespace Pamiq.Proto

/-- Sum of the distances to exit. -/
def totalRank (thr : List BThread) : Nat := (thr.map rank).sum

/-- Work actions: background-thread actions other than user-callback boundaries. -/
def Act.isBgWork (a : Act) : Bool := a.thread.isSome && !a.isCbBoundary

def countWork (tr : List Act) : Nat := (tr.filter Act.isBgWork).length

theorem totalRank_set {thr : List BThread} {t : Nat} {th th' : BThread} (hget : thr[t]? = some th) :
    totalRank (thr.set t th') + rank th = totalRank thr + rank th' := by
  induction thr generalizing t with
  | nil => simp at hget
  | cons x xs ih =>
    cases t with
    | zero =>
      simp only [List.getElem?_cons_zero, Option.some.injEq] at hget
      subst hget
      simp only [List.set_cons_zero, totalRank, List.map_cons, List.sum_cons]
      omega
    | succ t =>
      simp only [List.getElem?_cons_succ] at hget
      have := ih hget
      simp only [List.set_cons_succ, totalRank, List.map_cons, List.sum_cons] at this ⊢
      omega

theorem bstep_thr {s s' : St} {t : Nat} {th : BThread} {a : Act} (hs : bstep s t th a = some s') :
    ∃ th', s'.thr = s.thr.set t th' ∧ s'.shutdown = s.shutdown ∧ s'.resume = s.resume := by
  cases a <;> simp only [bstep] at hs
  all_goals
    (repeat' split at hs
     all_goals first
       | contradiction
       | (cases hs; exact ⟨_, rfl, rfl, rfl⟩))

/-- A background step, after shutdown: the total rank does not grow, and shrinks for a work action. -/
theorem bstep_totalRank {s s' : St} {t : Nat} {th : BThread} {a : Act} (hI : HInv s)
    (hsd : s.shutdown = true) (hrs : s.resume = true) (hget : s.thr[t]? = some th)
    (hs : bstep s t th a = some s') :
    totalRank s'.thr + (if a.isCbBoundary then 0 else 1) ≤ totalRank s.thr := by
  have hT := hI.2 th (mem_of_getElem? hget)
  unfold TInv at hT
  have hlen : t < s.thr.length := by
    rcases Nat.lt_or_ge t s.thr.length with h | h
    · exact h
    · simp [List.getElem?_eq_none_iff.mpr h] at hget
  obtain ⟨thx, hthr, _, _⟩ := bstep_thr hs
  have hgetx : s'.thr[t]? = some thx := by rw [hthr]; exact List.getElem?_set_self hlen
  have hsum := totalRank_set (th' := thx) hget
  rw [← hthr] at hsum
  cases hb : a.isCbBoundary
  · obtain ⟨th', hget', hlt⟩ := bg_rank_decreases s s' t th a hsd hrs hget hT.2.1 hb hs
    rw [hgetx] at hget'
    cases hget'
    simp only [Bool.false_eq_true, if_false]
    omega
  · obtain ⟨th', hget', heq⟩ := bg_rank_cb s s' t th a hget hb hs
    rw [hgetx] at hget'
    cases hget'
    simp only [if_true]
    omega

theorem rank_resetWorkers (thr : List BThread) : totalRank (resetWorkers thr) = totalRank thr := by
  simp only [totalRank, resetWorkers, List.map_map]
  congr 1

theorem rank_notifyAll (thr : List BThread) : totalRank (notifyAll thr) = totalRank thr := by
  simp only [totalRank, notifyAll, List.map_map]
  congr 1

/-- A control-thread (or worker) action never makes a background thread's way to exit longer. -/
theorem cstep_totalRank {s s' : St} {a : Act} (hs : cstep s a = some s') :
    totalRank s'.thr ≤ totalRank s.thr := by
  cases a <;> simp only [cstep] at hs
  all_goals
    (repeat' split at hs
     all_goals first
       | contradiction
       | (cases hs; simp only [rank_resetWorkers, rank_notifyAll, Nat.le_refl]; done)
       | (cases hs
          rename_i th hget _
          have := totalRank_set (th' := { th with wSpawned := true }) hget
          simp only [St.setThr]
          have hr : rank { th with wSpawned := true } = rank th := rfl
          omega)
       | (cases hs
          rename_i th hget _
          rename_i r _ _
          have := totalRank_set (th' := { th with wRes := some r }) hget
          simp only [St.setThr]
          have hr : rank { th with wRes := some r } = rank th := rfl
          omega)
       | (cases hs
          rename_i th hget h
          have := totalRank_set (th' := { th with pc := .start }) hget
          simp only [St.setThr]
          have hr : rank { th with pc := .start } ≤ rank th := by simp [rank, h.2]
          omega)
       | (cases hs
          rename_i th hget _
          have := totalRank_set (th' := { th with joined := true }) hget
          simp only [St.setThr]
          have hr : rank { th with joined := true } = rank th := rfl
          omega)
       | (cases hs
          rename_i th hget _ _
          have := totalRank_set (th' := { th with joined := true }) hget
          simp only [St.setThr]
          have hr : rank { th with joined := true } = rank th := rfl
          omega))

/-- Once set, the shutdown event stays set. -/
theorem shutdown_stable {s s' : St} {a : Act} (hs : step s a = some s') (hsd : s.shutdown = true) :
    s'.shutdown = true := by
  cases hth : a.thread with
  | some t =>
    simp only [step, hth] at hs
    split at hs
    · obtain ⟨_, _, h, _⟩ := bstep_thr hs
      rw [h]; exact hsd
    · contradiction
  | none =>
    simp only [step, hth] at hs
    cases a <;> simp only [cstep] at hs
    all_goals
      (repeat' split at hs
       all_goals first
         | contradiction
         | (cases hs; first | rfl | exact hsd | simp [St.setThr, hsd]))

theorem step_totalRank {n mx : Nat} {s s' : St} {a : Act} (hr : Reachable n mx s)
    (hsd : s.shutdown = true) (hs : step s a = some s') :
    totalRank s'.thr + (if a.isBgWork then 1 else 0) ≤ totalRank s.thr := by
  have hI := reachable_inv hr
  have hrs := shutdown_wakes hr hsd
  cases hth : a.thread with
  | some t =>
    simp only [step, hth] at hs
    split at hs
    · rename_i th hget
      have := bstep_totalRank hI hsd hrs hget hs
      simp only [Act.isBgWork, hth, Option.isSome_some, Bool.true_and]
      cases hb : a.isCbBoundary <;> simp_all
    · contradiction
  | none =>
    simp only [step, hth] at hs
    have := cstep_totalRank hs
    simp only [Act.isBgWork, hth, Option.isSome_none, Bool.false_and, Bool.false_eq_true, if_false]
    omega

/-- **Bounded work after shutdown, under every schedule.** -/
theorem shutdown_work_bounded {n mx : Nat} {s s' : St} (hr : Reachable n mx s)
    (hsd : s.shutdown = true) (tr : List Act) (htr : run s tr = some s') :
    totalRank s'.thr + countWork tr ≤ totalRank s.thr := by
  induction tr generalizing s with
  | nil =>
    simp only [run, Option.some.injEq] at htr
    subst htr
    simp [countWork]
  | cons a rest ih =>
    simp only [run] at htr
    cases hs : step s a with
    | none => simp [hs] at htr
    | some s1 =>
      simp only [hs] at htr
      have h1 := step_totalRank hr hsd hs
      have h2 := ih (reachable_step hr hs) (shutdown_stable hs hsd) htr
      have hc : countWork (a :: rest) = (if a.isBgWork then 1 else 0) + countWork rest := by
        simp only [countWork, List.filter_cons]
        cases a.isBgWork <;> simp <;> omega
      omega

theorem rank_le (th : BThread) : rank th ≤ 12 := by
  simp only [rank]
  repeat' split
  all_goals omega

theorem totalRank_le (thr : List BThread) : totalRank thr ≤ 12 * thr.length := by
  induction thr with
  | nil => simp [totalRank]
  | cons x xs ih =>
    have := rank_le x
    simp only [totalRank, List.map_cons, List.sum_cons, List.length_cons] at ih ⊢
    omega

/-- … in numbers: never more than twelve work actions per thread. -/
theorem shutdown_work_le {n mx : Nat} {s s' : St} (hr : Reachable n mx s)
    (hsd : s.shutdown = true) (tr : List Act) (htr : run s tr = some s') :
    countWork tr ≤ 12 * s.thr.length := by
  have := shutdown_work_bounded hr hsd tr htr
  have := totalRank_le s.thr
  omega

/-- The resume lock is held only inside the leave-pause section. -/
def HoldsInv (s : St) : Prop := ∀ th ∈ s.thr, th.holds = true → lockPc th.pc = true

theorem HoldsInv_init (n mx : Nat) : HoldsInv (init n mx) := by
  intro th hth
  simp only [init, List.mem_replicate] at hth
  obtain ⟨_, rfl⟩ := hth
  simp

theorem HoldsInv_setThr {s : St} {t : Nat} {th' : BThread} (h : HoldsInv s)
    (hth : th'.holds = true → lockPc th'.pc = true) : HoldsInv (s.setThr t th') := by
  intro x hx
  simp only [St.setThr] at hx
  rcases List.mem_or_eq_of_mem_set hx with hx | rfl
  · exact h x hx
  · exact hth

theorem HoldsInv_step {s s' : St} {a : Act} (hI : HInv s) (h : HoldsInv s) (hs : step s a = some s') :
    HoldsInv s' := by
  cases hth : a.thread with
  | some t =>
    simp only [step, hth] at hs
    split at hs
    · rename_i th hget
      have hT := h th (mem_of_getElem? hget)
      have hcb := (hI.2 th (mem_of_getElem? hget)).2.1
      simp only [cbPc] at hcb
      simp only [lockPc] at hT
      cases a <;> simp only [bstep] at hs
      all_goals
        (repeat' split at hs
         all_goals first
           | contradiction
           | (cases hs
              apply HoldsInv_setThr h
              intro hh
              cases hpc : th.pc <;> simp_all [lockPc]))
    · contradiction
  | none =>
    simp only [step, hth] at hs
    cases a <;> simp only [cstep] at hs
    all_goals
      (repeat' split at hs
       all_goals first
         | contradiction
         | (cases hs; exact h)
         | (cases hs
            intro x hx
            simp only [resetWorkers, notifyAll, List.mem_map] at hx
            obtain ⟨y, hy, rfl⟩ := hx
            exact h y hy)
         | (cases hs
            rename_i th hget _
            apply HoldsInv_setThr h
            exact h th (mem_of_getElem? hget))
         | (cases hs
            rename_i th hget _ _
            apply HoldsInv_setThr h
            exact h th (mem_of_getElem? hget))
         | (cases hs
            rename_i th hget hc
            apply HoldsInv_setThr h
            intro hh
            have := h th (mem_of_getElem? hget) hh
            simp [hc.2, lockPc] at this))

theorem holds_run {s0 s : St} (tr : List Act) (hI : HInv s0) (h0 : HoldsInv s0)
    (h : run s0 tr = some s) : HoldsInv s := by
  induction tr generalizing s0 with
  | nil => simp only [run, Option.some.injEq] at h; subst h; exact h0
  | cons a rest ih =>
    simp only [run] at h
    cases hs : step s0 a with
    | none => simp [hs] at h
    | some s1 =>
      simp only [hs] at h
      exact ih (step_inv hI hs) (HoldsInv_step hI h0 hs) h

theorem reachable_holds {n mx : Nat} {s : St} (hr : Reachable n mx s) : HoldsInv s := by
  obtain ⟨tr, htr⟩ := hr
  exact holds_run tr (HInv_init n mx) (HoldsInv_init n mx) htr

/-- **No deadlock among the background threads after shutdown.** While some started thread has not
exited, an action of a background thread is enabled — unless the control thread itself holds the
resume lock, which it does only for the two statements of `pause()` or, if an interrupt hit it there,
until the unwinding `with` statement releases it (`ctl_releases_lock_when_unwound`). -/
theorem no_bg_deadlock_after_shutdown {n mx : Nat} {s : St} (hr : Reachable n mx s)
    (hsd : s.shutdown = true) (t : Nat) (th : BThread) (hget : s.thr[t]? = some th)
    (hnew : th.pc ≠ .new) (hdone : th.pc ≠ .done) :
    (∃ a, (step s a).isSome = true ∧ a.thread.isSome = true) ∨ s.ctl.holds = true := by
  rcases bg_enabled_after_shutdown hr hsd t th hget hnew hdone with ⟨a, ha, hen⟩ | ⟨_, _, hlock⟩
  · exact Or.inl ⟨a, hen, by simp [ha]⟩
  · rcases hlock with hc | hb
    · exact Or.inr hc
    · -- some background thread holds the lock: it is inside the leave-pause section and can move
      left
      have hex : ∃ x ∈ s.thr, x.holds = true := by
        apply Classical.byContradiction
        intro hcon
        have : s.thr.all (fun x => !x.holds) = true := by
          rw [List.all_eq_true]
          intro x hx
          cases hxh : x.holds with
          | false => rfl
          | true => exact absurd ⟨x, hx, hxh⟩ hcon
        simp [this] at hb
      obtain ⟨x, hx, hxh⟩ := hex
      obtain ⟨u, hu, hgetu⟩ := List.getElem_of_mem hx
      have hgetu' : s.thr[u]? = some x := by rw [List.getElem?_eq_getElem hu, hgetu]
      have hlp := reachable_holds hr x hx hxh
      have hxnew : x.pc ≠ .new := by intro h; simp [h, lockPc] at hlp
      have hxdone : x.pc ≠ .done := by intro h; simp [h, lockPc] at hlp
      rcases bg_enabled_after_shutdown hr hsd u x hgetu' hxnew hxdone with ⟨a, ha, hen⟩ | ⟨hpc, _, _⟩
      · exact ⟨a, hen, by simp [ha]⟩
      · simp [hpc, lockPc] at hlp

/-- After shutdown the control thread is never inside `pause()`; if it still holds the resume lock
(an interrupt hit it between acquiring and releasing), the release is enabled as soon as it is back
in its loop / `finally` clause — which `shutdown_never_blocks` guarantees it reaches. -/
theorem ctl_releases_lock_when_unwound {n mx : Nat} {s : St} (hr : Reachable n mx s)
    (hsd : s.shutdown = true) (hc : s.ctl.holds = true) :
    tpPc s.ctl.pc = false ∧ (s.ctl.pc = .idle → (step s .cRelease).isSome = true) := by
  have hC2 := (reachable_inv hr).1.2
  unfold CInv2 at hC2
  refine ⟨?_, ?_⟩
  · cases h : tpPc s.ctl.pc with
    | false => rfl
    | true => have := (hC2.2.2.2.2.2.1 h).1; simp [hsd] at this
  · intro hidle
    have hne : s.ctl.pc ≠ .tpUnlock := by simp [hidle]
    simp [step, Act.thread, cstep, hidle, hc]

/-- **The launch epilogue never blocks** on anything but a thread that is still on its way out (which
`shutdown_work_bounded` / `no_bg_deadlock_after_shutdown` cover): the liveness test of every thread
can be made; a thread found not alive (exited, or never started because an interrupt cut the start-up
short) is not joined at all; the join of an exited thread returns; once every thread has been dealt
with the final save can begin and end, and `launch()` returns. -/
theorem launch_epilogue_never_blocks (s : St) (hst : s.ctl.stopped = true) :
    (s.ctl.pc = .idle → ∀ t th, s.thr[t]? = some th →
        (cstep s (.cIsAlive t (th.pc != .new && th.pc != .done))).isSome = true) ∧
    (s.ctl.pc = .idle → ∀ t th, s.thr[t]? = some th → th.pc = .done → (cstep s (.cJoin t)).isSome = true) ∧
    (s.ctl.pc = .idle → (∀ th ∈ s.thr, th.joined = true) → (cstep s .cFinalSaveBegin).isSome = true) ∧
    (s.ctl.pc = .finalIn → s.ctl.inCb = false → (cstep s .cFinalSaveEnd).isSome = true) ∧
    (s.ctl.pc = .finalIn → s.ctl.inCb = true → (cstep s .cSaveCbEnd).isSome = true) ∧
    (s.ctl.pc = .returned → (cstep s .cReturn).isSome = true) := by
  refine ⟨?_, ?_, ?_, ?_, ?_, ?_⟩
  · intro h t th hget
    simp [cstep, hget, h, hst]
  · intro h t th hget hd
    simp [cstep, hget, h, hst, hd]
  · intro h hall
    have : s.thr.all (fun x => x.joined) = true := by
      rw [List.all_eq_true]; intro x hx; simp [hall x hx]
    simp [cstep, h, hst, this]
  · intro h hc; simp [cstep, h, hc]
  · intro h hc; simp [cstep, h, hc]
  · intro h; simp [cstep, h]

/-- A thread the epilogue found not alive, or joined, is dealt with for good: it has exited or was
never started, and stays so. -/
theorem joined_is_settled {n mx : Nat} {s : St} (hr : Reachable n mx s) (th : BThread) (hth : th ∈ s.thr)
    (hj : th.joined = true) : (th.pc = .done ∨ th.pc = .new) ∧ s.ctl.pc ≠ .boot := by
  have hT := (reachable_inv hr).2 th hth
  unfold TInv at hT
  exact hT.2.2.2.2.2.2.2.2.2.2.2.2.2.2.1 hj

/-- **An interrupt during start-up.** With only the first thread started, an interrupt leaves the
start-up section; the epilogue shuts down, joins the started thread once it has exited, finds the
other one not alive, saves and returns. -/
def bootInterruptTrace : List Act :=
  [.cSpawn 0, .cExc, .cShutdown, .cClockResume, .cSetResume, .cSetShutdown, .cShutdownRet,
   .bCbBegin 0 .setup, .bCbEnd 0 .setup, .bReadResume 0 true, .bWaitImm 0, .bReadShutdown 0 true,
   .bCbBegin 0 .teardown, .bCbEnd 0 .teardown, .bExit 0,
   .cIsAlive 0 false, .cIsAlive 1 false, .cFinalSaveBegin, .cFinalSaveEnd, .cReturn]

example : ∃ s, Reachable 2 2 s ∧ s.ctl.pc = .returned ∧
    s.thr.map (·.pc) = [.done, .new] ∧ s.thr.map (·.tdBegun) = [1, 0] := by
  refine ⟨(run (init 2 2) bootInterruptTrace).get (by decide), ⟨bootInterruptTrace, by simp⟩, ?_, ?_, ?_⟩ <;>
    decide

/-- The same interrupt with the first thread still running: its liveness test says alive, and the
join is not enabled until it has exited. -/
example : ∃ s, Reachable 2 2 s ∧ (cstep s (.cIsAlive 0 true)).isSome = true ∧ cstep s (.cJoin 0) = none ∧
    cstep s .cFinalSaveBegin = none := by
  refine ⟨(run (init 2 2) (bootInterruptTrace.take 7)).get (by decide),
    ⟨bootInterruptTrace.take 7, by simp⟩, ?_, ?_, ?_⟩ <;> decide

/-! Non-vacuity: from the C02 witness (shutdown issued while two threads are paused/blocked) the
total rank is positive and a continuation spends some of it. -/
example : ∃ s, Reachable 2 2 s ∧ s.shutdown = true ∧ totalRank s.thr = 22 ∧
    (∃ s', run s [.bWaitWoken 0, .bAcquire 0, .bLeaveRead 0 true, .bClearPaused 0] = some s' ∧
       totalRank s'.thr = 16) := by
  refine ⟨(run (init 2 2) shutdownTrace).get (by decide), ⟨shutdownTrace, by simp⟩, ?_, ?_, ?_⟩
  · decide
  · decide
  · exact ⟨_, rfl, by decide⟩

end Pamiq.Proto
