/-
C07 — collected samples reach the buffer exactly once, in order.
Property theorems only. Models: `Pamiq/Model/Queue.lean` (sequential semantics of
`data/interface.py` + `DataCollectorsDict.acquire`) and `Pamiq/Model/LockObj.lean` (interleaved
micro-step machine for methods whose body runs under the object's lock); tied to the code by
`harness/corr/c07.py` (sequential op sequences, and producer ‖ consumer under line-granular
deterministic schedules compared with the model run in the observed lock-acquisition order).

Reading guide. A history is a list of `Op`s; `windows h = (closed, open)` splits the collected
`(sample, clock reading)` pairs at the hand-overs (`update`, `get_data`, `save_state`);
`keep m w` is `w` without its oldest `length − m` elements (`m = none`: all of `w`);
`deliveredSpec m h` is the concatenation of `keep m` of every closed window.
-/
import Pamiq.Lemmas.Queue
import Pamiq.Lemmas.LockObj
import Mathlib.Algebra.Order.Field.Rat
import Mathlib.Tactic.NormNum

namespace Pamiq.Queue
open Pamiq

/-! ## Sequential semantics: every history -/

/-- No operation of a history ever raises (`IndexError` in the drain loop is unreachable: the two
deques of a `TimestampingQueue` stay index-aligned). -/
theorem run_ok (mi : Option Int) (u0 : User) (hi : User.init mi = .ok u0) (h : List Op) :
    ∃ u, u0.run h = .ok u :=
  let ⟨u, e, _⟩ := run_rel h (init_rel mi u0 hi); ⟨u, e⟩

private theorem rel_of_run (mi : Option Int) (u0 u : User) (hi : User.init mi = .ok u0)
    (h : List Op) (hr : u0.run h = .ok u) : Rel u0.maxLen u (windows h) := by
  obtain ⟨u', e, r⟩ := run_rel h (init_rel mi u0 hi)
  rw [hr] at e; cases e; exact r

/-- **delivered_eq.** For every history (every sequence of collects interleaved with updates,
reads, counts and saves, every queue size): the `add()` calls received by the buffer, over all
updates, are exactly the collected samples with, per inter-update window, only the oldest
`window length − maxLen` removed — in collection order, none twice. -/
theorem delivered_eq (mi : Option Int) (u0 u : User) (hi : User.init mi = .ok u0) (h : List Op)
    (hr : u0.run h = .ok u) : u.adds = (deliveredSpec u0.maxLen h).map (·.1) :=
  (rel_of_run mi u0 u hi h hr).adds

/-- What is still waiting in the collector is the retained part of the open window. -/
theorem pending_eq (mi : Option Int) (u0 u : User) (hi : User.init mi = .ok u0) (h : List Op)
    (hr : u0.run h = .ok u) :
    u.collector.q.queue = (keep u0.maxLen (windows h).2).map (·.1) ∧
    u.collector.q.ts = (keep u0.maxLen (windows h).2).map (·.2) :=
  ⟨(rel_of_run mi u0 u hi h hr).queue, (rel_of_run mi u0 u hi h hr).qts⟩

/-- One hand-over delivers exactly the retained part of the window it closes. -/
theorem update_delivers (mi : Option Int) (u0 u : User) (hi : User.init mi = .ok u0)
    (h : List Op) (hr : u0.run h = .ok u) :
    ∃ u', u.update = .ok u' ∧ u'.adds = u.adds ++ (keep u0.maxLen (windows h).2).map (·.1) :=
  let ⟨u', e, _, a⟩ := update_rel (rel_of_run mi u0 u hi h hr); ⟨u', e, a⟩

/-- `drain n` delivers exactly the first `n` samples of the queue, each with its own stamp: what is added to
the buffer and what is appended to the timestamp deque are the two components of the same pairs. -/
theorem drain_pairs : (n : Nat) → (q : TQ) → (u u' : User) → drain n q u = .ok u' →
    ∃ batch : List (Nat × Rat), batch.length = n ∧ u'.adds = u.adds ++ batch.map (·.1) ∧
      u'.timestamps = batch.foldl (fun acc p => dqAppend u.maxLen acc p.2) u.timestamps ∧
      u'.maxLen = u.maxLen ∧ u'.collector = u.collector
  | 0, q, u, u', h => by
    simp only [drain, Except.ok.injEq] at h; subst h
    exact ⟨[], rfl, by simp, rfl, rfl, rfl⟩
  | n + 1, q, u, u', h => by
    simp only [drain] at h
    cases hp : q.popleft with
    | error e => simp [hp, bind, Except.bind] at h
    | ok r =>
      obtain ⟨⟨x, t⟩, q'⟩ := r
      simp only [hp, bind, Except.bind] at h
      obtain ⟨batch, hl, ha, ht, hm, hc⟩ := drain_pairs n q' _ u' h
      refine ⟨(x, t) :: batch, by simp [hl], ?_, ?_, hm, hc⟩
      · simp [ha, List.append_assoc]
      · simpa using ht

/-- **A failing buffer does not unpair the timestamps.** If `add` raises in the middle of a hand-over, the
timestamp deque has grown by exactly the stamps of the samples that did reach the buffer (one stamp per
completed `add`, in the same order): "count added since t" keeps counting delivered samples only. -/
theorem updateF_pairs (u u' : User) (k : Nat) (raised : Bool) (h : u.updateF k = .ok (u', raised)) :
    ∃ batch : List (Nat × Rat), u'.adds = u.adds ++ batch.map (·.1) ∧
      u'.timestamps = batch.foldl (fun acc p => dqAppend u.maxLen acc p.2) u.timestamps ∧
      (raised = true → batch.length = k) := by
  unfold User.updateF at h
  simp only [Collector.moveData] at h
  by_cases hk : k < u.collector.q.len
  · simp only [hk, if_true] at h
    cases hd : drain k u.collector.q { u with collector := { q := { maxLen := u.collector.q.maxLen } } } with
    | error e => simp [hd, Except.map] at h
    | ok v =>
      simp only [hd, Except.map, Except.ok.injEq, Prod.mk.injEq] at h
      obtain ⟨rfl, rfl⟩ := h
      obtain ⟨batch, hl, ha, ht, _, _⟩ := drain_pairs k _ _ _ hd
      exact ⟨batch, ha, ht, fun _ => hl⟩
  · simp only [hk, if_false] at h
    cases hd : drain u.collector.q.len u.collector.q
        { u with collector := { q := { maxLen := u.collector.q.maxLen } } } with
    | error e => simp [hd, Except.map] at h
    | ok v =>
      simp only [hd, Except.map, Except.ok.injEq, Prod.mk.injEq] at h
      obtain ⟨rfl, rfl⟩ := h
      obtain ⟨batch, _, ha, ht, _, _⟩ := drain_pairs _ _ _ _ hd
      exact ⟨batch, ha, ht, fun hr => by simp at hr⟩

/-- **ts_paired.** The timestamp deque of the `DataUser` holds, for the most recent `maxLen`
delivered samples, the clock value read inside each sample's own `collect` — `deliveredSpec`
is a list of `(sample, reading)` pairs taken from the collected pairs (`delivered_in_order`), its
first components are the `add()` calls (`delivered_eq`), its second components these stamps. -/
theorem ts_paired (mi : Option Int) (u0 u : User) (hi : User.init mi = .ok u0) (h : List Op)
    (hr : u0.run h = .ok u) :
    u.timestamps = keep u0.maxLen ((deliveredSpec u0.maxLen h).map (·.2)) :=
  (rel_of_run mi u0 u hi h hr).ts

private theorem windows_foldl (ops : List Op) (c : List (List (Nat × Rat))) (o : List (Nat × Rat)) :
    (ops.foldl winStep (c, o)).1.flatten ++ (ops.foldl winStep (c, o)).2 =
      c.flatten ++ o ++ collected ops := by
  induction ops generalizing c o with
  | nil => simp [collected]
  | cons op ops ih =>
    cases op <;> simp [List.foldl_cons, winStep, Op.flushes, collected, ih]

/-- The windows partition the collected sequence (nothing invented, nothing reordered). -/
theorem windows_partition (h : List Op) :
    (windows h).1.flatten ++ (windows h).2 = collected h := by
  simpa [windows] using windows_foldl h [] []

private theorem flatten_keep_sublist (m : Option Nat) (c : List (List (Nat × Rat))) :
    ((c.map (keep m)).flatten).Sublist c.flatten := by
  induction c with
  | nil => simp
  | cons w c ih => simpa using List.Sublist.append (keep_sublist m w) ih

/-- **Exactly once, in order.** The delivered `(sample, reading)` pairs form a subsequence of the
collected pairs: collection order is preserved and no collected occurrence is delivered twice. -/
theorem delivered_in_order (m : Option Nat) (h : List Op) :
    (deliveredSpec m h).Sublist (collected h) := by
  rw [← windows_partition h]
  exact (flatten_keep_sublist m _).trans (List.sublist_append_left _ _)

/-- **Loss only on overflow, only of the oldest.** What a window loses is its first
`length − k` elements; nothing when it holds at most `k`. -/
theorem loss_only_oldest {α} (k : Nat) (w : List α) :
    keep (some k) w = w.drop (w.length - k) ∧ (w.length ≤ k → keep (some k) w = w) :=
  ⟨rfl, lastN_of_le k w⟩

/-- `max_queue_size = None`: nothing is ever lost — delivered ++ waiting = collected. -/
theorem no_loss_unbounded (u0 u : User) (hi : User.init none = .ok u0) (h : List Op)
    (hr : u0.run h = .ok u) :
    u.adds ++ u.collector.q.queue = (collected h).map (·.1) := by
  have hm : u0.maxLen = none := by cases hi; rfl
  have r := rel_of_run none u0 u hi h hr
  rw [r.adds, r.queue, hm, ← windows_partition h]
  have : ∀ c : List (List (Nat × Rat)), c.map (keep none) = c := by
    intro c; induction c <;> simp_all [keep]
  simp [keep, this]

/-- `max_queue_size = 0`: everything is dropped, nothing is delivered (and nothing duplicated). -/
theorem zero_drops_all (u0 u : User) (hi : User.init (some 0) = .ok u0) (h : List Op)
    (hr : u0.run h = .ok u) : u.adds = [] ∧ u.collector.q.queue = [] := by
  have hm : u0.maxLen = some 0 := by cases hi; rfl
  have r := rel_of_run (some 0) u0 u hi h hr
  constructor
  · rw [r.adds, hm]
    have : ∀ c : List (List (Nat × Rat)), (c.map (keep (some 0))).flatten = [] := by
      intro c; induction c <;> simp_all [keep, lastN_zero]
    simp [this]
  · rw [r.queue, hm]; simp [keep, lastN_zero]

/-! ## count_data_added_since -/

private theorem countFrom_noninc (t : Rat) (r : List Rat) (i : Nat)
    (hr : r.Pairwise (fun a b => b ≤ a)) :
    countFrom t r i = i + (r.filter (fun x => decide (t < x))).length := by
  induction r generalizing i with
  | nil => simp [countFrom]
  | cons x rest ih =>
    rw [List.pairwise_cons] at hr
    simp only [countFrom]
    split
    · rename_i hx
      have h0 : (rest.filter (fun x => decide (t < x))) = [] := by
        rw [List.filter_eq_nil_iff]
        intro y hy
        have := hr.1 y hy
        simp only [decide_eq_true_eq, not_lt]
        exact le_trans this hx
      have : ¬ t < x := not_lt.mpr hx
      simp [List.filter_cons, this, h0]
    · rename_i hx
      have : t < x := not_le.mp hx
      rw [ih _ hr.2]
      simp [List.filter_cons, this]; omega

/-- **count_since.** When clock readings never decrease along the collection order (C06
`history_monotone`), `count_data_added_since t` is the number of delivered samples, among the most
recent `maxLen` deliveries, whose own clock reading is later than `t`. -/
theorem count_since (mi : Option Int) (u0 u : User) (hi : User.init mi = .ok u0) (h : List Op)
    (hr : u0.run h = .ok u) (hmono : ((collected h).map (·.2)).Pairwise (· ≤ ·)) (t : Rat) :
    u.countSince t =
      ((keep u0.maxLen ((deliveredSpec u0.maxLen h).map (·.2))).filter
        (fun x => decide (t < x))).length := by
  rw [User.countSince, ts_paired mi u0 u hi h hr]
  have hs : (keep u0.maxLen ((deliveredSpec u0.maxLen h).map (·.2))).Pairwise (· ≤ ·) :=
    List.Pairwise.sublist
      ((keep_sublist _ _).trans ((delivered_in_order u0.maxLen h).map (·.2))) hmono
  rw [countFrom_noninc t _ 0 (List.pairwise_reverse.mpr hs)]
  simp [List.filter_reverse]

/-! ## Exclusive acquisition -/

/-- Names acquired successfully, in request order, when every request of `req` is tried in turn
(a failed request raises `KeyError` and changes nothing). -/
def Dict.successes (d : Dict) : List String → List String
  | [] => []
  | n :: rest =>
    match d.acquire n with
    | .ok d' => n :: d'.successes rest
    | .error _ => d.successes rest

private theorem successes_spec (d : Dict) (req : List String) :
    (∀ n ∈ d.successes req, n ∉ d.acquired ∧ n ∈ d.names) ∧ (d.successes req).Nodup := by
  induction req generalizing d with
  | nil => simp [Dict.successes]
  | cons n rest ih =>
    simp only [Dict.successes, Dict.acquire]
    split
    · rename_i d' he
      split at he
      · cases he
      · split at he
        · cases he
        · rename_i h1 h2
          cases he
          obtain ⟨ha, hb⟩ := ih { d with acquired := n :: d.acquired }
          refine ⟨?_, ?_⟩
          · intro x hx
            simp only [List.mem_cons] at hx
            rcases hx with rfl | hx
            · exact ⟨h1, by simpa using h2⟩
            · have := ha x hx
              simp only [List.mem_cons, not_or] at this
              exact ⟨this.1.2, this.2⟩
          · rw [List.nodup_cons]
            refine ⟨fun hx => ?_, hb⟩
            have := (ha n hx).1
            simp at this
    · exact ih d

/-- **exclusive.** Whatever sequence of names is requested, `acquire name` succeeds at most once
per name, and only for names that have a collector. -/
theorem exclusive (names req : List String) :
    (Dict.successes { names := names } req).Nodup ∧
    ∀ n ∈ Dict.successes { names := names } req, n ∈ names :=
  ⟨(successes_spec _ req).2, fun n hn => ((successes_spec _ req).1 n hn).2⟩

/-- Acquiring twice raises `KeyError` the second time … -/
theorem acquire_twice (d d' : Dict) (n : String) (h : d.acquire n = .ok d') :
    d'.acquire n = .error .key := by
  unfold Dict.acquire at h
  split at h
  · cases h
  · split at h
    · cases h
    · cases h; simp [Dict.acquire]

/-- … and so does acquiring an unknown name. -/
theorem acquire_unknown (d : Dict) (n : String) (h : n ∉ d.names) : d.acquire n = .error .key := by
  unfold Dict.acquire; split <;> simp [h]

end Pamiq.Queue

/-! ## Lock atomicity (generic) -/

namespace Pamiq.LockObj
variable {σ τ : Type}

/-- **lock_atomic.** Take any number of threads, each running a program of method calls on one
object, every method body executing entirely while its thread holds the object's lock, and any
schedule of their micro-steps (`exec c sch = some c'`: every interleaving the lock allows). Then
the configuration reached is — up to completing the critical section in progress and the
thread-local steps that follow sections — the one obtained by executing the critical sections
ATOMICALLY, one after the other, in the order in which the lock was acquired. -/
theorem lock_atomic (c c' : Cfg σ τ) (sch : List Nat) (h : exec c sch = some c') :
    norm c' = serial (norm c) (acqOrder c sch) := by
  induction sch generalizing c with
  | nil => simp only [exec] at h; cases h; rfl
  | cons i sch ih =>
    simp only [exec] at h
    cases hs : step c i with
    | none => rw [hs] at h; cases h
    | some c1 =>
      rw [hs] at h
      have h1 : exec c1 sch = some c' := h
      rw [ih c1 h1]
      have hn := step_norm c c1 i hs
      simp only [acqOrder, hs]
      cases ha : atAcq c i
      · simp [ha] at hn ⊢; rw [hn]
      · simp [ha, serial] at hn ⊢; rw [hn]

/-- A configuration in which nobody holds the lock and no thread stands at a local step is its own
normal form — in particular every initial configuration whose programs start with a call, and
every final configuration (all programs finished). -/
theorem norm_quiescent (c : Cfg σ τ) (hl : c.lock = none)
    (hp : ∀ j, ∀ f rest, c.prog j ≠ .loc f :: rest) : norm c = c := by
  apply Cfg.ext' <;> simp only [norm, hl]
  all_goals intro j
  all_goals
    have := hp j
    cases hj : c.prog j with
    | nil => simp [runLoc]
    | cons s rest => cases s <;> simp_all [runLoc]

/-- **lock_atomic, completed runs.** From a quiescent start, a run that ends with every program
finished ends exactly where the atomic execution in lock-acquisition order ends. -/
theorem lock_atomic_final (c c' : Cfg σ τ) (sch : List Nat) (h : exec c sch = some c')
    (hl : c.lock = none) (hp : ∀ j, ∀ f rest, c.prog j ≠ .loc f :: rest)
    (hl' : c'.lock = none) (hp' : ∀ j, c'.prog j = []) :
    c' = serial c (acqOrder c sch) := by
  have := lock_atomic c c' sch h
  rwa [norm_quiescent c hl hp, norm_quiescent c' hl' (by intro j f rest; simp [hp' j])] at this

end Pamiq.LockObj

/-! ## Instantiation: `collect` ‖ `_move_data` (+ the private drain of `update`) -/

namespace Pamiq.Queue
open Pamiq.LockObj

/-- Thread-local state: the `DataUser`-private part of the consuming thread (timestamp deque,
buffer, the handed-over queue kept in its `collector` field until drained); unused by the
producer. `Except` because the drain loop can in principle raise. -/
abbrev Loc := Except Err User

/-- Micro-steps of `DataCollector.collect(x)` whose `append` reads the clock as `t`:
`with self._lock:` / `self._queue.append(data)` / `self._timestamps.append(time.time())` / exit. -/
def collectSteps (x : Nat) (t : Rat) : List (Step Collector Loc) :=
  [.acq,
   .body (fun c l => ({ q := { c.q with queue := dqAppend c.q.maxLen c.q.queue x } }, l)),
   .body (fun c l => ({ q := { c.q with ts := dqAppend c.q.maxLen c.q.ts t } }, l)),
   .rel]

/-- Micro-steps of `DataUser.update()`: `_move_data` (swap under the lock), then — outside the
lock, on private data only — the drain loop. -/
def updateSteps : List (Step Collector Loc) :=
  [.acq,
   .body (fun c l => (c.moveData.2, l.map fun u => { u with collector := { q := c.moveData.1 } })),
   .rel,
   .loc (fun l => l.bind fun u => drain u.collector.q.len u.collector.q u)]

/-- Producer (thread 0) collecting `cs`, consumer (thread 1) updating `k` times. -/
def initCfg (u0 : User) (cs : List (Nat × Rat)) (k : Nat) : Cfg Collector Loc :=
  { obj := u0.collector, lock := none, loc := fun _ => .ok u0
    prog := fun i =>
      if i = 0 then cs.flatMap fun p => collectSteps p.1 p.2
      else if i = 1 then (List.replicate k updateSteps).flatten
      else [] }

/-- The `DataUser` as a whole: the consumer's private part around the shared collector. -/
def combine (c : Cfg Collector Loc) : Except Err User :=
  (c.loc 1).map fun u => { u with collector := c.obj }

/-- The sequential history a lock-acquisition order stands for. -/
def opsOf : List (Nat × Rat) → Nat → List Nat → List Op
  | _, _, [] => []
  | (x, t) :: cs, k, 0 :: ord => .collect x t :: opsOf cs k ord
  | cs, k + 1, 1 :: ord => .update :: opsOf cs k ord
  | cs, k, _ :: ord => opsOf cs k ord

private theorem drain_collector (n : Nat) (q : TQ) (u : User) (c : Collector) :
    (drain n q u).map (fun r => { r with collector := c }) = drain n q { u with collector := c } := by
  induction n generalizing q u with
  | zero => simp [drain, Except.map]
  | succ n ih =>
    simp only [drain]
    cases hq : q.popleft with
    | error e => simp [bind, Except.bind, Except.map]
    | ok r => simp only [bind, Except.bind]; exact ih _ _

private structure Shape (c : Cfg Collector Loc) (cs : List (Nat × Rat)) (k : Nat) : Prop where
  lock : c.lock = none
  p0 : c.prog 0 = cs.flatMap fun p => collectSteps p.1 p.2
  p1 : c.prog 1 = (List.replicate k updateSteps).flatten
  pj : ∀ j, j ≠ 0 → j ≠ 1 → c.prog j = []

private theorem runLoc_calls (l : Loc) (cs : List (Nat × Rat)) :
    runLoc l (cs.flatMap fun p => collectSteps p.1 p.2) =
      (l, cs.flatMap fun p => collectSteps p.1 p.2) := by
  cases cs <;> simp [collectSteps, runLoc]

private theorem runLoc_updates (l : Loc) (k : Nat) :
    runLoc l (List.replicate k updateSteps).flatten = (l, (List.replicate k updateSteps).flatten) := by
  cases k <;> simp [List.replicate_succ, updateSteps, runLoc]

/-- Executed atomically, the micro-steps of `collect` are the sequential `Collector.collect`. -/
theorem atomicCall_collect (c : Cfg Collector Loc) (i : Nat) (x : Nat) (t : Rat)
    (rest : List (Step Collector Loc)) (hp : c.prog i = collectSteps x t ++ rest)
    (hr : ∀ l, runLoc l rest = (l, rest)) :
    atomicCall c i =
      { c with obj := c.obj.collect x t, loc := upd c.loc i (c.loc i), prog := upd c.prog i rest } := by
  simp [atomicCall, hp, collectSteps, runBody, hr, Collector.collect, TQ.append]

/-- Executed atomically, the micro-steps of `update` are `_move_data` on the shared collector
followed by the drain of the handed-over queue into the consumer's private state. -/
theorem atomicCall_update (c : Cfg Collector Loc) (i : Nat)
    (rest : List (Step Collector Loc)) (hp : c.prog i = updateSteps ++ rest)
    (hr : ∀ l, runLoc l rest = (l, rest)) :
    atomicCall c i =
      { c with obj := c.obj.moveData.2,
               loc := upd c.loc i
                 (((c.loc i).map fun u => { u with collector := { q := c.obj.moveData.1 } }).bind
                   fun u => drain u.collector.q.len u.collector.q u),
               prog := upd c.prog i rest } := by
  simp [atomicCall, hp, updateSteps, runBody, runLoc, hr]

private theorem serial_ops (ord : List Nat) (c : Cfg Collector Loc) (cs : List (Nat × Rat))
    (k : Nat) (hs : Shape c cs k) :
    combine (serial c ord) = (combine c).bind fun u => u.run (opsOf cs k ord) := by
  induction ord generalizing c cs k with
  | nil =>
    cases cs <;> cases k <;> simp [serial, opsOf, User.run] <;>
      cases combine c <;> rfl
  | cons i ord ih =>
    obtain ⟨hl, h0, h1, hj⟩ := hs
    simp only [serial, List.foldl_cons]
    have hbind : ∀ (r : Except Err User) (f : User → User) (g : User → Except Err User),
        (r.map f).bind g = r.bind fun u => g (f u) := by
      intro r f g; cases r <;> rfl
    match i with
    | 0 =>
      cases cs with
      | nil =>
        have : atomicCall c 0 = c := by simp [atomicCall, h0]
        rw [this]
        have := ih c [] k ⟨hl, h0, h1, hj⟩
        simp only [serial] at this
        rw [this]; cases k <;> simp [opsOf]
      | cons p cs =>
        obtain ⟨x, t⟩ := p
        have hp : c.prog 0 = collectSteps x t ++ (cs.flatMap fun p => collectSteps p.1 p.2) := by
          rw [h0]; simp
        have hat := atomicCall_collect c 0 x t _ hp (fun l => runLoc_calls l cs)
        have hc1 : Shape (atomicCall c 0) cs k := by
          rw [hat]
          exact ⟨hl, by simp [upd], by simp [upd, h1],
            fun j hj0 hj1 => by simp [upd, hj0, hj j hj0 hj1]⟩
        have := ih (atomicCall c 0) cs k hc1
        simp only [serial] at this
        rw [this]
        have hcomb : combine (atomicCall c 0) = (combine c).map fun u => u.collect x t := by
          rw [hat]
          simp only [combine, upd]
          cases c.loc 1 <;> simp [Except.map, User.collect]
        rw [hcomb, hbind]
        simp [opsOf, User.run, User.apply, bind, Except.bind]
    | 1 =>
      cases k with
      | zero =>
        have : atomicCall c 1 = c := by simp [atomicCall, h1]
        rw [this]
        have := ih c cs 0 ⟨hl, h0, h1, hj⟩
        simp only [serial] at this
        rw [this]; cases cs <;> simp [opsOf]
      | succ k =>
        have hp : c.prog 1 = updateSteps ++ (List.replicate k updateSteps).flatten := by
          rw [h1]; simp [List.replicate_succ]
        have hat := atomicCall_update c 1 _ hp (fun l => runLoc_updates l k)
        have hc1 : Shape (atomicCall c 1) cs k := by
          rw [hat]
          exact ⟨hl, by simp [upd, h0], by simp [upd],
            fun j hj0 hj1 => by simp [upd, hj1, hj j hj0 hj1]⟩
        have := ih (atomicCall c 1) cs k hc1
        simp only [serial] at this
        rw [this]
        have hcomb : combine (atomicCall c 1) = (combine c).bind fun u => u.update := by
          rw [hat]
          simp only [combine, upd]
          cases hl1 : c.loc 1 with
          | error e => simp [Except.map, Except.bind]
          | ok ul =>
            simp only [if_true, Except.map, Except.bind, Collector.moveData, User.update]
            exact drain_collector c.obj.q.len c.obj.q { ul with collector := { q := c.obj.q } }
              { q := { maxLen := c.obj.q.maxLen } }
        rw [hcomb]
        cases hcb : combine c with
        | error e => simp [Except.bind]
        | ok u =>
          cases cs <;> simp [opsOf, User.run, User.apply, bind, Except.bind]
    | j + 2 =>
      have : atomicCall c (j + 2) = c := by simp [atomicCall, hj (j + 2) (by omega) (by omega)]
      rw [this]
      have := ih c cs k ⟨hl, h0, h1, hj⟩
      simp only [serial] at this
      rw [this]; cases cs <;> cases k <;> simp [opsOf]

/-- **collect ‖ update is atomic.** One thread collects the samples `cs` (with their clock
readings), another calls `update` `k` times; take ANY interleaving of their micro-steps that runs
both to completion. The resulting `DataUser` is the one the sequential model computes for the
history obtained by listing the operations in lock-acquisition order — so every theorem above
(`delivered_eq`, `ts_paired`, `count_since`, …) applies to every interleaving. -/
theorem collect_update_atomic (u0 : User) (cs : List (Nat × Rat)) (k : Nat) (sch : List Nat)
    (c' : Cfg Collector Loc) (h : exec (initCfg u0 cs k) sch = some c')
    (hl' : c'.lock = none) (hp' : ∀ j, c'.prog j = []) :
    combine c' = u0.run (opsOf cs k (acqOrder (initCfg u0 cs k) sch)) := by
  have hshape : Shape (initCfg u0 cs k) cs k :=
    ⟨rfl, by simp [initCfg], by simp [initCfg], fun j h0 h1 => by simp [initCfg, h0, h1]⟩
  have hq : ∀ j, ∀ f rest, (initCfg u0 cs k).prog j ≠ .loc f :: rest := by
    intro j f rest
    by_cases h0 : j = 0
    · subst h0; cases cs <;> simp [initCfg, collectSteps]
    · by_cases h1 : j = 1
      · subst h1; cases k <;> simp [initCfg, updateSteps, List.replicate_succ]
      · simp [initCfg, h0, h1]
  rw [lock_atomic_final _ c' sch h rfl hq hl' hp', serial_ops _ _ cs k hshape]
  simp [combine, initCfg, Except.map, Except.bind]

/-! ## Non-vacuity -/

/-- A history with an overflow: bound 2, three samples before the first hand-over (the oldest is
lost), one more before a `save`; the run succeeds and delivers `[2, 3, 4]`. -/
example : ∃ u0 u, User.init (some 2) = .ok u0 ∧
    u0.run [.collect 1 1, .collect 2 2, .collect 3 3, .update, .count 1, .collect 4 4, .save] = .ok u ∧
    ((collected [.collect 1 1, .collect 2 2, .collect 3 3, .update, .count 1, .collect 4 4,
      .save]).map (·.2)).Pairwise (· ≤ ·) ∧
    u.adds = [2, 3, 4] ∧ u.timestamps = [3, 4] := by
  refine ⟨_, _, rfl, rfl, ?_, by decide, by decide⟩
  simp [collected]; norm_num

/-- An interleaving that is not serial: the consumer swaps the queue between the producer's two
collects, and drains it (thread-local step) while the producer is INSIDE its second critical
section. Lock-acquisition order: producer, consumer, producer. -/
example :
    let u0 : User := { collector := { q := { maxLen := some 2 } }, maxLen := some 2 }
    let sch := [0, 0, 0, 0, 1, 1, 1, 0, 0, 1, 0, 0]
    ∃ c', exec (initCfg u0 [(7, 1), (8, 2)] 1) sch = some c' ∧ c'.lock = none ∧
      c'.prog 0 = [] ∧ c'.prog 1 = [] ∧
      acqOrder (initCfg u0 [(7, 1), (8, 2)] 1) sch = [0, 1, 0] ∧
      opsOf [(7, 1), (8, 2)] 1 [0, 1, 0] = [.collect 7 1, .update, .collect 8 2] :=
  ⟨_, rfl, rfl, rfl, rfl, rfl, rfl⟩

/-- the samples a hand-over adds depend on the queue and on what was added before, not on the time stamps held -/
theorem drain_adds_indep (n : Nat) (q : TQ) (u : User) (ts : List Rat) :
    (drain n q { u with timestamps := ts }).map (·.adds) = (drain n q u).map (·.adds) := by
  induction n generalizing q u ts with
  | zero => rfl
  | succ n ih =>
    simp only [drain]
    cases h : q.popleft with
    | error e => rfl
    | ok p =>
      obtain ⟨⟨x, t⟩, q'⟩ := p
      simp only [bind, Except.bind]
      exact ih q' { u with adds := u.adds ++ [x], timestamps := dqAppend u.maxLen u.timestamps t }
        (dqAppend u.maxLen ts t)

/-- **Samples waiting in the collector survive a `load_state`**: loading replaces the time stamps (and the buffer's
own content) but not the collector, so the next hand-over adds exactly the samples it would have added without the
load - each once, in order. -/
theorem load_keeps_pending (u : User) (ts : List Rat) :
    (u.loadState ts).collector = u.collector ∧
    ((u.loadState ts).update).map (·.adds) = (u.update).map (·.adds) := by
  refine ⟨rfl, ?_⟩
  simp only [User.update, User.loadState, Collector.moveData]
  exact drain_adds_indep _ _ { u with collector := { q := { maxLen := u.collector.q.maxLen } } } _

end Pamiq.Queue
