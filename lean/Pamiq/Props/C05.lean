/-
C05 — loading a saved state reproduces it exactly.
Property theorems only. Model: `Pamiq/Model/Persist.lean` (with `Model/Buffer.lean`,
`Model/Clock.lean`, `Model/Tree.lean`), tied to the code by `harness/corr/c05.py`.
Helper lemmas: `Pamiq/Lemmas/Persist.lean`.
-/
import Pamiq.Lemmas.Persist
import Pamiq.Props.C06

namespace Pamiq.Persist
open Pamiq
open Pamiq.Tree (distinct namesOf)

/-! ## Save, then load -/

/-- The buffer invariants (C11) and the bound of the timestamps deque survive the `update()` with
which a save starts, for every data user and every content of the collector queues — so they may
be assumed of the system that is written. -/
theorem update_keeps_invariants (s s1 : Sys) (h : s.update = .ok s1) (hw : ∀ nu ∈ s.data, nu.2.WF) :
    ∀ nu ∈ s1.data, nu.2.WF := by
  simp only [Sys.update] at h
  cases hd : updateAll s.data with
  | error e => rw [hd] at h; cases h
  | ok d => rw [hd] at h; cases h; exact updateAll_wf _ _ hw hd

/-- **Save → load.** For every system (component tree, models, data users with pending samples,
trainers, clock), every new state directory `root` below an existing directory, every freshly
constructed system of the same shape — whatever its capacities, versions and clock — and every
reader (tolerant or strict leaves): the save succeeds, touches nothing outside `root`, and the load
succeeds and yields exactly `Sys.reload fresh saved`, i.e. every component holds what was written
for it. `s1` is the system with its collector queues moved into the buffers (`update()`), which is
what `save_state` writes. -/
theorem load_save (rd : Rd) (s s1 fresh : Sys) (root : Path) (fs : FS) (r1 r2 r : Clock.R3)
    (hup : s.update = .ok s1) (hnames : s.namesOk = true) (hshape : fresh.sameShape s = true)
    (hpar : fs root.dropLast = some .dir) (hfresh : Fresh fs root) :
    ∃ fs', save s root fs r1 r2 = .ok (s1.exported r1 r2, fs') ∧
      (∀ q, ¬ root <+: q → fs' q = fs q) ∧
      load rd fresh root fs' r = .ok (Sys.reload fresh (s1.exported r1 r2) r) := by
  obtain ⟨hi, hm, ht, _, hd⟩ := update_names s s1 hup
  have hnames2 : (s1.exported r1 r2).namesOk = true := by
    simp only [Sys.namesOk, keysOk] at hnames ⊢
    simpa [Sys.exported, hi, hm, ht, hd] using hnames
  have hshape2 : fresh.sameShape (s1.exported r1 r2) = true := by
    simp only [Sys.sameShape] at hshape ⊢
    simpa [Sys.exported, hi, hm, ht, hd] using hshape
  obtain ⟨fs', hrun, hload⟩ := Comp.roundtrip rd root (s1.exported r1 r2).layout fresh.layout fs
    (layout_namesOk _ hnames2) (layout_sameShape fresh _ hshape2) hpar hfresh
  have hroot : fs' root = some .dir := by
    have hops : (s1.exported r1 r2).layout.ops root = .mkdir root false :: Comp.opsL root _ := rfl
    rw [hops] at hrun
    obtain ⟨fs1, h1, h2⟩ := applyOps_cons_inv hrun
    rw [mkdir_new false hpar hfresh.self] at h1
    cases h1
    rw [applyOps_frame h2 root ?_]
    · exact FS.set_same _ _ _
    · intro op hop e
      obtain ⟨n, _, hpre⟩ := Comp.opsL_under root _ op hop
      rw [e] at hpre
      exact Tree.not_snoc_prefix_self _ _ hpre
  refine ⟨fs', ?_, ?_, ?_⟩
  · unfold save
    simp only [hup, saveOps, hrun]
  · intro q hq
    exact applyOps_frame hrun q (fun op hop e => hq (e ▸ Comp.ops_under root _ op hop))
  · unfold load
    simp only [hroot, hload]
    exact absorb_layout fresh _ r hshape2

/-! ## What the reloaded system is, observable by observable -/

/-- Every user component of the interaction tree (agents at every depth, environment, sensors,
actuators, wrappers) holds the state it had when saved. -/
theorem reload_interaction (fresh s : Sys) (r : Clock.R3) :
    (Sys.reload fresh s r).interaction = s.interaction := rfl

/-- Trainer progress markers (any float: finite, `±inf`, `nan`). -/
theorem reload_trainers : (f s : List (String × ExtRat)) → namesOf f = namesOf s →
    reloadTrainers f s = s
  | [], [], _ => rfl
  | [], _ :: _, h => by simp [namesOf] at h
  | _ :: _, [], h => by simp [namesOf] at h
  | (n, _) :: xs, (n', x) :: ys, h => by
    simp only [namesOf, List.map_cons, List.cons.injEq] at h
    simp only [reloadTrainers, h.1, reload_trainers xs ys h.2]

theorem ModelSt.loaded_version (m : ModelSt) (v : Int) : (m.loaded v).version = v := rfl

/-- The post-load `sync()`: the inference side sees the loaded parameters. -/
theorem ModelSt.loaded_inference (m : ModelSt) (v : Int) (h : m.needSync = true) :
    (m.loaded v).infVersion = v := by simp [ModelSt.loaded, h]

/-- Every model is loaded with the version saved under its name and synchronised. -/
theorem reload_models : (f s : List (String × ModelSt)) → namesOf f = namesOf s →
    ∀ name m, lookup name s = some m →
      ∃ m0, lookup name f = some m0 ∧ lookup name (reloadModels f s) = some (m0.loaded m.version)
  | [], [], _, name, m, h => by simp [lookup] at h
  | [], _ :: _, h, _, _, _ => by simp [namesOf] at h
  | _ :: _, [], h, _, _, _ => by simp [namesOf] at h
  | (n, m0) :: xs, (n', m') :: ys, h, name, m, hl => by
    simp only [namesOf, List.map_cons, List.cons.injEq] at h
    obtain ⟨rfl, h2⟩ := h
    simp only [lookup, reloadModels] at hl ⊢
    by_cases hn : n = name
    · simp only [hn, if_true] at hl ⊢
      cases hl
      exact ⟨m0, rfl, rfl⟩
    · simp only [hn, if_false] at hl ⊢
      exact reload_models xs ys h2 name m hl

/-- One data user loaded into a freshly constructed one with the same constructor parameters: the
buffer object and the timestamps deque are the saved ones. -/
theorem User.loaded_id (u0 u : User) (hp : u0.buf.params = u.buf.params) (hw : u.WF) :
    (u0.loaded u.buf.saveState u.ts).buf = u.buf ∧ (u0.loaded u.buf.saveState u.ts).ts = u.ts := by
  obtain ⟨hb, hts⟩ := hw
  cases hu0 : u0.buf with
  | seq b0 =>
    cases hu : u.buf with
    | seq b =>
      rw [hu0, hu] at hp
      rw [hu] at hb hts
      simp only [Buf.params, Prod.mk.injEq, true_and] at hp
      simp only [Buf.WF] at hb
      simp only [Buf.maxQueueSize, Buffer.Seq.maxQueueSize] at hts
      simp only [User.loaded, hu0, Buf.loadState, Buf.saveState, Buffer.Seq.loadState,
        Buffer.Seq.saveState, Buf.maxQueueSize, Buffer.Seq.maxQueueSize]
      rw [hp.1, Buffer.lastN_of_le _ _ hb, Buffer.lastN_of_le _ _ hts]
      exact ⟨by cases b; simp_all, rfl⟩
    | rrb b => rw [hu0, hu] at hp; simp [Buf.params] at hp
  | rrb b0 =>
    cases hu : u.buf with
    | seq b => rw [hu0, hu] at hp; simp [Buf.params] at hp
    | rrb b =>
      rw [hu0, hu] at hp
      rw [hu] at hb hts
      simp only [Buf.params, Prod.mk.injEq, true_and] at hp
      simp only [Buf.WF] at hb
      simp only [Buf.maxQueueSize] at hts
      simp only [User.loaded, hu0, Buf.loadState, Buf.saveState, Buffer.Rrb.loadState,
        Buffer.Rrb.saveState, Buf.maxQueueSize]
      obtain ⟨h1, h2, h3⟩ := hp
      rw [h1, h3, List.take_of_length_le hb.2, Buffer.lastN_of_le _ _ hts]
      refine ⟨?_, rfl⟩
      cases b
      simp_all

/-- **Data users.** Loaded into users built with the same parameters, every data user shows
exactly the saved observables: `get_data()`, `len()`, and `count_data_added_since(t)` for every
`t` (finite, infinite or nan). -/
theorem reload_data : (f s : List (String × User)) → namesOf f = namesOf s → sameParams f s →
    (∀ nu ∈ s, nu.2.WF) → ∀ name u, lookup name s = some u →
      ∃ u', lookup name (reloadData f s) = some u' ∧ u'.buf = u.buf ∧ u'.ts = u.ts ∧
        u'.buf.getData = u.buf.getData ∧ u'.buf.len = u.buf.len ∧
        ∀ x, u'.countSince x = u.countSince x
  | [], [], _, _, _, name, u, h => by simp [lookup] at h
  | [], _ :: _, h, _, _, _, _, _ => by simp [namesOf] at h
  | _ :: _, [], h, _, _, _, _, _ => by simp [namesOf] at h
  | (n, u0) :: xs, (n', u1) :: ys, h, hp, hw, name, u, hl => by
    simp only [namesOf, List.map_cons, List.cons.injEq] at h
    obtain ⟨rfl, h2⟩ := h
    simp only [sameParams] at hp
    simp only [lookup, reloadData] at hl ⊢
    by_cases hn : n = name
    · simp only [hn, if_true] at hl ⊢
      cases hl
      obtain ⟨hb, ht⟩ := User.loaded_id u0 u1 hp.1 (hw (n, u1) (by simp))
      exact ⟨_, rfl, hb, ht, by rw [hb], by rw [hb], fun x => by simp only [User.countSince, ht]⟩
    · simp only [hn, if_false] at hl ⊢
      exact reload_data xs ys h2 hp.2 (fun x hx => hw x (by simp [hx])) name u hl

/-- **Loading a saved state reproduces it exactly** (all observables at once): with the hypotheses
of `load_save`, constructor parameters equal and the buffer invariants holding before the save,
the loaded system has the saved interaction tree, the saved trainer markers, every model at its
saved version (and, where a model synchronises, the inference side at that version too), and every
data user with the saved buffer and timestamps. The clock is `clock_continues` below. -/
theorem load_save_id (rd : Rd) (s s1 fresh : Sys) (root : Path) (fs : FS) (r1 r2 r : Clock.R3)
    (hup : s.update = .ok s1) (hnames : s.namesOk = true) (hshape : fresh.sameShape s = true)
    (hpar : fs root.dropLast = some .dir) (hfresh : Fresh fs root)
    (hparams : sameParams fresh.data s1.data) (hwf : ∀ nu ∈ s.data, nu.2.WF) :
    ∃ fs' s', save s root fs r1 r2 = .ok (s1.exported r1 r2, fs') ∧
      load rd fresh root fs' r = .ok s' ∧
      s'.interaction = s1.interaction ∧ s'.trainers = s1.trainers ∧
      (∀ name m, lookup name s1.models = some m → ∃ m0 m', lookup name fresh.models = some m0 ∧
        lookup name s'.models = some m' ∧ m'.version = m.version ∧
        (m0.needSync = true → m'.infVersion = m.version)) ∧
      (∀ name u, lookup name s1.data = some u → ∃ u', lookup name s'.data = some u' ∧
        u'.buf.getData = u.buf.getData ∧ u'.buf.len = u.buf.len ∧
        ∀ x, u'.countSince x = u.countSince x) := by
  obtain ⟨fs', hsave, _, hload⟩ := load_save rd s s1 fresh root fs r1 r2 r hup hnames hshape hpar hfresh
  obtain ⟨hi, hm, ht, _, hd⟩ := update_names s s1 hup
  simp only [Sys.sameShape, Bool.and_eq_true, decide_eq_true_eq] at hshape
  obtain ⟨⟨⟨_, hsm⟩, hsd⟩, hst⟩ := hshape
  have hwf1 : ∀ nu ∈ s1.data, nu.2.WF := by
    simp only [Sys.update] at hup
    cases hd' : updateAll s.data with
    | error e => rw [hd'] at hup; cases hup
    | ok d => rw [hd'] at hup; cases hup; exact updateAll_wf _ _ hwf hd'
  refine ⟨fs', _, hsave, hload, rfl, ?_, ?_, ?_⟩
  · exact reload_trainers _ _ (by show namesOf fresh.trainers = namesOf s1.trainers; rw [hst, ht])
  · intro name m hl
    obtain ⟨m0, h0, h1⟩ := reload_models fresh.models s1.models (by rw [hsm, hm]) name m hl
    exact ⟨m0, _, h0, h1, rfl, ModelSt.loaded_inference m0 _⟩
  · intro name u hl
    obtain ⟨u', h1, _, _, h2, h3, h4⟩ := reload_data fresh.data s1.data (by rw [hsd, hd]) hparams
      hwf1 name u hl
    exact ⟨u', h1, h2, h3, h4⟩

/-- The outcome of `is_trainable` is a function of the reproduced observables and the reproduced
marker, hence the same before the save and after the load — for every threshold pair. -/
theorem trainable_preserved (u u' : User) (prev : ExtRat) (minSize minNew : Int)
    (hlen : u'.buf.len = u.buf.len) (hcount : ∀ x, u'.countSince x = u.countSince x) :
    u'.trainable prev minSize minNew = u.trainable prev minSize minNew := by
  simp only [User.trainable, hlen, hcount]

/-! ## Loading into a smaller buffer -/

/-- Loading into a buffer of any other size: a sequential buffer keeps the newest `max_size`
samples, a random-replacement buffer the first `max_size`, the timestamps deque the newest
`max_queue_size`; the result satisfies the buffer invariants again. -/
theorem load_into_smaller (u0 : User) (saved : List Int) (ts : List Rat) :
    (∀ b, u0.buf = .seq b → (u0.loaded saved ts).buf.getData = lastN b.maxSize saved) ∧
    (∀ b, u0.buf = .rrb b → (u0.loaded saved ts).buf.getData = saved.take b.maxSize) ∧
    (u0.loaded saved ts).ts = lastN u0.buf.maxQueueSize ts ∧
    (u0.loaded saved ts).WF ∧
    (u0.loaded saved ts).buf.len = min u0.buf.maxSize saved.length := by
  cases hb : u0.buf with
  | seq b =>
    refine ⟨?_, ?_, ?_, ?_, ?_⟩
    · intro b' e; cases e
      simp [User.loaded, hb, Buf.loadState, Buf.getData, Buffer.Seq.loadState, Buffer.Seq.getData]
    · intro b' e; cases e
    · simp [User.loaded, hb]
    · simp [User.WF, User.loaded, hb, Buf.loadState, Buf.WF, Buffer.Seq.loadState,
        Buf.maxQueueSize, Buffer.Seq.maxQueueSize, Buffer.lastN_length]
    · simp [User.loaded, hb, Buf.loadState, Buf.len, Buffer.Seq.loadState, Buffer.Seq.len,
        Buffer.lastN_length, Buf.maxSize]
  | rrb b =>
    refine ⟨?_, ?_, ?_, ?_, ?_⟩
    · intro b' e; cases e
    · intro b' e; cases e
      simp [User.loaded, hb, Buf.loadState, Buf.getData, Buffer.Rrb.loadState, Buffer.Rrb.getData]
    · simp [User.loaded, hb]
    · simp [User.WF, User.loaded, hb, Buf.loadState, Buf.WF, Buffer.Rrb.loadState,
        Buf.maxQueueSize, Buffer.lastN_length, List.length_take]
    · simp [User.loaded, hb, Buf.loadState, Buf.len, Buffer.Rrb.loadState, Buffer.Rrb.len,
        Buf.maxSize]

/-! ## The clock -/

/-- What was exported is the clock's value at the instant of the save (single instant `rs`). -/
theorem saved_clock_is_current (s : Sys) (rs : Clock.R3) :
    (s.exported rs rs).clock.saved =
      ⟨s.clock.read .time rs.t, s.clock.read .perf rs.p, s.clock.read .mono rs.m⟩ := by
  have := Clock.export_value s.clock rs
  simpa [Sys.exported, Clock.stateDict] using this

/-- **The clock continues.** After a load performed at real instant `r0`, the system clock reads,
at any real instant `ρ`, the saved value plus the real time elapsed since the load times the rate
of the loading controller: it neither restarts from the fresh controller's value nor jumps by the
time the process was down. -/
theorem clock_continues (fresh s : Sys) (r0 : Clock.R3) (src : Clock.Src) (ρ : Rat) :
    (Sys.reload fresh s r0).clock.read src ρ =
      (match src with
        | .time => s.clock.saved.t | .perf => s.clock.saved.p | .mono => s.clock.saved.m)
        + fresh.clock.rate * (ρ - r0.get src) :=
  Clock.load_continues fresh.clock s.clock.saved r0 src ρ

/-- In particular the first reading after the load equals the last value before the save. -/
theorem clock_no_jump (fresh s : Sys) (rs r0 : Clock.R3) :
    (Sys.reload fresh (s.exported rs rs) r0).clock.read .time r0.t = s.clock.read .time rs.t := by
  rw [clock_continues, saved_clock_is_current]
  simp [Clock.R3.get]

/-! ## Relaunch -/

/-- **Relaunch.** The state written by the epilogue of `launch()` (`set_time_scale(1.0)`, final
save) and loaded by the prologue of the next `launch()` into freshly constructed objects: the
epilogue succeeds, the load succeeds, the three threads are constructed, and they start from
`Sys.reload fresh (last state)`, whose observables are those of `load_save_id` /
`clock_continues`: the values the previous run ended with. -/
theorem relaunch (rd : Rd) (s s1 fresh : Sys) (root : Path) (fs : FS) (ra rb r1 r2 r0 : Clock.R3)
    (hup : s.update = .ok s1) (hnames : s.namesOk = true) (hshape : fresh.sameShape s = true)
    (hpar : fs root.dropLast = some .dir) (hfresh : Fresh fs root) :
    ∃ fs' c, Clock.setScale s.clock 1 ra rb = .ok c ∧
      launchEpilogue s root fs ra rb r1 r2 = .ok (({ s1 with clock := c } : Sys).exported r1 r2, fs') ∧
      launchPrologue rd fresh (some root) fs' r0 =
        (prologueSteps true,
          .ok (Sys.reload fresh (({ s1 with clock := c } : Sys).exported r1 r2) r0)) := by
  obtain ⟨c, hc⟩ : ∃ c, Clock.setScale s.clock 1 ra rb = .ok c := ⟨_, by simp [Clock.setScale]; rfl⟩
  obtain ⟨fs', hsave, _, hload⟩ := load_save rd { s with clock := c } { s1 with clock := c } fresh
    root fs r1 r2 r0 (update_clock s s1 c hup) hnames hshape hpar hfresh
  refine ⟨fs', c, hc, ?_, ?_⟩
  · simp only [launchEpilogue, hc]
    exact hsave
  · simp only [launchPrologue, hload, prologueSteps]
    rfl

/-! ## Non-vacuity: the hypotheses above are met by a concrete, non-trivial system -/

def exFs : FS := fun q => if q = ["states"] then some .dir else none

/-- A sequential buffer of capacity 2 holding one sample, two more waiting in the collector. -/
def exUser : User :=
  { buf := .seq ⟨2, [7]⟩, ts := [1], pend := [⟨8, 2, 0, 0⟩, ⟨9, 3, 0, 0⟩] }

def exTree : Tree.Interaction := ⟨.mk 1 [("child", .mk 2 [])], .modular (.leaf 3) (.leaf 4)⟩

def exSys : Sys :=
  { interaction := ofInteraction (fun i => 10 + i) exTree
    models := [("m", ⟨5, true, 4⟩)]
    data := [("d", exUser)]
    trainers := [("t", .posInf), ("u", .fin (7/2))]
    clock := Clock.init ⟨0, 0, 0⟩ ⟨100, 200, 300⟩ }

def exFresh : Sys :=
  { interaction := ofInteraction (fun _ => 0) exTree
    models := [("m", ⟨0, true, 0⟩)]
    data := [("d", { buf := .seq ⟨2, []⟩, ts := [], pend := [] })]
    trainers := [("t", .negInf), ("u", .negInf)]
    clock := Clock.init ⟨50, 50, 50⟩ ⟨50, 50, 50⟩ }

example : ∃ s1, exSys.update = .ok s1 ∧ exSys.namesOk = true ∧ exFresh.sameShape exSys = true ∧
    exFs (["states", "a"] : Path).dropLast = some .dir ∧ Fresh exFs ["states", "a"] ∧
    sameParams exFresh.data s1.data ∧ (∀ nu ∈ exSys.data, nu.2.WF) ∧
    (lookup "d" s1.data).map (fun u => (u.buf.getData, u.ts)) = some ([8, 9], [2, 3]) := by
  refine ⟨_, rfl, by decide, by decide, rfl, ?_, ?_, ?_, ?_⟩
  · intro q hq
    simp only [exFs]
    split
    · rename_i h; subst h; have := hq.length_le; simp at this
    · rfl
  · simp [sameParams, exFresh, Buf.params]
    rfl
  · intro nu hnu
    simp [exSys] at hnu
    subst hnu
    simp [User.WF, Buf.WF, exUser, Buf.maxQueueSize, Buffer.Seq.maxQueueSize]
  · rfl

end Pamiq.Persist
