/-
C15 — periodic triggers fire when due and never skip an interval silently.
Property theorems only. Model: `Pamiq/Model/Sched.lean` (tied to `pamiq_core/utils/schedulers.py`
and `PeriodicSaveCondition` by the correspondence check `harness/corr/c15.py`).

The comparison is `>` as in the code: "at least the interval has elapsed" is the necessary
direction (`fires → elapsed > interval ≥ …`), `>` the sufficient one.
-/
import Pamiq.Model.Sched
import Mathlib.Tactic.Linarith
import Mathlib.Tactic.Ring
import Mathlib.Tactic.NormNum
import Mathlib.Algebra.Order.Field.Rat

namespace Pamiq.Sched

/-! ## One update of the time-interval scheduler -/

theorem due_iff (s : TSched) (r : Rat) : s.due r = true ↔ r - s.prev > s.interval := by
  simp [TSched.due]

/-- **Fires when, and only when, due**: the callbacks run in this update iff the reading on which
the decision is taken lies more than `interval` after the start of the current interval.
Holds for both variants and for arbitrary later readings. -/
theorem fires_iff (v : Bool) (s : TSched) (r1 r2 r3 : Rat) :
    (s.update v r1 r2 r3).fired = true ↔ r1 - s.prev > s.interval := by
  rw [← due_iff]
  cases v <;> simp only [TSched.update] <;> repeat' split
  all_goals simp_all

/-- **Every registered callback runs exactly once per firing, in registration order** (and none
runs otherwise). -/
theorem callbacks_in_order_once (v : Bool) (s : TSched) (r1 r2 r3 : Rat) :
    (s.update v r1 r2 r3).ran = if (s.update v r1 r2 r3).fired then s.cbs else [] := by
  cases v <;> simp only [TSched.update] <;> repeat' split
  all_goals simp_all

/-- Registration appends; removal deletes the first occurrence: the order of the others is kept. -/
theorem register_order (cbs : List Nat) (c : Nat) : register cbs c = cbs ++ [c] := rfl

theorem remove_spec (cbs : List Nat) (c : Nat) :
    remove cbs c = if c ∈ cbs then .ok (cbs.erase c) else .error .valueError := rfl

/-- The callback list, the interval and nothing but `prev` are touched by an update. -/
theorem update_frame (v : Bool) (s : TSched) (r1 r2 r3 : Rat) :
    (s.update v r1 r2 r3).st.interval = s.interval ∧ (s.update v r1 r2 r3).st.cbs = s.cbs := by
  cases v <;> simp only [TSched.update] <;> repeat' split
  all_goals simp_all

/-- **The interval is restarted only after the callbacks have run** — for every advance of the
clock between the reads inside one update (`r2`, `r3` are arbitrary): either the state is unchanged,
or all callbacks ran in this very update and the new interval starts at the restart reading. -/
theorem restart_only_after_fire (s : TSched) (r1 r2 r3 : Rat) :
    (s.update true r1 r2 r3).st = s ∨
      ((s.update true r1 r2 r3).fired = true ∧ (s.update true r1 r2 r3).ran = s.cbs ∧
        (s.update true r1 r2 r3).st = { s with prev := r2 }) := by
  by_cases hd : s.due r1 = true
  · right; simp [TSched.update, hd]
  · left; simp [TSched.update, hd]

/-- The same in the form of the property statement. -/
theorem restart_implies_ran (s : TSched) (r1 r2 r3 : Rat)
    (h : (s.update true r1 r2 r3).st.prev ≠ s.prev) :
    (s.update true r1 r2 r3).ran = s.cbs ∧ r1 - s.prev > s.interval := by
  rcases restart_only_after_fire s r1 r2 r3 with h1 | ⟨h1, h2, _⟩
  · rw [h1] at h; exact absurd rfl h
  · exact ⟨h2, (fires_iff true s r1 r2 r3).1 h1⟩

/-- Not due ⇒ nothing changes at all (the elapsed part of the interval is kept). -/
theorem not_due_unchanged (s : TSched) (r1 r2 r3 : Rat) (h : ¬ r1 - s.prev > s.interval) :
    (s.update true r1 r2 r3).st = s ∧ (s.update true r1 r2 r3).ran = [] := by
  have : s.due r1 = false := by
    cases hd : s.due r1
    · rfl
    · exact absurd ((due_iff s r1).1 hd) h
  simp [TSched.update, this]

/-- **F7.** The double-read variant does restart the interval without running anything: not due on
the first reading, due on the second (the clock advanced in between). -/
theorem double_read_skips :
    ∃ (s : TSched) (r1 r2 r3 : Rat), s.prev ≤ r1 ∧ r1 ≤ r2 ∧ r2 ≤ r3 ∧ s.cbs ≠ [] ∧
      r2 - s.prev > s.interval ∧
      (s.update false r1 r2 r3).ran = [] ∧ (s.update false r1 r2 r3).st.prev ≠ s.prev := by
  refine ⟨⟨10, 0, [7]⟩, 10, 11, 11, ?_⟩
  norm_num [TSched.update, TSched.due]

/-- … and can go on doing so for ever: for every `n` there is a history of `n` updates with
non-decreasing readings, spanning `11·n` seconds with `interval = 10`, in which nothing ever fires. -/
def starve : Nat → Rat → List R3
  | 0, _ => []
  | n + 1, p => ⟨p + 10, p + 11, p + 11⟩ :: starve n (p + 11)

theorem double_read_starves (n : Nat) (p : Rat) :
    TSched.fires false ⟨10, p, [7]⟩ (starve n p) = [] ∧
      (TSched.run false ⟨10, p, [7]⟩ (starve n p)).prev = p + 11 * n := by
  induction n generalizing p with
  | zero => simp [starve, TSched.fires, TSched.run]
  | succ n ih =>
    have hu : (TSched.update false ⟨10, p, [7]⟩ (p + 10) (p + 11) (p + 11)) =
        ⟨⟨10, p + 11, [7]⟩, false, [], 3⟩ := by
      norm_num [TSched.update, TSched.due]
    simp only [starve, TSched.fires, TSched.run, hu]
    obtain ⟨h1, h2⟩ := ih (p + 11)
    refine ⟨by simp [h1], ?_⟩
    rw [h2]; push_cast; ring

/-! ## Histories -/

/-- Readings never go backwards: inside an update and from one update to the next. -/
def Mono (p : Rat) : List R3 → Prop
  | [] => True
  | r :: rest => p ≤ r.r1 ∧ r.r1 ≤ r.r2 ∧ r.r2 ≤ r.r3 ∧ Mono r.r3 rest

/-- Successive elements are more than `i` apart, the first more than `i` after `p`. -/
def Spaced (i : Rat) (p : Rat) : List Rat → Prop
  | [] => True
  | t :: ts => t - p > i ∧ Spaced i t ts

theorem Mono.weaken {p q : Rat} {h : List R3} (hpq : q ≤ p) (hm : Mono p h) : Mono q h := by
  cases h with
  | nil => trivial
  | cons r rest => exact ⟨le_trans hpq hm.1, hm.2⟩

theorem Spaced.weaken {i p q : Rat} {l : List Rat} (hpq : q ≤ p) (hs : Spaced i p l) :
    Spaced i q l := by
  cases l with
  | nil => trivial
  | cons t ts => exact ⟨by have := hs.1; linarith, hs.2⟩

/-- The start of the current interval never lies in the future of the readings. -/
theorem prev_le (v : Bool) (s : TSched) (r : R3) (hm : s.prev ≤ r.r1 ∧ r.r1 ≤ r.r2 ∧ r.r2 ≤ r.r3) :
    (s.update v r.r1 r.r2 r.r3).st.prev ≤ r.r3 ∧
      ((s.update v r.r1 r.r2 r.r3).fired = true → r.r1 ≤ (s.update v r.r1 r.r2 r.r3).st.prev) := by
  obtain ⟨h1, h2, h3⟩ := hm
  cases v
  · by_cases hd2 : s.due r.r2 = true
    · simp only [TSched.update, hd2, if_true]
      exact ⟨le_refl _, fun _ => le_trans h2 h3⟩
    · simp only [TSched.update, hd2]
      refine ⟨by show s.prev ≤ r.r3; linarith, ?_⟩
      intro hf
      -- due at r1 but not at r2 ≥ r1 is impossible
      have hf' : s.due r.r1 = true := hf
      have := (due_iff s r.r1).1 hf'
      have hn : ¬ (r.r2 - s.prev > s.interval) := fun h => hd2 ((due_iff s r.r2).2 h)
      exact absurd (by linarith : r.r2 - s.prev > s.interval) hn
  · by_cases hd : s.due r.r1 = true
    · simp only [TSched.update, hd, if_true]; exact ⟨h3, fun _ => h2⟩
    · simp only [TSched.update, hd]
      exact ⟨by show s.prev ≤ r.r3; linarith, fun h => absurd h (by simp)⟩

/-- **Consecutive firings are more than `interval` apart** (and the first one more than `interval`
after construction), in every history with non-decreasing readings — whatever the clock does between
two reads inside an update. Holds for both variants. -/
theorem gap (v : Bool) (s : TSched) (h : List R3) (hm : Mono s.prev h) :
    Spaced s.interval s.prev (TSched.fires v s h) := by
  induction h generalizing s with
  | nil => trivial
  | cons r rest ih =>
    obtain ⟨h1, h2, h3, hrest⟩ := hm
    have hp := prev_le v s r ⟨h1, h2, h3⟩
    have hframe := (update_frame v s r.r1 r.r2 r.r3).1
    have ih' := ih (s.update v r.r1 r.r2 r.r3).st (Mono.weaken hp.1 hrest)
    rw [hframe] at ih'
    simp only [TSched.fires]
    by_cases hf : (s.update v r.r1 r.r2 r.r3).fired = true
    · simp only [hf, if_true, List.singleton_append, Spaced]
      exact ⟨(fires_iff v s r.r1 r.r2 r.r3).1 hf, Spaced.weaken (hp.2 hf) ih'⟩
    · simp only [hf, Bool.false_eq_true, if_false, List.nil_append]
      -- nothing fired: in the repaired variant the state is unchanged
      cases v
      · -- double-read variant: prev may have moved forward, which only strengthens the claim
        have hle : s.prev ≤ (s.update false r.r1 r.r2 r.r3).st.prev := by
          by_cases hd2 : s.due r.r2 = true
          · simp only [TSched.update, hd2, if_true, Bool.false_eq_true, if_false]
            show s.prev ≤ r.r3; linarith
          · simp only [TSched.update, hd2, Bool.false_eq_true, if_false]; exact le_refl _
        exact Spaced.weaken hle ih'
      · have hu : (s.update true r.r1 r.r2 r.r3).st = s := by
          rcases restart_only_after_fire s r.r1 r.r2 r.r3 with h | ⟨h, _, _⟩
          · exact h
          · exact absurd h hf
        rw [hu] at ih' ⊢; exact ih'

/-- **No interval is skipped silently** (repaired variant, every history): at any point of a
history the start of the current interval is the construction reading or the restart reading of an
update in which all callbacks ran; hence an update fires iff its decision reading is more than
`interval` after *that* instant. `lastRestart` computes it from the firing record alone. -/
def lastRestart (s : TSched) : List R3 → Rat
  | [] => s.prev
  | r :: rest =>
    let u := s.update true r.r1 r.r2 r.r3
    lastRestart (if u.fired then { s with prev := r.r2 } else s) rest

theorem prev_is_last_fire (s : TSched) (h : List R3) :
    (TSched.run true s h).prev = lastRestart s h := by
  induction h generalizing s with
  | nil => rfl
  | cons r rest ih =>
    simp only [TSched.run, lastRestart]
    by_cases hd : s.due r.r1 = true
    · have h1 : (s.update true r.r1 r.r2 r.r3).st = { s with prev := r.r2 } := by
        simp [TSched.update, hd]
      have h2 : (s.update true r.r1 r.r2 r.r3).fired = true := by simp [TSched.update, hd]
      simp only [h2, if_true]; rw [h1]; exact ih _
    · have h1 : (s.update true r.r1 r.r2 r.r3).st = s := by simp [TSched.update, hd]
      have h2 : (s.update true r.r1 r.r2 r.r3).fired = false := by simp [TSched.update, hd]
      simp only [h2, Bool.false_eq_true, if_false]; rw [h1]; exact ih _

/-! ## Constructor guards -/

/-! ### Raising callbacks: an interval is restarted only when *every* callback has run -/

/-- Without a raising callback `updateF` is `update`. -/
theorem updateF_none (s : TSched) (r1 r2 r3 : Rat) :
    (s.updateF r1 r2 none).st = (s.update true r1 r2 r3).st ∧
    (s.updateF r1 r2 none).ran = (s.update true r1 r2 r3).ran ∧ (s.updateF r1 r2 none).raised = false := by
  simp only [TSched.updateF, TSched.update]
  split <;> simp

/-- **A raising callback never restarts the interval**: the scheduler is left exactly as it was, so
the elapsed interval is still due at the next update; the callbacks before the raising one ran once
each, in order, the ones after it did not. -/
theorem raise_keeps_interval (s : TSched) (r1 r2 : Rat) (f : Option Nat)
    (h : (s.updateF r1 r2 f).raised = true) :
    (s.updateF r1 r2 f).st = s ∧ s.due r1 = true ∧
      ∃ k, f = some k ∧ k < s.cbs.length ∧ (s.updateF r1 r2 f).ran = s.cbs.take (k + 1) := by
  simp only [TSched.updateF] at h ⊢
  split at h
  · rename_i hd
    cases f with
    | none => simp at h
    | some k =>
      by_cases hk : k < s.cbs.length
      · refine ⟨by simp [hk, hd], hd, k, rfl, hk, by simp [hk, hd]⟩
      · simp [hk] at h
  · simp at h

/-- **Whenever the interval is restarted, all callbacks have been run** — also in the presence of
raising callbacks. -/
theorem restart_implies_all_ran (s : TSched) (r1 r2 : Rat) (f : Option Nat)
    (h : (s.updateF r1 r2 f).st ≠ s) :
    (s.updateF r1 r2 f).ran = s.cbs ∧ (s.updateF r1 r2 f).raised = false := by
  simp only [TSched.updateF] at h ⊢
  split
  · cases f with
    | none => simp
    | some k =>
      by_cases hk : k < s.cbs.length
      · simp_all
      · simp [hk]
  · simp_all

/-- A still-due interval fires again at the next update that does not raise. -/
theorem due_again_after_raise (s : TSched) (r1 r2 r1' r2' : Rat) (f : Option Nat)
    (h : (s.updateF r1 r2 f).raised = true) (hm : r1 ≤ r1') :
    ((s.updateF r1 r2 f).st.updateF r1' r2' none).ran = s.cbs := by
  obtain ⟨hst, hd, _⟩ := raise_keeps_interval s r1 r2 f h
  rw [hst]
  have hd' : s.due r1' = true := by
    rw [due_iff] at hd ⊢
    linarith
  simp [TSched.updateF, hd']

/-- Step scheduler: a raising callback leaves the counter at or above the interval. -/
theorem step_raise_keeps_due (s : SSched) (f : Option Nat) (h : (s.updateF f).raised = true) :
    (s.updateF f).st.steps = s.steps + 1 ∧ (s.updateF f).st.due = true := by
  simp only [SSched.updateF] at h ⊢
  split at h
  · rename_i hd
    cases f with
    | none => simp at h
    | some k =>
      by_cases hk : k < s.cbs.length
      · refine ⟨by simp [hk, hd], ?_⟩
        simp only [hk, hd, if_true]
      · simp [hk] at h
  · simp at h

example : ((⟨10, 0, [1, 2, 3]⟩ : TSched).updateF 11 12 (some 1)).ran = [1, 2] ∧
    ((⟨10, 0, [1, 2, 3]⟩ : TSched).updateF 11 12 (some 1)).st.prev = 0 := by
  norm_num [TSched.updateF, TSched.due]

theorem time_ctor_guard (iv : Rat) (cbs : List Nat) (r0 : Rat) :
    TSched.new iv cbs r0 = if iv < 0 then .error .valueError else .ok ⟨iv, r0, cbs⟩ := rfl

theorem step_ctor_guard (n : Int) (cbs : List Nat) :
    SSched.new n cbs = if n ≤ 0 then .error .valueError else .ok ⟨n.toNat, 0, cbs⟩ := rfl

/-! ## Step-interval scheduler: fires on exactly every n-th update -/

theorem step_counter (s : SSched) (hn : 0 < s.interval) (h0 : s.steps = 0) (k : Nat) :
    (SSched.run s k).steps = k % s.interval ∧ (SSched.run s k).interval = s.interval ∧
      (SSched.run s k).cbs = s.cbs := by
  induction k with
  | zero => simp [SSched.run, h0]
  | succ k ih =>
    obtain ⟨h1, h2, h3⟩ := ih
    have hlt : k % s.interval < s.interval := Nat.mod_lt _ hn
    simp only [SSched.run, SSched.update, SSched.due]
    by_cases hd : (SSched.run s k).steps + 1 ≥ (SSched.run s k).interval
    · simp only [hd, decide_true, if_true]
      refine ⟨?_, h2, h3⟩
      have : k % s.interval + 1 = s.interval := by omega
      have h4 : (k + 1) % s.interval = 0 := by
        rw [Nat.add_mod]
        have : (k % s.interval + 1 % s.interval) % s.interval = 0 := by
          by_cases h1' : s.interval = 1
          · simp [h1', Nat.mod_one]
          · have : 1 % s.interval = 1 := Nat.mod_eq_of_lt (by omega)
            rw [this]; rw [‹k % s.interval + 1 = s.interval›]; exact Nat.mod_self _
        exact this
      simp [h4]
    · simp only [hd, decide_false]
      refine ⟨?_, h2, h3⟩
      simp only [Bool.false_eq_true, if_false]
      have hlt2 : k % s.interval + 1 < s.interval := by omega
      rw [h1]
      rw [Nat.add_mod]
      have h1m : 1 % s.interval = 1 := Nat.mod_eq_of_lt (by omega)
      rw [h1m, Nat.mod_eq_of_lt hlt2]

/-- **The (k+1)-th update of a fresh step scheduler fires iff `n ∣ k+1`**, and then runs every
callback once in registration order. -/
theorem step_fires_iff (s : SSched) (hn : 0 < s.interval) (h0 : s.steps = 0) (k : Nat) :
    ((SSched.run s k).update.fired = true ↔ s.interval ∣ (k + 1)) ∧
      (SSched.run s k).update.ran = if s.interval ∣ (k + 1) then s.cbs else [] := by
  obtain ⟨h1, h2, h3⟩ := step_counter s hn h0 k
  have hlt : k % s.interval < s.interval := Nat.mod_lt _ hn
  have key : (SSched.run s k).steps + 1 ≥ (SSched.run s k).interval ↔ s.interval ∣ (k + 1) := by
    rw [h1, h2, Nat.dvd_iff_mod_eq_zero]
    constructor
    · intro h
      have : k % s.interval + 1 = s.interval := by omega
      rw [Nat.add_mod]
      by_cases h1' : s.interval = 1
      · simp [h1', Nat.mod_one]
      · have : 1 % s.interval = 1 := Nat.mod_eq_of_lt (by omega)
        rw [this, ‹k % s.interval + 1 = s.interval›]; exact Nat.mod_self _
    · intro h
      by_contra hc
      have hlt2 : k % s.interval + 1 < s.interval := by omega
      rw [Nat.add_mod] at h
      by_cases h1' : s.interval = 1
      · omega
      · have h1m : 1 % s.interval = 1 := Nat.mod_eq_of_lt (by omega)
        rw [h1m, Nat.mod_eq_of_lt hlt2] at h
        omega
  constructor
  · simp only [SSched.update, SSched.due]
    by_cases hd : (SSched.run s k).steps + 1 ≥ (SSched.run s k).interval
    · simp [hd, key.1 hd]
    · have : ¬ s.interval ∣ (k + 1) := fun h => hd (key.2 h)
      simp [hd, this]
  · simp only [SSched.update, SSched.due]
    by_cases hd : (SSched.run s k).steps + 1 ≥ (SSched.run s k).interval
    · simp [hd, key.1 hd, h3]
    · have : ¬ s.interval ∣ (k + 1) := fun h => hd (key.2 h)
      simp [hd, this]

/-! ## Periodic save condition: true exactly for the calls in which its scheduler fired -/

theorem psc_call (v : Bool) (c : Psc) (r1 r2 r3 : Rat) (hc : c.sched.cbs = [0])
    (hf : c.flag = false) :
    (c.call v r1 r2 r3).out = (c.call v r1 r2 r3).schedFired ∧
      ((c.call v r1 r2 r3).out = true ↔ r1 - c.sched.prev > c.sched.interval) ∧
      (c.call v r1 r2 r3).st.flag = false ∧ (c.call v r1 r2 r3).st.sched.cbs = [0] := by
  have hran := callbacks_in_order_once v c.sched r1 r2 r3
  have hfi := fires_iff v c.sched r1 r2 r3
  have hfr := (update_frame v c.sched r1 r2 r3).2
  simp only [Psc.call]
  refine ⟨?_, ?_, trivial, by rw [hfr, hc]⟩
  · rw [hran, hc, hf]
    cases (c.sched.update v r1 r2 r3).fired <;> simp
  · rw [← hfi, hran, hc, hf]
    cases (c.sched.update v r1 r2 r3).fired <;> simp

/-- Over every history of calls of a freshly constructed condition. -/
theorem psc_outs (v : Bool) (c : Psc) (h : List R3) (hc : c.sched.cbs = [0])
    (hf : c.flag = false) : ∀ p ∈ Psc.outs v c h, p.1 = p.2 := by
  induction h generalizing c with
  | nil => simp [Psc.outs]
  | cons r rest ih =>
    obtain ⟨h1, _, h3, h4⟩ := psc_call v c r.r1 r.r2 r.r3 hc hf
    intro p hp
    simp only [Psc.outs, List.mem_cons] at hp
    rcases hp with rfl | hp
    · exact h1
    · exact ih _ h4 h3 p hp

theorem psc_new_ok (iv r0 : Rat) (c : Psc) (h : Psc.new iv r0 = .ok c) :
    c.sched.cbs = [0] ∧ c.flag = false ∧ c.sched.prev = r0 ∧ c.sched.interval = iv ∧ 0 ≤ iv := by
  unfold Psc.new TSched.new at h
  by_cases hiv : iv < 0
  · simp [hiv] at h
  · simp [hiv] at h
    subst h
    exact ⟨rfl, rfl, rfl, rfl, not_lt.1 hiv⟩

/-! ## Non-vacuity -/

example :
    let s : TSched := ⟨5, 0, [1, 2]⟩
    let h : List R3 := [⟨3, 3, 4⟩, ⟨6, 7, 8⟩, ⟨9, 10, 10⟩, ⟨13, 13, 14⟩]
    Mono s.prev h ∧ TSched.fires true s h = [6, 13] ∧ (TSched.run true s h).prev = 13 := by
  refine ⟨by norm_num [Mono], ?_, ?_⟩ <;>
    norm_num [TSched.fires, TSched.run, TSched.update, TSched.due]

example : (SSched.new 3 [4, 5]).toOption.map (fun s => (SSched.run s 5).update.ran) = some [4, 5] := by
  decide

example :
    ∃ c, Psc.new 5 0 = .ok c ∧ (Psc.outs true c [⟨3, 3, 3⟩, ⟨6, 6, 6⟩, ⟨7, 7, 7⟩]).map (·.1) =
      [false, true, false] := by
  refine ⟨⟨⟨5, 0, [0]⟩, false⟩, ?_, ?_⟩
  · norm_num [Psc.new, TSched.new]
  · norm_num [Psc.outs, Psc.call, TSched.update, TSched.due]

example :
    let s : TSched := ⟨5, 0, [1, 2]⟩
    (s.update true 6 7 7).st.prev ≠ s.prev := by
  norm_num [TSched.update, TSched.due]

end Pamiq.Sched
