/-
C06, concurrency part — "concurrent callers always observe values of one single clock".

The generic lock-atomicity theorem (`LockObj.lock_atomic_final`, `Props/C07.lean`) instantiated
for `TimeController`: shared object = the `Clock.Ctl` of `Model/Clock.lean`, every public method =
`with self._lock:` around a body that is here split into the micro-steps the Python code makes
(re-anchor the scaled side, re-anchor the real side, store the scale / the flag, …); `sleep`
reads `_is_paused` and `_time_scale` under the lock and computes the real duration OUTSIDE it.
The stdlib-clock readings each call makes are explicit inputs of the call, as in `Clock.lean`.

`clock_calls_atomic`: for ANY number of threads, ANY programs of calls and ANY interleaving of
their micro-steps that runs them to completion, the final controller and the sequence of results
every thread got are exactly those of the sequential `Clock` model executing the calls one after
the other in lock-acquisition order — so every theorem of `Props/C06.lean` (refinement to the
integral of the scale, monotonicity, continuity, purity of reads and exports) speaks about what
concurrent callers see. The hypothesis it rests on — every field access of a public method happens
while its thread holds the lock — is what `harness/corr/c06_conc.py` checks on the code under
line-granular preemption (results equal to the model run in observed lock order).
-/
import Pamiq.Props.C06
import Pamiq.Props.C07

namespace Pamiq.Clock
open Pamiq.LockObj

/-- One call of a public `TimeController` method with the stdlib readings it makes. -/
inductive Call
  | read (s : Src) (r : Rat)
  | setScale (k : Rat) (r1 r2 : R3)
  | pause (r : R3)
  | resume (r : R3)
  | stateDict (r1 r2 : R3)
  | load (d : Saved) (r : R3)
  | sleep (secs : Rat)
  | getScale
  | isPaused

/-- What the caller gets back (`slept`: the real duration handed to the stdlib `sleep`). -/
inductive Out
  | num (q : Rat)
  | unit
  | assertionError
  | saved (d : Saved)
  | slept (d : Option Rat)
  | flag (b : Bool)
deriving DecidableEq

/-- Sequential semantics: the functions of `Model/Clock.lean`. -/
def applyCall (c : Ctl) : Call → Ctl × Out
  | .read s r => (c, .num (c.read s r))
  | .setScale k r1 r2 =>
    match setScale c k r1 r2 with
    | .ok c' => (c', .unit)
    | .error _ => (c, .assertionError)
  | .pause r => (pause c r, .unit)
  | .resume r => (resume c r, .unit)
  | .stateDict r1 r2 => ((stateDict true c r1 r2).1, .saved (stateDict true c r1 r2).2)
  | .load d r => (loadStateDict c d r, .unit)
  | .sleep secs => (c, .slept (sleepReal c secs))
  | .getScale => (c, .num c.scale)
  | .isPaused => (c, .flag c.paused)

/-- Thread-local state: the results obtained so far, and what `sleep` read under the lock. -/
structure Loc where
  outs : List Out := []
  tmp : Option (Bool × Rat) := none

def Loc.push (l : Loc) (o : Out) : Loc := { l with outs := l.outs ++ [o] }

/-- The micro-steps of one call: `with self._lock:` / the field accesses of the body / release;
for `sleep` the division happens after the release. -/
def callSteps : Call → List (Step Ctl Loc)
  | .read s r => [.acq, .body (fun c l => (c, l.push (.num (c.read s r)))), .rel]
  | .setScale k r1 r2 =>
    if 0 < k then
      [.acq,
       .body (fun c l => (updScaled c r1, l)),          -- self._update_scaled_anchor_values()
       .body (fun c l => (updAnchors c r2, l)),         -- self._update_anchor_values()
       .body (fun c l => ({ c with scale := k }, l.push .unit)),   -- self._time_scale = time_scale
       .rel]
    else [.acq, .body (fun c l => (c, l.push .assertionError)), .rel]
  | .pause r =>
    [.acq,
     .body (fun c l => (if c.paused then c else updScaled c r, l)),
     .body (fun c l => ({ c with paused := true }, l.push .unit)),
     .rel]
  | .resume r =>
    [.acq,
     .body (fun c l => (if c.paused then updAnchors { c with paused := false } r else c, l.push .unit)),
     .rel]
  | .stateDict r1 r2 =>
    [.acq,
     .body (fun c l => (updScaled c r1, l)),
     .body (fun c l => (updAnchors c r2, l)),
     .body (fun c l => (c, l.push (.saved c.saved))),
     .rel]
  | .load d r =>
    [.acq,
     .body (fun c l => ({ c with t := { c.t with sAnchor := d.t }, p := { c.p with sAnchor := d.p },
                                 m := { c.m with sAnchor := d.m } }, l)),
     .body (fun c l => (updAnchors c r, l.push .unit)),
     .rel]
  | .sleep secs =>
    [.acq,
     .body (fun c l => (c, { l with tmp := some (c.paused, c.scale) })),
     .rel,
     .loc (fun l =>
       match l.tmp with
       | some (p, k) => { outs := l.outs ++ [.slept (if p then none else some (secs / k))], tmp := none }
       | none => l)]
  | .getScale => [.acq, .body (fun c l => (c, l.push (.num c.scale))), .rel]
  | .isPaused => [.acq, .body (fun c l => (c, l.push (.flag c.paused))), .rel]

/-- Every thread `i` runs the calls `calls i` on one controller. -/
def initCfg (c0 : Ctl) (calls : Nat → List Call) : Cfg Ctl Loc :=
  { obj := c0, lock := none, loc := fun _ => {}, prog := fun i => (calls i).flatMap callSteps }

/-- The sequential reference: controller, results per thread, calls still to be made. -/
structure Seq where
  ctl : Ctl
  outs : Nat → List Out
  rem : Nat → List Call

/-- Thread `i` makes its next call, atomically. -/
def Seq.call (q : Seq) (i : Nat) : Seq :=
  match q.rem i with
  | [] => q
  | call :: rest =>
    { ctl := (applyCall q.ctl call).1, outs := upd q.outs i (q.outs i ++ [(applyCall q.ctl call).2]),
      rem := upd q.rem i rest }

/-- The calls executed one after the other in the given order of threads. -/
def Seq.run (q : Seq) (order : List Nat) : Seq := order.foldl Seq.call q

private theorem callSteps_ne_loc (call : Call) (rest : List (Step Ctl Loc)) (f : Loc → Loc)
    (more : List (Step Ctl Loc)) : callSteps call ++ rest ≠ .loc f :: more := by
  cases call <;> simp [callSteps]
  split <;> simp

private theorem runLoc_calls (l : Loc) (cs : List Call) :
    runLoc l (cs.flatMap callSteps) = (l, cs.flatMap callSteps) := by
  cases cs with
  | nil => simp [runLoc]
  | cons call cs =>
    simp only [List.flatMap_cons]
    cases call <;> simp [callSteps, runLoc]
    split <;> simp [runLoc]

/-- Executed atomically, the micro-steps of a call are the sequential model's function. -/
theorem atomicCall_call (c : Cfg Ctl Loc) (i : Nat) (call : Call) (cs : List Call)
    (hp : c.prog i = callSteps call ++ cs.flatMap callSteps) (ht : (c.loc i).tmp = none) :
    atomicCall c i =
      { c with obj := (applyCall c.obj call).1,
               loc := upd c.loc i { outs := (c.loc i).outs ++ [(applyCall c.obj call).2], tmp := none },
               prog := upd c.prog i (cs.flatMap callSteps) } := by
  have hl : ∀ o, (c.loc i).push o = { outs := (c.loc i).outs ++ [o], tmp := none } := by
    intro o; simp [Loc.push, ht]
  cases call with
  | read s r => simp [atomicCall, hp, callSteps, runBody, runLoc_calls, applyCall, hl]
  | setScale k r1 r2 =>
    by_cases hk : 0 < k
    · simp [atomicCall, hp, callSteps, hk, runBody, runLoc_calls, applyCall, setScale, hl]
    · simp [atomicCall, hp, callSteps, hk, runBody, runLoc_calls, applyCall, setScale, hl]
  | pause r =>
    have heta : ∀ x : Ctl, x.paused = true → ({ x with paused := true } : Ctl) = x := by
      intro x hx; cases x; simp_all
    cases hpz : c.obj.paused
    · simp [atomicCall, hp, callSteps, runBody, runLoc_calls, applyCall, pause, hl, hpz, updScaled]
    · simp [atomicCall, hp, callSteps, runBody, runLoc_calls, applyCall, pause, hl, hpz, heta]
  | resume r =>
    cases hpz : c.obj.paused <;>
      simp [atomicCall, hp, callSteps, runBody, runLoc_calls, applyCall, resume, hl, hpz]
  | stateDict r1 r2 =>
    simp [atomicCall, hp, callSteps, runBody, runLoc_calls, applyCall, stateDict, hl]
  | load d r =>
    simp [atomicCall, hp, callSteps, runBody, runLoc_calls, applyCall, loadStateDict, hl]
  | sleep secs =>
    cases hpz : c.obj.paused <;>
      simp [atomicCall, hp, callSteps, runBody, runLoc, runLoc_calls, applyCall, sleepReal, hpz]
  | getScale => simp [atomicCall, hp, callSteps, runBody, runLoc_calls, applyCall, hl]
  | isPaused => simp [atomicCall, hp, callSteps, runBody, runLoc_calls, applyCall, hl]

/-- A configuration between calls, and the sequential state it stands for. -/
private structure Sim (c : Cfg Ctl Loc) (q : Seq) : Prop where
  lock : c.lock = none
  obj : c.obj = q.ctl
  loc : ∀ i, c.loc i = { outs := q.outs i, tmp := none }
  prog : ∀ i, c.prog i = (q.rem i).flatMap callSteps

private theorem sim_call (c : Cfg Ctl Loc) (q : Seq) (i : Nat) (h : Sim c q) :
    Sim (atomicCall c i) (q.call i) := by
  obtain ⟨hl, ho, hloc, hprog⟩ := h
  cases hr : q.rem i with
  | nil =>
    have : atomicCall c i = c := by simp [atomicCall, hprog i, hr]
    rw [this]; simp only [Seq.call, hr]; exact ⟨hl, ho, hloc, hprog⟩
  | cons call rest =>
    have hp : c.prog i = callSteps call ++ rest.flatMap callSteps := by rw [hprog i, hr]; simp
    rw [atomicCall_call c i call rest hp (by rw [hloc i])]
    simp only [Seq.call, hr]
    refine ⟨hl, by simp [ho], ?_, ?_⟩
    · intro j
      by_cases hj : j = i
      · subst hj; simp [upd, hloc, ho]
      · simp [upd, hj, hloc]
    · intro j
      by_cases hj : j = i
      · subst hj; simp [upd]
      · simp [upd, hj, hprog]

private theorem sim_serial (order : List Nat) (c : Cfg Ctl Loc) (q : Seq) (h : Sim c q) :
    Sim (serial c order) (q.run order) := by
  induction order generalizing c q with
  | nil => exact h
  | cons i order ih =>
    simp only [serial, Seq.run, List.foldl_cons]
    exact ih _ _ (sim_call c q i h)

/-- **clock_calls_atomic.** Any number of threads, any programs of `TimeController` calls, any
interleaving of their micro-steps that the lock allows and that runs all of them to completion:
the controller ends in the state, and every thread has received the results, of the sequential
`Clock` model executing the calls atomically in the order in which the lock was acquired. -/
theorem clock_calls_atomic (c0 : Ctl) (calls : Nat → List Call) (sch : List Nat)
    (c' : Cfg Ctl Loc) (h : exec (initCfg c0 calls) sch = some c')
    (hl' : c'.lock = none) (hp' : ∀ j, c'.prog j = []) :
    let q := Seq.run ⟨c0, fun _ => [], calls⟩ (acqOrder (initCfg c0 calls) sch)
    c'.obj = q.ctl ∧ ∀ i, (c'.loc i).outs = q.outs i := by
  have hq : ∀ j, ∀ f rest, (initCfg c0 calls).prog j ≠ .loc f :: rest := by
    intro j f rest
    simp only [initCfg]
    cases hc : calls j with
    | nil => simp
    | cons call cs => simpa using callSteps_ne_loc call _ f rest
  have hfin := lock_atomic_final _ c' sch h rfl hq hl' hp'
  have hsim := sim_serial (acqOrder (initCfg c0 calls) sch) (initCfg c0 calls)
    ⟨c0, fun _ => [], calls⟩ ⟨rfl, rfl, fun _ => rfl, fun _ => rfl⟩
  rw [← hfin] at hsim
  exact ⟨hsim.obj, fun i => by rw [hsim.loc i]⟩

/-- In particular a reading returned to any thread is the reading of the ONE sequential clock at
that point of the lock order: every completed run's results are results of `applyCall`. -/
theorem clock_calls_all_made (c0 : Ctl) (calls : Nat → List Call) (sch : List Nat)
    (c' : Cfg Ctl Loc) (h : exec (initCfg c0 calls) sch = some c')
    (hl' : c'.lock = none) (hp' : ∀ j, c'.prog j = []) :
    ∀ j, (Seq.run ⟨c0, fun _ => [], calls⟩ (acqOrder (initCfg c0 calls) sch)).rem j = [] := by
  intro j
  have hsim := sim_serial (acqOrder (initCfg c0 calls) sch) (initCfg c0 calls)
    ⟨c0, fun _ => [], calls⟩ ⟨rfl, rfl, fun _ => rfl, fun _ => rfl⟩
  have hq : ∀ j, ∀ f rest, (initCfg c0 calls).prog j ≠ .loc f :: rest := by
    intro j f rest
    simp only [initCfg]
    cases hc : calls j with
    | nil => simp
    | cons call cs => simpa using callSteps_ne_loc call _ f rest
  rw [← lock_atomic_final _ c' sch h rfl hq hl' hp'] at hsim
  have := hsim.prog j
  rw [hp' j] at this
  cases hr : (Seq.run ⟨c0, fun _ => [], calls⟩ (acqOrder (initCfg c0 calls) sch)).rem j with
  | nil => rfl
  | cons call rest =>
    rw [hr] at this
    exact absurd this.symm (by
      simp only [List.flatMap_cons]
      cases call <;> simp [callSteps]
      split <;> simp)

/-! ## Non-vacuity -/

/-- Thread 0 changes the scale and pauses while thread 1 reads the clock and sleeps: thread 1's
acquisitions fall between thread 0's two calls, and its `sleep` computes the duration (local step)
while thread 0 is inside its second critical section. The run exists, is complete, and its
lock-acquisition order is 0, 1, 1, 0. -/
example :
    let c0 := init ⟨10, 10, 10⟩ ⟨10, 10, 10⟩
    let calls : Nat → List Call := fun i =>
      if i = 0 then [.setScale 2 ⟨12, 12, 12⟩ ⟨12, 12, 12⟩, .pause ⟨14, 14, 14⟩]
      else if i = 1 then [.read .time 13, .sleep 4] else []
    let sch := [0, 0, 0, 0, 0, 1, 1, 1, 1, 1, 1, 0, 0, 1, 0, 0]
    ∃ c', exec (initCfg c0 calls) sch = some c' ∧ c'.lock = none ∧ c'.prog 0 = [] ∧ c'.prog 1 = [] ∧
      acqOrder (initCfg c0 calls) sch = [0, 1, 1, 0] :=
  ⟨_, rfl, rfl, rfl, rfl, rfl⟩

/-- … and in that order the sequential model gives thread 1 the reading 14 (= 12 + (13 − 12)·2)
and a real sleep of 4/2 = 2 seconds. -/
example :
    let c0 := init ⟨10, 10, 10⟩ ⟨10, 10, 10⟩
    let calls : Nat → List Call := fun i =>
      if i = 0 then [.setScale 2 ⟨12, 12, 12⟩ ⟨12, 12, 12⟩, .pause ⟨14, 14, 14⟩]
      else if i = 1 then [.read .time 13, .sleep 4] else []
    (Seq.run ⟨c0, fun _ => [], calls⟩ [0, 1, 1, 0]).outs 1 = [.num 14, .slept (some 2)] := by
  norm_num [Seq.run, Seq.call, applyCall, upd, init, setScale, updAnchors, updScaled, Ctl.read,
    Chan.value, Ctl.chan, sleepReal]

end Pamiq.Clock
