/-
C10 — a crash while saving never damages older states nor yields a loadable torn one.
Property theorems only. Model: `Pamiq/Model/Persist.lean`, tied to the code by
`harness/corr/c10.py` (real saves killed at every file-system operation, every truncation of
`time.pkl`, source-shape check of `launcher.py`). Helper lemmas: `Pamiq/Lemmas/Persist.lean`.

Assumption (about CPython, validated exhaustively on the real bytes by the harness, not proved):
`pickle.load` raises on every proper prefix of a pickle — in the model, `readPickle` fails on
`Data.empty` and `Data.part`.
-/
import Pamiq.Lemmas.Persist

namespace Pamiq.Persist
open Pamiq
open Pamiq.Tree (distinct namesOf prefix_snoc_inj not_snoc_prefix_self prefix_of_snoc_prefix)

/-! ## Older states are untouched -/

/-- **Every path outside the new state directory is left exactly as it was** — for every system,
every crash point `k`, every truncation `len`, every prior content of the file system (no
hypothesis: also when an operation of the save itself raises). All operations of a save lie at or
below `root`. -/
theorem old_states_untouched (s : Sys) (root : Path) (fs : FS) (k len : Nat) (q : Path)
    (hq : ¬ root <+: q) : crash k len (saveOps s root) fs q = fs q := by
  have hall : ∀ op ∈ saveOps s root, op.path ≠ q :=
    fun op hop e => hq (e ▸ Comp.ops_under root s.layout op hop)
  have htake : ∀ op ∈ (saveOps s root).take k, op.path ≠ q :=
    fun op hop => hall op (List.mem_of_mem_take hop)
  have hrun := run_frame ((saveOps s root).take k) fs q htake
  simp only [crash]
  cases hr : run ((saveOps s root).take k) fs with
  | mk fs1 e =>
    rw [hr] at hrun
    cases e with
    | some e => exact hrun
    | none =>
      simp only
      cases hop : (saveOps s root)[k]? with
      | none => exact hrun
      | some op =>
        simp only
        rw [tornOp_frame len op fs1 q (hall op (List.mem_of_getElem? hop))]
        exact hrun

/-- **A directory that already exists is never reused**: if anything exists under the new name
(`StateStore` formats the name from the clock; `mkdir` has no `exist_ok`), the save stops at its
first operation and the whole file system — that directory included — is left as it was. -/
theorem existing_directory_not_reused (s : Sys) (root : Path) (fs : FS) (k len : Nat) (n : Node)
    (h : fs root = some n) : crash k len (saveOps s root) fs = fs := by
  have hops : saveOps s root = .mkdir root false :: Comp.opsL root _ := rfl
  have hfail : ∃ e, applyOp (.mkdir root false) fs = .error e := by
    cases n <;> simp [applyOp, h]
  obtain ⟨e, he⟩ := hfail
  cases k with
  | zero => simp [crash, run, hops, tornOp]
  | succ k => simp [crash, hops, run, he]

/-! ## A torn directory is never accepted -/

/-- **A torn state directory is rejected.** For every system that is being saved (no components at
all, any number of buffers, trainers and models, any component tree), every freshly constructed
system that tries to load it (any shape), every reader — user components that accept missing files,
any behaviour of `float()` on truncated text — every crash point `k` before the end of the save and
every truncation `len` of the file being written: `load` raises. (The clock is registered last, its
file is opened unconditionally, and a truncated pickle is not accepted.) -/
theorem torn_rejected (rd : Rd) (s fresh : Sys) (root : Path) (fs : FS) (k len : Nat)
    (r : Clock.R3) (hfresh : Fresh fs root) (hk : k < (saveOps s root).length) :
    ∃ e, load rd fresh root (crash k len (saveOps s root) fs) r = .error e := by
  let rest : List (String × Comp) :=
    [("interaction", s.interaction), ("models", modelsLayout s.models),
     ("data", dataLayout s.data), ("trainers", trainersLayout s.trainers)]
  let tp := root ++ [timeFile]
  let B := FsOp.mkdir root false :: Comp.opsL root rest
  have hops : saveOps s root = B ++ [.create tp, .writeAll tp (.clock s.clock.saved)] := by
    show (Comp.dir none (rest ++ [(timeFile, Comp.leaf (.clock s.clock.saved))])).ops root = _
    simp only [Comp.ops, Comp.opsL_append, Comp.opsL, List.append_nil, B, tp, List.cons_append]
  have hB : ∀ op ∈ B, op.path ≠ tp := by
    intro op hop e
    simp only [B, List.mem_cons] at hop
    rcases hop with rfl | hop
    · simp only [FsOp.path, tp] at e
      have := congrArg List.length e
      simp at this
    · obtain ⟨n, hn, hpre⟩ := Comp.opsL_under root rest op hop
      rw [e] at hpre
      have hn' := prefix_snoc_inj hpre (List.prefix_refl (root ++ [timeFile]))
      subst hn'
      simp [rest, namesOf, timeFile] at hn
  have h0 : fs tp = none := hfresh tp (List.prefix_append root [timeFile])
  have hlen : k < B.length + 2 := by
    rw [hops] at hk
    simpa using hk
  have hst := crash_last_file B tp (.clock s.clock.saved) fs k len hB h0 hlen
  rw [← hops] at hst
  have hread : ∃ e, readLeaf rd (crash k len (saveOps s root) fs) (root ++ [timeFile])
      (.clock fresh.clock.saved) = .error e := by
    apply readPickle_unreadable
    rcases hst with h | h | ⟨n, h⟩
    · exact Or.inl h
    · exact Or.inr (Or.inl h)
    · exact Or.inr (Or.inr ⟨_, n, h⟩)
  obtain ⟨e, he⟩ := hread
  simp only [load]
  cases hroot : crash k len (saveOps s root) fs root with
  | none => exact ⟨_, rfl⟩
  | some nd =>
    simp only
    obtain ⟨e', he'⟩ := Comp.loadL_last_error rd root (crash k len (saveOps s root) fs) timeFile
      (.clock fresh.clock.saved) e he
      [("interaction", fresh.interaction), ("models", modelsLayout fresh.models),
       ("data", dataLayout fresh.data), ("trainers", trainersLayout fresh.trainers)]
    have : fresh.layout.load rd root (crash k len (saveOps s root) fs) = .error e' := by
      simp only [Sys.layout, Sys.layoutV, Bool.false_eq_true, if_false, Comp.load, he']
    rw [this]
    exact ⟨e', rfl⟩

/-- The completed save, by contrast, is the state that loads (`C05.load_save`): past the last
operation `crash` is the finished save. -/
theorem crash_after_end (s : Sys) (root : Path) (fs fs' : FS) (k len : Nat)
    (h : applyOps (saveOps s root) fs = .ok fs') (hk : (saveOps s root).length ≤ k) :
    crash k len (saveOps s root) fs = fs' := by
  simp only [applyOps] at h
  simp only [crash, List.take_of_length_le hk]
  cases hr : run (saveOps s root) fs with
  | mk x e =>
    rw [hr] at h
    cases e with
    | some e => cases h
    | none =>
      cases h
      simp [List.getElem?_eq_none hk]

/-! ## The failure comes before any thread exists -/

def Step.isThread : Step → Bool
  | .newThread _ => true
  | .startThread _ => true
  | .controlRun => true
  | _ => false

/-- **`launch(saved_state_path = torn)` fails before any thread is constructed or started.** In
`launch()` the load precedes the construction of the three threads (shape fact extracted from
`launcher.py` on every run and compared with `prologueSteps`): when the load raises, the steps
executed are the registrations and the load, and the exception leaves `launch()`. -/
theorem fails_before_threads (rd : Rd) (fresh : Sys) (root : Path) (fs : FS) (r : Clock.R3)
    (e : LoadErr)
    (h : load rd fresh root fs r = .error e) :
    launchPrologue rd fresh (some root) fs r =
        (registrationOrder.map Step.register ++ [.loadState], .error e) ∧
      ∀ st ∈ (launchPrologue rd fresh (some root) fs r).1, st.isThread = false := by
  have h1 : launchPrologue rd fresh (some root) fs r =
      (registrationOrder.map Step.register ++ [.loadState], .error e) := by
    simp only [launchPrologue, h]
  refine ⟨h1, ?_⟩
  rw [h1]
  intro st hst
  simp [registrationOrder] at hst
  rcases hst with rfl | rfl | rfl | rfl | rfl | rfl <;> rfl

/-- Both together: launching from the directory left by a crash raises with no thread constructed. -/
theorem torn_launch_fails (rd : Rd) (s fresh : Sys) (root : Path) (fs : FS) (k len : Nat)
    (r : Clock.R3) (hfresh : Fresh fs root) (hk : k < (saveOps s root).length) :
    ∃ e, (launchPrologue rd fresh (some root) (crash k len (saveOps s root) fs) r).2 = .error e ∧
      ∀ st ∈ (launchPrologue rd fresh (some root) (crash k len (saveOps s root) fs) r).1,
        st.isThread = false := by
  obtain ⟨e, he⟩ := torn_rejected rd s fresh root fs k len r hfresh hk
  obtain ⟨h1, h2⟩ := fails_before_threads rd fresh root _ r e he
  exact ⟨e, by rw [h1], h2⟩

/-! ## Why the order matters (the argument is not vacuous) -/

def demoFs : FS := fun q => if q = ["states"] then some .dir else none

def demoSys : Sys :=
  { interaction := .dir none [("agent", .leaf (.user 3)), ("environment", .leaf (.user 4))]
    models := [], data := [], trainers := [("t", .fin 5)]
    clock := Clock.init ⟨0, 0, 0⟩ ⟨10, 20, 30⟩ }

/-- The same system without trainers: `time.pkl` is the only file a framework reader opens. -/
def demoBare : Sys := { demoSys with trainers := [] }

/-- Were the clock registered *first*, a directory torn right after `time.pkl` would be accepted by
tolerant user components: the traversal of the (hypothetical) layout succeeds although four of the
five registered objects wrote nothing. -/
theorem time_first_would_accept_torn :
    ∃ k : Nat, k < ((demoBare.layoutV true).ops ["states", "s"]).length ∧
      ((demoBare.layoutV true).load ⟨true, fun _ _ => none⟩
        ["states", "s"] (crash k 0 ((demoBare.layoutV true).ops ["states", "s"]) demoFs)).isOk
        = true := by
  refine ⟨3, by decide, ?_⟩
  decide

/-- A torn trainer file *can* be read back as a wrong value (`"12.5"` cut to `"12."` is a float):
the framework's own readers are not all strict, which is why the last-written `time.pkl` carries
the argument. -/
theorem torn_text_can_be_accepted :
    ∃ (rd : Rd) (fs : FS) (p : Path) (x y : ExtRat), x ≠ y ∧
      fs p = some (.file (.part (.text x) 3)) ∧ readText rd fs p = .ok (.text y) := by
  refine ⟨⟨false, fun _ _ => some (.fin 12)⟩, fun _ => some (.file (.part (.text (.fin (25/2))) 3)),
    [], .fin (25/2), .fin 12, ?_, rfl, rfl⟩
  intro h
  injection h with h
  norm_num at h

/-- Non-vacuity of `torn_rejected`: a concrete system, a fresh directory name, a crash point. -/
example : Fresh demoFs ["states", "s"] ∧ 7 < (saveOps demoSys ["states", "s"]).length := by
  constructor
  · intro q hq
    simp only [demoFs]
    split
    · rename_i h; subst h; have := hq.length_le; simp at this
    · rfl
  · decide

end Pamiq.Persist
