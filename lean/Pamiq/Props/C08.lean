/-
C08 — the system runs until told to stop; the uptime limit is in system time.
(a) in `Proto`: shutdown happens only for a cause; (b) bookkeeping never raises (`Bookkeep`, plus the
total operations proved elsewhere: keeper `popleft` C18, `get_nowait` after `has_commands` C17);
(c) the uptime window, from C06's rate theorem.
-/
import Pamiq.Model.Bookkeep
import Pamiq.Props.C09
import Mathlib.Tactic.Linarith
import Mathlib.Tactic.FieldSimp
import Mathlib.Algebra.Order.Field.Rat

namespace Pamiq.Proto

/-- **Only stops for a cause.** In every reachable state in which the shutdown event is set, a SHUTDOWN
command was dequeued, or the uptime test came out true, or the control loop read a raised exception
flag of a background thread, or an exception / interrupt unwound the control loop itself. -/
theorem only_stops_for_cause {n mx : Nat} {s : St} (hr : Reachable n mx s) (h : s.shutdown = true) :
    s.ctl.cause = true ∨ s.ctl.faultSeen = true ∨ s.ctl.ctlFault = true := by
  have hC2 := (reachable_inv hr).1.2
  unfold CInv2 at hC2
  obtain ⟨_, _, _, _, _, _, _, _, _, c10, _, _, c13, _⟩ := hC2
  rcases c10 h with hc | hm
  · exact Or.inl hc
  · exact Or.inr (c13 hm)

/-- `shutdown()` itself is only entered for a cause (or again from `on_finally` after the loop stopped). -/
theorem shutdown_call_needs_cause (s s' : St) (hs : cstep s .cShutdown = some s') :
    s.ctl.cause = true ∨ s.ctl.mustStop = true ∨ s.ctl.stopped = true := by
  simp only [cstep] at hs
  split at hs
  · rename_i hg; exact hg.2
  · contradiction

/-- An exception flag is only ever raised by a thread one of whose user callbacks raised: framework
bookkeeping has no other way to the exception path. -/
theorem exc_flag_needs_user_fault {n mx : Nat} {s : St} (hr : Reachable n mx s) :
    ∀ th ∈ s.thr, th.excFlag = true → th.raised = true := by
  intro th hth
  have hT := (reachable_inv hr).2 th hth
  unfold TInv at hT
  obtain ⟨_, _, _, _, _, _, _, _, _, _, _, _, t13, _⟩ := hT
  exact t13

/-- The control loop notes a fault only by reading a flag that is set. -/
theorem fault_seen_needs_flag (s s' : St) (t : Nat) (v : Bool) (hs : cstep s (.cReadExc t v) = some s')
    (hnew : s'.ctl.faultSeen = true) (hold : s.ctl.faultSeen = false) :
    ∃ th, s.thr[t]? = some th ∧ th.excFlag = true := by
  simp only [cstep] at hs
  split at hs
  · rename_i th hget
    split at hs
    · rename_i hg
      cases hs
      simp [hold] at hnew
      exact ⟨th, hget, by rw [← hg.2]; exact hnew⟩
    · contradiction
  · contradiction

end Pamiq.Proto

namespace Pamiq.Bookkeep

/-- **Step statistics never raise** (repaired code): for every pattern of scheduler firings — every
logging interval ≥ 0, including 0 and "fires after exactly one sample" — and every number of ticks. -/
theorem stats_total (s : Stats) (fires : List Bool) : ∃ s', runTicks true s fires = .ok s' := by
  induction fires generalizing s with
  | nil => exact ⟨s, rfl⟩
  | cons f rest ih =>
    simp only [runTicks, tick]
    split
    · rename_i s1 h1
      exact ih s1
    · rename_i e h1
      exfalso
      revert h1
      repeat' split
      all_goals simp_all

/-- Every statistics line is written over at least one sample (the empty case returns early), and
the sample list is cleared after each line. -/
theorem stats_logged_nonempty (s : Stats) (fires : List Bool) (s' : Stats)
    (h0 : ∀ k ∈ s.logged, 1 ≤ k) (h : runTicks true s fires = .ok s') : ∀ k ∈ s'.logged, 1 ≤ k := by
  induction fires generalizing s with
  | nil => simp [runTicks] at h; subst h; exact h0
  | cons f rest ih =>
    simp only [runTicks] at h
    split at h
    · rename_i s1 h1
      apply ih s1 _ h
      simp only [tick] at h1
      repeat' split at h1
      all_goals first
        | contradiction
        | (cases h1
           intro k hk
           first
             | exact h0 k hk
             | (simp only [List.mem_append, List.mem_singleton] at hk
                rcases hk with hk | rfl
                · exact h0 k hk
                · omega))
    · contradiction

/-- The code as found raises as soon as the interval fires after exactly one recorded tick — any
interval shorter than two steps, including 0 (finding F5). -/
theorem stats_unguarded_raises : runTicks false {} [false, true] = .error .statisticsError := by decide

/-- Consecutive checks (starting after `prev`) are at most `δ` apart. -/
def Gaps (δ : Rat) : Rat → List Rat → Prop
  | _, [] => True
  | p, x :: xs => x - p ≤ δ ∧ Gaps δ x xs

/-- **Uptime window.** With constant scale `sc > 0`, checks of the uptime test at unpaused real
elapsed times `e₀ ≤ e₁ ≤ …` (paused intervals do not count: C06), the first at most `δ` after the
start and consecutive ones at most `δ` apart: the first check at which the limit `U ≥ 0` is found
exceeded lies in `(U/sc, U/sc + δ]`. -/
theorem uptime_window (sc U δ : Rat) (hsc : 0 < sc) (hU : 0 ≤ U) (prev : Rat) (es : List Rat)
    (hprev : sc * prev ≤ U) (hchain : Gaps δ prev es)
    (e : Rat) (h : firstReached sc U es = some e) : U / sc < e ∧ e ≤ U / sc + δ := by
  induction es generalizing prev with
  | nil => simp [firstReached] at h
  | cons x xs ih =>
    simp only [firstReached] at h
    obtain ⟨hx, hrest⟩ := hchain
    · split at h
      · rename_i hr
        cases h
        simp only [uptimeReached, decide_eq_true_eq] at hr
        constructor
        · rw [div_lt_iff₀ hsc]; linarith
        · have : prev ≤ U / sc := by rw [le_div_iff₀ hsc]; linarith
          linarith
      · rename_i hr
        simp only [uptimeReached, decide_eq_true_eq, not_lt] at hr
        exact ih x hr hrest h

/-- If the limit is finite and the checks go on (unbounded elapsed time), the test does fire. -/
theorem uptime_fires (sc U : Rat) (es : List Rat) (e : Rat) (he : e ∈ es) (hgt : sc * e > U) :
    ∃ e', firstReached sc U es = some e' := by
  induction es with
  | nil => simp at he
  | cons x xs ih =>
    simp only [firstReached]
    split
    · exact ⟨x, rfl⟩
    · rename_i hx
      rcases List.mem_cons.mp he with rfl | hm
      · simp [uptimeReached, hgt] at hx
      · exact ih hm

/-! Non-vacuity. -/
example : runTicks true {} [false, true, true, false, false, true] =
    .ok { tickStart := true, n := 0, logged := [1, 1, 3] } := by decide

example : firstReached 2 10 [1, 3, 9/2, 11/2, 6] = some (11/2) ∧
    Gaps 2 0 [1, 3, 9/2, 11/2, 6] := by
  constructor
  · norm_num [firstReached, uptimeReached]
  · norm_num [Gaps]

end Pamiq.Bookkeep
