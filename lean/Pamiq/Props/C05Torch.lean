/-
C05, PyTorch trainer part — the optimizer and LR-scheduler states a `TorchTrainer` keeps survive
save → load into a fresh trainer exactly: same names, same payloads, same order, for every set of
names (any characters, including further dots and the suffix text itself) and every number of them.
Model: `Pamiq/Model/TorchTrainer.lean`.

`load_save_torch` is about the repaired name recovery (`removesuffix`); for the code as found
(`str.replace`, every occurrence removed) `as_found_renames_state` exhibits a name that does not
survive, and `as_found_setup_fails`: the next `setup()` then raises `KeyError` (replayed on the real
class by `harness/corr/c05_torch.py`).
-/
import Pamiq.Model.TorchTrainer
namespace Pamiq.TorchTrainer

theorem stripSuffix_fileOf (suf n : Name) : stripSuffix suf (fileOf suf n) = n := by
  simp [stripSuffix, fileOf]

theorem matches_fileOf (suf n : Name) : matchesSuffix suf (fileOf suf n) = true := by
  simp [matchesSuffix, fileOf]

/-- A file written for one kind is never picked up by the glob of the other kind. -/
theorem other_kind_not_matched (s1 s2 n : Name) (hlen : s1.length = s2.length) (hne : s1 ≠ s2) :
    matchesSuffix s1 (fileOf s2 n) = false := by
  cases h : matchesSuffix s1 (fileOf s2 n) with
  | false => rfl
  | true =>
    exfalso
    simp only [matchesSuffix, fileOf, List.isSuffixOf_iff_suffix] at h
    obtain ⟨t, ht⟩ := h
    have := List.append_inj' ht hlen
    exact hne this.2

theorem optim_ne_lrsch : optimSuffix ≠ lrschSuffix := by decide
theorem suffix_lengths : optimSuffix.length = lrschSuffix.length := by decide

def keys (d : List (Name × Nat)) : List Name := d.map (·.1)

theorem assign_fresh (d : List (Name × Nat)) (k : Name) (v : Nat) (h : k ∉ keys d) :
    assign d k v = d ++ [(k, v)] := by
  simp only [assign]
  split
  · rename_i hany
    exfalso
    simp only [List.any_eq_true, beq_iff_eq] at hany
    obtain ⟨p, hp, rfl⟩ := hany
    exact h (List.mem_map_of_mem hp)
  · rfl

/-- Assigning a list of entries with distinct, fresh keys appends them in order. -/
theorem foldl_assign_fresh (entries acc : List (Name × Nat)) (hnd : (keys entries).Nodup)
    (hdis : ∀ k ∈ keys entries, k ∉ keys acc) :
    entries.foldl (fun a p => assign a p.1 p.2) acc = acc ++ entries := by
  induction entries generalizing acc with
  | nil => simp
  | cons e rest ih =>
    simp only [List.foldl_cons]
    have he : e.1 ∉ keys acc := hdis e.1 (by simp [keys])
    rw [assign_fresh acc e.1 e.2 he]
    simp only [keys, List.map_cons, List.nodup_cons] at hnd
    rw [ih (acc ++ [(e.1, e.2)]) hnd.2]
    · simp
    · intro k hk hmem
      simp only [keys, List.map_append, List.map_cons, List.map_nil, List.mem_append,
        List.mem_singleton] at hmem
      rcases hmem with hmem | rfl
      · exact hdis k (by simp only [keys, List.map_cons, List.mem_cons]; exact Or.inr hk) hmem
      · exact hnd.1 hk

/-- Loading the files of one kind, written from `states`, among files of the other kind. -/
theorem loadFiles_saveFiles (suf other : Name) (hlen : suf.length = other.length) (hne : suf ≠ other)
    (states others : List (Name × Nat)) (hnd : (keys states).Nodup) (pre : Bool) :
    loadFiles true suf
      (if pre then saveFiles other others ++ saveFiles suf states
       else saveFiles suf states ++ saveFiles other others) [] = states := by
  have hfilter1 : (saveFiles suf states).filter (fun p => matchesSuffix suf p.1) = saveFiles suf states := by
    rw [List.filter_eq_self]
    intro p hp
    simp only [saveFiles, List.mem_map] at hp
    obtain ⟨q, _, rfl⟩ := hp
    exact matches_fileOf suf q.1
  have hfilter2 : (saveFiles other others).filter (fun p => matchesSuffix suf p.1) = [] := by
    rw [List.filter_eq_nil_iff]
    intro p hp
    simp only [saveFiles, List.mem_map] at hp
    obtain ⟨q, _, rfl⟩ := hp
    simp [other_kind_not_matched suf other q.1 hlen hne]
  have hfold : (saveFiles suf states).foldl
      (fun acc p => assign acc (nameOfFile true suf p.1) p.2) [] = states := by
    have : (saveFiles suf states).foldl (fun acc p => assign acc (nameOfFile true suf p.1) p.2) [] =
        states.foldl (fun a p => assign a p.1 p.2) [] := by
      simp only [saveFiles, List.foldl_map, nameOfFile, if_true, stripSuffix_fileOf]
    rw [this, foldl_assign_fresh states [] hnd (by intro k _ h; simp [keys] at h)]
    simp
  cases pre <;> simp only [loadFiles, List.filter_append, hfilter1, hfilter2, List.append_nil,
    List.nil_append, Bool.false_eq_true, if_false, if_true] <;> exact hfold

/-- **Round trip.** What a trainer kept (`teardown`) and saved is what a fresh trainer holds after
`load_state`: every optimizer and scheduler state under its own name, in the same order. -/
theorem load_save_torch (t : T) (ho : (keys t.optStates).Nodup) (hs : (keys t.schStates).Nodup) :
    T.load true {} (T.save t) = t := by
  have h1 := loadFiles_saveFiles optimSuffix lrschSuffix suffix_lengths optim_ne_lrsch
    t.optStates t.schStates ho false
  have h2 := loadFiles_saveFiles lrschSuffix optimSuffix suffix_lengths.symm (Ne.symm optim_ne_lrsch)
    t.schStates t.optStates hs true
  simp only [Bool.false_eq_true, if_false, if_true] at h1 h2
  simp only [T.load, T.save]
  rw [h1, h2]

/-- … hence the next `setup()` finds an object for every restored state whenever the previous run's
`create_optimizers()` names are created again. -/
theorem setup_ok_after_reload (t : T) (ho : (keys t.optStates).Nodup) (hs : (keys t.schStates).Nodup)
    (optNames schNames : List Name) (h : t.setup optNames schNames = .ok ()) :
    (T.load true {} (T.save t)).setup optNames schNames = .ok () := by
  rw [load_save_torch t ho hs]; exact h

/-- The code as found (`str.replace`) loses a name that contains the suffix text: the state comes
back under another name … -/
theorem as_found_renames_state :
    (T.load false {} (T.save { optStates := [("enc.optim.pt.v2".toList, 7)] })).optStates =
      [("enc.v2".toList, 7)] := by decide

/-- … and the following `setup()` raises `KeyError`, although the same optimizers are created. -/
theorem as_found_setup_fails :
    (T.load false {} (T.save { optStates := [("enc.optim.pt.v2".toList, 7)] })).setup
      ["enc.optim.pt.v2".toList] [] = .error .keyError := by
  have : (T.load false {} (T.save { optStates := [("enc.optim.pt.v2".toList, 7)] })).setupOk
      ["enc.optim.pt.v2".toList] [] = false := by decide
  unfold T.setup
  rw [this]
  rfl

/-- For names that do not contain the suffix text the two readings agree (why ordinary use never
shows the difference): removing all occurrences of a pattern that occurs only at the very end. -/
example : nameOfFile false optimSuffix (fileOf optimSuffix "policy.adam".toList) = "policy.adam".toList := by
  decide

/-! Non-vacuity of the round trip: two optimizers (one with the suffix text inside its name) and a
scheduler whose name ends like an optimizer file. -/
example : T.load true {} (T.save { optStates := [("enc.optim.pt.v2".toList, 7), ("dec".toList, 3)],
                                   schStates := [("warmup.optim.pt".toList, 5)] }) =
    { optStates := [("enc.optim.pt.v2".toList, 7), ("dec".toList, 3)],
      schStates := [("warmup.optim.pt".toList, 5)] } := by decide

end Pamiq.TorchTrainer
