/-
C09, protocol-language part — along *every* execution the phases of a background thread follow

      start · ( tick | pause · resume )* · [ pause ] · finish

i.e. the pause and resume phases (`on_paused` … flag / flag cleared … `on_resumed`) strictly alternate
starting with a pause, no tick (step / training run) lies between a pause phase and the matching
resume phase, nothing precedes the start, the finish (exception path / `on_finally`, hence teardown)
is entered at most once and nothing follows it — on every exit path: normal shutdown, shutdown while
paused, a fault in any callback including setup and the hooks.

`Props/C09.lean` ties every callback kind to its phase (`cb_only_in_its_phase`); this file proves
the phase sequence itself by refinement: the automaton state is related to the thread's program
counter by `Rel`, every action of the model either emits the phase event the automaton expects or
leaves the automaton state related.
-/
import Pamiq.Props.C09
import Pamiq.Props.C02Live
namespace Pamiq.Proto

inductive PhaseEv | start | tick | pause | resume | finish
deriving DecidableEq, Repr

inductive PState | q0 | run | paused | fin
deriving DecidableEq, Repr

/-- The protocol automaton. -/
def pstep : PState → PhaseEv → Option PState
  | .q0, .start => some .run
  | .run, .tick => some .run
  | .run, .pause => some .paused
  | .paused, .resume => some .run
  | .run, .finish => some .fin
  | .paused, .finish => some .fin
  | _, _ => none

/-- The phase event of thread `t` that action `a` constitutes in state `s` (if any): the thread is
started; its loop guard finds a pause requested and enters `on_paused`; it clears its flag and enters
`on_resumed`; it reads the shutdown event clear and enters `on_tick`; it reads it set, or a callback
raises outside `on_finally`, and it enters the exception / finally path. -/
def phaseEv (s : St) (t : Nat) : Act → Option PhaseEv
  | .cSpawn u => if u = t then some .start else none
  | .bReadResume u v =>
    if u = t ∧ v = false then
      match s.thr[t]? with
      | some th => if (th.pc = .start ∨ th.pc = .top) ∧ th.inCb = none ∧ th.localPaused = false then some .pause else none
      | none => none
    else none
  | .bClearPaused u => if u = t then some .resume else none
  | .bReadShutdown u v =>
    if u = t then
      match s.thr[t]? with
      | some th =>
        if th.pc = .chk ∨ (th.pc = .afterWait ∧ th.localPaused = false) then
          (if v then some .finish else some .tick)
        else none
      | none => none
    else none
  | .bCbRaise u _ =>
    if u = t then
      match s.thr[t]? with
      | some th => if th.pc = .fin then none else some .finish
      | none => none
    else none
  | _ => none

/-- How the automaton state shows in the thread's record. -/
def Rel (q : PState) (th : BThread) : Prop :=
  match q with
  | .q0 => th.pc = .new ∧ th.localPaused = false
  | .run => th.localPaused = false ∧
      (th.pc = .start ∨ th.pc = .top ∨ th.pc = .waitEnter ∨ th.pc = .blocked ∨ th.pc = .afterWait ∨
       th.pc = .chk ∨ th.pc = .tick ∨ th.pc = .hooksR)
  | .paused => (th.pc = .hooksP ∧ th.localPaused = false) ∨
      (th.localPaused = true ∧
        (th.pc = .waitEnter ∨ th.pc = .blocked ∨ th.pc = .afterWait ∨ th.pc = .top ∨ th.pc = .leave ∨
         th.pc = .leaveBack ∨ th.pc = .clearing))
  | .fin => th.pc = .exc ∨ th.pc = .excHeld ∨ th.pc = .fin ∨ th.pc = .dying ∨ th.pc = .done

/-- Next automaton state: follow the event if the action is one, stay otherwise. -/
def pnext (q : PState) : Option PhaseEv → Option PState
  | none => some q
  | some e => pstep q e

/-- The action is acceptable to the automaton in state `q` and leaves the thread related. -/
def Good (q : PState) (ev : Option PhaseEv) (th' : BThread) : Prop :=
  match pnext q ev with
  | some q' => Rel q' th'
  | none => False

theorem rel_bstep {s s' : St} {t : Nat} {th : BThread} {a : Act} {q : PState}
    (hcb : th.inCb.isSome = true → cbPc th.pc = true)
    (hnew : th.pc = .new → th.inCb = none)
    (hget : s.thr[t]? = some th) (hrel : Rel q th) (hat : a.thread = some t)
    (hs : bstep s t th a = some s') :
    ∃ th', s'.thr[t]? = some th' ∧ Good q (phaseEv s t a) th' := by
  have hlen : t < s.thr.length := by
    rcases Nat.lt_or_ge t s.thr.length with h | h
    · exact h
    · simp [List.getElem?_eq_none_iff.mpr h] at hget
  cases a <;> simp only [Act.thread, Option.some.injEq] at hat <;> try contradiction
  all_goals subst hat
  all_goals simp only [bstep] at hs
  all_goals
    (repeat' split at hs
     all_goals first
       | contradiction
       | (cases hs
          refine ⟨_, by simp only [St.setThr]; exact List.getElem?_set_self hlen, ?_⟩
          simp only [Good, phaseEv, hget, pnext, cbPc] at hcb ⊢
          cases q <;> simp only [Rel] at hrel <;> cases hpc : th.pc <;> simp_all [pstep, Rel]))

theorem Rel_congr {q : PState} {th th' : BThread} (h1 : th'.pc = th.pc)
    (h2 : th'.localPaused = th.localPaused) (h : Rel q th) : Rel q th' := by
  cases q <;> simp only [Rel, h1, h2] at h ⊢ <;> exact h

theorem Good_none {q : PState} {th : BThread} (h : Rel q th) : Good q none th := by
  simp only [Good, pnext]; exact h

/-- Actions of another thread are no phase events of `t`. -/
theorem phaseEv_other {s : St} {t u : Nat} {a : Act} (hat : a.thread = some u) (hne : u ≠ t) :
    phaseEv s t a = none := by
  cases a <;> simp only [Act.thread, Option.some.injEq] at hat <;> try contradiction
  all_goals subst hat
  all_goals simp [phaseEv, hne]

theorem rel_cstep {s s' : St} {t : Nat} {th : BThread} {a : Act} {q : PState}
    (hget : s.thr[t]? = some th) (hrel : Rel q th) (hs : cstep s a = some s') :
    ∃ th', s'.thr[t]? = some th' ∧ Good q (phaseEv s t a) th' := by
  have hlen : t < s.thr.length := by
    rcases Nat.lt_or_ge t s.thr.length with h | h
    · exact h
    · simp [List.getElem?_eq_none_iff.mpr h] at hget
  cases a <;> simp only [cstep] at hs
  case cSpawn u =>
    split at hs
    · rename_i thu hgetu
      split at hs
      · rename_i hc
        cases hs
        by_cases hut : u = t
        · subst hut
          rw [hget] at hgetu; cases hgetu
          refine ⟨_, by simp only [St.setThr]; exact List.getElem?_set_self hlen, ?_⟩
          simp only [Good, phaseEv, if_true, pnext]
          cases q <;> simp only [Rel] at hrel <;> simp_all [pstep, Rel]
        · refine ⟨th, ?_, ?_⟩
          · simp only [St.setThr]; rw [List.getElem?_set_ne hut]; exact hget
          · simp only [phaseEv, hut, if_false]; exact Good_none hrel
      · contradiction
    · contradiction
  case cSpawnWorker u =>
    split at hs
    · rename_i thu hgetu
      split at hs
      · cases hs
        by_cases hut : u = t
        · subst hut
          rw [hget] at hgetu; cases hgetu
          exact ⟨{ th with wSpawned := true }, by simp only [St.setThr]; exact List.getElem?_set_self hlen,
            Good_none (Rel_congr rfl rfl hrel)⟩
        · exact ⟨th, by simp only [St.setThr]; rw [List.getElem?_set_ne hut]; exact hget, Good_none hrel⟩
      · contradiction
    · contradiction
  case wRet u r =>
    split at hs
    · rename_i thu hgetu
      split at hs
      · cases hs
        by_cases hut : u = t
        · subst hut
          rw [hget] at hgetu; cases hgetu
          exact ⟨{ th with wRes := some r }, by simp only [St.setThr]; exact List.getElem?_set_self hlen,
            Good_none (Rel_congr rfl rfl hrel)⟩
        · exact ⟨th, by simp only [St.setThr]; rw [List.getElem?_set_ne hut]; exact hget, Good_none hrel⟩
      · contradiction
    · contradiction
  case cJoin u =>
    split at hs
    · rename_i thu hgetu
      split at hs
      · cases hs
        by_cases hut : u = t
        · subst hut
          rw [hget] at hgetu; cases hgetu
          exact ⟨{ th with joined := true }, by simp only [St.setThr]; exact List.getElem?_set_self hlen,
            Good_none (Rel_congr rfl rfl hrel)⟩
        · exact ⟨th, by simp only [St.setThr]; rw [List.getElem?_set_ne hut]; exact hget, Good_none hrel⟩
      · contradiction
    · contradiction
  case cIsAlive u v =>
    split at hs
    · rename_i thu hgetu
      split at hs
      · cases hs
        split
        · exact ⟨th, hget, Good_none hrel⟩
        · by_cases hut : u = t
          · subst hut
            rw [hget] at hgetu; cases hgetu
            exact ⟨{ th with joined := true }, by simp only [St.setThr]; exact List.getElem?_set_self hlen,
              Good_none (Rel_congr rfl rfl hrel)⟩
          · exact ⟨th, by simp only [St.setThr]; rw [List.getElem?_set_ne hut]; exact hget, Good_none hrel⟩
      · contradiction
    · contradiction
  case cRelease =>
    repeat' split at hs
    all_goals first
      | contradiction
      | (cases hs
         first
         | exact ⟨th, hget, Good_none hrel⟩
         | (refine ⟨{ th with wSpawned := false, wRes := none }, ?_, Good_none (Rel_congr rfl rfl hrel)⟩
            simp [resetWorkers, hget]))
  case cSetResume =>
    repeat' split at hs
    all_goals first
      | contradiction
      | (cases hs
         refine ⟨{ th with notified := if th.pc = .blocked then true else th.notified }, ?_,
           Good_none (Rel_congr rfl rfl hrel)⟩
         simp [notifyAll, hget])
  all_goals
    (repeat' split at hs
     all_goals first
       | contradiction
       | (cases hs; exact ⟨th, hget, Good_none hrel⟩))

/-- **One step of the whole system refines the automaton of thread `t`.** -/
theorem rel_step {s s' : St} {t : Nat} {th : BThread} {a : Act} {q : PState} (hI : HInv s)
    (hget : s.thr[t]? = some th) (hrel : Rel q th) (hs : step s a = some s') :
    ∃ th', s'.thr[t]? = some th' ∧ Good q (phaseEv s t a) th' := by
  cases hat : a.thread with
  | none =>
    simp only [step, hat] at hs
    exact rel_cstep hget hrel hs
  | some u =>
    simp only [step, hat] at hs
    split at hs
    · rename_i thu hgetu
      by_cases hut : u = t
      · subst hut
        rw [hget] at hgetu; cases hgetu
        have hT := hI.2 th (mem_of_getElem? hget)
        unfold TInv at hT
        exact rel_bstep hT.2.1 (fun h => (hT.2.2.2.2.2.2.2.2.2.2.2.1 h).1) hget hrel hat hs
      · obtain ⟨thx, hthr, _, _⟩ := bstep_thr hs
        refine ⟨th, ?_, ?_⟩
        · rw [hthr, List.getElem?_set_ne hut]; exact hget
        · rw [phaseEv_other hat hut]; exact Good_none hrel
    · contradiction

/-- The automaton run over the phase events of thread `t` along a trace; `none` if it gets stuck. -/
def follow (t : Nat) : PState → St → List Act → Option PState
  | q, _, [] => some q
  | q, s, a :: rest =>
    match step s a, pnext q (phaseEv s t a) with
    | some s', some q' => follow t q' s' rest
    | _, _ => none

theorem follow_run {s s' : St} {t : Nat} {th : BThread} {q : PState} (tr : List Act) (hI : HInv s)
    (hget : s.thr[t]? = some th) (hrel : Rel q th) (h : run s tr = some s') :
    ∃ q' th', follow t q s tr = some q' ∧ s'.thr[t]? = some th' ∧ Rel q' th' := by
  induction tr generalizing s q th with
  | nil =>
    simp only [run, Option.some.injEq] at h
    subst h
    exact ⟨q, th, rfl, hget, hrel⟩
  | cons a rest ih =>
    simp only [run] at h
    cases hs : step s a with
    | none => simp [hs] at h
    | some s1 =>
      simp only [hs] at h
      obtain ⟨th1, hget1, hgood⟩ := rel_step hI hget hrel hs
      simp only [Good] at hgood
      cases hq : pnext q (phaseEv s t a) with
      | none => simp [hq] at hgood
      | some q1 =>
        simp only [hq] at hgood
        obtain ⟨q', th', hf, hg, hr⟩ := ih (step_inv hI hs) hget1 hgood h
        exact ⟨q', th', by simp only [follow, hs, hq]; exact hf, hg, hr⟩

/-- **Protocol language.** For every number of threads, retry limit and trace from the initial state,
the phase events of every background thread are accepted by the automaton
`start (tick | pause resume)* [pause] finish`, and the automaton state it ends in describes where the
thread is: in particular a thread whose automaton is in `paused` can begin no step, and one in `fin`
never leaves it. -/
theorem phase_protocol {n mx : Nat} {s : St} (t : Nat) (ht : t < n) (tr : List Act)
    (h : run (init n mx) tr = some s) :
    ∃ q th, follow t .q0 (init n mx) tr = some q ∧ s.thr[t]? = some th ∧ Rel q th := by
  have hget : (init n mx).thr[t]? = some {} := by
    simp [init, List.getElem?_replicate, ht]
  exact follow_run tr (HInv_init n mx) hget (by simp [Rel]) h

/-- Reading the automaton: the rejected successions. -/
theorem automaton_rejects :
    pstep .paused .tick = none ∧ pstep .paused .pause = none ∧ pstep .run .resume = none ∧
    pstep .q0 .tick = none ∧ pstep .q0 .pause = none ∧ pstep .q0 .finish = none ∧
    (∀ e, pstep .fin e = none) ∧ pstep .run .start = none ∧ pstep .paused .start = none := by
  refine ⟨rfl, rfl, rfl, rfl, rfl, rfl, ?_, rfl, rfl⟩
  intro e; cases e <;> rfl

/-- While the automaton of a thread is in `paused`, no step callback can begin in it. -/
theorem paused_state_no_step {s : St} {t : Nat} {th : BThread} (hget : s.thr[t]? = some th)
    (hrel : Rel .paused th) : step s (.bCbBegin t .step) = none := by
  simp only [step, Act.thread, hget, bstep]
  simp only [Rel] at hrel
  have : cbAllowed th.pc .step = false := by
    rcases hrel with ⟨h, _⟩ | ⟨_, h⟩
    · simp [h, cbAllowed]
    · rcases h with h | h | h | h | h | h | h <;> simp [h, cbAllowed]
  simp [this]

/-! Non-vacuity: the C01 witness trace drives thread 0 through start · pause (stale acknowledgement,
back to waiting) and thread 1 through start · pause; the automaton accepts and ends in `paused`. -/
example : follow 0 .q0 (init 2 2) witnessTrace = some .paused ∧
    follow 1 .q0 (init 2 2) witnessTrace = some .paused := by decide

end Pamiq.Proto
