/-
C04 — a state saved while running is one consistent snapshot.
Protocol part (this file, model `Proto`): a runtime save is written only while a pause is
acknowledged, so by C01 nothing runs and nothing changes between the acknowledgement and the end
of the save; afterwards the system runs iff it ran before. Data part ("nothing left in transit",
timestamps): `Props/C07.lean` (`DataUser.save_state` flushes the collector first).
-/
import Pamiq.Props.C03
namespace Pamiq.Proto

/-- **A runtime save happens only under an acknowledged pause.** -/
theorem save_only_when_paused {n mx : Nat} {s : St} (hr : Reachable n mx s)
    (h : s.ctl.pc = .svBegin ∨ s.ctl.pc = .svIn) : s.ctl.paused = true := by
  have hC2 := (reachable_inv hr).1.2
  unfold CInv2 at hC2
  rcases h with h | h
  · exact hC2.1 (Or.inl h)
  · exact hC2.1 (Or.inr (Or.inl h))

/-- Hence for the whole duration of a runtime save every background thread is quiescent, flagged
paused, and the clock is frozen: the values the components write are those of one instant. -/
theorem save_sees_quiescent_system {n mx : Nat} {s : St} (hr : Reachable n mx s)
    (h : s.ctl.pc = .svBegin ∨ s.ctl.pc = .svIn) :
    (∀ th ∈ s.thr, th.inCb = none ∧ th.inWait = true ∧ th.pausedFlag = true) ∧
      s.clockPaused = true ∧ s.resume = false :=
  ⟨ack_quiescent hr (save_only_when_paused hr h), clock_frozen hr (save_only_when_paused hr h)⟩

/-- No background action changes a step counter while a save is in progress (cut consistency:
the counters read by the first save callback are those read by the last). -/
theorem no_step_completes_during_save {n mx : Nat} {s s' : St} (hr : Reachable n mx s)
    (h : s.ctl.pc = .svBegin ∨ s.ctl.pc = .svIn) (t : Nat) (k : CbKind) :
    step s (.bCbEnd t k) = none := by
  simp only [step, Act.thread]
  split
  · rename_i th hget
    have hq := (save_sees_quiescent_system hr h).1 th (mem_of_getElem? hget)
    simp [bstep, hq.1]
  · rfl

/-- `save_state()` resumes afterwards exactly when the system was not already paused. -/
theorem save_end_resumes_iff_was_running (s s' : St) (hs : cstep s .cSaveEnd = some s') :
    (s'.ctl.pc = .svAfter ↔ s.ctl.already = false) ∧ (s'.ctl.pc = .svRet ↔ s.ctl.already = true) := by
  simp only [cstep] at hs
  split at hs
  · cases hs
    cases s.ctl.already <;> simp
  · contradiction

/-- `already` is the state of the resume event when `save_state()` was entered. -/
theorem save_records_paused_before (s s' : St) (hs : cstep s .cSave = some s') :
    s'.ctl.already = !s.resume := by
  simp only [cstep] at hs
  split at hs
  · cases hs; rfl
  · contradiction

/-- After a save that has to resume, the only API-level call the control thread can make is
`resume()` (or an exception unwinds it). -/
theorem after_save_only_resume (s s' : St) (a : Act) (hpc : s.ctl.pc = .svAfter)
    (hs : cstep s a = some s') : a = .cResume ∨ a = .cExc ∨ (∃ t r, a = .wRet t r) := by
  cases a <;> simp [cstep, hpc] at hs
  case cResume => exact Or.inl rfl
  case cExc => exact Or.inr (Or.inl rfl)
  case wRet t r => exact Or.inr (Or.inr ⟨t, r, rfl⟩)
  all_goals
    (first
      | contradiction
      | (repeat' split at hs
         all_goals first | contradiction | simp_all))

/-- The final state is written after every thread has exited or, when the start-up was cut short,
was never started (nothing can change underneath it: `done_is_final`, `never_started_is_final`). -/
theorem final_save_after_all_exited {n mx : Nat} {s : St} (hr : Reachable n mx s)
    (h : s.ctl.pc = .finalIn) : ∀ th ∈ s.thr, th.pc = .done ∨ th.pc = .new :=
  (final_save_last hr (Or.inl h)).1

/-! Non-vacuity: a save command while running, from the C01 witness (paused by the save's own
try_pause): reaches `svIn` under an acknowledged pause. -/
def saveTrace : List Act :=
  [.cSpawn 0, .cSpawn 1, .cRun, .cSave, .cTryPause, .cAcquire, .cClearResume, .cRelease,
   .cSpawnWorker 0, .cSpawnWorker 1,
   .bReadResume 0 false, .bSetPaused 0, .bWaitBlock 0,
   .bReadResume 1 false, .bSetPaused 1, .bWaitBlock 1,
   .wRet 0 true, .wRet 1 true, .cWorkersJoined, .cClockPause, .cTryPauseRet true, .cSaveBegin,
   .cSaveCbBegin]

example : ∃ s, Reachable 2 3 s ∧ s.ctl.pc = .svIn ∧ s.ctl.inCb = true ∧ s.ctl.already = false := by
  refine ⟨(run (init 2 3) saveTrace).get (by decide), ⟨saveTrace, by simp⟩, ?_, ?_, ?_⟩ <;> decide

end Pamiq.Proto
