/-
C18 — state retention keeps the newest states and deletes nothing else.
Property theorems only. Model: `Pamiq/Model/Keeper.lean` (tied to `StatesKeeper` /
`LatestStatesKeeper` in `pamiq_core/state_persistence.py` by the correspondence check
`harness/corr/c18.py`). Helper lemmas: `Pamiq/Lemmas/Keeper.lean`.
-/
import Pamiq.Lemmas.Keeper

namespace Pamiq.Keeper
open Pamiq

/-! ## Constructor -/

/-- **The constructor rejects `max_keep < 0`** and accepts every `max_keep ≥ 0`, tracking the
initial scan. -/
theorem ctor_rejects_negative (maxKeep : Int) (dir pattern : String) (listing : List Entry) :
    (maxKeep < 0 → Keeper.ctor maxKeep dir pattern listing = .error .value) ∧
    (0 ≤ maxKeep → Keeper.ctor maxKeep dir pattern listing =
      .ok ⟨maxKeep.toNat, initialScan dir pattern listing⟩) := by
  constructor
  · intro h; simp [Keeper.ctor, h]
  · intro h; simp [Keeper.ctor, Int.not_lt.mpr h]

/-- The initial scan tracks exactly the entries matching the pattern — nothing else in the
directory — … -/
theorem scan_tracks_matching (dir pattern : String) (listing : List Entry) (p : Path) :
    p ∈ initialScan dir pattern listing ↔
      ∃ e ∈ listing, matchesPattern pattern e.name = true ∧ p = joinPath dir e.name := by
  simp only [initialScan, List.mem_map]
  constructor
  · rintro ⟨e, he, rfl⟩
    have := (sortByMtime_perm _).mem_iff.mp he
    simp only [List.mem_filter] at this
    exact ⟨e, this.1, this.2, rfl⟩
  · rintro ⟨e, he, hm, rfl⟩
    exact ⟨e, (sortByMtime_perm _).mem_iff.mpr (by simp [List.mem_filter, he, hm]), rfl⟩

/-- … oldest first: it is the list of matching entries ordered by modification time (with
distinct times this order is unique). -/
theorem scan_sorted (dir pattern : String) (listing : List Entry) :
    ∃ es : List Entry, initialScan dir pattern listing = es.map (fun e => joinPath dir e.name) ∧
      es.Perm (listing.filter fun e => matchesPattern pattern e.name) ∧
      es.Pairwise fun a b => a.mtime ≤ b.mtime :=
  ⟨_, rfl, sortByMtime_perm _, sortByMtime_sorted _⟩

/-- Directory entries have distinct names, so the initial scan tracks distinct paths. -/
theorem scan_nodup (dir pattern : String) (listing : List Entry)
    (h : (listing.map (·.name)).Nodup) : (initialScan dir pattern listing).Nodup := by
  unfold initialScan
  have h1 : ((listing.filter fun e => matchesPattern pattern e.name).map (·.name)).Nodup :=
    List.Nodup.sublist (List.Sublist.map _ List.filter_sublist) h
  have h2 : ((sortByMtime (listing.filter fun e => matchesPattern pattern e.name)).map (·.name)).Nodup :=
    ((sortByMtime_perm _).map _).nodup_iff.mpr h1
  have := nodup_map_inj (joinPath dir) (joinPath_inj dir) _ h2
  rw [List.map_map] at this
  exact this

/-! ## One cleanup -/

theorem selectRemoval_eq (k : Keeper) :
    k.selectRemoval.1 = k.paths.take (k.paths.length - k.maxKeep) ∧
    k.selectRemoval.2.paths = lastN k.maxKeep k.paths ∧
    k.selectRemoval.2.maxKeep = k.maxKeep := by
  unfold Keeper.selectRemoval lastN
  split
  · rename_i h
    have : k.paths.length - k.maxKeep = 0 := by omega
    simp [this]
  · exact ⟨rfl, rfl, rfl⟩

/-- **Never deletes any of the `max_keep` most recently saved states** (one cleanup, any file
system): the last `max_keep` tracked paths are not passed to removal, keep existing exactly as
before and stay tracked. Needs the tracked paths to be distinct (see `fresh_nodup`). -/
theorem keeps_newest_step (k : Keeper) (fs : FS) (hn : k.paths.Nodup) :
    ∀ p ∈ lastN k.maxKeep k.paths,
      p ∉ (k.cleanup fs).removed ∧ (k.cleanup fs).fs.kind? p = fs.kind? p ∧
      p ∈ (k.cleanup fs).keeper.paths := by
  intro p hp
  obtain ⟨e1, e2, _⟩ := selectRemoval_eq k
  obtain ⟨rem, h1, h2, h3, _, _⟩ := rmLoop_spec k.selectRemoval.1 fs []
  have hdisj : p ∉ k.selectRemoval.1 := by
    rw [e1]
    intro hin
    have hsplit := List.take_append_drop (k.paths.length - k.maxKeep) k.paths
    rw [← hsplit, List.nodup_append] at hn
    exact hn.2.2 p hin p hp rfl
  have hrem : p ∉ rem := fun h => hdisj (h2 p h).1
  refine ⟨?_, ?_, ?_⟩
  · simp only [Keeper.cleanup, h1, List.nil_append]; exact hrem
  · simp only [Keeper.cleanup]; rw [h3]; simp [hrem]
  · simp only [Keeper.cleanup, e2]; exact hp

/-- **Deletes every older tracked one at cleanup**: afterwards exactly the last `max_keep` paths
are tracked, and (when `rmtree` did not raise, which is the case when no tracked path is a regular
file) no older tracked path exists any more; those that existed are in the returned list. -/
theorem removes_older_step (k : Keeper) (fs : FS) :
    (k.cleanup fs).keeper.paths = lastN k.maxKeep k.paths ∧
    (k.cleanup fs).keeper.maxKeep = k.maxKeep ∧
    ((∀ p ∈ k.paths, fs.kind? p ≠ some .file) → (k.cleanup fs).err = none) ∧
    ((k.cleanup fs).err = none →
      ∀ p ∈ k.paths.take (k.paths.length - k.maxKeep),
        (k.cleanup fs).fs.kind? p = none ∧ (fs.kind? p ≠ none → p ∈ (k.cleanup fs).removed)) := by
  obtain ⟨e1, e2, e3⟩ := selectRemoval_eq k
  obtain ⟨rem, h1, h2, h3, h4, h5⟩ := rmLoop_spec k.selectRemoval.1 fs []
  refine ⟨e2, e3, ?_, ?_⟩
  · intro hd
    apply h5
    intro p hp
    rw [e1] at hp
    exact hd p (List.mem_of_mem_take hp)
  · intro he p hp
    rw [← e1] at hp
    have hgone := h4 he p hp
    refine ⟨hgone, fun hex => ?_⟩
    simp only [Keeper.cleanup, h1, List.nil_append]
    rw [h3] at hgone
    by_cases hin : p ∈ rem
    · exact hin
    · simp [hin] at hgone; exact absurd hgone hex

/-- **Never touches anything else** (one cleanup): whatever disappears was returned as removed,
everything returned was tracked, existed as a directory and is gone; every other path keeps its
kind; nothing is created. -/
theorem touches_only_tracked_step (k : Keeper) (fs : FS) :
    (∀ p ∈ (k.cleanup fs).removed,
        p ∈ k.paths ∧ fs.kind? p = some .dir ∧ (k.cleanup fs).fs.kind? p = none) ∧
    (∀ q, q ∉ (k.cleanup fs).removed → (k.cleanup fs).fs.kind? q = fs.kind? q) := by
  obtain ⟨e1, _, _⟩ := selectRemoval_eq k
  obtain ⟨rem, h1, h2, h3, _, _⟩ := rmLoop_spec k.selectRemoval.1 fs []
  have hr : (k.cleanup fs).removed = rem := by simp [Keeper.cleanup, h1]
  constructor
  · intro p hp
    rw [hr] at hp
    have := h2 p hp
    rw [e1] at this
    refine ⟨List.mem_of_mem_take this.1, this.2, ?_⟩
    simp only [Keeper.cleanup]; rw [h3]; simp [hp]
  · intro q hq
    rw [hr] at hq
    simp only [Keeper.cleanup]; rw [h3]; simp [hq]

/-! ## Histories -/

/-- The keeper after an operation (independent of the file system). -/
def kstep (k : Keeper) : Op → Keeper
  | .append p => k.append p
  | .appendMissing p => k.append p
  | .cleanup => k.selectRemoval.2
  | .extRemove _ => k
  | .extCreate _ _ => k

/-- Every appended path is new: not tracked at the moment it is appended (what
`StateStore.save_state` guarantees: it creates the directory and fails if it exists). -/
def Fresh : Keeper → List Op → Prop
  | _, [] => True
  | k, op :: rest =>
    (match op with
      | .append p => p ∉ k.paths
      | .appendMissing p => p ∉ k.paths
      | _ => True) ∧ Fresh (kstep k op) rest

def appended : List Op → List Path
  | [] => []
  | .append p :: rest => p :: appended rest
  | .appendMissing p :: rest => p :: appended rest
  | _ :: rest => appended rest

def extRemoved : List Op → List Path
  | [] => []
  | .extRemove p :: rest => p :: extRemoved rest
  | _ :: rest => extRemoved rest

theorem step_keeper (s : St) (op : Op) : (s.step op).keeper = kstep s.keeper op := by
  cases op <;> simp [St.step, kstep, Keeper.cleanup]

theorem lastN_nodup {α} (n : Nat) (l : List α) (h : l.Nodup) : (lastN n l).Nodup := by
  unfold lastN
  have hsplit := List.take_append_drop (l.length - n) l
  rw [← hsplit, List.nodup_append] at h
  exact h.2.1

theorem append_nodup (k : Keeper) (p : Path) (hn : k.paths.Nodup) : (k.append p).paths.Nodup := by
  simp only [Keeper.append]
  refine List.nodup_append.mpr ⟨hn.erase p, by simp, fun a ha b hb => ?_⟩
  simp at hb; subst hb
  intro h; subst h
  exact (List.Nodup.mem_erase_iff hn).mp ha |>.1 rfl

/-- Tracked paths stay distinct along every history - also when a path is appended again. -/
theorem tracked_nodup (ops : List Op) (s : St) (hn : s.keeper.paths.Nodup) :
    (s.run ops).keeper.paths.Nodup := by
  induction ops generalizing s with
  | nil => exact hn
  | cons op rest ih =>
    simp only [St.run]
    apply ih
    rw [step_keeper]
    cases op with
    | append p => exact append_nodup _ _ hn
    | appendMissing p => exact append_nodup _ _ hn
    | cleanup =>
      simp only [kstep]
      rw [(selectRemoval_eq s.keeper).2.1]
      exact lastN_nodup _ _ hn
    | extRemove p => exact hn
    | extCreate p k => exact hn

theorem fresh_nodup (ops : List Op) (s : St) (hn : s.keeper.paths.Nodup) (_hf : Fresh s.keeper ops) :
    (s.run ops).keeper.paths.Nodup := tracked_nodup ops s hn

/-- **Keeps the newest**, for every `max_keep ≥ 0`, every start-up state and every history of
appends (of new names or of names used before), cleanups and changes made by somebody else: in every state such a history can
reach, the next cleanup does not pass any of the last `max_keep` tracked paths to removal, leaves
them existing exactly as they were, and keeps tracking them. -/
theorem keeps_newest (s : St) (ops : List Op) (hn : s.keeper.paths.Nodup) :
    let s' := s.run ops
    ∀ p ∈ lastN s'.keeper.maxKeep s'.keeper.paths,
      p ∉ (s'.keeper.cleanup s'.fs).removed ∧
      (s'.keeper.cleanup s'.fs).fs.kind? p = s'.fs.kind? p ∧
      p ∈ (s'.keeper.cleanup s'.fs).keeper.paths :=
  keeps_newest_step _ _ (tracked_nodup ops s hn)

/-- The same from the real start-up state: a keeper made by the constructor from a directory
listing (entries have distinct names), over any file system. -/
theorem keeps_newest_from_ctor (maxKeep : Int) (dir pattern : String) (listing : List Entry)
    (k : Keeper) (fs : FS) (ops : List Op) (hc : Keeper.ctor maxKeep dir pattern listing = .ok k)
    (hnames : (listing.map (·.name)).Nodup) :
    let s' := (⟨k, fs, []⟩ : St).run ops
    ∀ p ∈ lastN s'.keeper.maxKeep s'.keeper.paths,
      p ∉ (s'.keeper.cleanup s'.fs).removed ∧
      (s'.keeper.cleanup s'.fs).fs.kind? p = s'.fs.kind? p := by
  have hk : k.paths = initialScan dir pattern listing := by
    unfold Keeper.ctor at hc
    split at hc
    · cases hc
    · cases hc; rfl
  intro s' p hp
  have := keeps_newest ⟨k, fs, []⟩ ops (by rw [hk]; exact scan_nodup dir pattern listing hnames) p hp
  exact ⟨this.1, this.2.1⟩

/-- **The code as found (F15) deletes the state it has just been given**: a rolling checkpoint - the same name
saved again after the previous directory was moved away - is tracked twice, and the next cleanup (`max_keep = 1`)
removes the older entry, which is the path just written. -/
theorem as_found_deletes_newest :
    let k0 : Keeper := ⟨1, []⟩
    let k2 := (k0.appendAsFound "states/checkpoint.state").appendAsFound "states/checkpoint.state"
    let fs : FS := [("states/checkpoint.state", .dir)]
    "states/checkpoint.state" ∈ lastN k2.maxKeep k2.paths ∧
      "states/checkpoint.state" ∈ (k2.cleanup fs).removed ∧
      (k2.cleanup fs).fs.kind? "states/checkpoint.state" = none := by
  decide

/-- ... and the repaired `append` keeps it. -/
theorem repaired_keeps_rolling_checkpoint :
    let k0 : Keeper := ⟨1, []⟩
    let k2 := (k0.append "states/checkpoint.state").append "states/checkpoint.state"
    let fs : FS := [("states/checkpoint.state", .dir)]
    (k2.cleanup fs).removed = [] ∧ (k2.cleanup fs).fs.kind? "states/checkpoint.state" = some .dir := by
  decide

/-- **Removes the older ones**, in every reachable state: after the next cleanup exactly the last
`max_keep` tracked paths are tracked; if no tracked path is a regular file the cleanup does not
raise, and then every older tracked path is gone, the ones that existed being reported as removed. -/
theorem removes_older (s : St) (ops : List Op) :
    let s' := s.run ops
    let r := s'.keeper.cleanup s'.fs
    r.keeper.paths = lastN s'.keeper.maxKeep s'.keeper.paths ∧
    ((∀ p ∈ s'.keeper.paths, s'.fs.kind? p ≠ some .file) → r.err = none) ∧
    (r.err = none → ∀ p ∈ s'.keeper.paths.take (s'.keeper.paths.length - s'.keeper.maxKeep),
        r.fs.kind? p = none ∧ (s'.fs.kind? p ≠ none → p ∈ r.removed)) := by
  intro s' r
  have := removes_older_step s'.keeper s'.fs
  exact ⟨this.1, this.2.2.1, this.2.2.2⟩

/-- Everything tracked was found at start-up or appended. -/
theorem tracked_origin (ops : List Op) (s : St) :
    ∀ p ∈ (s.run ops).keeper.paths, p ∈ s.keeper.paths ∨ p ∈ appended ops := by
  induction ops generalizing s with
  | nil => intro p hp; exact .inl hp
  | cons op rest ih =>
    intro p hp
    simp only [St.run] at hp
    rcases ih (s.step op) p hp with h | h
    · rw [step_keeper] at h
      cases op with
      | append q =>
        simp only [kstep, Keeper.append, List.mem_append, List.mem_singleton] at h
        rcases h with h | h
        · exact .inl (List.mem_of_mem_erase h)
        · exact .inr (by simp [appended, h])
      | appendMissing q =>
        simp only [kstep, Keeper.append, List.mem_append, List.mem_singleton] at h
        rcases h with h | h
        · exact .inl (List.mem_of_mem_erase h)
        · exact .inr (by simp [appended, h])
      | cleanup =>
        simp only [kstep] at h
        rw [(selectRemoval_eq s.keeper).2.1] at h
        exact .inl (List.mem_of_mem_drop h)
      | extRemove q => exact .inl h
      | extCreate q k => exact .inl h
    · cases op <;> simp [appended, h]

/-- **Never touches anything other than the states it found at start-up (matching its pattern) or
was later given**, for every history: every path the keeper removed was tracked at start-up or
appended, and every path that existed at the start and does not exist at the end was removed by
the keeper — hence was one of those — or by somebody else. -/
theorem touches_only_tracked (ops : List Op) (s : St) :
    (∀ q ∈ (s.run ops).removedLog,
        q ∈ s.removedLog ∨ q ∈ s.keeper.paths ∨ q ∈ appended ops) ∧
    (∀ q, s.fs.kind? q ≠ none → (s.run ops).fs.kind? q = none →
        q ∈ (s.run ops).removedLog ∨ q ∈ extRemoved ops) := by
  induction ops generalizing s with
  | nil => exact ⟨fun q hq => .inl hq, fun q h1 h2 => absurd h2 h1⟩
  | cons op rest ih =>
    obtain ⟨ih1, ih2⟩ := ih (s.step op)
    have hlogmono : ∀ (r : List Op) (t : St) (q : Path), q ∈ t.removedLog → q ∈ (t.run r).removedLog := by
      intro r
      induction r with
      | nil => intro t q h; exact h
      | cons o r' ihr =>
        intro t q h
        simp only [St.run]
        apply ihr
        cases o <;> simp [St.step, h]
    constructor
    · intro q hq
      simp only [St.run] at hq
      rcases ih1 q hq with h | h | h
      · cases op with
        | cleanup =>
          simp only [St.step, List.mem_append] at h
          rcases h with h | h
          · exact .inl h
          · exact .inr (.inl ((touches_only_tracked_step s.keeper s.fs).1 q h).1)
        | append p => exact .inl h
        | appendMissing p => exact .inl h
        | extRemove p => exact .inl h
        | extCreate p k => exact .inl h
      · rw [step_keeper] at h
        cases op with
        | append p =>
          simp only [kstep, Keeper.append, List.mem_append, List.mem_singleton] at h
          rcases h with h | h
          · exact .inr (.inl (List.mem_of_mem_erase h))
          · exact .inr (.inr (by simp [appended, h]))
        | appendMissing p =>
          simp only [kstep, Keeper.append, List.mem_append, List.mem_singleton] at h
          rcases h with h | h
          · exact .inr (.inl (List.mem_of_mem_erase h))
          · exact .inr (.inr (by simp [appended, h]))
        | cleanup =>
          simp only [kstep] at h
          rw [(selectRemoval_eq s.keeper).2.1] at h
          exact .inr (.inl (List.mem_of_mem_drop h))
        | extRemove p => exact .inr (.inl h)
        | extCreate p k => exact .inr (.inl h)
      · exact .inr (.inr (by cases op <;> simp [appended, h]))
    · intro q hex hgone
      simp only [St.run] at hgone ⊢
      by_cases hmid : (s.step op).fs.kind? q = none
      · -- disappeared in this very step
        cases op with
        | append p =>
          simp only [St.step] at hmid
          rw [kind?_create _ _ _ _ hex] at hmid
          exact absurd hmid hex
        | appendMissing p => simp only [St.step] at hmid; exact absurd hmid hex
        | extCreate p k =>
          simp only [St.step] at hmid
          rw [kind?_create _ _ _ _ hex] at hmid
          exact absurd hmid hex
        | extRemove p =>
          simp only [St.step] at hmid
          rw [kind?_remove] at hmid
          by_cases hq : q = p
          · exact .inr (by simp [extRemoved, hq])
          · simp [hq] at hmid; exact absurd hmid hex
        | cleanup =>
          left
          apply hlogmono
          simp only [St.step, List.mem_append]
          right
          by_contra hnot
          have := (touches_only_tracked_step s.keeper s.fs).2 q hnot
          simp only [St.step] at hmid
          rw [this] at hmid
          exact hex hmid
      · rcases ih2 q hmid hgone with h | h
        · exact .inl h
        · exact .inr (by cases op <;> simp [extRemoved, h])

/-! ## Non-vacuity -/

example : (⟨2, ["s/a", "s/b", "s/c"]⟩ : Keeper).paths.Nodup := by decide
example : Fresh ⟨2, ["s/a", "s/b", "s/c"]⟩ [.append "s/d", .cleanup, .extRemove "s/d", .append "s/e", .cleanup] := by
  simp [Fresh, kstep, Keeper.append, Keeper.selectRemoval]
example :
    let s : St := ⟨⟨1, ["s/a", "s/b"]⟩, [("s/a", .dir), ("s/b", .dir), ("s/notes", .file)], []⟩
    let s' := s.run [.append "s/c", .cleanup]
    s'.keeper.paths = ["s/c"] ∧ s'.removedLog = ["s/a", "s/b"] ∧
      s'.fs = [("s/notes", .file), ("s/c", .dir)] := by decide
example : ∀ p ∈ (⟨1, ["s/a", "s/b"]⟩ : Keeper).paths,
    FS.kind? [("s/a", .dir), ("s/b", .dir), ("s/notes", .file)] p ≠ some .file := by decide
example : initialScan "s" "*.state" [⟨"b.state", .dir, 30⟩, ⟨"x.txt", .file, 5⟩, ⟨"a.state", .dir, 40⟩,
    ⟨".h.state", .dir, 1⟩] = ["s/.h.state", "s/b.state", "s/a.state"] := by
  simp [initialScan, matchesPattern, globMatch, sortByMtime, insertByMtime, joinPath]

end Pamiq.Keeper
