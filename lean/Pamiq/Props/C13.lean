/-
C13 — every trainer gets its turn and trains only when its data condition holds.
Property theorems only. Model: `Pamiq/Model/Trainer.lean` (tied to `trainer/base.py`,
`trainer/container.py`, `thread/threads/training.py`, `data/interface.py` by the correspondence
check `harness/corr/c13.py`).
-/
import Pamiq.Model.Trainer
import Pamiq.Lemmas.Trainer
import Mathlib.Data.List.Induction
import Mathlib.Tactic.Linarith
import Mathlib.Tactic.NormNum
import Mathlib.Algebra.Order.Field.Rat

namespace Pamiq.Trainer
open Pamiq

/-! ## One decision -/

/-- **runs_iff**: a conditioned trainer's decision is positive iff, after taking in what the
collector holds, the buffer has at least `min_buffer_size` samples and at least
`min_new_data_count` of the retained timestamps are newer than its previous positive decision. -/
theorem runs_iff (t : Tr) (us : Users) (now : Rat) (d : Decision) (k : String) (u : DataUser)
    (hc : t.cond = some k) (hu : us.get k = some u) (h : t.isTrainable us now = .ok d) :
    d.trainable = true ↔
      ((u.update.len : Int) ≥ t.minSize ∧ (countSince u.update.ts t.prev : Int) ≥ t.minNew) := by
  simp only [Tr.isTrainable, hc, hu] at h
  split at h
  · rename_i htr
    cases h
    simpa using htr
  · rename_i htr
    cases h
    simpa using htr

/-- What a decision does to the trainer: nothing but the marker changes, and the marker changes
only on a positive decision of a conditioned trainer — to the clock reading of that decision. -/
theorem decision_marker (t : Tr) (us : Users) (now : Rat) (d : Decision)
    (h : t.isTrainable us now = .ok d) :
    d.tr = { t with prev := if d.trainable = true ∧ t.cond.isSome then some now else t.prev } ∧
      d.reads = (if d.trainable = true ∧ t.cond.isSome then 1 else 0) := by
  obtain ⟨name, cond, ms, mn, prev⟩ := t
  unfold Tr.isTrainable at h
  cases cond with
  | none => simp only at h; cases h; simp
  | some k =>
    simp only at h
    cases hu : us.get k with
    | none => simp [hu] at h
    | some u =>
      simp only [hu] at h
      split at h <;> cases h <;> simp

/-- An unconditioned trainer is always trainable and reads no clock. -/
theorem unconditioned_trainable (t : Tr) (us : Users) (now : Rat) (hc : t.cond = none) :
    t.isTrainable us now = .ok ⟨t, us, true, 0⟩ := by
  simp [Tr.isTrainable, hc]

/-- The only failure is a condition naming a data user that does not exist. -/
theorem decision_error (t : Tr) (us : Users) (now : Rat) (e : Err)
    (h : t.isTrainable us now = .error e) : ∃ k, t.cond = some k ∧ us.get k = none := by
  unfold Tr.isTrainable at h
  cases hc : t.cond with
  | none => simp [hc] at h
  | some k =>
    simp only [hc] at h
    cases hu : us.get k with
    | none => exact ⟨k, rfl, hu⟩
    | some u => simp only [hu] at h; split at h <;> cases h

/-! ## One tick -/

/-- Shape of a successful tick with at least one trainer. -/
theorem tick_ok (th : Th) (now : Rat) (o : TickOut) (h : th.tick now = .ok o)
    (hn : th.trainers.length ≠ 0) :
    ∃ tr d, th.trainers[th.cursor]? = some tr ∧ tr.isTrainable th.users now = .ok d ∧
      o = ⟨{ trainers := th.trainers.set th.cursor d.tr, users := d.users,
             cursor := (th.cursor + 1) % th.trainers.length },
           some tr.name, d.trainable, if d.trainable then runCalls else [], d.reads⟩ := by
  unfold Th.tick at h
  simp only [hn, if_false] at h
  cases hcur : th.trainers[th.cursor]? with
  | none => simp [hcur] at h
  | some tr =>
    simp only [hcur] at h
    cases hd : tr.isTrainable th.users now with
    | error e => simp [hd] at h
    | ok d =>
      simp only [hd] at h
      cases h
      exact ⟨tr, d, rfl, hd, rfl⟩

theorem tick_empty (th : Th) (now : Rat) (hn : th.trainers.length = 0) :
    th.tick now = .ok ⟨th, none, false, [], 0⟩ := by
  simp [Th.tick, hn]

/-- **run_order**: a run executes setup, train, model synchronisation, teardown, in that order;
a refusal executes nothing. -/
theorem run_order (th : Th) (now : Rat) (o : TickOut) (h : th.tick now = .ok o) :
    o.calls = if o.ran then ["setup", "train", "sync_models", "teardown"] else [] := by
  by_cases hn : th.trainers.length = 0
  · rw [tick_empty th now hn] at h; cases h; rfl
  · obtain ⟨tr, d, _, _, rfl⟩ := tick_ok th now o h hn
    rfl

/-- **runs_iff** at the level of the tick. -/
theorem tick_runs_iff (th : Th) (now : Rat) (o : TickOut) (tr : Tr) (k : String) (u : DataUser)
    (hcur : th.trainers[th.cursor]? = some tr) (hc : tr.cond = some k)
    (hu : th.users.get k = some u) (h : th.tick now = .ok o) :
    o.offered = some tr.name ∧
    (o.ran = true ↔
      ((u.update.len : Int) ≥ tr.minSize ∧ (countSince u.update.ts tr.prev : Int) ≥ tr.minNew)) := by
  have hn : th.trainers.length ≠ 0 := by
    intro h0
    have : th.trainers = [] := List.eq_nil_of_length_eq_zero h0
    simp [this] at hcur
  obtain ⟨tr', d, hcur', hd, rfl⟩ := tick_ok th now o h hn
  rw [hcur] at hcur'; cases hcur'
  exact ⟨rfl, runs_iff tr th.users now d k u hc hu hd⟩

/-- **Unconditioned trainers always run** (and consume no clock reading). -/
theorem unconditioned_always_runs (th : Th) (now : Rat) (o : TickOut) (tr : Tr)
    (hcur : th.trainers[th.cursor]? = some tr) (hc : tr.cond = none) (h : th.tick now = .ok o) :
    o.ran = true ∧ o.offered = some tr.name ∧ o.reads = 0 ∧ o.th.trainers = th.trainers := by
  have hn : th.trainers.length ≠ 0 := by
    intro h0
    have : th.trainers = [] := List.eq_nil_of_length_eq_zero h0
    simp [this] at hcur
  obtain ⟨tr', d, hcur', hd, rfl⟩ := tick_ok th now o h hn
  rw [hcur] at hcur'; cases hcur'
  rw [unconditioned_trainable tr th.users now hc] at hd
  cases hd
  refine ⟨rfl, rfl, rfl, ?_⟩
  simp only
  exact set_same _ _ _ hcur

/-- **The marker moves only on a positive decision**: a tick leaves every trainer other than the
offered one untouched; the offered one is untouched when it did not run, and when it ran only its
marker changed — to the reading of this decision (conditioned trainers). -/
theorem prev_only_on_positive (th : Th) (now : Rat) (o : TickOut) (h : th.tick now = .ok o) :
    (∀ j, j ≠ th.cursor → o.th.trainers[j]? = th.trainers[j]?) ∧
    (o.ran = false → o.th.trainers = th.trainers) ∧
    (∀ tr, th.trainers[th.cursor]? = some tr → o.ran = true →
      o.th.trainers[th.cursor]? =
        some { tr with prev := if tr.cond.isSome then some now else tr.prev }) := by
  by_cases hn : th.trainers.length = 0
  · rw [tick_empty th now hn] at h; cases h
    refine ⟨fun _ _ => rfl, fun _ => rfl, ?_⟩
    intro tr htr
    have : th.trainers = [] := List.eq_nil_of_length_eq_zero hn
    simp [this] at htr
  · obtain ⟨tr, d, hcur, hd, rfl⟩ := tick_ok th now o h hn
    obtain ⟨hm, _⟩ := decision_marker tr th.users now d hd
    refine ⟨?_, ?_, ?_⟩
    · intro j hj
      simp only
      rw [List.getElem?_set_ne (Ne.symm hj)]
    · intro hr
      simp only at hr ⊢
      rw [hm, hr]
      simp only [Bool.false_eq_true, false_and, if_false]
      exact set_same _ _ _ hcur
    · intro tr' htr' hr
      rw [hcur] at htr'; cases htr'
      simp only at hr ⊢
      have hlt : th.cursor < th.trainers.length := by
        by_contra hge
        rw [List.getElem?_eq_none (by omega)] at hcur
        cases hcur
      rw [List.getElem?_set_self hlt, hm, hr]
      simp

/-! ## Histories: round robin -/

def Th.names (th : Th) : List String := th.trainers.map (·.name)

theorem tick_names (th : Th) (now : Rat) (o : TickOut) (h : th.tick now = .ok o) :
    o.th.names = th.names ∧ o.th.trainers.length = th.trainers.length := by
  by_cases hn : th.trainers.length = 0
  · rw [tick_empty th now hn] at h; cases h; exact ⟨rfl, rfl⟩
  · obtain ⟨tr, d, hcur, hd, rfl⟩ := tick_ok th now o h hn
    obtain ⟨hm, _⟩ := decision_marker tr th.users now d hd
    refine ⟨?_, by simp⟩
    simp only [Th.names, List.map_set]
    rw [hm]
    simp only
    have : tr.name = (th.trainers.map (·.name))[th.cursor]?.getD tr.name := by
      simp [List.getElem?_map, hcur]
    apply List.ext_getElem?
    intro j
    by_cases hj : j = th.cursor
    · subst hj
      by_cases hlt : th.cursor < (th.trainers.map (·.name)).length
      · rw [List.getElem?_set_self hlt]; simp [List.getElem?_map, hcur]
      · rw [List.getElem?_eq_none (by simpa using hlt), List.getElem?_eq_none (by simpa using hlt)]
    · rw [List.getElem?_set_ne (Ne.symm hj)]

theorem collect_names (th th' : Th) (k : String) (x : Nat) (t : Rat)
    (h : th.collect k x t = .ok th') :
    th'.trainers = th.trainers ∧ th'.cursor = th.cursor := by
  unfold Th.collect at h
  split at h
  · cases h
  · cases h; exact ⟨rfl, rfl⟩

/-- **round_robin**: in every history of ticks and sample arrivals that does not hit a missing data
user, the `i`-th tick offers the trainer at position `(cursor₀ + i) mod n` of the mapping order —
whatever the outcomes of the earlier decisions were, whatever arrived in between. -/
theorem round_robin (th : Th) (ops : List Op) (th' : Th) (outs : List TickOut)
    (h : th.run ops = .ok (th', outs)) (hc : th.cursor < th.trainers.length) :
    ∀ i, i < outs.length →
      (outs[i]?).map (·.offered) =
        some (th.names[(th.cursor + i) % th.trainers.length]?) := by
  induction ops generalizing th outs with
  | nil => simp only [Th.run] at h; cases h; intro i hi; simp at hi
  | cons op rest ih =>
    cases op with
    | collect k x t =>
      simp only [Th.run] at h
      cases hcol : th.collect k x t with
      | error e => simp [hcol] at h
      | ok th1 =>
        simp only [hcol] at h
        obtain ⟨ht, hcu⟩ := collect_names th th1 k x t hcol
        have := ih th1 outs h (by rw [hcu, ht]; exact hc)
        simpa [Th.names, ht, hcu] using this
    | tick now =>
      simp only [Th.run] at h
      cases htick : th.tick now with
      | error e => simp [htick] at h
      | ok o =>
        simp only [htick] at h
        cases hrest : o.th.run rest with
        | error e => simp [hrest] at h
        | ok p =>
          obtain ⟨th2, outs2⟩ := p
          simp only [hrest] at h
          cases h
          have hn : th.trainers.length ≠ 0 := by omega
          obtain ⟨hnames, hlen⟩ := tick_names th now o htick
          obtain ⟨tr, d, hcur, hd, ho⟩ := tick_ok th now o htick hn
          have hcur' : o.th.cursor = (th.cursor + 1) % th.trainers.length := by rw [ho]
          have ih' := ih o.th outs2 hrest (by rw [hcur', hlen]; exact Nat.mod_lt _ (by omega))
          intro i hi
          cases i with
          | zero =>
            simp only [List.getElem?_cons_zero, Option.map_some, Nat.add_zero,
              Nat.mod_eq_of_lt hc]
            rw [ho]
            simp [Th.names, List.getElem?_map, hcur]
          | succ i =>
            simp only [List.getElem?_cons_succ]
            have := ih' i (by simpa using hi)
            rw [this, hnames, hlen, hcur']
            congr 2
            rw [Nat.add_mod, Nat.mod_mod, ← Nat.add_mod]
            congr 1; omega

/-- Corollary: with the cursor at 0 (a fresh thread), tick `i` offers trainer `i mod n`. -/
theorem round_robin_fresh (th : Th) (ops : List Op) (th' : Th) (outs : List TickOut)
    (h : th.run ops = .ok (th', outs)) (hn : 0 < th.trainers.length) (h0 : th.cursor = 0) :
    ∀ i, i < outs.length →
      (outs[i]?).map (·.offered) = some (th.names[i % th.trainers.length]?) := by
  intro i hi
  have := round_robin th ops th' outs h (by rw [h0]; exact hn) i hi
  simpa [h0] using this


/-! ## Histories: the marker is the reading of the last positive decision -/

/-- Ghost: the clock reading of the last tick of the history at which trainer number `j` was
offered and ran (`p` if there is none), computed from the tick outcomes alone. -/
def Th.lastPositive (th : Th) (j : Nat) (p : Option Rat) : List Op → Option Rat
  | [] => p
  | .collect k x t :: rest =>
    match th.collect k x t with
    | .error _ => p
    | .ok th' => th'.lastPositive j p rest
  | .tick now :: rest =>
    match th.tick now with
    | .error _ => p
    | .ok o => o.th.lastPositive j (if th.cursor = j ∧ o.ran = true then some now else p) rest

/-- **For every history**: the marker of a conditioned trainer is the clock value read at its last
positive decision (its initial value — `-inf` for a fresh trainer — if it never ran). -/
theorem marker_is_last_positive (th : Th) (ops : List Op) (th' : Th) (outs : List TickOut)
    (j : Nat) (tr : Tr) (h : th.run ops = .ok (th', outs)) (hj : th.trainers[j]? = some tr)
    (hcond : tr.cond.isSome) :
    (th'.trainers[j]?).map (·.prev) = some (th.lastPositive j tr.prev ops) ∧
      (th'.trainers[j]?).map (·.cond) = some tr.cond := by
  induction ops generalizing th outs tr with
  | nil => simp only [Th.run] at h; cases h; simp [Th.lastPositive, hj]
  | cons op rest ih =>
    cases op with
    | collect k x t =>
      simp only [Th.run] at h
      cases hcol : th.collect k x t with
      | error e => simp [hcol] at h
      | ok th1 =>
        simp only [hcol] at h
        obtain ⟨ht, _⟩ := collect_names th th1 k x t hcol
        simp only [Th.lastPositive, hcol]
        exact ih th1 outs tr h (by rw [ht]; exact hj) hcond
    | tick now =>
      simp only [Th.run] at h
      cases htick : th.tick now with
      | error e => simp [htick] at h
      | ok o =>
        simp only [htick] at h
        cases hrest : o.th.run rest with
        | error e => simp [hrest] at h
        | ok pr =>
          obtain ⟨th2, outs2⟩ := pr
          simp only [hrest] at h
          cases h
          simp only [Th.lastPositive, htick]
          obtain ⟨hother, hskip, hran⟩ := prev_only_on_positive th now o htick
          by_cases hcj : th.cursor = j
          · subst hcj
            by_cases hr : o.ran = true
            · have hnew := hran tr hj hr
              simp only [hcond, if_true] at hnew
              have := ih o.th outs2 { tr with prev := some now } hrest hnew hcond
              simpa [hr] using this
            · have hr' : o.ran = false := by simpa using hr
              have := ih o.th outs2 tr hrest (by rw [hskip hr']; exact hj) hcond
              simpa [hr'] using this
          · have := ih o.th outs2 tr hrest (by rw [hother j (Ne.symm hcj)]; exact hj) hcond
            simpa [hcj] using this

/-! ## What `count_data_added_since` counts -/

/-- For non-decreasing timestamps (the clock does not go backwards) the count is the number of
retained timestamps strictly newer than `p`. -/
theorem countSince_sorted (l : List Rat) (p : Rat) (hs : l.Pairwise (· ≤ ·)) :
    countSince l (some p) = (l.filter (fun t => decide (p < t))).length := by
  induction l using List.reverseRecOn with
  | nil => simp [countSince]
  | append_singleton init x ih =>
    rw [List.pairwise_append] at hs
    obtain ⟨hinit, _, hle⟩ := hs
    have ih' := ih hinit
    simp only [countSince, List.reverse_append, List.reverse_singleton, List.singleton_append,
      List.takeWhile_cons, List.filter_append] at ih' ⊢
    by_cases hx : p < x
    · simp only [hx, decide_true, if_true, List.length_cons, List.filter_cons, List.filter_nil,
        List.length_append, List.length_nil]
      rw [ih']
    · simp only [hx, decide_false, List.length_nil, List.filter_cons, List.filter_nil,
        List.append_nil, Bool.false_eq_true, if_false]
      symm
      rw [List.length_eq_zero_iff, List.filter_eq_nil_iff]
      intro y hy
      have := hle y hy x (by simp)
      simp only [decide_eq_true_eq, not_lt]
      exact le_trans this (not_lt.1 hx)

/-- With the initial marker (`-inf`) every retained timestamp counts. -/
theorem countSince_unset (l : List Rat) : countSince l none = l.length := rfl

/-- The count never exceeds what the timestamp window retains (`queue size`). -/
theorem countSince_le (l : List Rat) (p : Option Rat) : countSince l p ≤ l.length := by
  cases p with
  | none => exact le_refl _
  | some p =>
    simp only [countSince]
    calc _ ≤ l.reverse.length := (List.takeWhile_prefix _).length_le
      _ = l.length := List.length_reverse

/-! ## The data user's window -/

/-- The collector never holds more than the queue size, … -/
theorem collect_bounded (u : DataUser) (x : Nat) (t : Rat) (n : Nat) (hq : u.qsize = some n) :
    (u.collect x t).pend.length ≤ n := by
  simp only [DataUser.collect, hq, bound, lastN_length]; omega

/-- … and after `update()` the collector is empty, the buffer holds at most its capacity and the
timestamp window at most `queue size` entries: arrivals are counted within the most recent
queue-size samples only. -/
theorem update_bounded (u : DataUser) (n : Nat) (hq : u.qsize = some n) (hb : u.ts.length ≤ n)
    (hc : u.buf.length ≤ u.cap) :
    u.update.pend = [] ∧ u.update.ts.length ≤ n ∧ u.update.len ≤ u.cap ∧
      countSince u.update.ts none ≤ n := by
  have hf := foldl_add1_frame u.pend { u with pend := [] }
  have hbd := foldl_add1_bounded u.pend { u with pend := [] } n hq hb hc
  exact ⟨hf.2.2, hbd.1, hbd.2, by rw [countSince_unset]; exact hbd.1⟩


/-- **The window**: after `update()` the buffer is the newest `capacity` of everything delivered
and the timestamps are the newest `queue size` of all delivered timestamps (closed form of the
loop, for every collector content). -/
theorem update_window (u : DataUser) (hb : u.buf.length ≤ u.cap)
    (ht : ∀ n, u.qsize = some n → u.ts.length ≤ n) :
    u.update.buf = lastN u.cap (u.buf ++ u.pend.map (·.1)) ∧
      u.update.ts = bound u.qsize (u.ts ++ u.pend.map (·.2)) := by
  have hl : lastN u.cap u.buf = u.buf := by
    simp only [lastN]; rw [show u.buf.length - u.cap = 0 by omega]; rfl
  have hq : bound u.qsize u.ts = u.ts := by
    cases hqs : u.qsize with
    | none => rfl
    | some n =>
      have := ht n hqs
      simp only [bound, lastN]; rw [show u.ts.length - n = 0 by omega]; rfl
  rcases foldl_add1_closed u.pend { u with pend := [] } with ⟨h1, h2⟩ | h0
  · simp only [DataUser.update]
    rw [h1, h2]
    simp only [hl, hq]
    exact ⟨trivial, trivial⟩
  · simp only [DataUser.update, h0, List.foldl_nil, List.map_nil, List.append_nil, hl, hq]
    exact ⟨trivial, trivial⟩

/-- Non-decreasing clock readings keep the window non-decreasing. -/
theorem update_sorted (u : DataUser) (hb : u.buf.length ≤ u.cap)
    (ht : ∀ n, u.qsize = some n → u.ts.length ≤ n)
    (hs : (u.ts ++ u.pend.map (·.2)).Pairwise (· ≤ ·)) : u.update.ts.Pairwise (· ≤ ·) := by
  rw [(update_window u hb ht).2]
  cases u.qsize with
  | none => exact hs
  | some n => exact hs.sublist (List.drop_sublist _ _)

/-- **runs_iff, in the words of the property**: with non-decreasing timestamps, a conditioned
trainer whose previous positive decision was read at `p` runs iff the buffer (newest `capacity`
delivered samples) holds at least `min_buffer_size` samples and, among the newest `queue size`
delivered samples, at least `min_new_data_count` arrived strictly after `p`. -/
theorem runs_iff_window (t : Tr) (us : Users) (now p : Rat) (d : Decision) (k : String)
    (u : DataUser) (hc : t.cond = some k) (hu : us.get k = some u) (hp : t.prev = some p)
    (h : t.isTrainable us now = .ok d) (hb : u.buf.length ≤ u.cap)
    (ht : ∀ n, u.qsize = some n → u.ts.length ≤ n)
    (hs : (u.ts ++ u.pend.map (·.2)).Pairwise (· ≤ ·)) :
    d.trainable = true ↔
      (((lastN u.cap (u.buf ++ u.pend.map (·.1))).length : Int) ≥ t.minSize ∧
        ((((bound u.qsize (u.ts ++ u.pend.map (·.2))).filter (fun x => decide (p < x))).length : Nat)
          : Int) ≥ t.minNew) := by
  rw [runs_iff t us now d k u hc hu h, hp, countSince_sorted _ p (update_sorted u hb ht hs)]
  rw [DataUser.len, (update_window u hb ht).1, (update_window u hb ht).2]

/-! ## Non-vacuity -/

/-- Two trainers on one data user (capacity 3, queue 2): `a` needs 2 samples and 2 new ones, `b`
is unconditioned. Ticks offer a, b, a, b; `a` is refused first, runs once two samples are in, and
is refused again until two *new* ones arrive. -/
example :
    let th : Th := { trainers := [⟨"a", some "u", 2, 2, none⟩, ⟨"b", none, 0, 0, none⟩],
                     users := [("u", { cap := 3, qsize := some 2 })] }
    let ops : List Op := [.collect "u" 1 1, .tick 2, .tick 2, .collect "u" 2 3, .tick 4, .tick 4,
                          .collect "u" 3 5, .tick 6]
    ∃ th' outs, th.run ops = .ok (th', outs) ∧
      outs.map (·.offered) = [some "a", some "b", some "a", some "b", some "a"] ∧
      outs.map (·.ran) = [false, true, true, true, false] := by
  refine ⟨_, _, rfl, ?_, ?_⟩ <;> decide

example : countSince [1, 2, 2, 5] (some 2) = 1 ∧ ([1, 2, 2, 5] : List Rat).Pairwise (· ≤ ·) := by
  constructor
  · norm_num [countSince]
  · norm_num [List.pairwise_cons]

/-- **A second session decides on the new data.** After the trainers have been attached to a fresh set of
data users, every data user is empty (nothing of the first session's buffers is consulted any more), while
the round-robin cursor and every trainer's marker are unchanged. -/
theorem reattach_fresh (th : Th) :
    th.reattach.cursor = th.cursor ∧ th.reattach.trainers = th.trainers ∧
    (∀ p ∈ th.reattach.users, p.2.buf = [] ∧ p.2.ts = [] ∧ p.2.pend = []) ∧
    th.reattach.users.map (·.1) = th.users.map (·.1) := by
  refine ⟨rfl, rfl, ?_, ?_⟩
  · intro p hp
    simp only [Th.reattach, List.mem_map] at hp
    obtain ⟨q, _, rfl⟩ := hp
    exact ⟨rfl, rfl, rfl⟩
  · simp [Th.reattach, List.map_map, Function.comp_def]

end Pamiq.Trainer
