/-
C04, data part — a state saved while running is one consistent cut *of the component values*.
Model: `Pamiq/Model/SysData.lean` (the protocol `Proto` × the values the components hold).

For every number of threads, retry limit, collector bound, initial (loaded) values and every
interleaving of protocol actions with data actions (steps, training runs, hand-overs, clock ticks,
component writes):

* `cut_stable`        while a pause is acknowledged the observable values equal those of the
                      acknowledgement instant (nothing moves, the clock included);
* `snapshot_is_cut`   everything a runtime save has written so far — agent counter, environment
                      counters, buffer content, trainer counters, clock — is the value of that one
                      instant, so the saved values agree with one another;
* `nothing_in_transit` the data component's write leaves the collector empty and stores delivered ++
                      in-transit samples;
* `collected_all`     with an unbounded collector the observable data is every sample ever
                      collected, once each, in order (bounded: `Props/C07.lean` states the overflow rule);
* `final_values_settled` while the final state is written no step, run or hand-over can happen.
-/
import Pamiq.Props.C04
import Pamiq.Model.SysData
namespace Pamiq.SysData
open Pamiq.Proto

def DReachable (n mx : Nat) (qcap : Option Nat) (v0 : Vals) (s : St) (d : D) : Prop :=
  ∃ tr, drun (dinit n mx qcap v0).1 (dinit n mx qcap v0).2 tr = some (s, d)

/-- The protocol actions of a product trace. -/
def protoOf : List DAct → List Proto.Act
  | [] => []
  | .p a :: rest => a :: protoOf rest
  | _ :: rest => protoOf rest

theorem dstep_proto {s s' : St} {d d' : D} {a : DAct} (h : dstep s d a = some (s', d')) :
    (∃ pa, a = .p pa ∧ Proto.step s pa = some s') ∨ ((∀ pa, a ≠ .p pa) ∧ s' = s) := by
  cases a with
  | p pa =>
    left
    simp only [dstep] at h
    cases hs : Proto.step s pa with
    | none => simp [hs] at h
    | some s1 =>
      simp only [hs, Option.some.injEq, Prod.mk.injEq] at h
      exact ⟨pa, rfl, by rw [← h.1]; exact hs⟩
  | _ =>
    right
    simp only [dstep] at h
    split at h
    · simp only [Option.some.injEq, Prod.mk.injEq] at h
      exact ⟨by intro pa; simp, h.1.symm⟩
    · contradiction

theorem drun_proto {s s' : St} {d d' : D} (tr : List DAct) (h : drun s d tr = some (s', d')) :
    Proto.run s (protoOf tr) = some s' := by
  induction tr generalizing s d with
  | nil => simp only [drun, Option.some.injEq, Prod.mk.injEq] at h; simp [protoOf, Proto.run, h.1]
  | cons a rest ih =>
    simp only [drun] at h
    cases hs : dstep s d a with
    | none => simp [hs] at h
    | some r =>
      obtain ⟨s1, d1⟩ := r
      simp only [hs] at h
      rcases dstep_proto hs with ⟨pa, rfl, hp⟩ | ⟨hne, rfl⟩
      · simp only [protoOf, Proto.run, hp]
        exact ih h
      · have : protoOf (a :: rest) = protoOf rest := by
          cases a with
          | p pa => exact absurd rfl (hne pa)
          | _ => rfl
        rw [this]
        exact ih h

/-- **Projection**: the protocol component of a reachable product state is a reachable `Proto`
state — every theorem of C01–C04, C09 applies to it. -/
theorem proj_reachable {n mx : Nat} {qcap : Option Nat} {v0 : Vals} {s : St} {d : D}
    (h : DReachable n mx qcap v0 s d) : Proto.Reachable n mx s := by
  obtain ⟨tr, htr⟩ := h
  exact ⟨protoOf tr, drun_proto tr htr⟩

/-- A pause becomes acknowledged only by the `clockPause` that ends a successful attempt. -/
theorem paused_begins_only_by_clockPause {s s' : St} {a : Proto.Act} (hp : s.ctl.paused = false)
    (hs : Proto.step s a = some s') (hp' : s'.ctl.paused = true) : a = .cClockPause := by
  cases a <;> simp only [Proto.step, Act.thread] at hs
  all_goals first
    | rfl
    | (exfalso
       first
       | (split at hs
          · rename_i th hget
            simp only [bstep] at hs
            repeat' split at hs
            all_goals first
              | contradiction
              | (cases hs; simp [St.setThr, hp] at hp')
          · contradiction)
       | (simp only [cstep] at hs
          repeat' split at hs
          all_goals first
            | contradiction
            | (cases hs; simp [St.setThr, hp] at hp')))

theorem write_obs (d : D) (c : Comp) : (d.write c).v.obs = d.v.obs ∧ (d.write c).ack = d.ack := by
  cases c <;> simp [D.write, Vals.obs, Vals.flush]

theorem protoEffect_v (d : D) (a : Proto.Act) : (protoEffect d a).v = d.v := by
  cases a <;> rfl

theorem protoEffect_ack (d : D) (a : Proto.Act) (h : a ≠ .cClockPause) : (protoEffect d a).ack = d.ack := by
  cases a <;> first | rfl | exact absurd rfl h

/-- One step keeps "acknowledged ⇒ the observable values are those of the acknowledgement". -/
theorem cut_step {n mx : Nat} {s s' : St} {d d' : D} {a : DAct} (hr : Proto.Reachable n mx s)
    (hinv : s.ctl.paused = true → d.v.obs = d.ack) (hs : dstep s d a = some (s', d')) :
    s'.ctl.paused = true → d'.v.obs = d'.ack := by
  intro hp'
  cases a with
  | p pa =>
    simp only [dstep] at hs
    cases hst : Proto.step s pa with
    | none => simp [hst] at hs
    | some s1 =>
      simp only [hst, Option.some.injEq, Prod.mk.injEq] at hs
      obtain ⟨rfl, rfl⟩ := hs
      by_cases hc : pa = .cClockPause
      · subst hc; simp [protoEffect]
      · rw [protoEffect_v, protoEffect_ack d pa hc]
        cases hp : s.ctl.paused with
        | true => exact hinv hp
        | false => exact absurd (paused_begins_only_by_clockPause hp hst hp') hc
  | write c =>
    simp only [dstep] at hs
    split at hs
    · simp only [Option.some.injEq, Prod.mk.injEq] at hs
      obtain ⟨rfl, rfl⟩ := hs
      rw [(write_obs d c).1, (write_obs d c).2]
      exact hinv hp'
    · contradiction
  | clockTick =>
    simp only [dstep] at hs
    split at hs
    · rename_i hc
      simp only [Option.some.injEq, Prod.mk.injEq] at hs
      obtain ⟨rfl, rfl⟩ := hs
      have := (clock_frozen hr hp').1
      simp [hc] at this
    · contradiction
  | update =>
    simp only [dstep] at hs
    split at hs
    · rename_i hc
      simp only [Option.some.injEq, Prod.mk.injEq] at hs
      obtain ⟨rfl, rfl⟩ := hs
      exfalso
      simp only [inTick] at hc
      split at hc
      · rename_i th hget
        have hq := ack_quiescent hr hp' th (mem_of_getElem? hget)
        have hw := hq.2.1
        simp only [BThread.inWait] at hw
        cases hpc : th.pc <;> simp_all
      · simp at hc
    · contradiction
  | agentStep | envObserve | envAffect | trainRun i =>
    simp only [dstep] at hs
    split at hs
    · rename_i hc
      simp only [Option.some.injEq, Prod.mk.injEq] at hs
      obtain ⟨rfl, rfl⟩ := hs
      exfalso
      simp only [inStep] at hc
      split at hc
      · rename_i th hget
        have hq := ack_quiescent hr hp' th (mem_of_getElem? hget)
        simp [hq.1] at hc
      · simp at hc
    · contradiction

theorem dstep_reachable {n mx : Nat} {s s' : St} {d d' : D} {a : DAct} (hr : Proto.Reachable n mx s)
    (hs : dstep s d a = some (s', d')) : Proto.Reachable n mx s' := by
  rcases dstep_proto hs with ⟨pa, _, hp⟩ | ⟨_, rfl⟩
  · exact reachable_step hr hp
  · exact hr

theorem cut_run {n mx : Nat} {s s' : St} {d d' : D} (tr : List DAct) (hr : Proto.Reachable n mx s)
    (hinv : s.ctl.paused = true → d.v.obs = d.ack) (h : drun s d tr = some (s', d')) :
    s'.ctl.paused = true → d'.v.obs = d'.ack := by
  induction tr generalizing s d with
  | nil =>
    simp only [drun, Option.some.injEq, Prod.mk.injEq] at h
    obtain ⟨rfl, rfl⟩ := h
    exact hinv
  | cons a rest ih =>
    simp only [drun] at h
    cases hs : dstep s d a with
    | none => simp [hs] at h
    | some r =>
      obtain ⟨s1, d1⟩ := r
      simp only [hs] at h
      exact ih (dstep_reachable hr hs) (cut_step hr hinv hs) h

/-- **Cut stability.** In every reachable state of the product in which a pause is acknowledged
(hence during the whole of every runtime save), the agent / environment / trainer counters, the data
(delivered ++ in transit) and the clock are exactly what they were at the acknowledgement. -/
theorem cut_stable {n mx : Nat} {qcap : Option Nat} {v0 : Vals} {s : St} {d : D}
    (h : DReachable n mx qcap v0 s d) (hp : s.ctl.paused = true) : d.v.obs = d.ack := by
  obtain ⟨tr, htr⟩ := h
  exact cut_run tr ⟨[], rfl⟩ (by intro _; rfl) htr hp

/-- Everything written so far is the value of the instant `o`. -/
def SnapOk (sn : Snap) (o : Obs) : Prop :=
  (∀ x, sn.agentSteps = some x → x = o.agentSteps) ∧
  (∀ x, sn.env = some x → x = (o.envObs, o.envAct)) ∧
  (∀ x, sn.data = some x → x = o.data) ∧
  (∀ i r, (i, r) ∈ sn.trainRuns → r = o.trainRuns.getD i 0) ∧
  (∀ x, sn.clock = some x → x = o.clock)

theorem SnapOk_empty (o : Obs) : SnapOk {} o := by simp [SnapOk]

theorem svIn_begins_only_by_saveBegin {s s' : St} {a : Proto.Act} (hpc : s.ctl.pc ≠ .svIn)
    (hs : Proto.step s a = some s') (hpc' : s'.ctl.pc = .svIn) : a = .cSaveBegin := by
  cases a <;> simp only [Proto.step, Act.thread] at hs
  all_goals first
    | rfl
    | (exfalso
       first
       | (split at hs
          · rename_i th hget
            simp only [bstep] at hs
            repeat' split at hs
            all_goals first
              | contradiction
              | (cases hs; simp [St.setThr] at hpc'; exact hpc hpc')
          · contradiction)
       | (simp only [cstep] at hs
          repeat' split at hs
          all_goals first
            | contradiction
            | (cases hs; simp_all [St.setThr, afterTryPause]; done)
            | (cases hs; simp only [St.setThr, afterTryPause] at hpc'
               repeat' split at hpc'
               all_goals simp_all)))

theorem snap_step {n mx : Nat} {s s' : St} {d d' : D} {a : DAct} (hr : Proto.Reachable n mx s)
    (hcut : s.ctl.paused = true → d.v.obs = d.ack)
    (hinv : s.ctl.pc = .svIn → SnapOk d.snap d.ack) (hs : dstep s d a = some (s', d')) :
    s'.ctl.pc = .svIn → SnapOk d'.snap d'.ack := by
  intro hpc'
  cases a with
  | p pa =>
    simp only [dstep] at hs
    cases hst : Proto.step s pa with
    | none => simp [hst] at hs
    | some s1 =>
      simp only [hst, Option.some.injEq, Prod.mk.injEq] at hs
      obtain ⟨rfl, rfl⟩ := hs
      by_cases hb : pa = .cSaveBegin
      · subst hb; simp only [protoEffect]; exact SnapOk_empty _
      · by_cases hpc : s.ctl.pc = .svIn
        · have hne : pa ≠ .cClockPause := by
            intro hc; subst hc
            simp [Proto.step, Act.thread, cstep, hpc] at hst
          have hne2 : pa ≠ .cFinalSaveBegin := by
            intro hc; subst hc
            simp [Proto.step, Act.thread, cstep, hpc] at hst
          have : protoEffect d pa = d := by
            cases pa <;> first | rfl | exact absurd rfl hb | exact absurd rfl hne | exact absurd rfl hne2
          rw [this]; exact hinv hpc
        · exact absurd (svIn_begins_only_by_saveBegin hpc hst hpc') hb
  | write c =>
    simp only [dstep] at hs
    split at hs
    · simp only [Option.some.injEq, Prod.mk.injEq] at hs
      obtain ⟨rfl, rfl⟩ := hs
      have hp := save_only_when_paused hr (Or.inr hpc')
      have hobs := hcut hp
      have hok := hinv hpc'
      have hfields : d.v.agentSteps = d.ack.agentSteps ∧ d.v.envObs = d.ack.envObs ∧
          d.v.envAct = d.ack.envAct ∧ d.v.trainRuns = d.ack.trainRuns ∧
          d.v.delivered ++ d.v.queue = d.ack.data ∧ d.v.clock = d.ack.clock := by
        rw [← hobs]; simp [Vals.obs]
      obtain ⟨h1, h2, h3, h4, h5, h6⟩ := hfields
      obtain ⟨k1, k2, k3, k4, k5⟩ := hok
      cases c <;> simp only [D.write, SnapOk, Vals.flush]
      · refine ⟨?_, k2, k3, k4, k5⟩
        intro x hx; simp only [Option.some.injEq] at hx; omega
      · refine ⟨k1, ?_, k3, k4, k5⟩
        intro x hx; simp only [Option.some.injEq] at hx; rw [← hx, h2, h3]
      · refine ⟨k1, k2, ?_, k4, k5⟩
        intro x hx; simp only [Option.some.injEq] at hx; rw [← hx, h5]
      · rename_i i
        refine ⟨k1, k2, k3, ?_, k5⟩
        intro j r hjr
        simp only [List.mem_append, List.mem_singleton, Prod.mk.injEq] at hjr
        rcases hjr with hjr | ⟨rfl, rfl⟩
        · exact k4 j r hjr
        · rw [h4]
      · refine ⟨k1, k2, k3, k4, ?_⟩
        intro x hx; simp only [Option.some.injEq] at hx; omega
    · contradiction
  | agentStep | envObserve | envAffect | trainRun i | update | clockTick =>
    simp only [dstep] at hs
    split at hs
    · simp only [Option.some.injEq, Prod.mk.injEq] at hs
      obtain ⟨rfl, rfl⟩ := hs
      exact hinv hpc'
    · contradiction

theorem snap_run {n mx : Nat} {s s' : St} {d d' : D} (tr : List DAct) (hr : Proto.Reachable n mx s)
    (hcut : s.ctl.paused = true → d.v.obs = d.ack)
    (hinv : s.ctl.pc = .svIn → SnapOk d.snap d.ack) (h : drun s d tr = some (s', d')) :
    s'.ctl.pc = .svIn → SnapOk d'.snap d'.ack := by
  induction tr generalizing s d with
  | nil =>
    simp only [drun, Option.some.injEq, Prod.mk.injEq] at h
    obtain ⟨rfl, rfl⟩ := h
    exact hinv
  | cons a rest ih =>
    simp only [drun] at h
    cases hs : dstep s d a with
    | none => simp [hs] at h
    | some r =>
      obtain ⟨s1, d1⟩ := r
      simp only [hs] at h
      exact ih (dstep_reachable hr hs) (cut_step hr hcut hs) (snap_step hr hcut hinv hs) h

/-- **The snapshot is one cut.** At every moment of a runtime save, every value written so far —
by whichever components, in whichever order, with any background activity the protocol allows in
between — is the value that component had at the acknowledgement instant; the current values are
still those, so the values written later will agree with the ones already written. -/
theorem snapshot_is_cut {n mx : Nat} {qcap : Option Nat} {v0 : Vals} {s : St} {d : D}
    (h : DReachable n mx qcap v0 s d) (hpc : s.ctl.pc = .svIn) :
    SnapOk d.snap d.ack ∧ d.v.obs = d.ack := by
  have hp := save_only_when_paused (proj_reachable h) (Or.inr hpc)
  refine ⟨?_, cut_stable h hp⟩
  obtain ⟨tr, htr⟩ := h
  exact snap_run tr ⟨[], rfl⟩ (by intro _; rfl) (by intro hc; simp [dinit, Proto.init] at hc) htr hpc

/-- **Nothing is left in transit**: the data component's write empties the collector and stores the
delivered samples followed by the ones that were still queued. -/
theorem nothing_in_transit {s s' : St} {d d' : D} (hs : dstep s d (.write .data) = some (s', d')) :
    d'.v.queue = [] ∧ d'.snap.data = some (d.v.delivered ++ d.v.queue) ∧
      d'.v.delivered = d.v.delivered ++ d.v.queue := by
  simp only [dstep] at hs
  split at hs
  · simp only [Option.some.injEq, Prod.mk.injEq] at hs
    obtain ⟨_, rfl⟩ := hs
    simp [D.write, Vals.flush]
  · contradiction

/-- With an unbounded collector, delivered ++ queued is every sample ever collected (sample k is
the agent's k-th step), once each, in order, in every reachable state. -/
theorem collected_all_run {s s' : St} {d d' : D} (tr : List DAct) (hq : d.qcap = none)
    (hinv : d.v.delivered ++ d.v.queue = List.range' 1 d.v.agentSteps)
    (h : drun s d tr = some (s', d')) :
    d'.v.delivered ++ d'.v.queue = List.range' 1 d'.v.agentSteps ∧ d'.qcap = none := by
  induction tr generalizing s d with
  | nil =>
    simp only [drun, Option.some.injEq, Prod.mk.injEq] at h
    obtain ⟨rfl, rfl⟩ := h
    exact ⟨hinv, hq⟩
  | cons a rest ih =>
    simp only [drun] at h
    cases hs : dstep s d a with
    | none => simp [hs] at h
    | some r =>
      obtain ⟨s1, d1⟩ := r
      simp only [hs] at h
      refine ih ?_ ?_ h
      · cases a <;> simp only [dstep] at hs
        case p pa =>
          cases hst : Proto.step s pa with
          | none => simp [hst] at hs
          | some s2 =>
            simp only [hst, Option.some.injEq, Prod.mk.injEq] at hs
            obtain ⟨_, rfl⟩ := hs
            cases pa <;> exact hq
        case write c =>
          split at hs
          · simp only [Option.some.injEq, Prod.mk.injEq] at hs
            obtain ⟨_, rfl⟩ := hs
            cases c <;> exact hq
          · contradiction
        all_goals
          split at hs
          · simp only [Option.some.injEq, Prod.mk.injEq] at hs
            obtain ⟨_, rfl⟩ := hs
            exact hq
          · contradiction
      · cases a <;> simp only [dstep] at hs
        case p pa =>
          cases hst : Proto.step s pa with
          | none => simp [hst] at hs
          | some s2 =>
            simp only [hst, Option.some.injEq, Prod.mk.injEq] at hs
            obtain ⟨_, rfl⟩ := hs
            rw [protoEffect_v]; exact hinv
        case write c =>
          split at hs
          · simp only [Option.some.injEq, Prod.mk.injEq] at hs
            obtain ⟨_, rfl⟩ := hs
            cases c <;> simp [D.write, Vals.flush] <;> simpa using hinv
          · contradiction
        case agentStep =>
          split at hs
          · simp only [Option.some.injEq, Prod.mk.injEq] at hs
            obtain ⟨_, rfl⟩ := hs
            simp only [push, hq]
            rw [← List.append_assoc, hinv, List.range'_1_concat, Nat.add_comm]
          · contradiction
        case update =>
          split at hs
          · simp only [Option.some.injEq, Prod.mk.injEq] at hs
            obtain ⟨_, rfl⟩ := hs
            simpa [Vals.flush] using hinv
          · contradiction
        all_goals
          split at hs
          · simp only [Option.some.injEq, Prod.mk.injEq] at hs
            obtain ⟨_, rfl⟩ := hs
            exact hinv
          · contradiction

theorem collected_all {n mx : Nat} {s : St} {d : D} (h : DReachable n mx none {} s d) :
    d.v.obs.data = List.range' 1 d.v.agentSteps := by
  obtain ⟨tr, htr⟩ := h
  exact (collected_all_run tr rfl (by simp [dinit]) htr).1

/-- Hence the buffer content stored by a runtime save is every sample collected before the pause
was acknowledged (unbounded collector). -/
theorem saved_data_is_everything_collected {n mx : Nat} {s : St} {d : D}
    (h : DReachable n mx none {} s d) (hpc : s.ctl.pc = .svIn) (x : List Nat)
    (hx : d.snap.data = some x) : x = List.range' 1 d.ack.agentSteps := by
  obtain ⟨hok, hobs⟩ := snapshot_is_cut h hpc
  rw [hok.2.2.1 x hx, ← hobs]
  exact collected_all h

/-- While the final state is written every thread has exited (or was never started): no step, run or hand-over is
possible any more, so the final values are settled (the clock keeps running; it is re-anchored
by the next launch's load, `Props/C05.lean`). -/
theorem final_values_settled {n mx : Nat} {qcap : Option Nat} {v0 : Vals} {s : St} {d : D}
    (h : DReachable n mx qcap v0 s d) (hpc : s.ctl.pc = .finalIn) (a : DAct)
    (ha : a = .agentStep ∨ a = .envObserve ∨ a = .envAffect ∨ (∃ i, a = .trainRun i) ∨ a = .update) :
    dstep s d a = none := by
  have hr := proj_reachable h
  have hdone := (final_save_last hr (Or.inl hpc)).1
  have hI := reachable_inv hr
  have key : ∀ t, inStep s t = false ∧ inTick s t = false := by
    intro t
    simp only [inStep, inTick]
    cases hget : s.thr[t]? with
    | none => simp
    | some th =>
      have hd := hdone th (mem_of_getElem? hget)
      have hT := hI.2 th (mem_of_getElem? hget)
      unfold TInv at hT
      have hin : th.inCb = none := by
        cases hc : th.inCb with
        | none => rfl
        | some k => have := hT.2.1 (by simp [hc]); rcases hd with hd | hd <;> simp [hd, cbPc] at this
      rcases hd with hd | hd <;> simp [hd, hin]
  rcases ha with rfl | rfl | rfl | ⟨i, rfl⟩ | rfl <;> simp [dstep, key]

/-! ### Non-vacuity: a reachable product state inside a runtime save, with steps taken, samples both
delivered and still in transit at the acknowledgement, and two components already written. -/

def cutTrace : List DAct :=
  [.p (.cSpawn 0), .p (.cSpawn 1), .p .cRun,
   .p (.bCbBegin 0 .setup), .p (.bCbEnd 0 .setup), .p (.bReadResume 0 true), .p (.bWaitImm 0),
   .p (.bReadShutdown 0 false), .p (.bCbBegin 0 .step), .envObserve, .agentStep, .envAffect,
   .p (.bCbEnd 0 .step), .p (.bLoopSleep 0),
   .p (.bReadResume 1 true), .p (.bWaitImm 1), .p (.bReadShutdown 1 false), .update, .clockTick,
   .p (.bCbBegin 1 .step), .trainRun 0, .p (.bCbEnd 1 .step), .p (.bLoopSleep 1),
   .p (.bReadResume 0 true), .p (.bWaitImm 0), .p (.bReadShutdown 0 false),
   .p (.bCbBegin 0 .step), .agentStep, .p (.bCbEnd 0 .step), .p (.bLoopSleep 0),
   .p .cSave, .p .cTryPause, .p .cAcquire, .p .cClearResume, .p .cRelease,
   .p (.cSpawnWorker 0), .p (.cSpawnWorker 1),
   .p (.bReadResume 0 false), .p (.bSetPaused 0), .p (.bWaitBlock 0),
   .p (.bReadResume 1 false), .p (.bSetPaused 1), .p (.bWaitBlock 1),
   .p (.wRet 0 true), .p (.wRet 1 true), .p .cWorkersJoined, .p .cClockPause, .p (.cTryPauseRet true),
   .p .cSaveBegin, .p .cSaveCbBegin, .write .agent, .write .data]

def cutEnd : St × D :=
  (drun (dinit 2 3 (some 4) { trainRuns := [0] }).1 (dinit 2 3 (some 4) { trainRuns := [0] }).2 cutTrace).get
    (by decide)

theorem cutEnd_reached :
    drun (dinit 2 3 (some 4) { trainRuns := [0] }).1 (dinit 2 3 (some 4) { trainRuns := [0] }).2 cutTrace =
      some (cutEnd.1, cutEnd.2) := by
  show _ = some cutEnd
  unfold cutEnd
  rw [Option.some_get]

example : ∃ s d, DReachable 2 3 (some 4) { trainRuns := [0] } s d ∧ s.ctl.pc = .svIn ∧
    d.ack.data = [1, 2] ∧ d.snap.agentSteps = some 2 ∧ d.snap.data = some [1, 2] ∧
    d.v.queue = [] ∧ d.ack.trainRuns = [1] ∧ d.ack.clock = 1 := by
  refine ⟨cutEnd.1, cutEnd.2, ⟨cutTrace, cutEnd_reached⟩, ?_, ?_, ?_, ?_, ?_, ?_, ?_⟩ <;> decide

end Pamiq.SysData
