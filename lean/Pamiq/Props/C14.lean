/-
C14 — each side sees only its own models, and trained parameters reach inference.
Property theorems only. Model: `Pamiq/Model/Models.lean` (tied to `pamiq_core/model/interface.py`,
`model/container.py`, `trainer/base.py`, `interaction/agent.py` and `launcher.py` by the
correspondence check `harness/corr/c14.py`); helper lemmas: `Pamiq/Lemmas/Models.lean`.
Quantifiers: every set of models (every combination of the two flags), every assignment of models to
trainers, every sequence of training runs, retrievals and state loads.
-/
import Pamiq.Lemmas.Models
import Mathlib.Data.List.Nodup
import Mathlib.Data.List.Range

namespace Pamiq.Models

/-! ## The constructor guard -/

/-- `TrainingModel(has_inference_model, inference_thread_only)` raises `ValueError` exactly for
"no inference model but inference-thread-only"; otherwise the model carries the flags it was given
and has not yet created its inference model. -/
theorem ctor_guard (h i : Bool) (v : Nat) :
    (Model.new h i v = .error .valueError ↔ (h = false ∧ i = true)) ∧
    (∀ m, Model.new h i v = .ok m →
      m.hasInf = h ∧ m.infOnly = i ∧ m.trainVersion = v ∧ m.infObj = none) := by
  cases h <;> cases i <;> simp [Model.new] <;> (intro m hm; subst hm; simp)

/-! ## Who can obtain what (after `TrainingModelsDict(models)` as built by `launch()`)

`items` are the models handed to `launch()`: distinct names (a Python mapping) and models fresh
from their constructor. `d` is the resulting container. -/

/-- **Agents** obtain an inference model for `k` iff a model named `k` exists and has an inference
model; otherwise `KeyError`. Agents can only reach `InferenceModelsDict`, which holds inference
objects (ids), never training models. -/
theorem agent_gets (items : List (String × Model)) (d : Dict)
    (hnd : (items.map Prod.fst).Nodup) (hfresh : ∀ km ∈ items, km.2.infObj = none)
    (hd : Dict.ctor items Dict.empty = .ok d) (k : String) :
    match items.lookup k with
    | some m => if m.hasInf then ∃ o, d.agentGet k = .ok o else d.agentGet k = .error .keyError
    | none => d.agentGet k = .error .keyError := by
  rw [ctor_empty items hnd hfresh] at hd
  simp only [Except.ok.injEq] at hd
  subst hd
  have h := build_inf_lookup k 0 items hnd
  unfold Dict.agentGet
  simp only []
  cases hl : items.lookup k with
  | none =>
    simp only [hl] at h ⊢
    cases hq : (build 0 items).2.1.lookup k with
    | none => rfl
    | some o => simp [hq] at h
  | some m =>
    simp only [hl] at h ⊢
    cases hq : (build 0 items).2.1.lookup k with
    | none =>
      simp only [hq, Option.isSome_none] at h
      simp [← h]
    | some o =>
      simp only [hq, Option.isSome_some] at h
      simp [← h]

/-- **Trainers** obtain the training model named `k` iff it exists and is not inference-thread-only;
otherwise `KeyError`. The model obtained carries the flags and parameters it was built with. -/
theorem trainer_gets (items : List (String × Model)) (d : Dict)
    (hnd : (items.map Prod.fst).Nodup) (hfresh : ∀ km ∈ items, km.2.infObj = none)
    (hd : Dict.ctor items Dict.empty = .ok d) (k : String) :
    match items.lookup k with
    | some m =>
      if m.infOnly then d.getItem k = .error .keyError
      else ∃ m', d.getItem k = .ok m' ∧ m'.hasInf = m.hasInf ∧ m'.infOnly = false ∧
        m'.trainVersion = m.trainVersion
    | none => d.getItem k = .error .keyError := by
  rw [ctor_empty items hnd hfresh] at hd
  simp only [Except.ok.injEq] at hd
  subst hd
  have h := build_data_lookup k 0 items
  unfold Dict.getItem
  simp only []
  cases hl : items.lookup k with
  | none =>
    simp only [hl, Option.map_none] at h ⊢
    cases hq : (build 0 items).1.lookup k with
    | none => rfl
    | some m' => simp [hq] at h
  | some m =>
    simp only [hl, Option.map_some] at h ⊢
    cases hq : (build 0 items).1.lookup k with
    | none => simp [hq] at h
    | some m' =>
      simp only [hq, Option.map_some, Option.some.injEq, Prod.mk.injEq] at h
      cases hio : m.infOnly
      · simp only [Bool.false_eq_true, if_false]
        refine ⟨m', ?_, h.1, by rw [h.2.1, hio], h.2.2⟩
        simp [h.2.1, hio]
      · simp [h.2.1, hio]

/-- A trainer's retrieved-name set only ever contains names it could obtain. -/
theorem trainer_get_records (s s' : Sys) (t k : String) (m : Model)
    (h : s.trainerGet t k = .ok (s', m)) :
    s.dict.getItem k = .ok m ∧ m.infOnly = false ∧ s'.dict = s.dict ∧
    s'.trainers = mapAt t (insertName k) s.trainers := by
  unfold Sys.trainerGet at h
  cases hr : s.retrieved t with
  | error e => simp [hr] at h
  | ok r =>
    simp only [hr] at h
    cases hg : s.dict.getItem k with
    | error e => simp [hg] at h
    | ok m0 =>
      simp only [hg, Except.ok.injEq, Prod.mk.injEq] at h
      obtain ⟨hs, hm⟩ := h
      subst hm; subst hs
      refine ⟨rfl, ?_, rfl, rfl⟩
      unfold Dict.getItem at hg
      cases hl : s.dict.data.lookup k with
      | none => simp [hl] at hg
      | some m1 =>
        simp only [hl] at hg
        cases hio : m1.infOnly
        · simp [hio] at hg; rw [← hg]; exact hio
        · simp [hio] at hg

/-! ## Identity: the object the agent holds is the object synchronised into -/

/-- **Same object.** The inference model an agent obtains for `k` is the very object (same id)
owned by the training model stored under `k`; `sync()` of that training model writes into exactly
that object and never replaces it; and no two models share an inference object. -/
theorem same_object (items : List (String × Model)) (d : Dict)
    (hnd : (items.map Prod.fst).Nodup) (hfresh : ∀ km ∈ items, km.2.infObj = none)
    (hd : Dict.ctor items Dict.empty = .ok d) :
    (∀ k o, d.agentGet k = .ok o →
      ∃ m', d.data.lookup k = some m' ∧ m'.hasInf = true ∧ m'.infObj = some o ∧
        ∀ n, m'.needSync = true →
          ∃ m'', m'.sync n = .ok (m'', some o, n) ∧ m''.infObj = some o) ∧
    (d.inf.map Prod.snd).Nodup := by
  rw [ctor_empty items hnd hfresh] at hd
  simp only [Except.ok.injEq] at hd
  subst hd
  refine ⟨?_, ?_⟩
  · intro k o hget
    unfold Dict.agentGet at hget
    simp only [] at hget
    cases hq : (build 0 items).2.1.lookup k with
    | none => simp [hq] at hget
    | some o' =>
      simp only [hq, Except.ok.injEq] at hget
      subst hget
      obtain ⟨m', hl, hh, ho⟩ := build_obj k o' 0 items hnd hq
      refine ⟨m', hl, hh, ho, ?_⟩
      intro n hs
      refine ⟨m'.synced, ?_, by simp [ho]⟩
      rw [Model.sync_created m' n (fun _ => ⟨o', ho⟩)]
      simp [hs, ho]
  · simp only []
    rw [(build_objs 0 items).1]
    exact List.nodup_range'

/-! ## Invariants of a running system -/

/-- Structural well-formedness of a system: names are distinct; every model that has an inference
model has created it; the inference dictionary points at the objects owned by the models of the same
name; different models own different objects. -/
structure Sys.Good (s : Sys) : Prop where
  names : (s.dict.data.map Prod.fst).Nodup
  created : Created s.dict.data
  linked : ∀ k o, s.dict.inf.lookup k = some o →
    ∃ m, s.dict.data.lookup k = some m ∧ m.infObj = some o
  objinj : ∀ km ∈ s.dict.data, ∀ km' ∈ s.dict.data, ∀ o,
    km.2.infObj = some o → km'.2.infObj = some o → km.1 = km'.1

/-- Inference is up to date: every model that is to be synchronised has identical parameters on
both sides. -/
def Sys.Fresh (s : Sys) : Prop :=
  ∀ km ∈ s.dict.data, km.2.needSync = true → km.2.infVersion = km.2.trainVersion

theorem init_good (items : List (String × Model)) (ts : List String) (s : Sys)
    (hnd : (items.map Prod.fst).Nodup) (hfresh : ∀ km ∈ items, km.2.infObj = none)
    (h : Sys.init items ts = .ok s) : s.Good ∧ s.Fresh := by
  unfold Sys.init at h
  rw [ctor_empty items hnd hfresh] at h
  simp only [Except.ok.injEq] at h
  subst h
  refine ⟨⟨?_, ?_, ?_, ?_⟩, ?_⟩
  · simp only []; rw [build_names]; exact hnd
  · exact build_created 0 items
  · intro k o hl
    obtain ⟨m', h1, _, h3⟩ := build_obj k o 0 items hnd hl
    exact ⟨m', h1, h3⟩
  · intro km hkm km' hkm' o ho ho'
    simp only [] at hkm hkm'
    -- positions of objects: the list of owned objects has no duplicates
    have hobjs : ((build 0 items).1.filterMap (fun km => km.2.infObj)).Nodup := by
      rw [build_data_objs 0 items hfresh, (build_objs 0 items).1]
      exact List.nodup_range'
    have hnames : ((build 0 items).1.map Prod.fst).Nodup := by rw [build_names]; exact hnd
    -- two entries with the same object are the same entry
    clear hnd hfresh
    generalize (build 0 items).1 = data at *
    induction data with
    | nil => simp at hkm
    | cons x xs ih =>
      simp only [List.mem_cons] at hkm hkm'
      simp only [List.map_cons, List.nodup_cons] at hnames
      rcases hkm with rfl | hkm <;> rcases hkm' with rfl | hkm'
      · rfl
      · exfalso
        simp only [List.filterMap_cons, ho] at hobjs
        rw [List.nodup_cons] at hobjs
        exact hobjs.1 (List.mem_filterMap.2 ⟨km', hkm', ho'⟩)
      · exfalso
        simp only [List.filterMap_cons, ho'] at hobjs
        rw [List.nodup_cons] at hobjs
        exact hobjs.1 (List.mem_filterMap.2 ⟨km, hkm, ho⟩)
      · apply ih hkm hkm'
        · simp only [List.filterMap_cons] at hobjs
          split at hobjs
          · exact hobjs
          · exact (List.nodup_cons.1 hobjs).2
        · exact hnames.2
  · exact build_fresh 0 items

/-- Replacing the stored models by a per-entry transformation that keeps flags and the owned object
keeps the system well-formed. -/
theorem Sys.Good.map (s : Sys) (hg : s.Good) (F : String → Model → Model)
    (hF : ∀ k m, (F k m).hasInf = m.hasInf ∧ (F k m).infObj = m.infObj) (d' : Dict) (tr)
    (hd : d' = { s.dict with data := s.dict.data.map (fun kv => (kv.1, F kv.1 kv.2)) }) :
    (Sys.mk d' tr).Good := by
  subst hd
  refine ⟨?_, ?_, ?_, ?_⟩
  · simp only []; rw [map_val_names]; exact hg.names
  · exact Created.map F _ hF hg.created
  · intro k o hl
    obtain ⟨m, h1, h2⟩ := hg.linked k o hl
    refine ⟨F k m, ?_, by rw [(hF k m).2]; exact h2⟩
    simp only []
    rw [lookup_map_val, h1]; rfl
  · intro km hkm km' hkm' o ho ho'
    simp only [] at hkm hkm'
    obtain ⟨kv, hkv, rfl⟩ := List.mem_map.1 hkm
    obtain ⟨kv', hkv', rfl⟩ := List.mem_map.1 hkm'
    simp only [(hF _ _).2] at ho ho'
    exact hg.objinj kv hkv kv' hkv' o ho ho'

/-! ## After a training run -/

/-- **Exactly the retrieved models are synchronised.** If `run` of trainer `t` (training the models
in `bumps`) completes, then with `names` the models `t` has retrieved:
* `t` trained only models it retrieved; each model's training parameters are the last value the
  run assigned (others keep theirs);
* a model is synchronised (inference parameters := training parameters) iff it is retrieved by `t`
  and has a separate inference model (`hasInf ∧ ¬infOnly`); every other model's inference
  parameters are unchanged — inference-only and inference-less models are never touched;
* `sync_impl` is called exactly for those models, each with its own inference object (`log`);
* flags, objects, the inference dictionary and all retrieved sets are unchanged. -/
theorem sync_exact (s s' : Sys) (t : String) (bumps : List (String × Nat))
    (log : List (String × ObjId)) (hg : s.Good) (h : s.run t bumps = .ok (s', log)) :
    ∃ names, s.retrieved t = .ok names ∧ (∀ b ∈ bumps, b.1 ∈ names) ∧
      s'.dict.data = s.dict.data.map (fun kv => (kv.1,
        { kv.2 with
          trainVersion := (match lastBump bumps kv.1 with | some v => v | none => kv.2.trainVersion),
          infVersion :=
            if kv.1 ∈ names ∧ kv.2.needSync = true then
              (match lastBump bumps kv.1 with | some v => v | none => kv.2.trainVersion)
            else kv.2.infVersion })) ∧
      log = names.filterMap (syncTarget s.dict.data) ∧
      s'.dict.inf = s.dict.inf ∧ s'.trainers = s.trainers ∧ s'.Good := by
  unfold Sys.run at h
  cases hr : s.retrieved t with
  | error e => simp [hr] at h
  | ok names =>
    simp only [hr] at h
    cases ht : trainModels names bumps s.dict.data with
    | error e => simp [ht] at h
    | ok data1 =>
      simp only [ht] at h
      cases hs : Dict.syncNames names { s.dict with data := data1 } with
      | error e => simp [hs] at h
      | ok r =>
        obtain ⟨d2, log2⟩ := r
        simp only [hs, Except.ok.injEq, Prod.mk.injEq] at h
        obtain ⟨hs', hlog⟩ := h
        obtain ⟨hb, hd1⟩ := trainModels_eq names bumps s.dict.data data1 ht
        have hF1 : ∀ k m, (trainF bumps k m).hasInf = m.hasInf ∧ (trainF bumps k m).infObj = m.infObj := by
          intro k m; unfold trainF; split <;> simp
        have hg1 : (Sys.mk { s.dict with data := data1 } s.trainers).Good :=
          Sys.Good.map s hg (trainF bumps) hF1 _ _ (by rw [hd1])
        obtain ⟨hd2, hlog2, _⟩ := Dict.syncNames_eq names _ d2 log2 hg1.names hg1.created hs
        have hdata : d2.data = s.dict.data.map
            (fun kv => (kv.1, allF names kv.1 (trainF bumps kv.1 kv.2))) := by
          rw [hd2]; simp only []; rw [hd1]
          simp [List.map_map, Function.comp_def]
        refine ⟨names, rfl, hb, ?_, ?_, ?_, ?_, ?_⟩
        · rw [← hs']; simp only []; rw [hdata]
          apply List.map_congr_left
          intro kv _
          unfold allF trainF Model.synced
          cases hlb : lastBump bumps kv.1 <;> by_cases hk : kv.1 ∈ names <;>
            cases hn : kv.2.needSync <;> simp [hk, hn, Model.needSync] <;>
            simp_all [Model.needSync]
        · rw [← hlog, hlog2]
          simp only []
          have : ∀ k, syncTarget data1 k = syncTarget s.dict.data k := by
            intro k; rw [hd1]
            exact syncTarget_map (trainF bumps) s.dict.data k (by
              intro k' m'; unfold trainF; split <;> simp [Model.needSync])
          rw [funext this]
        · rw [← hs', hd2]
        · rw [← hs']
        · rw [← hs']
          exact Sys.Good.map s hg (fun k m => allF names k (trainF bumps k m))
            (by
              intro k m
              unfold allF
              split <;> simp [(hF1 k m).1, (hF1 k m).2])
            d2 s.trainers (by rw [hd2]; simp only []; rw [hd1]; simp [List.map_map, Function.comp_def])

/-- Every name a trainer has retrieved is (still) obtainable. -/
def Sys.RetrievedOk (s : Sys) : Prop :=
  ∀ t names, s.trainers.lookup t = some names →
    ∀ k ∈ names, ∃ m, s.dict.data.lookup k = some m ∧ m.infOnly = false

/-- **A run cannot fail in the framework.** For a trainer that trains only models it retrieved,
`run` completes: `sync_models` never meets a `KeyError`, because every retrieved name was
obtainable when it was recorded and flags and presence never change. -/
theorem run_completes (s : Sys) (t : String) (names : List String) (bumps : List (String × Nat))
    (hg : s.Good) (hr : s.RetrievedOk) (ht : s.trainers.lookup t = some names)
    (hb : ∀ b ∈ bumps, b.1 ∈ names) : ∃ s' log, s.run t bumps = .ok (s', log) := by
  obtain ⟨data1, h1⟩ := trainModels_completes names bumps s.dict.data hb
  obtain ⟨_, hd1⟩ := trainModels_eq names bumps s.dict.data data1 h1
  have hF1 : ∀ k m, (trainF bumps k m).hasInf = m.hasInf ∧ (trainF bumps k m).infObj = m.infObj := by
    intro k m; unfold trainF; split <;> simp
  have hg1 : (Sys.mk { s.dict with data := data1 } s.trainers).Good :=
    Sys.Good.map s hg (trainF bumps) hF1 _ _ (by rw [hd1])
  have hall : ∀ k ∈ names, ∃ m, data1.lookup k = some m ∧ m.infOnly = false := by
    intro k hk
    obtain ⟨m, hl, hio⟩ := hr t names ht k hk
    refine ⟨trainF bumps k m, ?_, ?_⟩
    · rw [hd1, lookup_map_val, hl]; rfl
    · unfold trainF; split <;> simpa using hio
  obtain ⟨d2, log, h2⟩ := Dict.syncNames_completes names { s.dict with data := data1 }
    hg1.names hg1.created hall
  refine ⟨⟨d2, s.trainers⟩, log, ?_⟩
  simp [Sys.run, Sys.retrieved, ht, h1, h2]

/-- `RetrievedOk` holds initially (nothing retrieved) and is kept by every operation. -/
theorem retrievedOk_init (items : List (String × Model)) (ts : List String) (s : Sys)
    (h : Sys.init items ts = .ok s) : s.RetrievedOk := by
  unfold Sys.init at h
  cases hc : Dict.ctor items Dict.empty with
  | error e => simp [hc] at h
  | ok d =>
    simp only [hc, Except.ok.injEq] at h
    subst h
    intro t names hl k hk
    have := mem_of_lookup t names _ hl
    simp only [List.mem_map] at this
    obtain ⟨_, _, he⟩ := this
    simp only [Prod.mk.injEq] at he
    rw [← he.2] at hk
    simp at hk

/-! ## After a state load -/

/-- **Every model with a separate inference model is synchronised after a load.** If `load_state`
completes, every model's training parameters are the loaded ones, every model with
`hasInf ∧ ¬infOnly` has the loaded parameters on the inference side too (and `sync_impl` ran for
exactly these, in dictionary order, each with its own object); the others keep their inference
parameters. -/
theorem load_syncs_all (s s' : Sys) (saved : List (String × Nat)) (log : List (String × ObjId))
    (hg : s.Good) (h : s.load saved = .ok (s', log)) :
    (∀ kv ∈ s.dict.data, ∃ v, saved.lookup kv.1 = some v) ∧
    s'.dict.data = s.dict.data.map (fun kv => (kv.1,
      match saved.lookup kv.1 with
      | some v => { kv.2 with trainVersion := v,
                              infVersion := if kv.2.needSync then v else kv.2.infVersion }
      | none => kv.2)) ∧
    log = s.dict.data.filterMap
      (fun kv => if kv.2.needSync then kv.2.infObj.map (fun o => (kv.1, o)) else none) ∧
    s'.dict.inf = s.dict.inf ∧ s'.trainers = s.trainers ∧ s'.Good := by
  unfold Sys.load Dict.loadState at h
  cases hl : loadAll saved s.dict.data s.dict.nextObj with
  | error e => simp [hl] at h
  | ok r =>
    obtain ⟨data', log', n'⟩ := r
    simp only [hl, Except.ok.injEq, Prod.mk.injEq] at h
    obtain ⟨hs', hlog⟩ := h
    obtain ⟨hn, hall, hdata, hlog'⟩ := loadAll_eq saved s.dict.data _ data' log' n' hg.created hl
    have hF : ∀ k m, (loadF saved k m).hasInf = m.hasInf ∧ (loadF saved k m).infObj = m.infObj := by
      intro k m; unfold loadF; split <;> simp
    refine ⟨hall, ?_, by rw [← hlog, hlog'], by rw [← hs'], by rw [← hs'], ?_⟩
    · rw [← hs']; simp only []; rw [hdata]
      apply List.map_congr_left
      intro kv _
      unfold loadF Model.synced
      cases saved.lookup kv.1 with
      | none => rfl
      | some v =>
        have : ({ kv.2 with trainVersion := v } : Model).needSync = kv.2.needSync := rfl
        simp only [this]
        cases kv.2.needSync <;> simp
    · rw [← hs']
      exact Sys.Good.map s hg (loadF saved) hF _ _ (by rw [hdata, hn])

/-! ## Over whole histories: inference always reflects the latest completed training or load -/

inductive Op
  | run (t : String) (bumps : List (String × Nat))    -- a completed `Trainer.run()`
  | load (saved : List (String × Nat))                -- `TrainingModelsDict.load_state`
  | get (t k : String)                                -- `get_training_model` (at attach time or later)
deriving Repr

def Sys.apply (s : Sys) : Op → Except Err Sys
  | .run t bumps => (s.run t bumps).map Prod.fst
  | .load saved => (s.load saved).map Prod.fst
  | .get t k => match s.trainerGet t k with
    | .ok (s', _) => .ok s'
    | .error .keyError => .ok s       -- the trainer catches / the harness records the KeyError
    | .error e => .error e

def Sys.applyAll : List Op → Sys → Except Err Sys
  | [], s => .ok s
  | op :: rest, s => match s.apply op with
    | .ok s' => Sys.applyAll rest s'
    | .error e => .error e

theorem apply_preserves (s s' : Sys) (op : Op) (hg : s.Good) (hf : s.Fresh)
    (h : s.apply op = .ok s') : s'.Good ∧ s'.Fresh ∧ s'.dict.inf = s.dict.inf := by
  cases op with
  | run t bumps =>
    simp only [Sys.apply] at h
    cases hr : s.run t bumps with
    | error e => simp [hr, Except.map] at h
    | ok r =>
      obtain ⟨s1, log⟩ := r
      simp only [hr, Except.map, Except.ok.injEq] at h
      subst h
      obtain ⟨names, hret, hb, hdata, _, hinf, _, hg'⟩ := sync_exact s s1 t bumps log hg hr
      refine ⟨hg', ?_, hinf⟩
      intro km hkm hs
      rw [hdata] at hkm
      obtain ⟨kv, hkv, rfl⟩ := List.mem_map.1 hkm
      have hs0 : kv.2.needSync = true := by simpa [Model.needSync] using hs
      simp only [] at hs ⊢
      by_cases hk : kv.1 ∈ names
      · simp [hk, hs0]
      · -- not retrieved by `t`: `t` did not train it either
        have hnb : lastBump bumps kv.1 = none := by
          cases hlb : lastBump bumps kv.1 with
          | none => rfl
          | some v =>
            exfalso
            have : ∃ b ∈ bumps, b.1 = kv.1 := lastBump_mem kv.1 v bumps hlb
            obtain ⟨b, hbm, hbe⟩ := this
            exact hk (hbe ▸ hb b hbm)
        simp [hk, hnb, hf kv hkv hs0]
  | load saved =>
    simp only [Sys.apply] at h
    cases hr : s.load saved with
    | error e => simp [hr, Except.map] at h
    | ok r =>
      obtain ⟨s1, log⟩ := r
      simp only [hr, Except.map, Except.ok.injEq] at h
      subst h
      obtain ⟨hall, hdata, _, hinf, _, hg'⟩ := load_syncs_all s s1 saved log hg hr
      refine ⟨hg', ?_, hinf⟩
      intro km hkm hs
      rw [hdata] at hkm
      obtain ⟨kv, hkv, rfl⟩ := List.mem_map.1 hkm
      obtain ⟨v, hv⟩ := hall kv hkv
      simp only [hv] at hs ⊢
      have hs0 : kv.2.needSync = true := by simpa [Model.needSync] using hs
      simp [hs0]
  | get t k =>
    simp only [Sys.apply] at h
    cases hr : s.trainerGet t k with
    | ok r =>
      obtain ⟨s1, m⟩ := r
      simp only [hr, Except.ok.injEq] at h
      subst h
      obtain ⟨_, _, hd, _⟩ := trainer_get_records s s1 t k m hr
      exact ⟨⟨by rw [hd]; exact hg.names, by rw [hd]; exact hg.created,
        by rw [hd]; exact hg.linked, by rw [hd]; exact hg.objinj⟩,
        by unfold Sys.Fresh; rw [hd]; exact hf, by rw [hd]⟩
    | error e =>
      cases e <;> simp [hr] at h
      subst h
      exact ⟨hg, hf, rfl⟩

theorem retrievedOk_apply (s s' : Sys) (op : Op) (hg : s.Good) (hr : s.RetrievedOk)
    (h : s.apply op = .ok s') : s'.RetrievedOk := by
  -- a per-entry transformation that keeps `infOnly` keeps every retrieved name obtainable
  have hmap : ∀ (F : String → Model → Model) (d' : Dict) (tr : List (String × List String)),
      (∀ k m, (F k m).infOnly = m.infOnly) →
      d'.data = s.dict.data.map (fun kv => (kv.1, F kv.1 kv.2)) → tr = s.trainers →
      (Sys.mk d' tr).RetrievedOk := by
    intro F d' tr hF hd htr t names hl k hk
    subst htr
    obtain ⟨m, hm, hio⟩ := hr t names hl k hk
    refine ⟨F k m, ?_, by rw [hF]; exact hio⟩
    simp only []
    rw [hd, lookup_map_val, hm]; rfl
  cases op with
  | run t bumps =>
    simp only [Sys.apply] at h
    cases hrun : s.run t bumps with
    | error e => simp [hrun, Except.map] at h
    | ok r =>
      obtain ⟨s1, log⟩ := r
      simp only [hrun, Except.map, Except.ok.injEq] at h
      subst h
      obtain ⟨names, _, _, hdata, _, _, htr, _⟩ := sync_exact s s1 t bumps log hg hrun
      exact hmap (fun k m => { m with
          trainVersion := (match lastBump bumps k with | some v => v | none => m.trainVersion),
          infVersion :=
            if k ∈ names ∧ m.needSync = true then
              (match lastBump bumps k with | some v => v | none => m.trainVersion)
            else m.infVersion }) s1.dict s1.trainers (fun _ _ => rfl) hdata htr
  | load saved =>
    simp only [Sys.apply] at h
    cases hrun : s.load saved with
    | error e => simp [hrun, Except.map] at h
    | ok r =>
      obtain ⟨s1, log⟩ := r
      simp only [hrun, Except.map, Except.ok.injEq] at h
      subst h
      obtain ⟨_, hdata, _, _, htr, _⟩ := load_syncs_all s s1 saved log hg hrun
      exact hmap (fun k m => match saved.lookup k with
          | some v => { m with trainVersion := v,
                               infVersion := if m.needSync then v else m.infVersion }
          | none => m) s1.dict s1.trainers (by intro k m; show Model.infOnly (match saved.lookup k with | some v => _ | none => m) = _; split <;> rfl) hdata htr
  | get t k =>
    simp only [Sys.apply] at h
    cases hget : s.trainerGet t k with
    | ok r =>
      obtain ⟨s1, m⟩ := r
      simp only [hget, Except.ok.injEq] at h
      subst h
      obtain ⟨hgi, hio, hd, htr⟩ := trainer_get_records s s1 t k m hget
      have hkm : s.dict.data.lookup k = some m := by
        unfold Dict.getItem at hgi
        cases hl : s.dict.data.lookup k with
        | none => simp [hl] at hgi
        | some m1 =>
          simp only [hl] at hgi
          split at hgi
          · simp at hgi
          · simp at hgi; rw [hgi]
      intro t' names' hl' k' hk'
      rw [htr, mapAt_eq,
        lookup_map_val (fun k' ns => if k' = t then insertName k ns else ns)] at hl'
      rw [hd]
      cases hl0 : s.trainers.lookup t' with
      | none => simp [hl0] at hl'
      | some names0 =>
        simp only [hl0, Option.map_some, Option.some.injEq] at hl'
        by_cases htt : t' = t
        · simp only [htt, if_true] at hl'
          subst hl'
          unfold insertName at hk'
          split at hk'
          · exact hr t' names0 hl0 k' hk'
          · simp only [List.mem_append, List.mem_singleton] at hk'
            rcases hk' with hk' | rfl
            · exact hr t' names0 hl0 k' hk'
            · exact ⟨m, hkm, hio⟩
        · simp only [htt, if_false] at hl'
          subst hl'
          exact hr t' names0 hl0 k' hk'
    | error e =>
      cases e <;> simp [hget] at h
      subst h
      exact hr

/-- Every state reached from `launch()`'s construction by completed operations is well-formed,
has fresh inference parameters, and has only obtainable names in the trainers' retrieved sets (so
`run_completes` applies to it). -/
theorem reachable_inv (items : List (String × Model)) (ts : List String) (s0 s : Sys)
    (ops : List Op) (hnd : (items.map Prod.fst).Nodup) (hfresh : ∀ km ∈ items, km.2.infObj = none)
    (h0 : Sys.init items ts = .ok s0) (h : s0.applyAll ops = .ok s) :
    s.Good ∧ s.Fresh ∧ s.RetrievedOk ∧ s.dict.inf = s0.dict.inf := by
  obtain ⟨hg0, hf0⟩ := init_good items ts s0 hnd hfresh h0
  have hr0 := retrievedOk_init items ts s0 h0
  clear h0
  induction ops generalizing s0 with
  | nil =>
    simp [Sys.applyAll] at h; subst h; exact ⟨hg0, hf0, hr0, rfl⟩
  | cons op rest ih =>
    simp only [Sys.applyAll] at h
    cases ha : s0.apply op with
    | error e => simp [ha] at h
    | ok s2 =>
      simp only [ha] at h
      obtain ⟨hg2, hf2, hi2⟩ := apply_preserves s0 s2 op hg0 hf0 ha
      have hr2 := retrievedOk_apply s0 s2 op hg0 hr0 ha
      obtain ⟨a, b, c, d⟩ := ih s2 h hg2 hf2 hr2
      exact ⟨a, b, c, by rw [d, hi2]⟩

/-- What the agent sees of model `k` is the inference side of the model stored under `k`. -/
theorem agentView_eq (s : Sys) (hg : s.Good) (k : String) (o : ObjId) (v : Nat)
    (h : s.agentView k = .ok (o, v)) :
    ∃ m, s.dict.data.lookup k = some m ∧ m.infObj = some o ∧ v = m.infVersion := by
  unfold Sys.agentView Dict.agentGet at h
  cases hl : s.dict.inf.lookup k with
  | none => simp [hl] at h
  | some o' =>
    simp only [hl] at h
    cases hf : s.dict.data.find? (fun km => km.2.infObj = some o') with
    | none => simp [hf] at h
    | some km =>
      simp only [hf, Except.ok.injEq, Prod.mk.injEq] at h
      obtain ⟨ho, hv⟩ := h
      subst ho
      obtain ⟨m, hm, hmo⟩ := hg.linked k o' hl
      have hkm_mem : km ∈ s.dict.data := List.mem_of_find?_eq_some hf
      have hkm_obj : km.2.infObj = some o' := by
        have := List.find?_some hf
        simpa using this
      have hmem : (k, m) ∈ s.dict.data := mem_of_lookup k m _ hm
      have hk : km.1 = k := hg.objinj km hkm_mem (k, m) hmem o' hkm_obj hmo
      have : km = (k, km.2) := by rw [← hk]
      have hl2 := lookup_of_mem k km.2 s.dict.data hg.names (by rw [← this]; exact hkm_mem)
      rw [hm] at hl2
      simp only [Option.some.injEq] at hl2
      exact ⟨m, hm, hmo, by rw [← hv, hl2]⟩

/-- **Inference is always fresh.** Start from `launch()`'s construction (any models with distinct
names, any trainers) and execute any sequence of completed training runs, retrievals and state
loads. At the quiescent point after the sequence, for every model that has a separate inference
model, the parameters the agent sees — through the very object it was handed at attach time — equal
the model's current training parameters, i.e. (by `sync_exact` / `load_syncs_all`) the value written
by the latest completed run that trained it or by the latest load, or the initial parameters if
neither happened. -/
theorem inference_fresh (items : List (String × Model)) (ts : List String) (s0 s : Sys)
    (ops : List Op) (hnd : (items.map Prod.fst).Nodup) (hfresh : ∀ km ∈ items, km.2.infObj = none)
    (h0 : Sys.init items ts = .ok s0) (h : s0.applyAll ops = .ok s) :
    s.dict.inf = s0.dict.inf ∧
    ∀ k o v, s.agentView k = .ok (o, v) →
      ∃ m, s.dict.data.lookup k = some m ∧ m.infObj = some o ∧
        (m.needSync = true → v = m.trainVersion) := by
  obtain ⟨hg0, hf0⟩ := init_good items ts s0 hnd hfresh h0
  have key : ∀ (ops : List Op) (s1 : Sys), s1.Good → s1.Fresh → s1.applyAll ops = .ok s →
      s.Good ∧ s.Fresh ∧ s.dict.inf = s1.dict.inf := by
    intro ops
    induction ops with
    | nil =>
      intro s1 hg hf h
      simp [Sys.applyAll] at h; subst h; exact ⟨hg, hf, rfl⟩
    | cons op rest ih =>
      intro s1 hg hf h
      simp only [Sys.applyAll] at h
      cases ha : s1.apply op with
      | error e => simp [ha] at h
      | ok s2 =>
        simp only [ha] at h
        obtain ⟨hg2, hf2, hi2⟩ := apply_preserves s1 s2 op hg hf ha
        obtain ⟨hg', hf', hi'⟩ := ih s2 hg2 hf2 h
        exact ⟨hg', hf', by rw [hi', hi2]⟩
  obtain ⟨hg, hf, hinf⟩ := key ops s0 hg0 hf0 h
  refine ⟨hinf, ?_⟩
  intro k o v hv
  obtain ⟨m, hm, hmo, hvm⟩ := agentView_eq s hg k o v hv
  refine ⟨m, hm, hmo, ?_⟩
  intro hs
  rw [hvm]
  exact hf (k, m) (mem_of_lookup k m _ hm) hs

/-! ## A training run that fails, and a model registered after the wiring -/

theorem trainF_infObj (bumps : List (String × Nat)) (k : String) (m : Model) :
    (trainF bumps k m).infObj = m.infObj ∧ (trainF bumps k m).infVersion = m.infVersion := by
  unfold trainF
  cases lastBump bumps k <;> exact ⟨rfl, rfl⟩

/-- **An aborted training run reaches nobody.** If `train()` raises - after changing any of the
parameters it was working on - `run()` is left before `sync_models()`: the inference dictionary, every
trainer's retrieved set and, for every name, the object and the parameters the agent sees are exactly
what they were; only training-side parameters differ. Inference keeps showing the latest *completed*
training (or load). -/
theorem failed_run_keeps_inference (s s' : Sys) (t : String) (bumps : List (String × Nat))
    (h : s.runFail t bumps = .ok s') :
    s'.dict.inf = s.dict.inf ∧ s'.trainers = s.trainers ∧ (∀ k, s'.agentView k = s.agentView k) ∧
    s'.dict.data = s.dict.data.map (fun kv => (kv.1, trainF bumps kv.1 kv.2)) := by
  unfold Sys.runFail at h
  cases hr : s.retrieved t with
  | error e => simp [hr] at h
  | ok names =>
    simp only [hr] at h
    cases ht : trainModels names bumps s.dict.data with
    | error e => simp [ht] at h
    | ok data' =>
      simp only [ht, Except.ok.injEq] at h
      subst h
      obtain ⟨_, hd⟩ := trainModels_eq names bumps _ _ ht
      refine ⟨rfl, rfl, ?_, hd⟩
      intro k
      simp only [Sys.agentView, Dict.agentGet]
      cases hl : s.dict.inf.lookup k with
      | none => rfl
      | some o =>
        simp only
        rw [hd, List.find?_map]
        have hp : ((fun km : String × Model => decide (km.2.infObj = some o)) ∘
            fun kv : String × Model => (kv.1, trainF bumps kv.1 kv.2)) =
            (fun km : String × Model => decide (km.2.infObj = some o)) := by
          funext kv
          simp only [Function.comp, (trainF_infObj bumps kv.1 kv.2).1]
        rw [hp]
        cases hf : s.dict.data.find? (fun km => decide (km.2.infObj = some o)) with
        | none => rfl
        | some km =>
          simp only [Option.map_some, (trainF_infObj bumps km.1 km.2).2]

theorem lookup_assocSet_self {α} (k : String) (v : α) : (l : List (String × α)) →
    (assocSet k v l).lookup k = some v
  | [] => by simp [assocSet, List.lookup]
  | (k', v') :: rest => by
    by_cases hk : k' = k
    · simp [assocSet, hk, List.lookup]
    · have hne : (k == k') = false := by simp [Ne.symm hk]
      simp [assocSet, hk, List.lookup, hne, lookup_assocSet_self k v rest]

/-- **A model registered after the wiring is the one the agent gets.** `training_models[k] = m` for a
model with an inference model - a new name or a replacement - stores `m` under `k` and puts `m`'s own
inference object (created now if need be) into the live inference dictionary the agent holds: the next
`get_inference_model(k)` yields the very object `m` synchronises into. -/
theorem set_item_same_object (s s' : Sys) (k : String) (m : Model) (hm : m.hasInf = true)
    (h : s.setItem k m = .ok s') :
    ∃ m' o, s'.dict.data.lookup k = some m' ∧ m'.infObj = some o ∧ s'.dict.agentGet k = .ok o ∧
      m'.trainVersion = m.trainVersion ∧ m'.hasInf = m.hasInf ∧ m'.infOnly = m.infOnly := by
  unfold Sys.setItem Dict.setItem at h
  simp only [hm, if_true] at h
  unfold Model.inferenceModel at h
  simp only [hm, Bool.not_true, Bool.false_eq_true, if_false] at h
  cases ho : m.infObj with
  | some o =>
    simp only [ho, Except.ok.injEq] at h
    subst h
    exact ⟨m, o, lookup_assocSet_self k m _, ho, by simp [Dict.agentGet, lookup_assocSet_self], rfl, rfl, rfl⟩
  | none =>
    simp only [ho, Except.ok.injEq] at h
    subst h
    exact ⟨_, s.dict.nextObj, lookup_assocSet_self k _ _, rfl,
      by simp [Dict.agentGet, lookup_assocSet_self], rfl, by simp [hm], rfl⟩

/-! ## Outside the quantifier: mutating the container after launch

The hypothesis "distinct names" above is what `launch()` provides (one `__setitem__` per name).
Re-assigning a name to a model without inference model leaves the old inference object in the
inference dictionary (`__setitem__` never removes): an agent would still obtain it. -/
theorem replace_leaves_stale :
    ∃ (m1 m2 : Model) (d : Dict), m1.hasInf = true ∧ m2.hasInf = false ∧
      Dict.ctor [("m", m1), ("m", m2)] Dict.empty = .ok d ∧
      d.data.lookup "m" = some m2 ∧ d.agentGet "m" = .ok 0 := by
  refine ⟨⟨true, false, 1, none, 0⟩, ⟨false, false, 2, none, 0⟩, _, rfl, rfl, rfl, ?_, ?_⟩ <;> decide

/-! ## Non-vacuity -/

/-- Three models (to be synchronised / inference-only / inference-less), two trainers. -/
def demoItems : List (String × Model) :=
  [("a", ⟨true, false, 5, none, 0⟩), ("b", ⟨true, true, 7, none, 0⟩), ("c", ⟨false, false, 3, none, 0⟩)]

example : (demoItems.map Prod.fst).Nodup ∧ ∀ km ∈ demoItems, km.2.infObj = none := by decide

example : ∃ s0 s, Sys.init demoItems ["t1", "t2"] = .ok s0 ∧
    s0.applyAll [.get "t1" "a", .get "t1" "b", .get "t1" "c", .run "t1" [("a", 6), ("c", 4)],
                 .load [("a", 1), ("b", 2), ("c", 3)], .run "t1" [("a", 9)]] = .ok s ∧
    s.agentView "a" = .ok (0, 9) ∧ s.agentView "b" = .ok (1, 7) ∧ s.retrieved "t1" = .ok ["a", "c"] := by
  refine ⟨_, _, rfl, rfl, ?_, ?_, ?_⟩ <;> decide

end Pamiq.Models
