/-
C09 — component callbacks follow a fixed protocol on their owning thread.
In `Proto` the callbacks of the components owned by a background thread are abstracted to their
*kind* (setup, step [agent/environment step or a trainer's setup/train/teardown], pause hook, resume
hook, teardown); the per-component refinement (which component, exactly once each) is checked on
the implementation by the protocol-automaton monitor and by C12's `dispatch_once`.
-/
import Pamiq.Props.C04
namespace Pamiq.Proto

/-- **Each kind only in its phase**: in every reachable state a callback of kind `k` is in flight
only at the program counter of its phase — setup in `on_start`, step in `on_tick`, pause hooks in
`on_paused` (before the flag), resume hooks in `on_resumed` (after the flag is cleared), teardown in
`on_finally`. -/
theorem cb_only_in_its_phase {n mx : Nat} {s s' : St} (hr : Reachable n mx s) (t : Nat) (k : CbKind)
    (hs : step s (.bCbBegin t k) = some s') :
    ∃ th, s.thr[t]? = some th ∧ cbAllowed th.pc k = true ∧ th.inCb = none := by
  simp only [step, Act.thread] at hs
  split at hs
  · rename_i th hget
    simp only [bstep] at hs
    split at hs
    · rename_i hg
      exact ⟨th, hget, hg.2, hg.1⟩
    · contradiction
  · contradiction

/-- **No self-overlap**: a thread runs at most one callback at a time (a callback can only begin when
none is in flight), so the callbacks of the components it owns never run concurrently with each
other. -/
theorem no_self_overlap (s s' : St) (t : Nat) (th : BThread) (k : CbKind)
    (hs : bstep s t th (.bCbBegin t k) = some s') : th.inCb = none := by
  simp only [bstep] at hs
  split at hs
  · rename_i hg; exact hg.1
  · contradiction

/-- **Setup precedes everything and happens in one phase**: once a thread has left `on_start` it
never returns to it. -/
theorem setup_phase_not_reentered (s s' : St) (t : Nat) (th : BThread) (a : Act)
    (hget : s.thr[t]? = some th) (hpc : th.pc ≠ .start ∧ th.pc ≠ .new)
    (hs : bstep s t th a = some s') : ∃ th', s'.thr[t]? = some th' ∧ th'.pc ≠ .start ∧ th'.pc ≠ .new := by
  have hlen : t < s.thr.length := by
    rcases Nat.lt_or_ge t s.thr.length with h | h
    · exact h
    · simp [List.getElem?_eq_none_iff.mpr h] at hget
  cases a <;> simp only [bstep] at hs <;> try contradiction
  all_goals
    (repeat' split at hs
     all_goals first
       | contradiction
       | (cases hs
          refine ⟨_, by simp only [St.setThr]; exact List.getElem?_set_self hlen, ?_⟩
          simp_all
          try (repeat' split) <;> simp_all))

/-- **No work between a pause hook and the matching resume hook**: from the moment the pause hooks
are done (`localPaused`, flag set) until the flag is cleared again, the thread is in its wait
section, where no callback of any kind can begin. -/
theorem no_work_while_local_paused {n mx : Nat} {s : St} (hr : Reachable n mx s) :
    ∀ th ∈ s.thr, th.pausedFlag = true → th.inCb = none ∧ ∀ k, cbAllowed th.pc k = false := by
  intro th hth hf
  have hT := (reachable_inv hr).2 th hth
  unfold TInv at hT
  have hw := (hT.1 hf).1
  refine ⟨hT.2.2.2.2.2.2.2.2.2.1 hw, ?_⟩
  intro k
  simp only [BThread.inWait] at hw
  cases hpc : th.pc <;> simp_all [cbAllowed]

/-- **Hooks alternate, starting with pause**: a resume hook can begin only in `on_resumed`, which is
entered only by clearing a paused flag that the preceding `on_paused` set; a pause hook can begin
only in `on_paused`, entered only with `localPaused = false`. -/
theorem resumed_hook_needs_pause (s s' : St) (t : Nat) (th : BThread)
    (hs : bstep s t th (.bClearPaused t) = some s') : th.pc = .clearing := by
  simp only [bstep] at hs
  split at hs
  · assumption
  · contradiction

theorem paused_hook_needs_not_paused (s s' : St) (t : Nat) (th : BThread) (v : Bool)
    (hs : bstep s t th (.bReadResume t v) = some s') : th.localPaused = false := by
  simp only [bstep] at hs
  split at hs
  · rename_i hg; exact hg.2.2.1
  · contradiction

/-- **Save and load run only when the owner is quiescent**: while a save callback executes in the
control thread no background callback is in flight — during a runtime save because the pause is
acknowledged, during the final save because every thread has exited (or was never started). -/
theorem save_callback_excludes_owner_callbacks {n mx : Nat} {s : St} (hr : Reachable n mx s)
    (h : s.ctl.pc = .svIn ∨ s.ctl.pc = .finalIn) : ∀ th ∈ s.thr, th.inCb = none := by
  intro th hth
  rcases h with h | h
  · exact ((save_sees_quiescent_system hr (Or.inr h)).1 th hth).1
  · have hd := final_save_after_all_exited hr h th hth
    have hcb := reachable_cb_pc hr th hth
    cases hin : th.inCb with
    | none => rfl
    | some k => have := hcb (by simp [hin]); rcases hd with hd | hd <;> simp [hd, cbPc] at this

/-- A step callback can begin only in `on_tick`, which is entered only after the shutdown event was
read clear — never between `on_paused` and `on_resumed`, never after teardown has begun. -/
theorem step_only_in_tick (s s' : St) (t : Nat) (th : BThread)
    (hs : bstep s t th (.bCbBegin t .step) = some s') : th.pc = .tick := by
  simp only [bstep] at hs
  split at hs
  · rename_i hg
    cases hpc : th.pc <;> simp_all [cbAllowed]
  · contradiction

end Pamiq.Proto
