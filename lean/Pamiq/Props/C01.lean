/-
C01 — an acknowledged pause means every background thread is quiescent.
Model: `Pamiq/Model/Proto.lean`; invariant and its preservation: `Pamiq/Lemmas/ProtoInv.lean`.
All statements quantify over every number of background threads `n`, every retry limit `mx`, and
every trace (= every interleaving, every placement of time-outs, faults, commands, interrupts).
-/
import Pamiq.Lemmas.ProtoInv
namespace Pamiq.Proto

/-- `s` is reachable from the initial configuration with `n` background threads and retry limit `mx`. -/
def Reachable (n mx : Nat) (s : St) : Prop := ∃ tr, run (init n mx) tr = some s

theorem reachable_inv {n mx : Nat} {s : St} (h : Reachable n mx s) : HInv s := by
  obtain ⟨tr, htr⟩ := h
  exact run_inv (HInv_init n mx) tr htr

theorem run_append (s : St) (tr1 tr2 : List Act) :
    run s (tr1 ++ tr2) = (run s tr1).bind (fun s1 => run s1 tr2) := by
  induction tr1 generalizing s with
  | nil => simp [run]
  | cons x xs ih =>
    show run s (x :: (xs ++ tr2)) = _
    simp only [run]
    cases hx : step s x with
    | none => simp
    | some s1 => simpa using ih s1

theorem reachable_step {n mx : Nat} {s s' : St} {a : Act} (h : Reachable n mx s)
    (hs : step s a = some s') : Reachable n mx s' := by
  obtain ⟨tr, htr⟩ := h
  refine ⟨tr ++ [a], ?_⟩
  rw [run_append, htr]
  simp [run, hs]

/-- **Acknowledged pause ⇒ quiescent.** In every reachable state in which a pause has been
acknowledged (the `clockPause` that ends a successful `try_pause`) and neither `resume()` nor
`shutdown()` has been issued since — which includes the whole of a runtime state save — every
background thread is inside its wait section with its paused flag set and executes no user
callback of any kind. -/
theorem ack_quiescent {n mx : Nat} {s : St} (hr : Reachable n mx s) (hp : s.ctl.paused = true) :
    ∀ th ∈ s.thr, th.inCb = none ∧ th.inWait = true ∧ th.pausedFlag = true := by
  intro th hth
  have hT := (reachable_inv hr).2 th hth
  unfold TInv at hT
  have hf : th.pausedFlag = true := hT.2.2.2.2.2.2.2.1 hp
  have hw := (hT.1 hf).1
  exact ⟨hT.2.2.2.2.2.2.2.2.2.1 hw, hw, hf⟩

/-- No step, training run, pause hook or resume hook is executing anywhere. -/
theorem ack_no_executing {n mx : Nat} {s : St} (hr : Reachable n mx s) (hp : s.ctl.paused = true) :
    ∀ th ∈ s.thr, th.executing = false := by
  intro th hth
  have := (ack_quiescent hr hp th hth).1
  simp [BThread.executing, this]

/-- … and none can begin: while the pause is acknowledged no callback-begin action is enabled. -/
theorem ack_no_callback_begins {n mx : Nat} {s : St} (hr : Reachable n mx s)
    (hp : s.ctl.paused = true) (t : Nat) (k : CbKind) : step s (.bCbBegin t k) = none := by
  simp only [step, Act.thread]
  split
  · rename_i th hget
    have hq := ack_quiescent hr hp th (mem_of_getElem? hget)
    have hw := hq.2.1
    simp only [bstep]
    have : cbAllowed th.pc k = false := by
      simp only [BThread.inWait] at hw
      cases hpc : th.pc <;> simp_all [cbAllowed]
    simp [this]
  · rfl

/-- The system clock is frozen and the resume event clear for as long as the pause is acknowledged. -/
theorem clock_frozen {n mx : Nat} {s : St} (hr : Reachable n mx s) (hp : s.ctl.paused = true) :
    s.clockPaused = true ∧ s.resume = false := by
  have hC := (reachable_inv hr).1.1
  unfold CInv at hC
  exact ⟨(hC.2.2 hp).2.2, (hC.2.2 hp).2.1⟩

/-- The acknowledged phase is ended only by the control thread issuing `resume()` or `shutdown()`. -/
theorem paused_ends_only_by_resume_or_shutdown {s s' : St} {a : Act} (hp : s.ctl.paused = true)
    (hs : step s a = some s') (hp' : s'.ctl.paused = false) : a = .cResume ∨ a = .cShutdown := by
  cases a <;> simp only [step, Act.thread] at hs
  all_goals first
    | (left; rfl)
    | (right; rfl)
    | (exfalso
       first
       | (split at hs
          · rename_i th hget
            simp only [bstep] at hs
            repeat' split at hs
            all_goals first
              | contradiction
              | (cases hs; simp [St.setThr, hp] at hp')
          · contradiction)
       | (simp only [cstep] at hs
          repeat' split at hs
          all_goals first
            | contradiction
            | (cases hs; simp [St.setThr, hp] at hp')))

/-- The handshake: the clock is frozen (the pause acknowledged) only after the worker of *every*
thread observed that thread's paused flag during the current attempt. -/
theorem ack_requires_all_observed {n mx : Nat} {s s' : St} (hr : Reachable n mx s)
    (hs : step s .cClockPause = some s') : ∀ th ∈ s.thr, th.wRes = some true ∧ th.pausedFlag = true := by
  simp only [step, Act.thread, cstep] at hs
  split at hs
  · rename_i hpc
    intro th hth
    have hT := (reachable_inv hr).2 th hth
    unfold TInv at hT
    have hw := hT.2.2.2.2.2.2.1 hpc
    exact ⟨hw, hT.2.2.2.2.2.1 (Or.inr hpc) hw⟩
  · contradiction

/-- A thread leaves its pause (clears its flag) only while the resume event is set. -/
theorem flag_cleared_only_when_resumed {n mx : Nat} {s s' : St} {t : Nat} (hr : Reachable n mx s)
    (hs : step s (.bClearPaused t) = some s') : s.resume = true := by
  simp only [step, Act.thread] at hs
  split at hs
  · rename_i th hget
    simp only [bstep] at hs
    split at hs
    · rename_i hpc
      have hT := (reachable_inv hr).2 th (mem_of_getElem? hget)
      unfold TInv at hT
      exact hT.2.2.2.1 hpc
    · contradiction
  · contradiction

/-! ### Non-vacuity: a reachable acknowledged-paused state with two threads, reached through a
timed-out first attempt, a retry that finds thread 0 still waking up with its *stale* flag set
(it goes back to waiting instead of leaving the pause), and a hook-running thread 1. -/

def witnessTrace : List Act :=
  [.cSpawn 0, .cSpawn 1, .cRun, .cTryPause, .cAcquire, .cClearResume, .cRelease,
   .cSpawnWorker 0, .cSpawnWorker 1,
   .bReadResume 0 false, .bSetPaused 0, .bWaitBlock 0,
   .wRet 0 true, .wRet 1 false, .cWorkersJoined, .cSetResume,
   .bWaitWoken 0,
   .cAcquire, .cClearResume, .cRelease,
   .bAcquire 0, .bLeaveRead 0 false, .bRelease 0, .bWaitBlock 0,
   .bReadResume 1 false, .bCbBegin 1 .pausedHook, .bCbEnd 1 .pausedHook, .bSetPaused 1, .bWaitBlock 1,
   .cSpawnWorker 0, .cSpawnWorker 1, .wRet 0 true, .wRet 1 true, .cWorkersJoined, .cClockPause]

example : ∃ s, Reachable 2 2 s ∧ s.ctl.paused = true ∧ s.ctl.attempt = 1 ∧ s.thr.length = 2 := by
  refine ⟨(run (init 2 2) witnessTrace).get (by decide), ⟨witnessTrace, by simp⟩, ?_, ?_, ?_⟩ <;> decide

end Pamiq.Proto
