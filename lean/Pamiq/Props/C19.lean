/-
C19 — PyTorch synchronisation is atomic for inference and never shares a module.
Property theorems only. Model: `Pamiq/Model/TorchSync.lean` (micro-step transition system of
`TorchInferenceModel.infer/unwrap`, `UnwrappedContextManager`, `TorchTrainingModel.sync_impl` and a
training thread writing parameters one at a time), tied to `pamiq_core/torch/model.py` by
`harness/corr/c19.py` (the real classes on a stand-in `torch`, deterministic schedules, the model
follows the implementation's event trace).

Reading guide. `Reachable cfg s0 s`: some interleaving of the two threads' micro-steps leads from
`s0` to `s` — every schedule, every pair of programs (`s0.iprog`: infer/unwrap operations,
`s0.tprog`: train/sync operations), every parameter and gradient content, any number of
parameters. `cfg.late = true` is the repaired `unwrap` (module resolved after the lock is
taken), `cfg.late = false` the variant that captures the module when `unwrap()` is called (F8).
`cfg.needSync = true`: the model is not inference-only and has an inference model.
`s.pre` = parameters and gradients of the training module at the moment the current/last `sync`
started (`sync_snapshot`), `s.published` = the parameter sets handed to inference so far,
`s.obs` = what the completed inference operations saw.
-/
import Pamiq.Lemmas.TorchSync

namespace Pamiq.TorchSync

/-! ## Post-condition of a synchronisation (both `unwrap` variants, every interleaving) -/

/-- `s.pre` is what it is said to be: when the training thread starts a `sync`, it records the
training module's parameters and gradients … -/
theorem sync_snapshot (cfg : Cfg) (hn : cfg.needSync = true) (s : St) (rest : List TOp)
    (hpc : s.tpc = .idle) (hprog : s.tprog = .sync :: rest) :
    ∃ s', stepT cfg s = some (.tau, s') ∧ s'.tpc = .syncEval ∧ s'.tprog = rest ∧
      s'.pre = ((s.heap.get s.trRef).params, (s.heap.get s.trRef).grads) ∧ s'.heap = s.heap := by
  simp [stepT, hpc, hprog, hn]

/-- … and no other step of either thread changes it. -/
theorem pre_stable (cfg : Cfg) (s s' : St) (t : Tid) (l : Label) (h : step cfg s t = some (l, s'))
    (hne : s.tpc ≠ .idle ∨ t = .inf) : s'.pre = s.pre := by
  cases t with
  | inf => exact (stepI_frame h).2.2.2.2.2.2.2
  | tr => exact (stepT_frame h).2.2.2.1 (by simpa using hne)

/-- **sync_post.** Whatever the inference thread does meanwhile and whichever `unwrap` variant is
in use: when `sync_impl` executes its last statement, the inference wrapper's module holds exactly
the parameters the training module had when the `sync` started, the training wrapper's module
holds equal values, carries the gradients the training module had, is in training mode, and the two
wrappers refer to two different module objects. -/
theorem sync_post (cfg : Cfg) (hn : cfg.needSync = true) (s0 s : St) (hi : Init cfg s0)
    (hr : Reachable cfg s0 s) (hpc : s.tpc = .syncTrain) :
    ∃ l s', stepT cfg s = some (l, s') ∧ s'.tpc = .idle ∧ s'.pre = s.pre ∧
      (s'.heap.get s'.infRef).params = s.pre.1 ∧
      (s'.heap.get s'.trRef).params = s.pre.1 ∧
      (s'.heap.get s'.trRef).grads = s.pre.2 ∧
      (s'.heap.get s'.trRef).training = true ∧
      s'.infRef ≠ s'.trRef := by
  have hinv := inv_reachable hn hi hr
  have ht := hinv.tann
  simp only [TAnn, hpc, St.P, St.G] at ht
  obtain ⟨-, h2, h3, h4, h5⟩ := ht
  let s1 : St :=
    { s with heap := s.heap.set s.trRef { (s.heap.get s.trRef) with training := true }, tpc := .idle }
  refine ⟨syncedLabel s1, s1, by simp only [stepT, hpc]; rfl, rfl, rfl, ?_, ?_, ?_, ?_, h2⟩
  · show ((s.heap.set s.trRef _).get s.infRef).params = _
    rw [Heap.get_set_ne _ _ (fun e => h2 e.symm)]; exact h3
  · show ((s.heap.set s.trRef _).get s.trRef).params = _
    rw [Heap.get_set_same]; exact h4
  · show ((s.heap.set s.trRef _).get s.trRef).grads = _
    rw [Heap.get_set_same]; exact h5
  · show ((s.heap.set s.trRef _).get s.trRef).training = _
    rw [Heap.get_set_same]

/-- No exception ever escapes `sync_impl` (the `IndexError` of `grads[i]` and the key check of
`load_state_dict` are unreachable: both modules keep the same shape). -/
theorem never_raises (cfg : Cfg) (hn : cfg.needSync = true) (s0 s : St) (hi : Init cfg s0)
    (hr : Reachable cfg s0 s) : s.tpc ≠ .raised := by
  intro hpc
  have ht := (inv_reachable hn hi hr).tann
  simp [TAnn, hpc] at ht

/-! ## Inference never uses a module the training thread writes (repaired `unwrap`) -/

/-- **no_shared_module.** In every reachable state of the interleaved system, for a model that is
not inference-only: the module object the inference thread has in hand — inside `infer` or inside an
entered `unwrap()` context — is not the object the training thread's next step writes to (parameter,
gradient or mode flag), whatever that step is. It is the inference wrapper's current module, and the
training wrapper refers to the other one. -/
theorem no_shared_module (cfg : Cfg) (hl : cfg.late = true) (hn : cfg.needSync = true)
    (s0 s : St) (hi : Init cfg s0) (hr : Reachable cfg s0 s) (m w : Mid)
    (hu : inUse s = some m) (hw : trWrites s = some w) : m ≠ w ∧ m = s.infRef ∧ w = s.trRef := by
  have hinv := inv_reachable hn hi hr
  have hia := hinv.iann
  have hta := hinv.tann
  cases hp : s.ipc with
  | holding m' k seen =>
    simp only [inUse, hp, Option.some.injEq] at hu
    subst hu
    simp only [IAnn, hp, hl] at hia
    obtain ⟨hm, -⟩ := hia.2 trivial
    have key : s.tpc ≠ .raised → (∀ b, s.tpc ≠ .syncAcq b) → (∀ b, s.tpc ≠ .syncSetInf b) →
        s.infRef ≠ s.trRef := by
      intro h1 h2 h3
      simp only [TAnn] at hta
      cases hq : s.tpc <;> simp only [hq] at hta <;> simp_all
    simp only [trWrites] at hw
    cases hq : s.tpc <;> simp only [hq] at hw <;> (try split at hw) <;> simp at hw <;>
      subst hw <;> exact ⟨by rw [hm]; exact key (by simp [hq]) (by simp [hq]) (by simp [hq]), hm, rfl⟩
  | _ => simp [inUse, hp] at hu

/-- While a module is in hand its parameters do not change: a step of the training thread leaves
the parameter list of the module the inference thread is using untouched. -/
theorem in_use_unchanged (cfg : Cfg) (hl : cfg.late = true) (hn : cfg.needSync = true)
    (s0 s s' : St) (hi : Init cfg s0) (hr : Reachable cfg s0 s) (m : Mid) (l : Label)
    (hu : inUse s = some m) (hs : stepT cfg s = some (l, s')) :
    (s'.heap.get m).params = (s.heap.get m).params := by
  have hinv := inv_reachable hn hi hr
  have hinv' := inv_stepT hn hinv hs
  have hia := hinv.iann
  have hia' := hinv'.iann
  obtain ⟨hipc, -, -, -, -⟩ := stepT_frame hs
  cases hp : s.ipc with
  | holding m' k seen =>
    simp only [inUse, hp, Option.some.injEq] at hu
    subst hu
    rw [hp] at hipc
    simp only [IAnn, hp, hl] at hia
    simp only [IAnn, hipc, hl] at hia'
    have h1 := (hia.2 trivial).2
    have h2 := (hia'.2 trivial).2
    have hm1 := (hia.2 trivial).1
    have hm2 := (hia'.2 trivial).1
    -- the swap needs the lock, which the inference thread holds: `published` is unchanged and
    -- its head is the inference module's parameter list in both states
    have hnot : ∀ b, s.tpc ≠ .syncSetInf b := by
      intro b hq
      have hta := hinv.tann
      simp only [TAnn, hq] at hta
      rw [hia.1] at hta
      simp at hta
    have hpub := (stepT_frame hs).2.2.2.2 hnot
    obtain ⟨o1, hp1⟩ := hinv.cur
    obtain ⟨o2, hp2⟩ := hinv'.cur
    rw [hpub, hp1] at hp2
    simp only [St.P, List.cons.injEq] at hp2
    have e : s'.infRef = s.infRef := hm2.symm.trans hm1
    have h3 := hp2.1
    rw [e] at h3
    rw [hm1]; exact h3.symm
  | _ => simp [inUse, hp] at hu

/-! ## Every observation is one complete published parameter set (repaired `unwrap`) -/

/-- An inference operation — `infer` or `unwrap` — that completes has seen exactly the parameter
list the inference wrapper's module holds at that moment: one complete set, no mixture. -/
theorem observes_current (cfg : Cfg) (hl : cfg.late = true) (hn : cfg.needSync = true)
    (s0 s s' : St) (hi : Init cfg s0) (hr : Reachable cfg s0 s)
    (hs : stepI cfg s = some (.rel, s')) :
    s'.obs = s.obs ++ [(s.heap.get s.infRef).params] := by
  have hia := (inv_reachable hn hi hr).iann
  unfold stepI at hs
  cases hp : s.ipc <;> simp only [hp] at hs
  · cases hq : s.iprog with
    | nil => simp [hq] at hs
    | cons op rest => cases op <;> simp [hq] at hs
  · cases hk : s.lock <;> simp [hk] at hs
  · simp at hs
  · simp at hs
  · cases hk : s.lock <;> simp [hk] at hs
  · simp at hs
  · rename_i m k seen
    simp only [IAnn, hp, hl] at hia
    obtain ⟨hm, hseen⟩ := hia.2 trivial
    cases hv : (s.heap.get m).params[k]? with
    | some v => simp [hv] at hs
    | none =>
      simp [hv] at hs
      subst hs
      simp only [St.P] at hseen
      rw [hseen, take_of_getElem?_none _ k hv, hm]

/-- The sets handed to inference are: the initial one, and — per `sync` — the parameters the
training module had when that `sync` started. -/
theorem published_spec (cfg : Cfg) (hn : cfg.needSync = true) (s0 s s' : St) (hi : Init cfg s0)
    (hr : Reachable cfg s0 s) (b : Mid) (hs : stepT cfg s = some (.setinf b, s')) :
    s'.published = s.pre.1 :: s.published := by
  have hta := (inv_reachable hn hi hr).tann
  have hinv' := inv_stepT hn (inv_reachable hn hi hr) hs
  cases hq : s.tpc with
  | syncSetInf b' =>
    simp only [TAnn, hq, St.P] at hta
    simp only [stepT, hq] at hs
    simp at hs
    obtain ⟨-, rfl⟩ := hs
    simp [hta.2.2.2.1]
  | _ =>
    exfalso
    unfold stepT at hs
    simp only [hq] at hs
    (repeat' split at hs) <;> simp_all [syncedLabel]

/-- **old_or_new.** For every interleaving of inference calls, `unwrap()` accesses, training
steps and synchronisations: every completed `infer`/`unwrap` observed one of the complete
parameter sets that were handed to inference (`published`: the initial parameters and, by
`published_spec`/`sync_post`, the just-trained parameters of each `sync`) — all old or all new,
never a mixture, never a set in the middle of an optimizer step. -/
theorem old_or_new (cfg : Cfg) (hl : cfg.late = true) (hn : cfg.needSync = true) (s0 s : St)
    (hi : Init cfg s0) (hr : Reachable cfg s0 s) : ∀ o ∈ s.obs, o ∈ s.published :=
  (inv_reachable hn hi hr).obsPub hl

/-! ## The early-resolving `unwrap` (finding F8): proved counterexamples -/

/-- Two parameters; the training thread trains, synchronises and trains again while the
inference thread has called `unwrap()` but not yet entered the context. -/
def cexInit : St :=
  { heap := ⟨⟨[1, 2], [none, none], true⟩, ⟨[1, 2], [none, none], true⟩⟩
    infRef := true, trRef := false
    iprog := [.unwrap]
    tprog := [.train [(5, none), (6, none)], .sync, .train [(7, none), (8, none)]]
    published := [[1, 2]] }

theorem cexInit_init : Init ⟨false, true⟩ cexInit :=
  ⟨rfl, rfl, rfl, rfl, rfl, fun _ => by decide, rfl, rfl, rfl⟩

/-- `unwrap()` evaluated (2 steps), then the whole first `train` (4) and `sync` (22) and the
start of the second `train` (1), then `__enter__` takes the lock. -/
def cexSched : List Tid :=
  [.inf, .inf] ++ List.replicate 27 .tr ++ [.inf]

/-- With the reference captured before the lock is taken, a reachable state exists in which the
module the inference thread holds inside the entered context IS the module the training thread is
about to write. -/
theorem early_unwrap_shares_module :
    ∃ s, Reachable ⟨false, true⟩ cexInit s ∧ ∃ m, inUse s = some m ∧ trWrites s = some m := by
  refine ⟨_, reachable_of_exec Reachable.init cexSched (s' := ?s) ?h, true, ?_, ?_⟩
  case h => rfl
  all_goals rfl

/-- … and an observation that is neither the old nor the new parameter set: the context yields
`[7, 6]` while the complete sets are `[1, 2]` (initial) and `[5, 6]` (after the sync); `7` is the
first half of the optimizer step in progress. -/
theorem early_unwrap_mixed_observation :
    ∃ s, Reachable ⟨false, true⟩ cexInit s ∧ s.published = [[5, 6], [1, 2]] ∧
      [7, 6] ∈ s.obs ∧ [7, 6] ∉ s.published := by
  refine ⟨_, reachable_of_exec Reachable.init (cexSched ++ [.tr, .inf, .inf, .inf]) (s' := ?s) ?h,
    ?_, ?_, ?_⟩
  case h => rfl
  · rfl
  · decide
  · decide

/-! ## Non-vacuity -/

/-- The same programs under the repaired `unwrap` and the same schedule: the run exists, the
inference thread holds module `false` (the new inference module) while the training thread is
about to write module `true` — the hypotheses of `no_shared_module` are satisfiable, its
conclusion visible. -/
example : ∃ s, Reachable ⟨true, true⟩ cexInit s ∧ Init ⟨true, true⟩ cexInit ∧
    inUse s = some false ∧ trWrites s = some true := by
  refine ⟨_, reachable_of_exec Reachable.init (cexSched ++ [.inf]) (s' := ?s) ?h,
    ⟨rfl, rfl, rfl, rfl, rfl, fun _ => by decide, rfl, rfl, rfl⟩, ?_, ?_⟩
  case h => rfl
  all_goals rfl

/-- A reachable state at the last statement of `sync_impl` (hypothesis of `sync_post`), with the
inference thread in the middle of an `unwrap`. -/
example : ∃ s, Reachable ⟨true, true⟩ cexInit s ∧ s.tpc = .syncTrain ∧ s.ipc = .unwAcq none ∧
    s.pre = ([5, 6], [none, none]) := by
  refine ⟨_, reachable_of_exec Reachable.init ([.inf, .inf] ++ List.replicate 25 .tr) (s' := ?s) ?h,
    ?_, ?_, ?_⟩
  case h => rfl
  all_goals rfl

/-- A completed run under the repaired `unwrap`: the observation is the new set. -/
example : ∃ s, Reachable ⟨true, true⟩ cexInit s ∧ s.obs = [[5, 6]] ∧
    s.published = [[5, 6], [1, 2]] := by
  refine ⟨_, reachable_of_exec Reachable.init (cexSched ++ [.tr, .inf, .inf, .inf, .inf])
    (s' := ?s) ?h, ?_, ?_⟩
  case h => rfl
  all_goals rfl

end Pamiq.TorchSync
