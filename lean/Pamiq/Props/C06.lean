/-
C06 — the system clock is the scaled, pausable image of real time.
Property theorems only. Model: `Pamiq/Model/Clock.lean` (tied to `pamiq_core/time.py` by the
correspondence check `harness/corr/c06.py`).
-/
import Pamiq.Model.Clock
import Mathlib.Tactic.Ring
import Mathlib.Tactic.Linarith
import Mathlib.Tactic.FieldSimp
import Mathlib.Tactic.NormNum
import Mathlib.Algebra.Order.Field.Rat

namespace Pamiq.Clock

/-- Rate of the system clock with respect to real time. -/
def Ctl.rate (c : Ctl) : Rat := if c.paused then 0 else c.scale

/-! ## Between operations: the clock advances at `rate`. -/

theorem rate_between (c : Ctl) (s : Src) (r r' : Rat) :
    c.read s r' - c.read s r = c.rate * (r' - r) := by
  unfold Ctl.read Chan.value Ctl.rate
  cases c.paused <;> simp <;> ring

/-- Stands still while paused. -/
theorem paused_constant (c : Ctl) (s : Src) (r r' : Rat) (h : c.paused = true) :
    c.read s r' = c.read s r := by
  unfold Ctl.read Chan.value; simp [h]

/-- Never decreases between operations when the scale is positive. -/
theorem monotone_between (c : Ctl) (s : Src) (r r' : Rat) (hs : 0 < c.scale) (h : r ≤ r') :
    c.read s r ≤ c.read s r' := by
  have := rate_between c s r r'
  have hr : 0 ≤ c.rate := by unfold Ctl.rate; split <;> linarith
  have : 0 ≤ c.rate * (r' - r) := mul_nonneg hr (by linarith)
  linarith

/-! ## Across one operation observed at a single instant: continuity, and the new rate. -/

/-- Reading is pure. -/
theorem read_pure (c : Ctl) (s : Src) (r : R3) : applyOp c (.read s) r = c := rfl

/-- Every operation except `load` leaves the value *at the instant of the operation* unchanged
(continuity), for each of the three clocks. -/
theorem continuous_op (c : Ctl) (op : Op) (r : R3) (s : Src) (h : ∀ d, op ≠ .load d) :
    (applyOp c op r).read s (r.get s) = c.read s (r.get s) := by
  cases op with
  | read _ => rfl
  | load d => exact absurd rfl (h d)
  | setScale k =>
    simp only [applyOp, setScale]
    split
    · rename_i c' hc
      split at hc
      · cases hc
        cases s <;> simp [Ctl.read, Chan.value, updAnchors, updScaled, Ctl.chan, R3.get]
      · cases hc
    · rfl
  | pause =>
    simp only [applyOp, pause]
    split
    · rfl
    · cases s <;> simp [Ctl.read, Chan.value, updAnchors, updScaled, Ctl.chan, R3.get, *]
  | resume =>
    simp only [applyOp, resume]
    split
    · rename_i hp
      cases s <;> simp [Ctl.read, Chan.value, updAnchors, Ctl.chan, R3.get, hp]
    · rfl
  | exportSt =>
    simp only [applyOp, stateDict]
    cases hp : c.paused <;>
      cases s <;> simp [Ctl.read, Chan.value, updAnchors, updScaled, Ctl.chan, R3.get, hp]

/-- After `load d` the clock reads exactly the loaded value at the instant of the load … -/
theorem load_value (c : Ctl) (d : Saved) (r : R3) (s : Src) :
    (applyOp c (.load d) r).read s (r.get s) =
      match s with | .time => d.t | .perf => d.p | .mono => d.m := by
  cases s <;> simp [applyOp, loadStateDict, Ctl.read, Chan.value, updAnchors, Ctl.chan, R3.get]

/-- … and continues from there at the current rate (no restart, no jump). Used by C05. -/
theorem load_continues (c : Ctl) (d : Saved) (r0 : R3) (s : Src) (r : Rat) :
    (applyOp c (.load d) r0).read s r =
      (match s with | .time => d.t | .perf => d.p | .mono => d.m) + c.rate * (r - r0.get s) := by
  have h := rate_between (applyOp c (.load d) r0) s (r0.get s) r
  rw [load_value] at h
  have hr : (applyOp c (.load d) r0).rate = c.rate := by
    simp only [applyOp, loadStateDict, updAnchors, Ctl.rate]; rfl
  rw [hr] at h
  linarith

/-- The rate after an operation is exactly what the operation asks for. -/
theorem rate_after (c : Ctl) (op : Op) (r : R3) :
    (applyOp c op r).scale = (match op with
        | .setScale k => if 0 < k then k else c.scale
        | _ => c.scale) ∧
    (applyOp c op r).paused = (match op with
        | .pause => true
        | .resume => false
        | _ => c.paused) := by
  cases op with
  | read _ => exact ⟨rfl, rfl⟩
  | load d => simp [applyOp, loadStateDict, updAnchors]
  | setScale k =>
    simp only [applyOp, setScale]
    by_cases hk : 0 < k <;> simp [hk, updAnchors, updScaled]
  | pause =>
    simp only [applyOp, pause]
    cases hp : c.paused <;> simp [updScaled, hp]
  | resume =>
    simp only [applyOp, resume]
    cases hp : c.paused <;> simp [updAnchors, hp]
  | exportSt =>
    simp [applyOp, stateDict, updAnchors, updScaled]

/-- Exporting the state changes neither the value nor the rate: the whole future of the clock is
the same function of real time as before (this is what finding F4 violated). -/
theorem export_pure (c : Ctl) (r : R3) (s : Src) (r' : Rat) :
    (stateDict true c r r).1.read s r' = c.read s r' := by
  cases hp : c.paused <;>
    cases s <;> simp [stateDict, Ctl.read, Chan.value, updAnchors, updScaled, Ctl.chan, hp] <;> ring

/-- What is exported is the current value of each clock. -/
theorem export_value (c : Ctl) (r : R3) :
    (stateDict true c r r).2 = ⟨c.read .time r.t, c.read .perf r.p, c.read .mono r.m⟩ := by
  simp [stateDict, Ctl.saved, updAnchors, updScaled]

/-- The unrepaired `state_dict` (scaled anchors rewritten, real anchors kept) is *not* pure: a
concrete running clock jumps forward by `(now − anchor)·scale`. Replayed on the code by the corpus. -/
theorem export_without_reanchor_jumps :
    ∃ (c : Ctl) (r : R3), c.paused = false ∧
      (stateDict false c r r).1.read .time r.t ≠ c.read .time r.t := by
  refine ⟨⟨⟨0, 100⟩, ⟨0, 0⟩, ⟨0, 0⟩, 2, false⟩, ⟨5, 5, 5⟩, rfl, ?_⟩
  norm_num [stateDict, Ctl.read, Chan.value, updScaled, Ctl.chan]

/-! ## Refinement to the integral specification. -/

/-- Abstract clock: the three values at instant `at`, and the current rate parameters. -/
structure Spec where
  vt : Rat
  vp : Rat
  vm : Rat
  at_ : R3
  scale : Rat
  paused : Bool
deriving DecidableEq, Repr

def Spec.rate (a : Spec) : Rat := if a.paused then 0 else a.scale

/-- Let real time pass up to `r`: each value grows by `rate × elapsed` — the integral of the rate. -/
def Spec.advance (a : Spec) (r : R3) : Spec :=
  { a with vt := a.vt + a.rate * (r.t - a.at_.t), vp := a.vp + a.rate * (r.p - a.at_.p),
           vm := a.vm + a.rate * (r.m - a.at_.m), at_ := r }

def Spec.step (a : Spec) (op : Op) (r : R3) : Spec :=
  let a' := a.advance r
  match op with
  | .read _ => a'
  | .exportSt => a'
  | .setScale k => if 0 < k then { a' with scale := k } else a'
  | .pause => { a' with paused := true }
  | .resume => { a' with paused := false }
  | .load d => { a' with vt := d.t, vp := d.p, vm := d.m }

/-- Abstraction: observe the concrete controller at instant `r`. -/
def abs (c : Ctl) (r : R3) : Spec :=
  ⟨c.read .time r.t, c.read .perf r.p, c.read .mono r.m, r, c.scale, c.paused⟩

theorem abs_advance (c : Ctl) (r0 r : R3) : (abs c r0).advance r = abs c r := by
  simp only [abs, Spec.advance, Spec.rate, Ctl.read, Chan.value]
  by_cases hp : c.paused = true
  · simp [hp]
  · have hp' : c.paused = false := by simpa using hp
    simp only [hp', Spec.mk.injEq, and_true]
    simp only [Bool.false_eq_true, if_false]
    refine ⟨?_, ?_, ?_⟩ <;> ring

/-- One concrete operation at instant `r` = one step of the integral specification. -/
theorem refines_step (c : Ctl) (op : Op) (r0 r : R3) :
    abs (applyOp c op r) r = (abs c r0).step op r := by
  unfold Spec.step
  rw [abs_advance]
  have hrate := rate_after c op r
  cases op with
  | load d =>
    have ht := load_value c d r .time
    have hp := load_value c d r .perf
    have hm := load_value c d r .mono
    simp only [R3.get] at ht hp hm
    simp only [abs, ht, hp, hm]
    simp [applyOp, loadStateDict, updAnchors]
  | read _ => rfl
  | exportSt =>
    have ht := continuous_op c .exportSt r .time (by intro d; simp)
    have hp := continuous_op c .exportSt r .perf (by intro d; simp)
    have hm := continuous_op c .exportSt r .mono (by intro d; simp)
    simp only [R3.get] at ht hp hm
    simp only [abs, ht, hp, hm, hrate.1, hrate.2]
  | setScale k =>
    have ht := continuous_op c (.setScale k) r .time (by intro d; simp)
    have hp := continuous_op c (.setScale k) r .perf (by intro d; simp)
    have hm := continuous_op c (.setScale k) r .mono (by intro d; simp)
    simp only [R3.get] at ht hp hm
    simp only [abs, ht, hp, hm, hrate.1, hrate.2]
    split <;> rfl
  | pause =>
    have ht := continuous_op c .pause r .time (by intro d; simp)
    have hp := continuous_op c .pause r .perf (by intro d; simp)
    have hm := continuous_op c .pause r .mono (by intro d; simp)
    simp only [R3.get] at ht hp hm
    simp only [abs, ht, hp, hm, hrate.1, hrate.2]
  | resume =>
    have ht := continuous_op c .resume r .time (by intro d; simp)
    have hp := continuous_op c .resume r .perf (by intro d; simp)
    have hm := continuous_op c .resume r .mono (by intro d; simp)
    simp only [R3.get] at ht hp hm
    simp only [abs, ht, hp, hm, hrate.1, hrate.2]

def runOps (c : Ctl) : List (Op × R3) → Ctl
  | [] => c
  | (op, r) :: rest => runOps (applyOp c op r) rest

def Spec.run (a : Spec) : List (Op × R3) → Spec
  | [] => a
  | (op, r) :: rest => Spec.run (a.step op r) rest

/-- **Refinement.** For every history of operations (each observed at one instant) and every final
instant, the concrete clock observed at that instant equals the integral specification run over the
same history: the system clock *is* the integral of the time scale over un-paused real time. -/
theorem refines (c : Ctl) (r0 : R3) (h : List (Op × R3)) (rEnd : R3) :
    abs (runOps c h) rEnd = ((abs c r0).run h).advance rEnd := by
  induction h generalizing c r0 with
  | nil => simp [runOps, Spec.run, abs_advance]
  | cons x xs ih =>
    obtain ⟨op, r⟩ := x
    simp only [runOps, Spec.run]
    rw [ih (applyOp c op r) r, refines_step c op r0 r]

/-! ## Monotonicity over whole histories (no `load`). -/

theorem scale_pos_step (c : Ctl) (op : Op) (r : R3) (h : 0 < c.scale) :
    0 < (applyOp c op r).scale := by
  have := (rate_after c op r).1
  rw [this]
  cases op <;> simp only [] <;> try exact h
  split <;> assumption

def R3.le (a b : R3) : Prop := a.t ≤ b.t ∧ a.p ≤ b.p ∧ a.m ≤ b.m

/-- Instants of a history are non-decreasing, starting from `r0`. -/
def Sorted (r0 : R3) : List (Op × R3) → Prop
  | [] => True
  | (_, r) :: rest => r0.le r ∧ Sorted r rest

def lastInstant (r0 : R3) : List (Op × R3) → R3
  | [] => r0
  | (_, r) :: rest => lastInstant r rest

/-- **The clock never decreases**: for every history without `load`, with a positive scale at the
start (the `assert` keeps it positive), and real readings that never go backwards, a reading taken
at or after the end of the history is at least a reading taken at its start. -/
theorem history_monotone (c : Ctl) (r0 : R3) (h : List (Op × R3)) (rEnd : R3) (s : Src)
    (hs : 0 < c.scale) (hsorted : Sorted r0 h) (hend : (lastInstant r0 h).le rEnd)
    (hnoload : ∀ x ∈ h, ∀ d, x.1 ≠ .load d) :
    c.read s (r0.get s) ≤ (runOps c h).read s (rEnd.get s) := by
  induction h generalizing c r0 with
  | nil =>
    simp only [runOps, lastInstant] at *
    apply monotone_between c s _ _ hs
    cases s <;> simp [R3.get] <;> [exact hend.1; exact hend.2.1; exact hend.2.2]
  | cons x xs ih =>
    obtain ⟨op, r⟩ := x
    simp only [runOps, lastInstant, Sorted] at *
    have hle : r0.get s ≤ r.get s := by
      cases s <;> simp [R3.get] <;> [exact hsorted.1.1; exact hsorted.1.2.1; exact hsorted.1.2.2]
    have h1 := monotone_between c s _ _ hs hle
    have h2 := continuous_op c op r s (fun d => hnoload (op, r) (by simp) d)
    have h3 := ih (applyOp c op r) r (scale_pos_step c op r hs) hsorted.2 hend
      (fun x hx d => hnoload x (by simp [hx]) d)
    linarith

/-- The guard of `set_time_scale`: a non-positive scale is rejected and nothing changes. -/
theorem setScale_guard (c : Ctl) (k : Rat) (r1 r2 : R3) (hk : ¬ 0 < k) :
    setScale c k r1 r2 = .error .assertion := by simp [setScale, hk]

/-! ## Operations that observe two instants: bounded slip, never backwards. -/

/-- `set_time_scale` reads the clocks twice (`r1` then `r2`). The value at `r2` afterwards is the
old value at `r1`: it loses exactly `rate·(r2 − r1)` and is never behind what was already shown. -/
theorem setScale_slip (c c' : Ctl) (k : Rat) (r1 r2 : R3) (s : Src)
    (h : setScale c k r1 r2 = .ok c') :
    c'.read s (r2.get s) = c.read s (r1.get s) ∧
    c.read s (r2.get s) - c'.read s (r2.get s) = c.rate * (r2.get s - r1.get s) := by
  have hv : c'.read s (r2.get s) = c.read s (r1.get s) := by
    simp only [setScale] at h
    split at h
    · cases h
      cases s <;> simp [Ctl.read, Chan.value, updAnchors, updScaled, Ctl.chan, R3.get]
    · cases h
  exact ⟨hv, by rw [hv]; exact rate_between c s _ _⟩

/-! ## sleep -/

/-- While running, `sleep d` hands `d/scale` to the real sleep, and over that real duration the
system clock advances by exactly `d`. -/
theorem sleep_len (c : Ctl) (d r : Rat) (s : Src) (hp : c.paused = false) (hs : 0 < c.scale) :
    sleepReal c d = some (d / c.scale) ∧
    c.read s (r + d / c.scale) - c.read s r = d := by
  constructor
  · simp [sleepReal, hp]
  · rw [rate_between]; simp only [Ctl.rate, hp]
    have : c.scale ≠ 0 := ne_of_gt hs
    simp only [Bool.false_eq_true, if_false]
    field_simp
    ring

/-- While paused, `sleep` returns at once. -/
theorem sleep_paused (c : Ctl) (d : Rat) (hp : c.paused = true) : sleepReal c d = none := by
  simp [sleepReal, hp]

/-! ## Non-vacuity: the hypotheses above are met by concrete, non-trivial histories. -/

example :
    let c := init ⟨10, 20, 30⟩ ⟨10, 20, 30⟩
    let h : List (Op × R3) :=
      [(.setScale 2, ⟨11, 21, 31⟩), (.pause, ⟨12, 22, 32⟩), (.exportSt, ⟨13, 23, 33⟩),
       (.resume, ⟨14, 24, 34⟩)]
    0 < c.scale ∧ Sorted ⟨10, 20, 30⟩ h ∧ (lastInstant ⟨10, 20, 30⟩ h).le ⟨15, 25, 35⟩ ∧
      (∀ x ∈ h, ∀ d, x.1 ≠ .load d) ∧ (runOps c h).read .time 15 = 15 := by
  refine ⟨by norm_num [init], ?_, ?_, ?_, ?_⟩
  · norm_num [Sorted, R3.le]
  · norm_num [lastInstant, R3.le]
  · intro x hx d; simp at hx; rcases hx with rfl | rfl | rfl | rfl <;> simp
  · norm_num [runOps, applyOp, init, setScale, pause, resume, stateDict, updAnchors, updScaled,
      Ctl.read, Chan.value, Ctl.chan]

end Pamiq.Clock
