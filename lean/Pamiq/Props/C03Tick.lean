/-
C03 / C08 / C17, control-loop part — **the loop body in source order** (`Model/Tick.lean`).

* `stops_iff`            a tick calls `shutdown()` iff it found a SHUTDOWN command, a raised exception
                         flag, or the uptime limit reached — nothing else stops the loop (C08), and each
                         of these does (C03, C02);
* `reads_all`            every tick reads *every* exception flag: no tick skips the supervision of the
                         background threads, paused or not;
* `fault_ends_loop`      once an exception flag is raised (flags are never cleared, `Props/C03.lean`
                         `exc_flag_stable`) the tick that finds it is the last one: the system does not
                         carry on with a dead thread;
* `drain_in_order`       the commands a tick carries out are the queued ones, in order, each once, up to
                         and including the first SHUTDOWN; the rest stays queued (C17);
* `save_before_commands` the save condition is honoured before the commands of the same tick.
-/
import Pamiq.Model.Tick
namespace Pamiq.Tick

theorem drain_spec : (q : List Cmd) →
    (drain q).1.filterMap (fun e => match e with | .exec c => some c | _ => none) ++ (drain q).2 = q ∧
    ((drain q).1.contains .shutdown = q.contains .shutdown) ∧
    (∀ c ∈ (drain q).2, q.contains .shutdown = true)
  | [] => by simp [drain]
  | c :: rest => by
    obtain ⟨h1, h2, h3⟩ := drain_spec rest
    cases c <;> simp_all [drain] <;> exact h3

/-- **Commands are carried out in queue order, each once, up to and including the first SHUTDOWN.** -/
theorem drain_in_order (q : List Cmd) :
    (drain q).1.filterMap (fun e => match e with | .exec c => some c | _ => none) ++ (drain q).2 = q :=
  (drain_spec q).1

/-- Nothing is left in the queue unless a SHUTDOWN was carried out. -/
theorem drain_leaves_only_after_shutdown (q : List Cmd) (h : q.contains .shutdown = false) :
    (drain q).2 = [] := by
  cases hl : (drain q).2 with
  | nil => rfl
  | cons c rest =>
    have := (drain_spec q).2.2 c (by rw [hl]; simp)
    rw [h] at this
    contradiction

theorem readFlags_spec : (t : Nat) → (fl : List Bool) →
    ((readFlags t fl).2 = fl.any id) ∧
    ((readFlags t fl).1 = (List.range fl.length).map (fun k => Ev.readExc (t + k) (fl.getD k false)))
  | _, [] => by simp [readFlags]
  | t, v :: rest => by
    obtain ⟨h1, h2⟩ := readFlags_spec (t + 1) rest
    refine ⟨by simp [readFlags, h1], ?_⟩
    simp only [readFlags]
    rw [h2]
    simp [List.range_succ_eq_map, Nat.add_assoc, Nat.add_comm 1]

/-- **A tick stops the loop iff it found a cause.** -/
theorem stops_iff (i : In) :
    (tick i).stopped = (i.queue.contains .shutdown || i.exc.any id || i.uptime) := by
  simp only [tick]
  rw [(drain_spec i.queue).2.1, (readFlags_spec 0 i.exc).1]

/-- **No tick skips the supervision**: every tick reads every exception flag, whatever else it does
(paused or not, commands or none, stopping or not). -/
theorem reads_all (i : In) : ∀ t, t < i.exc.length → Ev.readExc t (i.exc.getD t false) ∈ (tick i).evs := by
  intro t ht
  have hevs := (readFlags_spec 0 i.exc).2
  simp only [tick]
  have : Ev.readExc t (i.exc.getD t false) ∈ (readFlags 0 i.exc).1 := by
    rw [hevs]
    simp only [List.mem_map, List.mem_range]
    exact ⟨t, ht, by simp⟩
  simp only [List.mem_append]
  exact Or.inl (Or.inl (Or.inr this))

/-- **The tick that finds a raised exception flag is the last one.** -/
theorem fault_ends_loop (pre : List In) (i : In) (post : List In) (h : i.exc.any id = true)
    (hpre : ∀ j ∈ pre, (tick j).stopped = false) :
    (loop (pre ++ i :: post)).length = pre.length + 1 := by
  induction pre with
  | nil =>
    have : (tick i).stopped = true := by rw [stops_iff, h]; simp
    simp [loop, this]
  | cons j rest ih =>
    have hj := hpre j (by simp)
    simp only [List.cons_append, loop, hj]
    simp [ih (fun k hk => hpre k (by simp [hk]))]

/-- The loop never runs a tick after one that stopped. -/
theorem loop_stops (ins : List In) : ∀ o ∈ (loop ins).dropLast, o.stopped = false := by
  induction ins with
  | nil => simp [loop]
  | cons i rest ih =>
    simp only [loop]
    split
    · simp
    · rename_i hns
      intro o ho
      cases hl : loop rest with
      | nil => simp [hl] at ho
      | cons x xs =>
        rw [hl, List.dropLast_cons_cons] at ho
        simp only [List.mem_cons] at ho
        rcases ho with rfl | ho
        · simpa using hns
        · exact ih o (by rw [hl]; exact ho)

/-- The save condition is honoured before the commands of the same tick, the exception flags are read
after them, the uptime test comes last. -/
theorem save_before_commands (i : In) :
    ∃ e2 e3 e4, (tick i).evs = [Ev.saveCond i.saveCond] ++ (if i.saveCond then [Ev.saveState] else []) ++
      e2 ++ e3 ++ e4 ++ ([Ev.uptime i.uptime] ++ (if i.uptime then [Ev.shutdown] else [])) ∧
      e2 = (drain i.queue).1 ∧ e3 = (readFlags 0 i.exc).1 := by
  exact ⟨_, _, _, rfl, rfl, rfl⟩

/-! Non-vacuity -/
example : (tick ⟨true, [.pause, .save, .shutdown, .resume], [false, true], false⟩).evs =
    [.saveCond true, .saveState, .exec .pause, .exec .save, .exec .shutdown, .shutdown,
     .readExc 0 false, .readExc 1 true, .shutdown, .uptime false] := by decide

example : (loop [⟨false, [.pause], [false, false], false⟩, ⟨false, [], [false, true], false⟩,
    ⟨false, [.resume], [false, true], false⟩]).length = 2 := by decide

end Pamiq.Tick
