/-
C17 — remote commands are executed once, in order; status is truthful.
Models: `Pamiq/Model/WebQ.lean` (queue + status table) and `Proto` (the control loop that drains).
-/
import Pamiq.Model.WebQ
import Pamiq.Props.C09
import Mathlib.Data.List.Basic
namespace Pamiq.WebQ

/-- The bookkeeping invariant: accepted = executed ++ still queued, and SHUTDOWN, if executed, is
the last executed command (nothing is dispatched after it). -/
def QInv (w : Q) : Prop :=
  w.accepted = w.executed ++ w.q ∧
  (w.stopped = true → w.executed.getLast? = some .shutdown) ∧
  (w.stopped = false → ∀ c ∈ w.executed, c ≠ .shutdown) ∧
  (∀ c ∈ w.executed.dropLast, c ≠ .shutdown)

theorem QInv_init (cap : Nat) : QInv { cap := cap } := by simp [QInv]

theorem QInv_apply (w : Q) (op : Op) (h : QInv w) : QInv (apply w op) := by
  obtain ⟨h1, h2, h3, h4⟩ := h
  cases op with
  | invalid => exact ⟨h1, h2, h3, h4⟩
  | post c =>
    simp only [apply, post]
    split
    · exact ⟨h1, h2, h3, h4⟩
    · exact ⟨by simp [h1], h2, h3, h4⟩
  | drain =>
    simp only [apply, drainOne]
    split
    · exact ⟨h1, h2, h3, h4⟩
    · rename_i hns
      have hns' : w.stopped = false := by simpa using hns
      split
      · exact ⟨h1, h2, h3, h4⟩
      · rename_i c rest hq
        refine ⟨by simp [h1, hq], ?_, ?_, ?_⟩
        · intro hst; simp at hst; simp [hst]
        · intro hst c' hc'
          simp at hst
          simp only [List.mem_append, List.mem_singleton] at hc'
          rcases hc' with hc' | rfl
          · exact h3 hns' c' hc'
          · exact hst
        · intro c' hc'
          simp only [List.dropLast_concat] at hc'
          exact h3 hns' c' hc'

/-- **Exactly once, in order.** For every interleaving of requests (valid, rejected, invalid) with
iterations of the drain loop: what has been executed, followed by what is still queued, is exactly
what was accepted — every accepted command is executed at most once, in acceptance order, and
nothing that was not accepted is ever executed. -/
theorem executed_prefix (cap : Nat) (ops : List Op) :
    let w := runOps { cap := cap } ops
    w.accepted = w.executed ++ w.q ∧ (∀ c ∈ w.executed.dropLast, c ≠ .shutdown) ∧
      (w.stopped = true → w.executed.getLast? = some .shutdown) := by
  have : ∀ (w : Q), QInv w → QInv (runOps w ops) := by
    induction ops with
    | nil => intro w h; exact h
    | cons op rest ih => intro w h; exact ih (apply w op) (QInv_apply w op h)
  have h := this _ (QInv_init cap)
  exact ⟨h.1, h.2.2.2, h.2.1⟩

/-- A request answered 503 leaves no trace: it is never executed. -/
theorem rejected_never (w : Q) (c : Cmd) (h : (post w c).2 = 503) : (post w c).1 = w := by
  simp only [post] at *
  split <;> simp_all

/-- A request answered 200 is appended to the queue (and to nothing else). -/
theorem accepted_queued (w : Q) (c : Cmd) (h : (post w c).2 = 200) :
    (post w c).1.q = w.q ++ [c] ∧ (post w c).1.executed = w.executed := by
  simp only [post] at *
  split <;> simp_all

/-- 503 happens exactly when the (bounded) queue is full. -/
theorem rejected_iff_full (w : Q) (c : Cmd) : (post w c).2 = 503 ↔ (w.cap > 0 ∧ w.q.length ≥ w.cap) := by
  simp only [post]
  split <;> simp_all

/-- Unknown paths and wrong methods have no effect. -/
theorem bad_request_noop (w : Q) : apply w .invalid = w := rfl

/-- While the loop has not stopped, a drain iteration executes the oldest queued command. -/
theorem drain_progress (w : Q) (c : Cmd) (rest : List Cmd) (hq : w.q = c :: rest)
    (hs : w.stopped = false) : (drainOne w).executed = w.executed ++ [c] ∧ (drainOne w).q = rest := by
  simp [drainOne, hq, hs]

/-- After SHUTDOWN has been executed nothing more is. -/
theorem nothing_after_shutdown (w : Q) (hs : w.stopped = true) : drainOne w = w := by
  simp [drainOne, hs]

/-! ### Status decision table, for any number of threads -/

theorem status_shutting_down (sd rs : Bool) (fl : List Bool) :
    statusOf sd rs fl = .shuttingDown ↔ sd = true := by
  cases sd <;> cases rs <;> simp [statusOf] <;> split <;> simp

theorem status_paused (sd rs : Bool) (fl : List Bool) :
    statusOf sd rs fl = .paused ↔ sd = false ∧ rs = false ∧ fl.all id = true := by
  cases sd <;> cases rs <;> simp [statusOf] <;> split <;> simp_all

theorem status_pausing (sd rs : Bool) (fl : List Bool) :
    statusOf sd rs fl = .pausing ↔ sd = false ∧ rs = false ∧ fl.all id = false := by
  cases sd <;> cases rs <;> simp [statusOf] <;> split <;> simp_all

theorem status_resuming (sd rs : Bool) (fl : List Bool) :
    statusOf sd rs fl = .resuming ↔ sd = false ∧ rs = true ∧ fl.any id = true := by
  cases sd <;> cases rs <;> simp [statusOf] <;> split <;> simp_all

theorem status_active (sd rs : Bool) (fl : List Bool) :
    statusOf sd rs fl = .active ↔ sd = false ∧ rs = true ∧ fl.any id = false := by
  cases sd <;> cases rs <;> simp [statusOf] <;> split <;> simp_all

/-- 'paused' only if every thread has acknowledged — when the answer is computed from one instant. -/
theorem paused_means_all_acked (s : Snap) (h : s.status = .paused) : ∀ f ∈ s.flags, f = true := by
  have := (status_paused s.shutdown s.resume s.flags).mp h
  intro f hf
  have h3 := this.2.2
  rw [List.all_eq_true] at h3
  simpa using h3 f hf

/-- **Partial form of "status is truthful"**: if the controller events and flags do not change during
the request (all reads see one snapshot), the reader returns the table applied to that snapshot.
The unrestricted statement is false of the code (next theorem) and is recorded as a known finding. -/
theorem reader_truthful_partial (s : Snap) :
    readerStatus s s s (List.replicate s.flags.length s) = s.status := by
  have hflags : ((List.range (List.replicate s.flags.length s).length).map fun i =>
      (((List.replicate s.flags.length s)[i]?).bind fun x => x.flags[i]?).getD false) = s.flags := by
    apply List.ext_getElem
    · simp
    · intro i h1 h2
      simp at h1
      simp [h1]
  simp only [readerStatus, Snap.status, statusOf, hflags]
  cases s.shutdown <;> cases s.resume <;> simp

/-- The reader is not atomic and can report a state that held at no instant of the request:
controller read while running, then a pause is requested and one thread acknowledges before its flag
is read ⇒ `resuming`, although the system was only ever active or pausing. (Finding F9.) -/
theorem reader_can_report_state_that_never_held :
    ∃ (r0 r1 r2 : Snap) (fl : List Snap), readerStatus r0 r1 r2 fl = .resuming ∧
      ∀ s ∈ [r0, r1, r2] ++ fl, s.status ≠ .resuming := by
  refine ⟨⟨false, true, [false, false]⟩, ⟨false, true, [false, false]⟩, ⟨false, true, [false, false]⟩,
    [⟨false, false, [true, false]⟩, ⟨false, false, [true, false]⟩], by decide, by decide⟩

/-! Non-vacuity of `executed_prefix`: a burst that overflows a queue of size 2 around a shutdown. -/
example :
    let w := runOps { cap := 2 } [.post .pause, .post .save, .post .resume, .drain, .post .shutdown,
      .post .pause, .drain, .drain, .drain, .post .resume, .drain]
    w.accepted = [.pause, .save, .shutdown, .resume] ∧ w.executed = [.pause, .save, .shutdown] ∧
      w.stopped = true ∧ w.q = [.resume] := by decide

end Pamiq.WebQ
