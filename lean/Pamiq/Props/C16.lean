/-
C16 — fixed-interval interaction paces steps in system time.
Property theorems only. Model: `Pamiq/Model/Adjust.lean` (tied to
`pamiq_core/interaction/interval_adjustors.py` and `FixedIntervalInteraction` by the correspondence
check `harness/corr/c16.py`).

`w = interval − offset` (`timeToWait`). All times are system time (`time.perf_counter()`).
Standing hypothesis of the pacing theorems (`Calm`): the clock is running when `adjust()` is
entered and nothing touches it while the adjustor is inside the real sleep. In `launch()` this is
what C01 provides (the clock is only paused once the inference thread is quiescent, i.e. between
two steps); `pause_in_sleep_shortens` shows the hypothesis is needed.
-/
import Pamiq.Model.Adjust
import Mathlib.Tactic.Ring
import Mathlib.Tactic.Linarith
import Mathlib.Tactic.FieldSimp
import Mathlib.Tactic.NormNum
import Mathlib.Algebra.Order.Field.Rat

namespace Pamiq.Adjust

/-! ## The clock: paused real time contributes nothing -/

theorem elapse_paused (t : Tl) (dt : Rat) (h : t.paused = true) : t.elapse dt = t := by
  simp [Tl.elapse, h]

theorem elapse_running (t : Tl) (dt : Rat) (h : t.paused = false) :
    t.elapse dt = { t with sys := t.sys + dt * t.scale } := by
  simp [Tl.elapse, h]

theorem evs_append (t : Tl) (xs ys : List Ev) : t.evs (xs ++ ys) = (t.evs xs).evs ys := by
  induction xs generalizing t with
  | nil => rfl
  | cons x xs ih => simp [Tl.evs, ih]

/-- A pause of any real length, taken while the clock runs and ended by a resume, leaves the
timeline exactly as it was. -/
theorem pause_resume_id (t : Tl) (dt : Rat) (h : t.paused = false) :
    t.evs [.ctl .pause, .wait dt, .ctl .resume] = t := by
  cases t with
  | mk sys scale paused =>
    simp only at h; subst h
    simp [Tl.evs, Tl.ev, Tl.ctl, Tl.elapse]

/-- **pause_free**: inserting a pause of arbitrary real length `dt` anywhere in what the
environment does (at a point where the clock runs) changes nothing that follows. -/
theorem pause_free (t : Tl) (xs ys : List Ev) (dt : Rat) (h : (t.evs xs).paused = false) :
    t.evs (xs ++ [.ctl .pause, .wait dt, .ctl .resume] ++ ys) = t.evs (xs ++ ys) := by
  rw [evs_append, evs_append, pause_resume_id _ _ h, ← evs_append]

/-- … in particular every observable of a step (start, end of work, end of the step, the sleep) is
the same with a pause inserted between two steps or inside a step. -/
theorem pause_free_step (a : Adj) (t : Tl) (se : StepEnv) (xs ys : List Ev) (dt : Rat) :
    (se.gap = xs ++ ys → (t.evs xs).paused = false →
      stepOnce a t { se with gap := xs ++ [.ctl .pause, .wait dt, .ctl .resume] ++ ys } =
        stepOnce a t se) ∧
    (se.body = xs ++ ys → ((t.evs se.gap).evs xs).paused = false →
      stepOnce a t { se with body := xs ++ [.ctl .pause, .wait dt, .ctl .resume] ++ ys } =
        stepOnce a t se) := by
  constructor
  · intro hg hp
    simp only [stepOnce, pause_free t xs ys dt hp, ← hg]
  · intro hb hp
    simp only [stepOnce, pause_free (t.evs se.gap) xs ys dt hp, ← hb]

/-! ## One `adjust()` -/

theorem adjust_frame (a : Adj) (t : Tl) (env : AdjEnv) :
    (a.adjust t env).adj.timeToWait = a.timeToWait ∧ (a.adjust t env).adj.interval = a.interval ∧
      (a.adjust t env).adj.offset = a.offset ∧
      (a.adjust t env).adj.last = some (a.adjust t env).tl.sys := by
  unfold Adj.adjust
  cases a.last with
  | none => exact ⟨rfl, rfl, rfl, rfl⟩
  | some l =>
    simp only
    by_cases hr : 0 < l + a.timeToWait - t.sys
    · simp only [hr, if_true]; exact ⟨trivial, trivial, trivial, trivial⟩
    · simp only [hr, if_false]; exact ⟨trivial, trivial, trivial, trivial⟩

/-- **reset_gap**: with the previous reset at `R`, the clock running and left alone during the
sleep, the next reset happens at `R + max w B + overhead`, where `B` is the system time between the
previous reset and the reading in `adjust_impl` (loop overhead + step duration) and the overhead is
the real time `a1`, `a2` (and a late wake-up `over`, if a sleep was needed) that passes between the
adjustor's own clock readings. -/
theorem reset_gap (a : Adj) (t : Tl) (env : AdjEnv) (R : Rat) (hl : a.last = some R)
    (hp : t.paused = false) (hs : 0 < t.scale) (hm : env.mid = []) :
    (a.adjust t env).tl.sys =
      R + max a.timeToWait (t.sys - R) +
        t.scale * (env.a1 + env.a2 + (if t.sys - R < a.timeToWait then env.over else 0)) := by
  have hne : t.scale ≠ 0 := ne_of_gt hs
  unfold Adj.adjust
  rw [hl]
  simp only
  by_cases hr : 0 < R + a.timeToWait - t.sys
  · have hlt : t.sys - R < a.timeToWait := by linarith
    simp only [hr, if_true, hlt, hm]
    simp only [Tl.sleep, Tl.elapse, hp, Tl.evs, waits, Bool.false_eq_true, if_false]
    rw [max_eq_left (le_of_lt hlt)]
    field_simp
    ring
  · have hge : ¬ t.sys - R < a.timeToWait := by intro h; exact hr (by linarith)
    simp only [hr, if_false, hge]
    simp only [Tl.elapse, hp, Bool.false_eq_true, if_false]
    rw [max_eq_right (by linarith)]
    ring

/-- Hence the next reset is never less than `max w B ≥ w` after the previous one … -/
theorem reset_gap_ge (a : Adj) (t : Tl) (env : AdjEnv) (R : Rat) (hl : a.last = some R)
    (hp : t.paused = false) (hs : 0 < t.scale) (hm : env.mid = [])
    (h1 : 0 ≤ env.a1) (h2 : 0 ≤ env.a2) (ho : 0 ≤ env.over) :
    R + max a.timeToWait (t.sys - R) ≤ (a.adjust t env).tl.sys ∧
      R + a.timeToWait ≤ (a.adjust t env).tl.sys := by
  rw [reset_gap a t env R hl hp hs hm]
  have : 0 ≤ t.scale * (env.a1 + env.a2 + (if t.sys - R < a.timeToWait then env.over else 0)) := by
    apply mul_nonneg (le_of_lt hs)
    split <;> linarith
  have hmax := le_max_left a.timeToWait (t.sys - R)
  constructor <;> linarith

/-- … and exactly `max w B` when no real time passes between the adjustor's own readings: exactly
`w` when overhead + step took less than `w`, no wait at all when they took longer. -/
theorem reset_gap_exact (a : Adj) (t : Tl) (env : AdjEnv) (R : Rat) (hl : a.last = some R)
    (hp : t.paused = false) (hs : 0 < t.scale) (hm : env.mid = [])
    (h1 : env.a1 = 0) (h2 : env.a2 = 0) (ho : env.over = 0) :
    (a.adjust t env).tl.sys = R + max a.timeToWait (t.sys - R) := by
  rw [reset_gap a t env R hl hp hs hm, h1, h2, ho]
  simp

/-- The sleep asked for is exactly the remaining part of `w`, and only when there is one. -/
theorem sleep_spec (a : Adj) (t : Tl) (env : AdjEnv) (R : Rat) (hl : a.last = some R) :
    (a.adjust t env).slept =
      if t.sys - R < a.timeToWait then some (a.timeToWait - (t.sys - R)) else none := by
  unfold Adj.adjust
  rw [hl]
  simp only
  by_cases hr : 0 < R + a.timeToWait - t.sys
  · have hlt : t.sys - R < a.timeToWait := by linarith
    simp only [hr, if_true, hlt]
    congr 1; ring
  · have hge : ¬ t.sys - R < a.timeToWait := by intro h; exact hr (by linarith)
    simp only [hr, if_false, hge]

/-- Without a previous reset (`-inf`) the first `adjust()` does not sleep and returns `+inf`. -/
theorem adjust_unset (a : Adj) (t : Tl) (env : AdjEnv) (hl : a.last = none) :
    (a.adjust t env).slept = none ∧ (a.adjust t env).delta = none := by
  unfold Adj.adjust; rw [hl]; exact ⟨rfl, rfl⟩

/-- The hypothesis "left alone during the sleep" is needed: a pause that arrives while the
adjustor sleeps freezes system time for the rest of the real sleep and the gap comes out short. -/
theorem pause_in_sleep_shortens :
    ∃ (a : Adj) (t : Tl) (env : AdjEnv) (R : Rat), a.last = some R ∧ t.paused = false ∧
      0 < t.scale ∧ env.mid = [.ctl .pause] ∧
      (a.adjust t env).tl.sys - R < a.timeToWait := by
  refine ⟨⟨10, 0, 10, some 0⟩, ⟨2, 1, false⟩, { mid := [.ctl .pause] }, 0, rfl, rfl, by norm_num,
    rfl, ?_⟩
  norm_num [Adj.adjust, Tl.sleep, Tl.elapse, Tl.evs, Tl.ev, Tl.ctl, waits]

/-- Likewise when the clock is already paused on entry: `sleep` returns at once. -/
theorem paused_at_adjust_no_wait (a : Adj) (t : Tl) (env : AdjEnv) (hp : t.paused = true) :
    (a.adjust t env).tl.sys = t.sys := by
  unfold Adj.adjust
  cases a.last with
  | none => simp [Tl.elapse, hp]
  | some l =>
    simp only
    by_cases hr : 0 < l + a.timeToWait - t.sys <;> simp [hr, Tl.elapse, Tl.sleep, hp]

/-! ## Histories of steps -/

theorem ctl_scale_pos (t : Tl) (c : Ctl) (h : 0 < t.scale) : 0 < (t.ctl c).scale := by
  cases c with
  | pause => exact h
  | resume => exact h
  | setScale k =>
    simp only [Tl.ctl]
    split <;> assumption

theorem elapse_scale (t : Tl) (dt : Rat) : (t.elapse dt).scale = t.scale ∧
    (t.elapse dt).paused = t.paused := by
  unfold Tl.elapse; split <;> exact ⟨rfl, rfl⟩

theorem evs_scale_pos (t : Tl) (l : List Ev) (h : 0 < t.scale) : 0 < (t.evs l).scale := by
  induction l generalizing t with
  | nil => exact h
  | cons e rest ih =>
    apply ih
    cases e with
    | wait dt => simp only [Tl.ev]; rw [(elapse_scale t dt).1]; exact h
    | ctl c => exact ctl_scale_pos t c h

/-- The adjustor itself never changes the scale or the paused flag when left alone. -/
theorem adjust_clock (a : Adj) (t : Tl) (env : AdjEnv) (hm : env.mid = []) :
    (a.adjust t env).tl.scale = t.scale ∧ (a.adjust t env).tl.paused = t.paused := by
  unfold Adj.adjust
  cases a.last with
  | none => simp only [elapse_scale]; exact ⟨trivial, trivial⟩
  | some l =>
    simp only
    by_cases hr : 0 < l + a.timeToWait - t.sys
    · simp only [hr, if_true, Tl.sleep, hm, Tl.evs]
      cases hp : t.paused
      · simp [Tl.elapse, hp]
      · simp [Tl.elapse, hp]
    · simp only [hr, if_false, elapse_scale]; exact ⟨trivial, trivial⟩

/-- The standing hypothesis, along a whole history: every `adjust()` is entered with the clock
running, nothing touches the clock during its sleep, and the scripted real-time overheads are not
negative. Pauses and scale changes between steps and inside steps are unrestricted. -/
def Calm (a : Adj) (t : Tl) : List StepEnv → Prop
  | [] => True
  | se :: rest =>
    ((t.evs se.gap).evs se.body).paused = false ∧ se.adj.mid = [] ∧
      0 ≤ se.adj.a1 ∧ 0 ≤ se.adj.a2 ∧ 0 ≤ se.adj.over ∧
      Calm (stepOnce a t se).1 (stepOnce a t se).2.1 rest

/-- Successive values at least `w` apart, the first at least `w` after `p`. -/
def AtLeastApart (w : Rat) (p : Rat) : List Rat → Prop
  | [] => True
  | x :: xs => w ≤ x - p ∧ AtLeastApart w x xs

/-- **no_burst**: in every history — whatever the earlier steps took (longer than the interval,
much longer) and however long the system was paused between or inside steps — each step still ends
at least `w` of system time after the previous one ended: an over-long step or a pause is never
compensated by shortening later waits. -/
theorem no_burst (a : Adj) (t : Tl) (steps : List StepEnv) (R : Rat) (hl : a.last = some R)
    (hs : 0 < t.scale) (hc : Calm a t steps) :
    AtLeastApart a.timeToWait R ((runSteps a t steps).map (·.fin)) := by
  induction steps generalizing a t R with
  | nil => trivial
  | cons se rest ih =>
    obtain ⟨hp, hm, h1, h2, ho, hrest⟩ := hc
    have hs1 : 0 < ((t.evs se.gap).evs se.body).scale :=
      evs_scale_pos _ _ (evs_scale_pos _ _ hs)
    have hge := (reset_gap_ge a _ se.adj R hl hp hs1 hm h1 h2 ho).2
    have hfr := adjust_frame a ((t.evs se.gap).evs se.body) se.adj
    have hclk := adjust_clock a ((t.evs se.gap).evs se.body) se.adj hm
    simp only [runSteps, List.map_cons]
    refine ⟨by simp only [stepOnce]; linarith, ?_⟩
    have := ih (stepOnce a t se).1 (stepOnce a t se).2.1 (stepOnce a t se).2.2.fin
      (by simp only [stepOnce]; exact hfr.2.2.2) (by simp only [stepOnce]; rw [hclk.1]; exact hs1)
      hrest
    simp only [stepOnce] at this ⊢
    rw [hfr.1] at this
    exact this

/-- No system time passes between the end of one step and the start of the next, nor between the
adjustor's own readings (pauses of any length are still allowed everywhere). -/
def Tight (a : Adj) (t : Tl) : List StepEnv → Prop
  | [] => True
  | se :: rest =>
    (t.evs se.gap).sys = t.sys ∧ se.adj.a1 = 0 ∧ se.adj.a2 = 0 ∧ se.adj.over = 0 ∧
      Tight (stepOnce a t se).1 (stepOnce a t se).2.1 rest

/-- Each step starts exactly `max w d` after the previous one, `d` = that previous step's own
duration in system time. -/
def Paced (w : Rat) : List Rec → Prop
  | [] => True
  | [_] => True
  | r1 :: r2 :: rest => r2.start - r1.start = max w (r1.work - r1.start) ∧ Paced w (r2 :: rest)

theorem paced_aux (a : Adj) (t : Tl) (steps : List StepEnv) (hl : a.last = some t.sys)
    (hs : 0 < t.scale) (hc : Calm a t steps) (ht : Tight a t steps) :
    Paced a.timeToWait (runSteps a t steps) ∧
      ∀ r ∈ (runSteps a t steps).head?, r.start = t.sys := by
  induction steps generalizing a t with
  | nil => exact ⟨trivial, by simp [runSteps]⟩
  | cons se rest ih =>
    obtain ⟨hp, hm, h1, h2, ho, hrest⟩ := hc
    obtain ⟨hg, e1, e2, eo, trest⟩ := ht
    have hs1 : 0 < ((t.evs se.gap).evs se.body).scale :=
      evs_scale_pos _ _ (evs_scale_pos _ _ hs)
    have hex := reset_gap_exact a _ se.adj t.sys hl hp hs1 hm e1 e2 eo
    have hfr := adjust_frame a ((t.evs se.gap).evs se.body) se.adj
    have hclk := adjust_clock a ((t.evs se.gap).evs se.body) se.adj hm
    have ih' := ih (stepOnce a t se).1 (stepOnce a t se).2.1
      (by simp only [stepOnce]; exact hfr.2.2.2) (by simp only [stepOnce]; rw [hclk.1]; exact hs1)
      hrest trest
    refine ⟨?_, by simp [runSteps, stepOnce, hg]⟩
    simp only [runSteps]
    cases hrs : runSteps (stepOnce a t se).1 (stepOnce a t se).2.1 rest with
    | nil => trivial
    | cons r2 more =>
      rw [hrs] at ih'
      refine ⟨?_, by have := ih'.1; simp only [stepOnce] at this; rw [hfr.1] at this; exact this⟩
      have h2s : r2.start = (stepOnce a t se).2.1.sys := ih'.2 r2 (by simp)
      rw [h2s]
      simp only [stepOnce, hg]
      rw [hex]; ring

/-- **Consecutive steps start exactly `max w d` apart** — exactly `w` when the step is shorter than
`w`, the step's own duration when it is longer (never less than `w`) — in every history of steps run
right after a reset, with arbitrary pauses and scale changes between and inside steps. -/
theorem starts_paced (a : Adj) (t : Tl) (steps : List StepEnv) (hl : a.last = some t.sys)
    (hs : 0 < t.scale) (hc : Calm a t steps) (ht : Tight a t steps) :
    Paced a.timeToWait (runSteps a t steps) :=
  (paced_aux a t steps hl hs hc ht).1

/-- `setup()` leaves the adjustor freshly reset at the current system time. -/
theorem setup_resets (a : Adj) (t : Tl) (evs : List Ev) :
    (setup a t evs).1.last = some (setup a t evs).2.sys ∧
      (setup a t evs).1.timeToWait = a.timeToWait := ⟨rfl, rfl⟩

theorem new_wait (i o : Rat) : (Adj.new i o).timeToWait = i - o ∧ (Adj.new i o).last = none :=
  ⟨rfl, rfl⟩

/-! ## Non-vacuity -/

/-- interval 10, offset 1 (w = 9), scale 2: a short step containing a pause, a long step after a
pause between steps, a short step. Starts: 0, 9, 29, 38. -/
example :
    let a : Adj := (setup (Adj.new 10 1) ⟨0, 2, false⟩ []).1
    let t : Tl := ⟨0, 2, false⟩
    let steps : List StepEnv :=
      [{ body := [.wait 1, .ctl .pause, .wait 100, .ctl .resume, .wait 1] },
       { gap := [.ctl .pause, .wait 50, .ctl .resume], body := [.wait 10] },
       { body := [.wait 2] }, {}]
    a.last = some t.sys ∧ Calm a t steps ∧ Tight a t steps ∧
      (runSteps a t steps).map (·.start) = [0, 9, 29, 38] := by
  norm_num [setup, Adj.new, Adj.reset, Calm, Tight, runSteps, stepOnce, Adj.adjust, Tl.evs, Tl.ev,
    Tl.ctl, Tl.elapse, Tl.sleep, Tl.sleepReal, waits]

/-- **`reset()` takes the clock as it is now, whatever the adjustor remembered** - also a reference *later* than now,
which is what it holds when an older checkpoint was loaded into the running process (second launch of the same
interaction): the first interval after such a `setup()` is `interval - offset` like every other one. -/
theorem reset_forgets (a : Adj) (l : Option Rat) (t : Tl) :
    ({ a with last := l }.reset t).1 = (a.reset t).1 := by
  simp [Adj.reset]

theorem reset_after_load (a : Adj) (t : Tl) (v : Rat) :
    (a.reset (t.load v)).1.last = some v ∧ (a.reset (t.load v)).2 = v := by
  simp [Adj.reset, Tl.load]

end Pamiq.Adjust
