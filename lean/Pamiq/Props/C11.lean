/-
C11 — built-in buffers keep exactly what their contract says.
Property theorems only. Model: `Pamiq/Model/Buffer.lean` (tied to `pamiq_core/data/buffer.py`,
`data/impls/sequential_buffer.py`, `data/impls/random_replacement_buffer.py` by the
correspondence check `harness/corr/c11.py`). Helper lemmas: `Pamiq/Lemmas/Buffer.lean`.

Theorems about `repaired` are about the code with the repair of finding F6; the theorems
`ctor_asFound_rejects_documented` and `rrb_p0_asFound_replaces` show that the code as found
(`asFound`) violates the property.
-/
import Pamiq.Lemmas.Buffer

namespace Pamiq.Buffer
open Pamiq

/-! ## SequentialBuffer -/

/-- The unbounded history a sequential buffer has seen: what was loaded last, then every sample
added since. -/
def seqLog {α} : List α → List (SeqOp α) → List α
  | base, [] => base
  | base, .add x :: rest => seqLog (base ++ [x]) rest
  | _, .load l :: rest => seqLog l rest

theorem seq_run_suffix {α} (ops : List (SeqOp α)) (b : Seq α) (base : List α)
    (h : b.queue = lastN b.maxSize base) :
    (b.run ops).queue = lastN b.maxSize (seqLog base ops) ∧ (b.run ops).maxSize = b.maxSize := by
  induction ops generalizing b base with
  | nil => exact ⟨h, rfl⟩
  | cons op rest ih =>
    cases op with
    | add x =>
      have hq : (b.add x).queue = lastN (b.add x).maxSize (base ++ [x]) := by
        simp only [Seq.add]
        rw [dequeAppend_eq _ _ _ (by rw [h, lastN_length]; omega), h, lastN_append_lastN]
      exact ih (b.add x) (base ++ [x]) hq
    | load l => exact ih (b.loadState l) l rfl

/-- **SequentialBuffer always holds exactly the most recent `max_size` samples in insertion
order**, for every capacity and every history of adds and loads. -/
theorem seq_is_suffix {α} (n : Int) (b : Seq α) (ops : List (SeqOp α)) (h : Seq.ctor n = .ok b) :
    (b.run ops).getData = lastN n.toNat (seqLog [] ops) := by
  unfold Seq.ctor dataBufferInit at h
  split at h
  · cases h
  · rename_i m hm
    split at hm
    · cases hm
    · cases hm; cases h
      exact (seq_run_suffix ops ⟨n.toNat, []⟩ [] (by simp [lastN])).1

/-- Adds only: the content is the last `max_size` of the samples added, in order. -/
theorem seqLog_adds {α} (xs : List α) (base : List α) :
    seqLog base (xs.map SeqOp.add) = base ++ xs := by
  induction xs generalizing base with
  | nil => simp [seqLog]
  | cons x r ih => simp [seqLog, ih]

theorem seq_is_suffix_adds {α} (n : Nat) (xs : List α) :
    ((⟨n, []⟩ : Seq α).run (xs.map .add)).getData = lastN n xs := by
  have h := (seq_run_suffix (xs.map SeqOp.add) (⟨n, []⟩ : Seq α) [] (by simp [lastN])).1
  rw [seqLog_adds] at h
  simpa [Seq.getData] using h

theorem seq_len {α} (n : Int) (b : Seq α) (ops : List (SeqOp α)) (h : Seq.ctor n = .ok b) :
    (b.run ops).len = min n.toNat (seqLog [] ops).length ∧
    (b.run ops).len = (b.run ops).getData.length := by
  have := seq_is_suffix n b ops h
  unfold Seq.getData at this
  simp [Seq.len, this, lastN_length, Seq.getData]

example : Seq.ctor (α := Int) 2 = .ok ⟨2, []⟩ := by decide
example : ((⟨2, []⟩ : Seq Int).run [.add 1, .add 2, .add 3, .load [7, 8, 9], .add 4]).getData
    = [9, 4] := by decide


/-! ## RandomReplacementBuffer -/

/-- Representation invariant: `_current_size` is the length of `_data_list`, never above `max_size`. -/
def Rrb.WF {α} (b : Rrb α) : Prop := b.size = b.data.length ∧ b.data.length ≤ b.maxSize

/-- The draws of an operation are what `random.randint(0, max_size - 1)` can return. -/
def RrbOp.Valid {α} (maxSize : Nat) : RrbOp α → Prop
  | .add _ _ i => i < maxSize
  | .load _ => True

/-- Samples an operation brings into the buffer's reach. -/
def RrbOp.vals {α} : RrbOp α → List α
  | .add x _ _ => [x]
  | .load l => l

theorem rrb_add_wf {α} (v : Variant) (b b' : Rrb α) (x : α) (u : Rat) (i : Nat)
    (hw : b.WF) (h : b.add v x u i = .ok b') :
    b'.WF ∧ b'.maxSize = b.maxSize ∧ b'.p = b.p ∧ b'.maxQueueSize = b.maxQueueSize := by
  obtain ⟨h1, h2⟩ := hw
  unfold Rrb.add at h
  split at h
  · split at h
    · cases h; exact ⟨⟨h1, h2⟩, rfl, rfl, rfl⟩
    · split at h
      · cases h
      · split at h
        · cases h; exact ⟨⟨by simpa using h1, by simpa using h2⟩, rfl, rfl, rfl⟩
        · cases h
  · cases h
    refine ⟨⟨by simp [h1], ?_⟩, rfl, rfl, rfl⟩
    simp; omega

theorem rrb_load_wf {α} (b : Rrb α) (l : List α) : (b.loadState l).WF := by
  simp [Rrb.WF, Rrb.loadState, List.length_take]

/-- `add` never raises on a well-formed buffer of capacity ≥ 1 when the index is one `randint`
can return. -/
theorem rrb_add_total {α} (v : Variant) (b : Rrb α) (x : α) (u : Rat) (i : Nat)
    (hw : b.WF) (hn : 1 ≤ b.maxSize) (hi : i < b.maxSize) : ∃ b', b.add v x u i = .ok b' := by
  obtain ⟨h1, h2⟩ := hw
  unfold Rrb.add
  split
  · split
    · exact ⟨_, rfl⟩
    · rw [if_neg (by omega), if_pos (by omega)]; exact ⟨_, rfl⟩
  · exact ⟨_, rfl⟩

/-- **Never exceeds `max_size`** (and `len` is the length of the data), for every history of adds
and loads with arbitrary draws; no operation raises. -/
theorem rrb_len_le {α} (v : Variant) (ops : List (RrbOp α)) (b : Rrb α) (hw : b.WF)
    (hn : 1 ≤ b.maxSize) (hv : ∀ op ∈ ops, op.Valid b.maxSize) :
    ∃ b', b.run v ops = .ok b' ∧ b'.maxSize = b.maxSize ∧ b'.getData.length ≤ b.maxSize ∧
      b'.len = b'.getData.length := by
  induction ops generalizing b with
  | nil => exact ⟨b, rfl, rfl, hw.2, hw.1⟩
  | cons op rest ih =>
    have hrest : ∀ op ∈ rest, op.Valid b.maxSize := fun o ho => hv o (List.mem_cons_of_mem _ ho)
    cases op with
    | add x u i =>
      have hi : i < b.maxSize := hv (.add x u i) List.mem_cons_self
      obtain ⟨b1, hb1⟩ := rrb_add_total v b x u i hw hn hi
      obtain ⟨w1, m1, _, _⟩ := rrb_add_wf v b b1 x u i hw hb1
      obtain ⟨b', hr, hm, hl, hlen⟩ := ih b1 w1 (by omega) (by rw [m1]; exact hrest)
      exact ⟨b', by simp [Rrb.run, Rrb.step, hb1, hr], by omega, by omega, hlen⟩
    | load l =>
      obtain ⟨b', hr, hm, hl, hlen⟩ := ih (b.loadState l) (rrb_load_wf b l) hn hrest
      exact ⟨b', by simp [Rrb.run, Rrb.step, hr], hm, hl, hlen⟩

/-- **Fills in insertion order**: while not full, `add` appends (whatever the draws). -/
theorem rrb_fill_order {α} (v : Variant) (b : Rrb α) (x : α) (u : Rat) (i : Nat)
    (hw : b.WF) (hnf : b.data.length < b.maxSize) :
    b.add v x u i = .ok { b with data := b.data ++ [x], size := b.size + 1 } := by
  unfold Rrb.add
  rw [if_neg (by rw [hw.1]; omega)]

/-- History form: the first `max_size` adds into a new buffer are stored in order. -/
theorem rrb_fill_prefix {α} (v : Variant) (n : Nat) (p : Rat) (q : Nat)
    (adds : List (α × Rat × Nat)) (hlen : adds.length ≤ n) :
    ∃ b', (⟨n, p, q, [], 0⟩ : Rrb α).run v (adds.map fun t => .add t.1 t.2.1 t.2.2) = .ok b' ∧
      b'.getData = adds.map (·.1) := by
  suffices H : ∀ (adds : List (α × Rat × Nat)) (b : Rrb α), b.WF →
      b.data.length + adds.length ≤ b.maxSize →
      ∃ b', b.run v (adds.map fun t => .add t.1 t.2.1 t.2.2) = .ok b' ∧
        b'.data = b.data ++ adds.map (·.1) by
    obtain ⟨b', h1, h2⟩ := H adds ⟨n, p, q, [], 0⟩ ⟨rfl, Nat.zero_le _⟩ (by simpa using hlen)
    exact ⟨b', h1, by simpa [Rrb.getData] using h2⟩
  intro adds
  induction adds with
  | nil => intro b _ _; exact ⟨b, rfl, by simp⟩
  | cons t rest ih =>
    intro b hw hl
    simp only [List.length_cons] at hl
    have hstep := rrb_fill_order v b t.1 t.2.1 t.2.2 hw (by omega)
    obtain ⟨w1, m1, _, _⟩ := rrb_add_wf v b _ t.1 t.2.1 t.2.2 hw hstep
    obtain ⟨b', hr, hd⟩ := ih _ w1 (by simp; omega)
    exact ⟨b', by simp [Rrb.run, Rrb.step, hstep, hr], by simp [hd]⟩

/-- **Afterwards changes at most one slot per add, and only to the added sample**: on a full
buffer `add` keeps the length, leaves every slot other than `i` as it was, and slot `i` either keeps
its sample or holds the added one. -/
theorem rrb_one_slot {α} (v : Variant) (b b' : Rrb α) (x : α) (u : Rat) (i : Nat)
    (hw : b.WF) (hfull : b.maxSize ≤ b.data.length) (h : b.add v x u i = .ok b') :
    b'.data.length = b.data.length ∧ b'.len = b.len ∧
    (b'.data = b.data ∨ b'.data = b.data.set i x) ∧
    (∀ j, j ≠ i → b'.data[j]? = b.data[j]?) ∧
    (b'.data[i]? = b.data[i]? ∨ b'.data[i]? = some x) := by
  unfold Rrb.add at h
  rw [if_pos (by rw [hw.1]; exact hfull)] at h
  split at h
  · cases h; exact ⟨rfl, rfl, .inl rfl, fun _ _ => rfl, .inl rfl⟩
  · split at h
    · cases h
    · split at h
      · rename_i hi
        cases h
        refine ⟨by simp, rfl, .inr rfl, fun j hj => ?_, .inr ?_⟩
        · simp [Ne.symm hj]
        · simp [hi]
      · cases h

/-- **With the configured probability** (repaired code): a full buffer replaces slot `i` exactly
when the draw `u` of `random.random()` is below `p` — an event of probability `p` for `u` uniform
on `[0,1)` and `0 ≤ p ≤ 1`. -/
theorem rrb_replace_iff {α} (b : Rrb α) (x : α) (u : Rat) (i : Nat)
    (hw : b.WF) (hn : 1 ≤ b.maxSize) (hfull : b.maxSize ≤ b.data.length) (hi : i < b.maxSize) :
    b.add repaired x u i = .ok (if u < b.p then { b with data := b.data.set i x } else b) := by
  unfold Rrb.add
  rw [if_pos (by rw [hw.1]; exact hfull)]
  by_cases hu : u < b.p
  · have : skips repaired u b.p = false := by simp [skips, repaired]; exact hu
    rw [this, if_pos hu]
    simp
    rw [if_neg (by omega), if_pos (by omega)]
  · have : skips repaired u b.p = true := by simp [skips, repaired]; exact Rat.not_lt.mp hu
    rw [this, if_neg hu]; simp

/-- **Always for 1.0**: every draw `u < 1` replaces slot `i` (both variants of the comparison). -/
theorem rrb_p1_always {α} (v : Variant) (b : Rrb α) (x : α) (u : Rat) (i : Nat)
    (hw : b.WF) (hn : 1 ≤ b.maxSize) (hfull : b.maxSize ≤ b.data.length) (hi : i < b.maxSize)
    (hp : b.p = 1) (hu : u < 1) :
    b.add v x u i = .ok { b with data := b.data.set i x } := by
  unfold Rrb.add
  rw [if_pos (by rw [hw.1]; exact hfull)]
  have : skips v u b.p = false := by
    unfold skips; rw [hp]
    split <;> simp <;> linarith
  rw [this]
  simp
  rw [if_neg (by omega), if_pos (by omega)]

/-- **Never for 0.0** (repaired code): no draw `u ≥ 0` — in particular none in `[0,1)` — makes a
full buffer with probability `0` change. -/
theorem rrb_p0_never {α} (b : Rrb α) (x : α) (u : Rat) (i : Nat)
    (hw : b.WF) (hfull : b.maxSize ≤ b.data.length) (hp : b.p = 0) (hu : 0 ≤ u) :
    b.add repaired x u i = .ok b := by
  unfold Rrb.add
  rw [if_pos (by rw [hw.1]; exact hfull)]
  have : skips repaired u b.p = true := by simp [skips, repaired, hp]; exact hu
  rw [this]; simp

/-- The comparison as found (`random.random() > p`) breaks "never for 0.0": the draw `0.0` (which
`random.random()` can return) replaces a sample although the probability is `0`. Replayed on the
code by `corpus/C11`. -/
theorem rrb_p0_asFound_replaces :
    ∃ (b b' : Rrb Int), b.WF ∧ b.p = 0 ∧ b.maxSize ≤ b.data.length ∧
      b.add asFound 7 0 0 = .ok b' ∧ b'.data ≠ b.data := by
  refine ⟨⟨1, 0, 5, [3], 1⟩, ⟨1, 0, 5, [7], 1⟩, ⟨rfl, Nat.le_refl _⟩, rfl, Nat.le_refl _, ?_, by decide⟩
  simp [Rrb.add, skips, asFound]

/-- **Only ever contains samples that were added** (or loaded): every element after any history
was in the buffer before or was brought by one of the operations. -/
theorem rrb_subset {α} (v : Variant) (ops : List (RrbOp α)) (b b' : Rrb α)
    (h : b.run v ops = .ok b') :
    ∀ y ∈ b'.getData, y ∈ b.getData ∨ ∃ op ∈ ops, y ∈ op.vals := by
  induction ops generalizing b with
  | nil => simp [Rrb.run] at h; cases h; intro y hy; exact .inl hy
  | cons op rest ih =>
    simp only [Rrb.run] at h
    split at h
    · cases h
    · rename_i b1 hb1
      intro y hy
      rcases ih b1 h y hy with h1 | ⟨o, ho, hyo⟩
      · cases op with
        | add x u i =>
          simp only [Rrb.step, Rrb.add] at hb1
          simp only [Rrb.getData] at h1 ⊢
          split at hb1
          · split at hb1
            · cases hb1; exact .inl h1
            · split at hb1
              · cases hb1
              · split at hb1
                · cases hb1
                  rcases List.mem_or_eq_of_mem_set h1 with h2 | h2
                  · exact .inl h2
                  · exact .inr ⟨_, List.mem_cons_self, by simp [RrbOp.vals, h2]⟩
                · cases hb1
          · cases hb1
            simp only [List.mem_append, List.mem_singleton] at h1
            rcases h1 with h2 | h2
            · exact .inl h2
            · exact .inr ⟨_, List.mem_cons_self, by simp [RrbOp.vals, h2]⟩
        | load l =>
          simp only [Rrb.step] at hb1
          cases hb1
          exact .inr ⟨_, List.mem_cons_self, List.mem_of_mem_take h1⟩
      · exact .inr ⟨o, List.mem_cons_of_mem _ ho, hyo⟩

example : (⟨2, 1/2, 4, [5, 6], 2⟩ : Rrb Int).WF := ⟨rfl, Nat.le_refl _⟩
example : RrbOp.Valid (α := Int) 2 (.add 9 (1/4) 1) := by simp [RrbOp.Valid]


/-! ## Constructor: the whole documented parameter range -/


/-- **The survival-length probability is clamped into `[0,1]`** for any value of the logarithm
term, any capacity and any survival length. -/
theorem survival_prob_clamped (n : Nat) (s : Int) (lg p : Rat)
    (h : computeProb n s lg = .ok p) : 0 ≤ p ∧ p ≤ 1 := by
  unfold computeProb at h
  split at h
  · cases h
  · cases h; exact clamp01_range _

theorem survival_prob_total (n : Nat) (s : Int) (lg : Rat) (hs : s ≠ 0) :
    ∃ p, computeProb n s lg = .ok p := by
  unfold computeProb; rw [if_neg hs]; exact ⟨_, rfl⟩

/-- **Accepts the whole documented parameter range** (repaired constructor): for every capacity
`≥ 1` and every probability in `[0,1]` — including `0`, denormals — construction succeeds, yields
an empty buffer with these parameters and a collector-queue size a `deque` accepts. -/
theorem ctor_total {α} (n : Nat) (p lg : Rat) (hn : 1 ≤ n) (h0 : 0 ≤ p) (h1 : p ≤ 1) :
    ∃ b : Rrb α, Rrb.ctor repaired n (some p) none lg = .ok b ∧ b.maxSize = n ∧ b.p = p ∧
      b.getData = [] ∧ b.len = 0 ∧ (b.maxQueueSize : Int) ≤ sysMaxsize := by
  obtain ⟨q, hq, hq0, hqm⟩ := queueSize_total n p h0
  unfold Rrb.ctor
  simp only [resolveProb]
  rw [if_neg (by simp [h0, h1]), hq]
  simp only [dataBufferInit]
  rw [if_neg (by omega)]
  exact ⟨_, rfl, rfl, rfl, rfl, rfl, by simp; omega⟩

/-- Same for a survival length (any non-zero one, any value of the logarithm term) and for the
default (neither parameter: probability `1`). -/
theorem ctor_total_survival {α} (n : Nat) (s : Int) (lg : Rat) (hn : 1 ≤ n) (hs : s ≠ 0) :
    ∃ b : Rrb α, Rrb.ctor repaired n none (some s) lg = .ok b ∧ b.maxSize = n ∧
      0 ≤ b.p ∧ b.p ≤ 1 ∧ b.getData = [] ∧ b.len = 0 ∧ (b.maxQueueSize : Int) ≤ sysMaxsize := by
  obtain ⟨p, hp⟩ := survival_prob_total n s lg hs
  obtain ⟨h0, h1⟩ := survival_prob_clamped n s lg p hp
  obtain ⟨q, hq, hq0, hqm⟩ := queueSize_total n p h0
  unfold Rrb.ctor
  simp only [resolveProb, hp]
  rw [if_neg (by simp [h0, h1]), hq]
  simp only [dataBufferInit]
  rw [if_neg (by omega)]
  exact ⟨_, rfl, rfl, h0, h1, rfl, rfl, by simp; omega⟩

theorem ctor_total_default {α} (n : Nat) (lg : Rat) (hn : 1 ≤ n) :
    ∃ b : Rrb α, Rrb.ctor repaired n none none lg = .ok b ∧ b.maxSize = n ∧ b.p = 1 ∧
      b.getData = [] ∧ b.len = 0 := by
  obtain ⟨b, h, h1, h2, h3, h4, _⟩ := ctor_total (α := α) n 1 lg hn (by norm_num) (by norm_num)
  exact ⟨b, by simpa [Rrb.ctor, resolveProb] using h, h1, h2, h3, h4⟩

/-- Out-of-range probabilities and "both parameters" are rejected with `ValueError`. -/
theorem ctor_rejects_invalid {α} (v : Variant) (n : Nat) (p lg : Rat) (s : Int) :
    ((p < 0 ∨ 1 < p) → Rrb.ctor (α := α) v n (some p) none lg = .error .value) ∧
    Rrb.ctor (α := α) v n (some p) (some s) lg = .error .value := by
  constructor
  · intro h
    unfold Rrb.ctor
    simp only [resolveProb]
    rw [if_pos (by rcases h with h | h <;> intro hh <;> linarith [hh.1, hh.2])]
  · simp [Rrb.ctor, resolveProb]

/-- The constructor as found does not accept the documented range: probability `0.0` raises
`ZeroDivisionError` for every capacity, the smallest positive double raises `OverflowError`
(finding F6; replayed on the code by `corpus/C11`). -/
theorem ctor_asFound_rejects_documented {α} (n : Nat) (lg : Rat) :
    Rrb.ctor (α := α) asFound n (some 0) none lg = .error .zeroDivision ∧
    Rrb.ctor (α := α) asFound 1 (some (1 / ((2 ^ 1074 : Nat) : Rat))) none lg = .error .overflow := by
  constructor
  · simp [Rrb.ctor, resolveProb, queueSize, asFound]
  · unfold Rrb.ctor
    simp only [resolveProb]
    have e0 : (1 : Rat) ≤ 2 ^ 1074 := one_le_pow₀ (by norm_num)
    have e1 : ((2 : Rat) ^ 1024 ≤ 2 ^ 1074) := pow_le_pow_right₀ (by norm_num) (by norm_num)
    rw [if_neg (by norm_num; exact inv_le_one_of_one_le₀ e0)]
    simp only [queueSize, asFound]
    norm_num [floatHuge]
    rw [if_pos e1]

example : (0 : Rat) ≤ 1 / 2 ∧ (1 / 2 : Rat) ≤ 1 := by norm_num


/-! ## Dict variants -/

/-- A stored sample that passed the key check of a buffer with key set `keys`. -/
def Keyed (keys : List String) (d : Sample) : Prop :=
  (sampleKeys d).Nodup ∧ sameKeySet (sampleKeys d) keys = true

/-- **The dict variants keep all keys aligned sample by sample**: when every stored sample passed
the key check, `get_data` succeeds, has exactly the buffer's keys, every column has one entry per
stored sample, and entry `j` of column `k` is the value of `k` in the `j`-th stored sample. -/
theorem dict_aligned (keys : List String) (items : List Sample) (hw : ∀ d ∈ items, Keyed keys d) :
    collect keys items = .ok (tabulate keys fun k => column k items) ∧
    ∀ k ∈ keys, (column k items).length = items.length ∧
      ∀ j : Nat, (column k items)[j]? = (items[j]?).bind (lookupS k) := by
  constructor
  · have := collectAll_tabulate keys items (fun _ => [])
      (fun d hd => ⟨(hw d hd).1, fun k hk => (sameKeySet_mem (hw d hd).2 k).mp hk⟩)
    simpa [collect, tabulate] using this
  · intro k hk
    have hall : ∀ d ∈ items, ∃ v, lookupS k d = some v := fun d hd =>
      lookupS_some ((sameKeySet_mem (hw d hd).2 k).mpr hk)
    clear hw
    induction items with
    | nil => simp [column]
    | cons d rest ih =>
      obtain ⟨v, hv⟩ := hall d List.mem_cons_self
      have ih' := ih (fun d' hd' => hall d' (List.mem_cons_of_mem _ hd'))
      simp only [column, List.filterMap_cons, hv, List.length_cons] at ih' ⊢
      refine ⟨by omega, fun j => ?_⟩
      cases j with
      | zero => simp [hv]
      | succ j => simpa using ih'.2 j

/-- What a history may contain: added samples are Python dicts (distinct keys, any key set — wrong
ones are rejected by the buffer itself); loaded files were saved by a buffer with the same keys. -/
def DictOp.Ok (keys : List String) : DictOp → Prop
  | .add d _ _ => (sampleKeys d).Nodup
  | .load l => ∀ d ∈ l, Keyed keys d

/-- Every sample a dict buffer stores passed its key check, after every history. -/
theorem dseq_keyed (ops : List DictOp) (b : DictSeq) (hb : ∀ d ∈ b.buffer.queue, Keyed b.keys d)
    (hops : ∀ op ∈ ops, op.Ok b.keys) :
    (b.runH ops).keys = b.keys ∧ ∀ d ∈ (b.runH ops).buffer.queue, Keyed b.keys d := by
  induction ops generalizing b with
  | nil => exact ⟨rfl, hb⟩
  | cons op rest ih =>
    have hrest : ∀ op ∈ rest, op.Ok b.keys := fun o ho => hops o (List.mem_cons_of_mem _ ho)
    have hop := hops op List.mem_cons_self
    have key : (b.stepH op).keys = b.keys ∧ ∀ d ∈ (b.stepH op).buffer.queue, Keyed b.keys d := by
      cases op with
      | add d u i =>
        simp only [DictSeq.stepH, DictSeq.add]
        split
        · rename_i b' hb'
          split at hb'
          · rename_i hk
            cases hb'
            refine ⟨rfl, fun d' hd' => ?_⟩
            rcases mem_dequeAppend hd' with h | h
            · exact hb d' h
            · subst h; exact ⟨hop, hk⟩
          · cases hb'
        · exact ⟨rfl, hb⟩
      | load l =>
        exact ⟨rfl, fun d hd => hop d (mem_of_mem_lastN hd)⟩
    obtain ⟨k1, k2⟩ := key
    have := ih (b.stepH op) (by rw [k1]; exact k2) (by rw [k1]; exact hrest)
    simp only [DictSeq.runH]
    rw [k1] at this
    exact this

theorem drrb_keyed (v : Variant) (ops : List DictOp) (b : DictRrb)
    (hb : ∀ d ∈ b.buffer.data, Keyed b.keys d) (hops : ∀ op ∈ ops, op.Ok b.keys) :
    (b.runH v ops).keys = b.keys ∧ ∀ d ∈ (b.runH v ops).buffer.data, Keyed b.keys d := by
  induction ops generalizing b with
  | nil => exact ⟨rfl, hb⟩
  | cons op rest ih =>
    have hrest : ∀ op ∈ rest, op.Ok b.keys := fun o ho => hops o (List.mem_cons_of_mem _ ho)
    have hop := hops op List.mem_cons_self
    have key : (b.stepH v op).keys = b.keys ∧ ∀ d ∈ (b.stepH v op).buffer.data, Keyed b.keys d := by
      cases op with
      | add d u i =>
        simp only [DictRrb.stepH, DictRrb.add]
        split
        · rename_i b' hb'
          split at hb'
          · rename_i hk
            split at hb'
            · cases hb'
            · rename_i inner hin
              cases hb'
              refine ⟨rfl, fun d' hd' => ?_⟩
              have hsub := rrb_add_mem v b.buffer inner d u i hin d' hd'
              rcases hsub with h | h
              · exact hb d' h
              · subst h; exact ⟨hop, hk⟩
          · cases hb'
        · exact ⟨rfl, hb⟩
      | load l =>
        exact ⟨rfl, fun d hd => hop d (List.mem_of_mem_take hd)⟩
    obtain ⟨k1, k2⟩ := key
    have := ih (b.stepH v op) (by rw [k1]; exact k2) (by rw [k1]; exact hrest)
    simp only [DictRrb.runH]
    rw [k1] at this
    exact this


/-- Alignment over histories, sequential variant: from a new buffer, after any history of adds
(right or wrong keys) and loads, `get_data` is the aligned table of the stored samples and every
column has `len` entries. -/
theorem dseq_aligned (keys : List String) (n : Int) (b : DictSeq) (ops : List DictOp)
    (hc : DictSeq.ctor keys n = .ok b) (hops : ∀ op ∈ ops, op.Ok b.keys) :
    let b' := b.runH ops
    b'.getData = .ok (tabulate b'.keys fun k => column k b'.buffer.getData) ∧
    ∀ k ∈ b'.keys, (column k b'.buffer.getData).length = b'.len := by
  have hq : b.buffer.queue = [] := by
    unfold DictSeq.ctor Seq.ctor at hc
    split at hc
    · cases hc
    · rename_i sb hsb
      cases hc
      split at hsb
      · cases hsb
      · cases hsb; rfl
  obtain ⟨hk, hall⟩ := dseq_keyed ops b (by rw [hq]; intro d hd; cases hd) hops
  intro b'
  have ha := dict_aligned b'.keys b'.buffer.getData (by
    intro d hd; show Keyed (b.runH ops).keys d; rw [hk]; exact hall d hd)
  exact ⟨ha.1, fun k hk' => (ha.2 k hk').1⟩

/-- Alignment over histories, random-replacement variant (any draws, either variant of the code). -/
theorem drrb_aligned (v : Variant) (keys : List String) (n : Nat) (rp : Option Rat)
    (s : Option Int) (lg : Rat) (b : DictRrb) (ops : List DictOp)
    (hc : DictRrb.ctor v keys n rp s lg = .ok b) (hops : ∀ op ∈ ops, op.Ok b.keys) :
    let b' := b.runH v ops
    b'.getData = .ok (tabulate b'.keys fun k => column k b'.buffer.getData) ∧
    ∀ k ∈ b'.keys, (column k b'.buffer.getData).length = b'.buffer.getData.length := by
  have hq : b.buffer.data = [] := by
    unfold DictRrb.ctor Rrb.ctor at hc
    split at hc
    · cases hc
    · rename_i rb hrb
      cases hc
      split at hrb
      · cases hrb
      · split at hrb
        · cases hrb
        · split at hrb
          · cases hrb
          · split at hrb
            · cases hrb
            · cases hrb; rfl
  obtain ⟨hk, hall⟩ := drrb_keyed v ops b (by rw [hq]; intro d hd; cases hd) hops
  intro b'
  have ha := dict_aligned b'.keys b'.buffer.getData (by
    intro d hd; show Keyed (b.runH v ops).keys d; rw [hk]; exact hall d hd)
  exact ⟨ha.1, fun k hk' => (ha.2 k hk').1⟩

/-- **A sample with wrong keys is rejected without changing the buffer**: both dict variants
answer `ValueError`, the history continues from the same state, and the random-replacement variant
consumes no draw (the key check comes before delegating). -/
theorem dict_reject_unchanged (v : Variant) (bs : DictSeq) (br : DictRrb) (d : Sample) (u : Rat)
    (i : Nat) :
    (sameKeySet (sampleKeys d) bs.keys = false →
      bs.add d = .error .value ∧ bs.stepH (.add d u i) = bs) ∧
    (sameKeySet (sampleKeys d) br.keys = false →
      br.add v d u i = .error .value ∧ br.stepH v (.add d u i) = br ∧ br.drawsUsed v d u = []) := by
  constructor
  · intro h
    have : bs.add d = .error .value := by simp [DictSeq.add, h]
    exact ⟨this, by simp [DictSeq.stepH, this]⟩
  · intro h
    have : br.add v d u i = .error .value := by simp [DictRrb.add, h]
    exact ⟨this, by simp [DictRrb.stepH, this], by simp [DictRrb.drawsUsed, h]⟩

/-- … and a sample with the right keys is accepted by the key check (it reaches the inner buffer). -/
theorem dict_accepts_right_keys (bs : DictSeq) (d : Sample)
    (h : sameKeySet (sampleKeys d) bs.keys = true) :
    bs.add d = .ok { bs with buffer := bs.buffer.add d } := by
  simp [DictSeq.add, h]

example : Keyed ["a", "b"] [("b", 2), ("a", 1)] := by unfold Keyed; decide
example : sameKeySet (sampleKeys [("a", 1)]) ["a", "b"] = false := by decide
example : DictOp.Ok ["a"] (.add [("a", 1), ("zz", 2)] 0 0) := by unfold DictOp.Ok; decide

/-! ## get_data, len, save / load -/

/-- **`get_data` returns a copy**, as far as a pure model can say it: taking the data is an
observation that leaves the buffer as it was, so whatever the caller computes from the result
(`f`) the next `get_data` is the same. That the returned Python object shares no structure with the
buffer is checked on the code (the harness mutates the returned object and looks again). -/
theorem get_is_copy {α β} (bs : Seq α) (br : Rrb α) (f : List α → β) :
    (bs, f bs.getData).1.getData = bs.getData ∧ (br, f br.getData).1.getData = br.getData :=
  ⟨rfl, rfl⟩

/-- **`len` equals the data returned**, for every history (sequential: by construction;
random-replacement: `_current_size` tracks the list). -/
theorem len_eq {α} (v : Variant) (bs : Seq α) (sops : List (SeqOp α)) (br br' : Rrb α)
    (rops : List (RrbOp α)) (hw : br.WF) (hr : br.run v rops = .ok br') :
    (bs.run sops).len = (bs.run sops).getData.length ∧ br'.len = br'.getData.length := by
  refine ⟨rfl, ?_⟩
  induction rops generalizing br with
  | nil => simp [Rrb.run] at hr; cases hr; exact hw.1
  | cons op rest ih =>
    simp only [Rrb.run] at hr
    split at hr
    · cases hr
    · rename_i b1 hb1
      cases op with
      | add x u i => exact ih b1 (rrb_add_wf v br b1 x u i hw hb1).1 hr
      | load l => simp only [Rrb.step] at hb1; cases hb1; exact ih _ (rrb_load_wf br l) hr

/-- **Survives save/load with the same content**: loading what a buffer saved into a new buffer
of the same capacity gives the same data and the same `len`. -/
theorem save_load {α} (bs fs : Seq α) (br fr : Rrb α)
    (hs : bs.queue.length ≤ bs.maxSize) (hfs : fs.maxSize = bs.maxSize)
    (hw : br.WF) (hfr : fr.maxSize = br.maxSize) :
    (fs.loadState bs.saveState).getData = bs.getData ∧
    (fs.loadState bs.saveState).len = bs.len ∧
    (fr.loadState br.saveState).getData = br.getData ∧
    (fr.loadState br.saveState).len = br.len := by
  have e1 : (fs.loadState bs.saveState).queue = bs.queue := by
    simp [Seq.loadState, Seq.saveState, hfs, lastN_of_le _ _ hs]
  have e2 : (fr.loadState br.saveState).data = br.data := by
    simp [Rrb.loadState, Rrb.saveState, hfr, List.take_of_length_le hw.2]
  refine ⟨e1, by simp [Seq.len, e1], e2, ?_⟩
  simp [Rrb.len, Rrb.loadState, Rrb.saveState, hfr, List.take_of_length_le hw.2, hw.1]

/-- Loading into a smaller buffer: the sequential buffer keeps the newest `max_size` samples, the
random-replacement buffer the first `max_size`; both stay within their capacity. -/
theorem load_into_smaller {α} (fs : Seq α) (fr : Rrb α) (saved : List α) :
    (fs.loadState saved).getData = lastN fs.maxSize saved ∧
    (fr.loadState saved).getData = saved.take fr.maxSize ∧
    (fr.loadState saved).WF :=
  ⟨rfl, rfl, rrb_load_wf fr saved⟩

/-- Dict variants save and load through the inner buffer (`save_state = _buffer.save_state`). -/
theorem dict_save_load (bs fs : DictSeq) (hs : bs.buffer.queue.length ≤ bs.buffer.maxSize)
    (hk : fs.keys = bs.keys) (hm : fs.buffer.maxSize = bs.buffer.maxSize) :
    (fs.loadState bs.saveState).getData = bs.getData ∧ (fs.loadState bs.saveState).len = bs.len := by
  have := save_load bs.buffer fs.buffer (⟨0, 0, 0, [], 0⟩ : Rrb Sample) ⟨0, 0, 0, [], 0⟩ hs hm
    ⟨rfl, Nat.le_refl _⟩ rfl
  simp only [DictSeq.getData, DictSeq.loadState, DictSeq.saveState, DictSeq.len, hk]
  exact ⟨by rw [this.1], this.2.1⟩

example : (⟨3, [1, 2, 3]⟩ : Seq Int).queue.length ≤ 3 := by decide
example : ((⟨2, []⟩ : Seq Int).loadState [1, 2, 3]).getData = [2, 3] := by decide
example : ((⟨2, 1, 2, [], 0⟩ : Rrb Int).loadState [1, 2, 3]).getData = [1, 2] := by decide

end Pamiq.Buffer
