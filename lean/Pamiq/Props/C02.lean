/-
C02 — shutdown always terminates cleanly; pause and resume make progress.
Safety parts are invariants of `Proto`; liveness is stated as bounded-step progress: once shutdown is
set, every own action of a live background thread (other than the boundaries of a user callback,
which are assumed to terminate) strictly decreases a rank, and the thread is never disabled except
while it waits for the resume lock, whose holder is itself enabled. Fair scheduling by the OS and
termination of user callbacks are assumptions (DESIGN §6).
-/
import Pamiq.Props.C01
namespace Pamiq.Proto

/-- `shutdown` is only ever set with the resume event set first and it stays set: a thread blocked in
a pause is always woken by a shutdown. -/
theorem shutdown_wakes {n mx : Nat} {s : St} (hr : Reachable n mx s) (h : s.shutdown = true) :
    s.resume = true := by
  have hC2 := (reachable_inv hr).1.2
  unfold CInv2 at hC2
  exact hC2.2.2.1 h

/-- No pause attempt can start or be in progress once shutdown is set. -/
theorem no_pause_after_shutdown {n mx : Nat} {s : St} (hr : Reachable n mx s)
    (h : s.shutdown = true) : tpPc s.ctl.pc = false := by
  have hC2 := (reachable_inv hr).1.2
  unfold CInv2 at hC2
  cases htp : tpPc s.ctl.pc
  · rfl
  · have := (hC2.2.2.2.2.2.1 htp).1; simp [h] at this

/-- When `launch()` returns, and already while the final state is written, every background thread
has exited - or was never started, when an interrupt cut the start-up section short -, the clock is
running and no pause is pending. -/
theorem final_save_last {n mx : Nat} {s : St} (hr : Reachable n mx s)
    (h : s.ctl.pc = .finalIn ∨ s.ctl.pc = .returned) :
    (∀ th ∈ s.thr, th.pc = .done ∨ th.pc = .new) ∧ s.clockPaused = false ∧ s.ctl.paused = false ∧ s.shutdown = true := by
  have hI := reachable_inv hr
  have hC2 := hI.1.2
  unfold CInv2 at hC2
  obtain ⟨_, _, _, _, _, _, _, _, c9, _, _, _, _, c14⟩ := hC2
  have hst := c9 h
  have h4 := c14 hst
  refine ⟨?_, h4.1, h4.2.1, h4.2.2.1⟩
  intro th hth
  have hT := hI.2 th hth
  unfold TInv at hT
  exact (hT.2.2.2.2.2.2.2.2.2.2.2.2.2.2.1 (hT.2.2.2.2.2.2.2.2.1 h)).1

/-- A thread that was never started does nothing, and once the control thread has left the start-up
section of `launch()` (normally or by an interrupt) no thread is started any more. -/
theorem never_started_is_final {n mx : Nat} {s : St} (hr : Reachable n mx s) (t : Nat) (th : BThread)
    (hget : s.thr[t]? = some th) (h : th.pc = .new) :
    (∀ a, bstep s t th a = none) ∧ (s.ctl.pc ≠ .boot → cstep s (.cSpawn t) = none) := by
  have hT := (reachable_inv hr).2 th (mem_of_getElem? hget)
  unfold TInv at hT
  have hin : th.inCb = none := (hT.2.2.2.2.2.2.2.2.2.2.2.1 h).1
  refine ⟨?_, ?_⟩
  · intro a
    cases a <;> simp [bstep, h, cbAllowed, hin]
  · intro hb
    simp [cstep, hget, hb]

/-- An exited thread does nothing any more (so no step or training run can follow the final save). -/
theorem done_is_final {n mx : Nat} {s : St} (hr : Reachable n mx s) (t : Nat) (th : BThread)
    (hget : s.thr[t]? = some th) (a : Act) (h : th.pc = .done) : bstep s t th a = none := by
  have hT := (reachable_inv hr).2 th (mem_of_getElem? hget)
  unfold TInv at hT
  have hin : th.inCb = none := by
    cases hc : th.inCb with
    | none => rfl
    | some k => have := hT.2.1 (by simp [hc]); simp [h, cbPc] at this
  cases a <;> simp [bstep, h, cbAllowed, hin]

/-- Distance to exit of a background thread once shutdown (hence resume) is set. -/
def rank (th : BThread) : Nat :=
  match th.pc with
  | .done => 0 | .dying => 1 | .fin => 2 | .exc => 3 | .chk => 3 | .excHeld => 4 | .hooksR => 5
  | .clearing => 6 | .leave => 7
  | .afterWait => if th.localPaused then 8 else 3
  | .waitEnter => 9
  | .top => if th.localPaused then 9 else 10
  | .leaveBack => 11 | .hooksP => 10 | .start => 10 | .tick => 11 | .blocked => 11 | .new => 12

def Act.isCbBoundary : Act → Bool
  | .bCbBegin _ _ | .bCbEnd _ _ => true
  | _ => false

/-- **Progress after shutdown.** With shutdown and resume set, every own action of a background thread
that is not the begin/end of a user callback strictly decreases its rank (at most 12 such actions
to `done`, whatever it was doing: paused, acknowledging, inside a hook, mid-step). -/
theorem bg_rank_decreases (s s' : St) (t : Nat) (th : BThread) (a : Act)
    (hsd : s.shutdown = true) (hrs : s.resume = true) (hget : s.thr[t]? = some th)
    (hcb : th.inCb.isSome = true → cbPc th.pc = true)
    (hnb : a.isCbBoundary = false) (hs : bstep s t th a = some s') :
    ∃ th', s'.thr[t]? = some th' ∧ rank th' < rank th := by
  have hlen : t < s.thr.length := by
    rcases Nat.lt_or_ge t s.thr.length with h | h
    · exact h
    · simp [List.getElem?_eq_none_iff.mpr h] at hget
  cases a <;> simp only [bstep, Act.isCbBoundary] at hs hnb <;> try contradiction
  all_goals
    (repeat' split at hs
     all_goals first
       | contradiction
       | (cases hs
          refine ⟨_, by simp only [St.setThr]; exact List.getElem?_set_self hlen, ?_⟩
          simp only [rank]
          simp only [cbPc] at hcb
          simp_all
          try (repeat' split) <;> simp_all <;> omega))

/-- Callback boundaries keep the rank (user callbacks are assumed to terminate). -/
theorem bg_rank_cb (s s' : St) (t : Nat) (th : BThread) (a : Act) (hget : s.thr[t]? = some th)
    (hb : a.isCbBoundary = true) (hs : bstep s t th a = some s') :
    ∃ th', s'.thr[t]? = some th' ∧ rank th' = rank th := by
  have hlen : t < s.thr.length := by
    rcases Nat.lt_or_ge t s.thr.length with h | h
    · exact h
    · simp [List.getElem?_eq_none_iff.mpr h] at hget
  cases a <;> simp only [bstep, Act.isCbBoundary] at hs hb <;> try contradiction
  all_goals
    (split at hs
     · cases hs
       exact ⟨_, by simp only [St.setThr]; exact List.getElem?_set_self hlen, by simp [rank]⟩
     · contradiction)

/-- **Never blocked after shutdown.** A started, not yet exited thread of a reachable state with
shutdown set always has an enabled action of its own, unless it is waiting for the resume lock. -/
theorem bg_enabled_after_shutdown {n mx : Nat} {s : St} (hr : Reachable n mx s)
    (hsd : s.shutdown = true) (t : Nat) (th : BThread) (hget : s.thr[t]? = some th)
    (hnew : th.pc ≠ .new) (hdone : th.pc ≠ .done) :
    (∃ a, a.thread = some t ∧ (step s a).isSome = true) ∨
      (th.pc = .afterWait ∧ th.localPaused = true ∧
        (s.ctl.holds = true ∨ s.thr.all (fun x => !x.holds) = false)) := by
  have hrs := shutdown_wakes hr hsd
  have hT := (reachable_inv hr).2 th (mem_of_getElem? hget)
  unfold TInv at hT
  have hcb := hT.2.1
  -- a callback in flight can always end
  cases hin : th.inCb with
  | some k =>
    left
    exact ⟨.bCbEnd t k, rfl, by simp [step, Act.thread, hget, bstep, hin]⟩
  | none =>
    cases hpc : th.pc
    case new => exact absurd hpc hnew
    case done => exact absurd hpc hdone
    case start =>
      cases hlp : th.localPaused
      · left; exact ⟨.bReadResume t true, rfl, by simp [step, Act.thread, hget, bstep, hpc, hin, hlp, hrs]⟩
      · -- localPaused at `start` is impossible: the flag-less wait section is only entered later
        left; exact ⟨.bCbBegin t .setup, rfl, by simp [step, Act.thread, hget, bstep, hpc, hin, cbAllowed]⟩
    case top =>
      cases hlp : th.localPaused
      · left; exact ⟨.bReadResume t true, rfl, by simp [step, Act.thread, hget, bstep, hpc, hin, hlp, hrs]⟩
      · left; exact ⟨.bWaitImm t, rfl, by simp [step, Act.thread, hget, bstep, hpc, hlp, hrs]⟩
    case hooksP =>
      left; exact ⟨.bSetPaused t, rfl, by simp [step, Act.thread, hget, bstep, hpc, hin]⟩
    case waitEnter =>
      left; exact ⟨.bWaitImm t, rfl, by simp [step, Act.thread, hget, bstep, hpc, hrs]⟩
    case blocked =>
      cases hn : th.notified
      · left; exact ⟨.bWaitTimeout t, rfl, by simp [step, Act.thread, hget, bstep, hpc, hn]⟩
      · left; exact ⟨.bWaitWoken t, rfl, by simp [step, Act.thread, hget, bstep, hpc, hn]⟩
    case afterWait =>
      cases hlp : th.localPaused
      · left; exact ⟨.bReadShutdown t true, rfl, by simp [step, Act.thread, hget, bstep, hpc, hlp, hsd]⟩
      · cases hch : s.ctl.holds
        · cases hall : s.thr.all (fun x => !x.holds)
          · right; exact ⟨rfl, rfl, Or.inr rfl⟩
          · left; exact ⟨.bAcquire t, rfl, by simp [step, Act.thread, hget, bstep, hpc, hlp, hch, hall]⟩
        · right; exact ⟨rfl, rfl, Or.inl rfl⟩
    case leave =>
      left; exact ⟨.bLeaveRead t true, rfl, by simp [step, Act.thread, hget, bstep, hpc, hrs]⟩
    case clearing =>
      left; exact ⟨.bClearPaused t, rfl, by simp [step, Act.thread, hget, bstep, hpc]⟩
    case hooksR =>
      left; exact ⟨.bRelease t, rfl, by simp [step, Act.thread, hget, bstep, hpc, hin]⟩
    case leaveBack =>
      left; exact ⟨.bRelease t, rfl, by simp [step, Act.thread, hget, bstep, hpc]⟩
    case chk =>
      left; exact ⟨.bReadShutdown t true, rfl, by simp [step, Act.thread, hget, bstep, hpc, hsd]⟩
    case tick =>
      left; exact ⟨.bLoopSleep t, rfl, by simp [step, Act.thread, hget, bstep, hpc, hin]⟩
    case excHeld =>
      left; exact ⟨.bRelease t, rfl, by simp [step, Act.thread, hget, bstep, hpc]⟩
    case exc =>
      left; exact ⟨.bSetExc t, rfl, by simp [step, Act.thread, hget, bstep, hpc]⟩
    case fin =>
      left; exact ⟨.bExit t, rfl, by simp [step, Act.thread, hget, bstep, hpc, hin]⟩
    case dying =>
      left; exact ⟨.bExit t, rfl, by simp [step, Act.thread, hget, bstep, hpc]⟩

/-- A `resume()` (and a failed attempt, and a shutdown) notifies every blocked thread: each of them
can then leave its wait. -/
theorem resume_wakes_all (s s' : St) (hs : cstep s .cSetResume = some s') :
    s'.resume = true ∧ ∀ th ∈ s'.thr, th.pc = .blocked → th.notified = true := by
  simp only [cstep] at hs
  repeat' split at hs
  all_goals first
    | contradiction
    | (cases hs
       refine ⟨rfl, ?_⟩
       intro th hth hb
       simp only [notifyAll, List.mem_map] at hth
       obtain ⟨x, _, rfl⟩ := hth
       simp_all)

/-- A pause attempt in which no worker times out succeeds at once: if every worker result of the
attempt is `true`, the control thread's next step is the acknowledgement, never a retry. -/
theorem first_attempt_no_timeout (s s' : St) (hall : ∀ th ∈ s.thr, th.wRes = some true)
    (hs : cstep s .cWorkersJoined = some s') : s'.ctl.pc = .tpAck := by
  simp only [cstep] at hs
  split at hs
  · split at hs
    · cases hs; rfl
    · rename_i hnot
      exfalso; apply hnot
      rw [List.all_eq_true]
      intro th hth
      simp [hall th hth]
  · contradiction

/-- **`shutdown()` itself never blocks**: at each of its program points the control thread's next
action is enabled whatever the other threads do, so `shutdown()` completes in at most four own
actions (release the clock, set resume, set shutdown, return). -/
theorem shutdown_never_blocks (s : St) :
    (s.ctl.pc = .sdClock → (cstep s .cClockResume).isSome = true) ∧
    (s.ctl.pc = .sdSet → (cstep s .cSetResume).isSome = true) ∧
    (s.ctl.pc = .sdShut → (cstep s .cSetShutdown).isSome = true) ∧
    (s.ctl.pc = .sdDone → (cstep s .cShutdownRet).isSome = true) := by
  refine ⟨?_, ?_, ?_, ?_⟩ <;> intro h <;> simp [cstep, h]

/-- **`resume()` never blocks** either. -/
theorem resume_never_blocks (s : St) :
    (s.ctl.pc = .rsClock → (cstep s .cClockResume).isSome = true) ∧
    (s.ctl.pc = .rsSet → (cstep s .cSetResume).isSome = true) ∧
    (s.ctl.pc = .rsDone → (cstep s .cResumeRet).isSome = true) := by
  refine ⟨?_, ?_, ?_⟩ <;> intro h <;> simp [cstep, h]

/-- **A pause attempt cannot get stuck waiting for acknowledgements**: while the control thread waits
for its workers, either a worker is still to be spawned, or a spawned worker can return (its time-out
is always available), or all have returned and the control thread can go on. Together with
`attempt < maxAttempts` (next theorem) `try_pause` takes at most `maxAttempts` attempts of at most
one time-out each. -/
theorem pause_attempt_never_stuck (s : St) (h : s.ctl.pc = .tpSpawn) :
    (∃ t, (cstep s (.cSpawnWorker t)).isSome = true) ∨
    (∃ t, (cstep s (.wRet t false)).isSome = true) ∨
    (cstep s .cWorkersJoined).isSome = true := by
  by_cases hall : s.thr.all (fun x => x.wRes.isSome) = true
  · right; right
    simp only [cstep, h, hall, and_self, if_true]
    split <;> simp
  · -- some thread has no result yet: its worker is either not spawned or can time out
    have hex : ∃ th ∈ s.thr, th.wRes.isSome = false := by
      apply Classical.byContradiction
      intro hcon
      apply hall
      rw [List.all_eq_true]
      intro x hx
      cases hxs : x.wRes.isSome with
      | true => rfl
      | false => exact absurd ⟨x, hx, hxs⟩ hcon
    obtain ⟨th, hth, hres⟩ := hex
    obtain ⟨t, ht, hget⟩ := List.getElem_of_mem hth
    have hget' : s.thr[t]? = some th := by rw [List.getElem?_eq_getElem ht, hget]
    have hnone : th.wRes = none := by
      cases hw : th.wRes with
      | none => rfl
      | some v => simp [hw] at hres
    cases hsp : th.wSpawned
    · left; exact ⟨t, by simp [cstep, hget', h, hsp]⟩
    · right; left; exact ⟨t, by simp [cstep, hget', hsp, hnone]⟩

/-- The retry counter stays below the configured maximum while an attempt is in progress. -/
theorem attempts_bounded (s s' : St) (hs : cstep s .cSetResume = some s') (h : s.ctl.pc = .tpRetry) :
    s'.ctl.attempt = s.ctl.attempt + 1 ∧
    (s'.ctl.pc = .tpLock → s'.ctl.attempt < s'.ctl.maxAttempts) ∧
    (s'.ctl.pc = .tpLock ∨ s'.ctl.pc = .tpDone false) := by
  simp only [cstep, h, if_true] at hs
  cases hs
  refine ⟨rfl, ?_, ?_⟩
  · simp only
    split <;> simp_all
  · simp only
    split <;> simp

/-! Non-vacuity: shutdown while paused, from the C01 witness state. -/
def shutdownTrace : List Act :=
  witnessTrace ++ [.cTryPauseRet true, .cCmdShutdown, .cShutdown, .cClockResume, .cSetResume, .cSetShutdown]

example : ∃ s, Reachable 2 2 s ∧ s.shutdown = true ∧ s.clockPaused = false ∧
    (∃ th ∈ s.thr, th.pc = .blocked ∧ th.notified = true) := by
  refine ⟨(run (init 2 2) shutdownTrace).get (by decide), ⟨shutdownTrace, by simp⟩, ?_, ?_, ?_⟩ <;> decide

end Pamiq.Proto
