/-
C20 — the Gymnasium adapter respects the episode protocol.
Property theorems only. Model: `Pamiq/Model/Gym.lean` (tied to `pamiq_core/gym/{env,agent,types}.py`
and `Interaction.step` by the correspondence check `harness/corr/c20.py`).

Every theorem is about the call log of `run sc n` = `Interaction.setup()` followed by `n` calls of
`Interaction.step()`, for EVERY script `sc` (every stream of terminated/truncated flags of the
wrapped environment, every pattern of `need_reset` requests made inside `on_reset` / `on_step`
callbacks) and every `n`. "`log = pre ++ e :: post`" ranges over every occurrence of an event `e`
in the log, with everything logged before (`pre`) and after (`post`) it.
-/
import Pamiq.Lemmas.Gym

namespace Pamiq.Gym

/-- The error branch (`observe()` before `setup()`) is unreachable in a run. -/
theorem run_ok (sc : Script) (n : Nat) : ∃ s, run sc n = .ok s :=
  let ⟨s, h, _⟩ := run_good sc n; ⟨s, h⟩

/-! ## Occurrence-wise statements, proved in `EachFrom` form -/

private def P1 : List Ev → Ev → List Ev → Prop := fun _ e post =>
  match e with
  | .envStep _ _ t u => (t || u) = true → ∃ j rest, post = .envReset j :: rest
  | _ => True

private def P3 : List Ev → Ev → List Ev → Prop := fun pre e _ =>
  match e with
  | .envStep _ a _ _ => lastCallback pre = some a ∧ ∃ pre' req, pre = pre' ++ [.ret a req]
  | _ => True

private def P5 : List Ev → Ev → List Ev → Prop := fun _ e post =>
  match e with
  | .ret a true => ∃ k t u j rest, post = .envStep k a t u :: .envReset j :: rest
  | _ => True

private def P2 : List Ev → Ev → List Ev → Prop := fun pre e _ =>
  match e with
  | .envReset _ => pre = [] ∨
      ∃ pre' a req k t u, pre = pre' ++ [.ret a req, .envStep k a t u] ∧ (t || u || req) = true
  | _ => True

private def P6 (sc : Script) : List Ev → Ev → List Ev → Prop := fun pre e _ =>
  match e with
  | .ret a req => req = sc.wants a ∧ lastCallback pre = some a
  | _ => True

/-- Shared skeleton: a predicate on occurrences that survives appending to `post`, and holds at
each position of the segment one step appends, holds for the whole log. -/
private theorem each_of_block (sc : Script) (P : List Ev → Ev → List Ev → Prop)
    (hmono : ∀ a e b l2, P a e b → P a e (b ++ l2))
    (h0 : P [] (.envReset 0) [])
    (hblock : ∀ n s ob, Good n s → s.obs = some ob → EachFrom P s.log (block sc s ob)) :
    ∀ n s, run sc n = .ok s → EachFrom P [] s.log := by
  refine run_induction sc (fun _ s => EachFrom P [] s.log) ?_ ?_
  · simp [setup, envReset, EachFrom, h0]
  · intro n s ob _ g hob ih
    show EachFrom P [] (s.log ++ block sc s ob)
    rw [eachFrom_append]
    exact ⟨ih.imp (fun a e b h => hmono a e b _ h), by simpa using hblock n s ob g hob⟩

private theorem snoc2 {α} (l : List α) (x y : α) : l ++ [x, y] = (l ++ [x]) ++ [y] := by simp
private theorem snoc3 {α} (l : List α) (x y z : α) : l ++ [x, y, z] = (l ++ [x, y]) ++ [z] := by
  simp
private theorem snoc3' {α} (l : List α) (x y z : α) : l ++ [x, y, z] = (l ++ [x]) ++ [y, z] := by
  simp
private theorem snoc4 {α} (l : List α) (x y z w : α) :
    l ++ [x, y, z, w] = (l ++ [x, y]) ++ [z, w] := by simp

private theorem lc1 (l : List Ev) (o j : Nat) (r : Bool) :
    lastCallback (l ++ [.onReset o j, .ret (.ofReset o) r]) = some (.ofReset o) := by
  simp [lastCallback, List.filterMap_append, List.filterMap_cons, cbRet]
private theorem lc2 (l : List Ev) (o k : Nat) (t u r : Bool) :
    lastCallback (l ++ [.onStep o k t u, .ret (.ofStep o) r]) = some (.ofStep o) := by
  simp [lastCallback, List.filterMap_append, List.filterMap_cons, cbRet]
private theorem lc3 (l : List Ev) (e : Ev) (o j : Nat) (r : Bool) :
    lastCallback (l ++ [e, .onReset o j, .ret (.ofReset o) r]) = some (.ofReset o) := by
  rw [snoc3']; exact lc1 ..
private theorem lc1' (l : List Ev) (o j : Nat) :
    lastCallback (l ++ [.onReset o j]) = some (.ofReset o) := by
  simp [lastCallback, List.filterMap_append, List.filterMap_cons, cbRet]
private theorem lc2' (l : List Ev) (o k : Nat) (t u : Bool) :
    lastCallback (l ++ [.onStep o k t u]) = some (.ofStep o) := by
  simp [lastCallback, List.filterMap_append, List.filterMap_cons, cbRet]
private theorem lc3' (l : List Ev) (e : Ev) (o j : Nat) :
    lastCallback (l ++ [e, .onReset o j]) = some (.ofReset o) := by
  rw [snoc2]; exact lc1' ..

private theorem each_P1 (sc : Script) : ∀ n s, run sc n = .ok s → EachFrom P1 [] s.log := by
  refine each_of_block sc P1 ?_ (by simp [P1]) ?_
  · intro a e b l2 h
    cases e <;> simp only [P1] at h ⊢
    intro hd
    obtain ⟨j, rest, rfl⟩ := h hd
    exact ⟨j, rest ++ l2, rfl⟩
  · intro n s ob _ _
    rcases block_cases sc s ob with ⟨hc, hb⟩ | ⟨hc, hb⟩ <;> rw [hb] <;> cases ob <;>
      simp only [cbsOf] at hc ⊢ <;> simp [EachFrom, P1] <;> simp_all

private theorem each_P5 (sc : Script) : ∀ n s, run sc n = .ok s → EachFrom P5 [] s.log := by
  refine each_of_block sc P5 ?_ (by simp [P5]) ?_
  · intro a e b l2 h
    cases e with
    | ret a' r =>
      cases r <;> simp only [P5] at h ⊢
      obtain ⟨k, t, u, j, rest, rfl⟩ := h
      exact ⟨k, t, u, j, rest ++ l2, rfl⟩
    | _ => simp [P5]
  · intro n s ob _ _
    rcases block_cases sc s ob with ⟨hc, hb⟩ | ⟨hc, hb⟩ <;> rw [hb] <;> cases ob <;>
      simp only [cbsOf] at hc ⊢ <;> simp [EachFrom, P5] <;> split <;> simp_all

private theorem each_P3 (sc : Script) : ∀ n s, run sc n = .ok s → EachFrom P3 [] s.log := by
  refine each_of_block sc P3 (fun _ e _ _ h => by cases e <;> first | exact h | trivial) (by simp [P3]) ?_
  · intro n s ob _ _
    rcases block_cases sc s ob with ⟨hc, hb⟩ | ⟨hc, hb⟩ <;> rw [hb] <;> cases ob <;>
      simp only [cbsOf, EachFrom, P3, List.append_assoc, List.cons_append, List.nil_append,
        and_true, true_and] <;>
      exact ⟨by first | exact lc1 .. | exact lc2 .. | exact lc3 ..,
             ⟨_, _, by first | exact snoc2 .. | exact snoc3 ..⟩⟩

private theorem each_P2 (sc : Script) : ∀ n s, run sc n = .ok s → EachFrom P2 [] s.log := by
  refine each_of_block sc P2 (fun _ e _ _ h => by cases e <;> first | exact h | trivial) (by simp [P2]) ?_
  · intro n s ob _ _
    rcases block_cases sc s ob with ⟨hc, hb⟩ | ⟨hc, hb⟩ <;> rw [hb] <;> cases ob <;>
      simp only [cbsOf, EachFrom, P2, List.append_assoc, List.cons_append, List.nil_append,
        and_true, true_and] at hc ⊢ <;>
      exact Or.inr ⟨_, _, _, _, _, _, by first | exact snoc3' .. | exact snoc4 ..,
        by simp only [Bool.or_eq_true] at hc ⊢; rcases hc with (h | h) | h <;> simp [h]⟩

private theorem each_P6 (sc : Script) : ∀ n s, run sc n = .ok s → EachFrom (P6 sc) [] s.log := by
  refine each_of_block sc (P6 sc) (fun _ e _ _ h => by cases e <;> first | exact h | trivial)
    (by simp [P6]) ?_
  · intro n s ob _ _
    rcases block_cases sc s ob with ⟨hc, hb⟩ | ⟨hc, hb⟩ <;> rw [hb] <;> cases ob <;>
      simp only [cbsOf, EachFrom, P6, List.append_assoc, List.cons_append, List.nil_append,
        and_true, true_and] <;>
      first | exact lc1' .. | exact lc2' .. | exact lc3' ..

/-! ## The property theorems -/

/-- **no_step_after_done.** A call of `env.step` that ended the episode (`terminated` or
`truncated`) is followed, before anything else happens, by `env.reset()` — so the wrapped
environment is never stepped again without a reset in between. -/
theorem no_step_after_done (sc : Script) (n : Nat) (s : St) (h : run sc n = .ok s)
    (pre post : List Ev) (k : Nat) (a : Act) (t u : Bool)
    (hsplit : s.log = pre ++ .envStep k a t u :: post) (hdone : (t || u) = true) :
    ∃ j rest, post = .envReset j :: rest := by
  have := (eachFrom_iff P1 [] s.log).1 (each_P1 sc n s h) pre _ post hsplit
  exact this hdone

/-- **action_provenance.** The action passed to any `env.step` is the return value of the
agent's latest `on_reset` / `on_step` callback, handed over through the `GymAction` that
`GymAgent.step` returned immediately before. -/
theorem action_provenance (sc : Script) (n : Nat) (s : St) (h : run sc n = .ok s)
    (pre post : List Ev) (k : Nat) (a : Act) (t u : Bool)
    (hsplit : s.log = pre ++ .envStep k a t u :: post) :
    lastCallback pre = some a ∧ ∃ pre' req, pre = pre' ++ [.ret a req] := by
  have := (eachFrom_iff P3 [] s.log).1 (each_P3 sc n s h) pre _ post hsplit
  exact this

/-- **request_honoured.** A reset request standing when `GymAgent.step` returns is followed by
exactly one more `env.step` (with the action just returned) and then `env.reset()`. -/
theorem request_honoured (sc : Script) (n : Nat) (s : St) (h : run sc n = .ok s)
    (pre post : List Ev) (a : Act) (hsplit : s.log = pre ++ .ret a true :: post) :
    ∃ k t u j rest, post = .envStep k a t u :: .envReset j :: rest := by
  have := (eachFrom_iff P5 [] s.log).1 (each_P5 sc n s h) pre _ post hsplit
  exact this

/-- **request_origin.** The `need_reset` carried by the `GymAction` is exactly what the latest
callback asked for (requests of earlier callbacks never leak into a later action: `_on_reset`
clears the flag, and a plain step observation only arises when no request was standing). -/
theorem request_origin (sc : Script) (n : Nat) (s : St) (h : run sc n = .ok s)
    (pre post : List Ev) (a : Act) (req : Bool) (hsplit : s.log = pre ++ .ret a req :: post) :
    req = sc.wants a ∧ lastCallback pre = some a := by
  have := (eachFrom_iff (P6 sc) [] s.log).1 (each_P6 sc n s h) pre _ post hsplit
  exact this

/-- **reset_placement.** Every `env.reset()` is either the one of `setup` (first event of the
log) or comes immediately after an `env.step` that ended the episode or carried a request. -/
theorem reset_placement (sc : Script) (n : Nat) (s : St) (h : run sc n = .ok s)
    (pre post : List Ev) (j : Nat) (hsplit : s.log = pre ++ .envReset j :: post) :
    pre = [] ∨ ∃ pre' a req k t u,
      pre = pre' ++ [.ret a req, .envStep k a t u] ∧ (t || u || req) = true := by
  have := (eachFrom_iff P2 [] s.log).1 (each_P2 sc n s h) pre _ post hsplit
  exact this

/-- The first event of every run is the `env.reset()` of `setup`. -/
theorem setup_reset (sc : Script) (n : Nat) (s : St) (h : run sc n = .ok s) :
    ∃ rest, s.log = .envReset 0 :: rest := by
  revert s
  refine run_induction sc (fun _ s => ∃ rest, s.log = .envReset 0 :: rest) ⟨[], rfl⟩ ?_ n
  rintro n s ob _ _ _ ⟨rest, hr⟩
  exact ⟨rest ++ block sc s ob, by simp [next, hr]⟩

/-- The k-th `env.step` of a run returns the k-th pair of flags of the environment script, and
one `GymAction` is returned per `env.step`. -/
theorem steps_follow_script (sc : Script) (n : Nat) (s : St) (h : run sc n = .ok s) :
    stepFlags s.log = (List.range n).map sc.flags ∧ (requests s.log).length = n := by
  revert s
  refine run_induction sc
    (fun n s => stepFlags s.log = (List.range n).map sc.flags ∧ (requests s.log).length = n)
    (by simp [setup, envReset, stepFlags, requests]) ?_ n
  rintro n s ob _ g _ ⟨h1, h2⟩
  have hn := g.nStep
  rcases block_cases sc s ob with ⟨_, hb⟩ | ⟨_, hb⟩ <;>
    cases ob <;>
    simp [next, hb, cbsOf, stepFlags, requests, List.filterMap_append, List.range_succ] at h1 h2 ⊢ <;>
    simp [h1, h2, hn]

/-- **reset_count.** The number of `env.reset()` calls is 1 (setup) plus the number of steps that
ended the episode or whose action carried a reset request — a step that did both counts once. -/
theorem reset_count (sc : Script) (n : Nat) (s : St) (h : run sc n = .ok s) :
    (resets s.log).length =
      1 + ((requests s.log).zip (stepFlags s.log)).countP (fun p => p.2.1 || p.2.2 || p.1) := by
  have key : ∀ n s, run sc n = .ok s →
      (requests s.log).length = (stepFlags s.log).length ∧
      (resets s.log).length =
        1 + ((requests s.log).zip (stepFlags s.log)).countP (fun p => p.2.1 || p.2.2 || p.1) := by
    refine run_induction sc _ (by simp [setup, envReset, stepFlags, requests, resets]) ?_
    rintro n s ob _ g _ ⟨h1, h2⟩
    have e1 : ∀ l1 l2, requests (l1 ++ l2) = requests l1 ++ requests l2 := by simp [requests]
    have e2 : ∀ l1 l2, stepFlags (l1 ++ l2) = stepFlags l1 ++ stepFlags l2 := by simp [stepFlags]
    have e3 : ∀ l1 l2, resets (l1 ++ l2) = resets l1 ++ resets l2 := by simp [resets]
    simp only [next, e1, e2, e3, requests_block, stepFlags_block, resets_block,
      List.zip_append h1, List.countP_append, List.length_append, h1, h2]
    refine ⟨by simp, ?_⟩
    cases hw : sc.wants (cbsOf s ob).2 <;> cases h1' : (sc.flags s.nStep).1 <;>
      cases h2' : (sc.flags s.nStep).2 <;> simp [List.countP_cons, hw, h1', h2'] <;> omega
  exact (key n s h).2

/-! ## Delivery -/

/-- Everything the environment has produced has been handed to the agent, in the same order,
except what `GymEnvironment._obs` currently holds for the next `agent.step`. -/
theorem delivery_pending (sc : Script) (n : Nat) (s : St) (h : run sc n = .ok s) :
    outputs s.log = delivered s.log ++ pending s.obs := by
  obtain ⟨s', h', g⟩ := run_good sc n
  rw [h] at h'; cases h'; exact g.deliv

/-- **delivery.** By the time the next `agent.step` has run, every reset and step result the
environment had produced so far has been delivered to the callbacks — the same sequence, so each
exactly once and in order; in particular the final step of an episode (`Out.step k …`) comes
before the first observation of the next (`Out.reset j`), which is the order `env` produced them. -/
theorem delivery (sc : Script) (n : Nat) (s s' : St) (h : run sc n = .ok s)
    (h' : run sc (n + 1) = .ok s') : delivered s'.log = outputs s.log := by
  obtain ⟨s0, h0, g⟩ := run_good sc n
  rw [h] at h0; cases h0
  obtain ⟨ob, hob, h1, _⟩ := interStep_good sc g
  have : run sc (n + 1) = .ok (next sc s ob) := by
    simp only [run] at h ⊢; rw [stepsFrom_succ, h]; exact h1
  rw [this] at h'; cases h'
  simp [next, delivered_append, delivered_block, g.deliv, hob]

/-- No result is produced twice (results are labelled by the call that produced them), hence by
`delivery_pending` none is delivered twice. -/
theorem delivery_once (sc : Script) (n : Nat) (s : St) (h : run sc n = .ok s) :
    (outputs s.log).Nodup ∧ (delivered s.log).Nodup := by
  obtain ⟨s', h', g⟩ := run_good sc n
  rw [h] at h'; cases h'
  refine ⟨g.nodup, ?_⟩
  have := g.nodup
  rw [g.deliv, List.nodup_append] at this
  exact this.1

/-- Causality: at every point of the log, what has been delivered so far (including the delivery
happening at that point) is a prefix of what the environment had produced before that point. -/
theorem delivery_causal (sc : Script) (n : Nat) (s : St) (h : run sc n = .ok s)
    (pre post : List Ev) (e : Ev) (hsplit : s.log = pre ++ e :: post) :
    delivered (pre ++ [e]) <+: outputs pre := by
  let P : List Ev → Ev → List Ev → Prop := fun pre e _ => delivered (pre ++ [e]) <+: outputs pre
  have key : ∀ n s, run sc n = .ok s → EachFrom P [] s.log := by
    refine each_of_block sc P (fun _ _ _ _ h => h) (by simp [P, delivered, outputs]) ?_
    intro n s ob g hob
    have hd := g.deliv
    rw [hob] at hd
    rcases block_cases sc s ob with ⟨hc, hb⟩ | ⟨hc, hb⟩ <;> rw [hb] <;> cases ob <;>
      simp only [cbsOf, EachFrom, P, List.append_assoc, List.cons_append, List.nil_append,
        and_true, delivered_append, outputs_append, hd, List.prefix_append_right_inj] <;>
      simp [delivered, outputs, pending]
  exact (eachFrom_iff P [] s.log).1 (key n s h) pre e post hsplit

/-! ## Non-vacuity: a concrete run in which every hypothesis above is met non-trivially:
step 1 terminates the episode; inside the `on_reset` that follows (callback `ofReset 1`) the agent
requests a reset, and the step that carries that request (step 2) is also truncated — one reset,
not two; `on_step` number 2 (the final-step callback of that episode) sets the flag as well, which
`_on_reset` clears right after, so no further reset results. 3 resets = 1 + 2 steps. -/

private def demo : Script :=
  { flags := fun k => (k == 1, k == 2)
    reqReset := fun o => o == 1
    reqStep := fun o => o == 2 }

example : ∃ s, run demo 5 = .ok s ∧
    s.log =
      [.envReset 0, .onReset 0 0, .ret (.ofReset 0) false, .envStep 0 (.ofReset 0) false false,
       .onStep 0 0 false false, .ret (.ofStep 0) false, .envStep 1 (.ofStep 0) true false,
       .envReset 1,
       .onStep 1 1 true false, .onReset 1 1, .ret (.ofReset 1) true,
       .envStep 2 (.ofReset 1) false true, .envReset 2,
       .onStep 2 2 false true, .onReset 2 2, .ret (.ofReset 2) false,
       .envStep 3 (.ofReset 2) false false,
       .onStep 3 3 false false, .ret (.ofStep 3) false, .envStep 4 (.ofStep 3) false false] ∧
    (resets s.log).length = 3 := ⟨_, rfl, by decide, by decide⟩

end Pamiq.Gym
