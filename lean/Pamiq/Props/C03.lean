/-
C03 — a failure in any thread stops the whole system instead of hanging it.
In `Proto` a fault is the action `bCbRaise t k` (enabled at the end of *every* user callback of every
kind, at every occurrence) or `cExc` (an exception / interrupt in the control loop, at any point).
-/
import Pamiq.Props.C02
namespace Pamiq.Proto

/-- A raising callback (setup, step, training, pause or resume hook) sends its thread to the
exception path; a raising resume hook first gives the resume lock back. -/
theorem raise_goes_to_exception_path (s s' : St) (t : Nat) (th : BThread) (k : CbKind)
    (hget : s.thr[t]? = some th) (hs : bstep s t th (.bCbRaise t k) = some s') (hfin : th.pc ≠ .fin) :
    ∃ th', s'.thr[t]? = some th' ∧ th'.raised = true ∧ th'.inCb = none ∧
      (th'.pc = .exc ∨ (th'.pc = .excHeld ∧ th.pc = .hooksR)) := by
  have hlen : t < s.thr.length := by
    rcases Nat.lt_or_ge t s.thr.length with h | h
    · exact h
    · simp [List.getElem?_eq_none_iff.mpr h] at hget
  simp only [bstep] at hs
  split at hs
  · cases hs
    refine ⟨_, by simp only [St.setThr]; exact List.getElem?_set_self hlen, ?_⟩
    by_cases hr : th.pc = .hooksR <;> simp [hfin, hr]
  · contradiction

/-- On the exception path the only thing the thread can do is raise its exception flag, and only
then does teardown (`on_finally`) begin. -/
theorem exc_only_sets_flag (s s' : St) (t : Nat) (th : BThread) (a : Act)
    (hpc : th.pc = .exc) (hin : th.inCb = none) (hs : bstep s t th a = some s') :
    a = .bSetExc t ∨ ∃ t', a = .bSetExc t' := by
  cases a <;> simp [bstep, hpc, cbAllowed, hin] at hs
  case bSetExc t' => exact Or.inr ⟨t', rfl⟩
  all_goals
    (first
      | contradiction
      | (obtain ⟨h1, _⟩ := hs; simp_all))

/-- In reachable states a callback is in flight only at a callback program counter (so not on the
exception path, not after exit). -/
theorem reachable_cb_pc {n mx : Nat} {s : St} (hr : Reachable n mx s) :
    ∀ th ∈ s.thr, th.inCb.isSome = true → cbPc th.pc = true := by
  intro th hth
  have hT := (reachable_inv hr).2 th hth
  unfold TInv at hT
  exact hT.2.1

/-- **Fault ⇒ flag before teardown**: in every reachable state, a thread whose callback raised and
that has got past the exception path (in particular: is in or past teardown) has its exception
flag set. -/
theorem fault_sets_flag {n mx : Nat} {s : St} (hr : Reachable n mx s) :
    ∀ th ∈ s.thr, th.raised = true → th.pc = .exc ∨ th.pc = .excHeld ∨ th.excFlag = true := by
  intro th hth
  have hT := (reachable_inv hr).2 th hth
  unfold TInv at hT
  exact hT.2.2.2.2.2.2.2.2.2.2.1

/-- The exception flag is never cleared. -/
theorem exc_flag_stable (s s' : St) (t : Nat) (th : BThread) (a : Act)
    (hget : s.thr[t]? = some th) (hf : th.excFlag = true) (hs : bstep s t th a = some s') :
    ∃ th', s'.thr[t]? = some th' ∧ th'.excFlag = true := by
  have hlen : t < s.thr.length := by
    rcases Nat.lt_or_ge t s.thr.length with h | h
    · exact h
    · simp [List.getElem?_eq_none_iff.mpr h] at hget
  cases a <;> simp only [bstep] at hs <;> try contradiction
  all_goals
    (repeat' split at hs
     all_goals first
       | contradiction
       | (cases hs
          exact ⟨_, by simp only [St.setThr]; exact List.getElem?_set_self hlen, by simp [hf]⟩))

/-- **The control loop reacts in the same tick**: once it has read a raised exception flag
(`mustStop`), it can neither start a pause, a save nor a resume — the only API-level call left at
`idle` is `shutdown()`. -/
theorem ctl_sees_fault (s s' : St) (t : Nat) (hs : cstep s (.cReadExc t true) = some s') :
    s'.ctl.mustStop = true ∧ s'.ctl.pc = .idle ∧
      cstep s' .cTryPause = none ∧ cstep s' .cSave = none ∧ cstep s' .cResume = none := by
  simp only [cstep] at hs
  split at hs
  · split at hs
    · rename_i hg
      cases hs
      simp [cstep, hg.1]
    · contradiction
  · contradiction

/-- … and `shutdown()` is enabled there. -/
theorem ctl_can_shutdown (s : St) (h : s.ctl.pc = .idle) (hm : s.ctl.mustStop = true) :
    (cstep s .cShutdown).isSome = true := by
  simp [cstep, h, hm]

/-- The same holds after an exception or interrupt inside the control loop itself (failing save
callback, failing save condition, KeyboardInterrupt): whatever it was doing, the control thread is
back at `idle` with `mustStop` set, so `on_finally`'s shutdown is the only way on; `launch()` then
joins both threads (C02) and re-raises. -/
theorem ctl_fault_forces_shutdown (s s' : St) (hs : cstep s .cExc = some s') :
    s'.ctl.mustStop = true ∧ s'.ctl.pc = .idle ∧ cstep s' .cTryPause = none ∧
      cstep s' .cSave = none ∧ cstep s' .cResume = none ∧ (cstep s' .cShutdown).isSome = true := by
  simp only [cstep] at hs
  split at hs
  · cases hs
    simp [cstep]
  · contradiction

/-- Teardown callbacks only run in `on_finally`, and `on_finally` is entered at most once: from
`fin` a thread can only go on to `dying` or `done`, never back. -/
theorem teardown_phase_is_final (s s' : St) (t : Nat) (th : BThread) (a : Act)
    (hget : s.thr[t]? = some th) (hpc : th.pc = .fin ∨ th.pc = .dying ∨ th.pc = .done)
    (hcb : th.inCb.isSome = true → cbPc th.pc = true) (hs : bstep s t th a = some s') :
    ∃ th', s'.thr[t]? = some th' ∧ (th'.pc = .fin ∨ th'.pc = .dying ∨ th'.pc = .done) := by
  have hlen : t < s.thr.length := by
    rcases Nat.lt_or_ge t s.thr.length with h | h
    · exact h
    · simp [List.getElem?_eq_none_iff.mpr h] at hget
  cases a <;> simp only [bstep] at hs <;> try contradiction
  all_goals
    (repeat' split at hs
     all_goals first
       | contradiction
       | (cases hs
          refine ⟨_, by simp only [St.setThr]; exact List.getElem?_set_self hlen, ?_⟩
          simp only [cbPc] at hcb
          rcases hpc with h | h | h <;> simp_all))

/-- A teardown callback can begin only in `on_finally`. -/
theorem teardown_only_in_finally (s s' : St) (t : Nat) (th : BThread)
    (hs : bstep s t th (.bCbBegin t .teardown) = some s') : th.pc = .fin := by
  simp only [bstep] at hs
  split at hs
  · rename_i hg
    cases hpc : th.pc <;> simp_all [cbAllowed]
  · contradiction

/-! Non-vacuity: a step of thread 0 raises while thread 1 is running; the flag is set before teardown. -/
def faultTrace : List Act :=
  [.cSpawn 0, .cSpawn 1, .cRun, .bReadResume 0 true, .bWaitImm 0, .bReadShutdown 0 false,
   .bCbBegin 0 .step, .bCbRaise 0 .step, .bSetExc 0, .bCbBegin 0 .teardown, .cReadExc 0 true]

example : ∃ s, Reachable 2 3 s ∧ s.ctl.mustStop = true ∧
    (∃ th ∈ s.thr, th.raised = true ∧ th.excFlag = true ∧ th.inCb = some .teardown) := by
  refine ⟨(run (init 2 3) faultTrace).get (by decide), ⟨faultTrace, by simp⟩, ?_, ?_⟩ <;> decide

end Pamiq.Proto
