/-
C12 — composite components are transparent for events, state and data.
Property theorems only. Model: `Pamiq/Model/Tree.lean` (tied to `pamiq_core/interaction/*.py` and
the attachment lines of `launcher.py` by the correspondence check `harness/corr/c12.py`);
specification vocabulary: `Pamiq/Model/TreeSpec.lean`; helper lemmas: `Pamiq/Lemmas/Tree.lean`.
Every statement quantifies over *all* component trees (any depth, any fan-out).
-/
import Pamiq.Lemmas.Tree
import Mathlib.Data.List.Nodup

namespace Pamiq.Tree

/-! ## Events reach every component they apply to exactly once, in a fixed order -/

/-- What the code forwards (`dispatch`, one clause per composite class) is exactly the list of the
components the event applies to, in pre-order — for every tree and each of the eight events. -/
theorem dispatch_eq_leavesFor (e : Event) (i : Interaction) : i.dispatch e = leavesFor e i := by
  unfold Interaction.dispatch leavesFor Interaction.kinds
  cases h : e.lifecycle
  · simp [Agent.dispatch_eq, Env.kinds_nonlife e h]
  · simp [Agent.dispatch_eq, Env.dispatch_eq]

/-- **Exactly once.** When every component object occurs at one place of the tree (distinct ids),
an event issued at the root calls every component it applies to exactly once and calls nothing
else; the order is the fixed pre-order `leavesFor`. -/
theorem dispatch_once (e : Event) (i : Interaction) (hids : i.ids.Nodup) :
    i.dispatch e = leavesFor e i ∧
    (∀ l k, (l, k) ∈ i.kinds → applies e k = true → (i.dispatch e).count l = 1) ∧
    (∀ l ∈ i.dispatch e, ∃ k, (l, k) ∈ i.kinds ∧ applies e k = true) := by
  have heq := dispatch_eq_leavesFor e i
  have hsub : List.Sublist (leavesFor e i) i.ids := by
    unfold leavesFor Interaction.ids
    exact (List.filter_sublist).map _
  have hnd : (leavesFor e i).Nodup := hsub.nodup hids
  refine ⟨heq, ?_, ?_⟩
  · intro l k hmem happ
    rw [heq]
    have hin : l ∈ leavesFor e i := by
      unfold leavesFor
      exact List.mem_map.2 ⟨(l, k), List.mem_filter.2 ⟨hmem, by simpa using happ⟩, rfl⟩
    exact List.count_eq_one_of_mem hnd hin
  · intro l hl
    rw [heq] at hl
    unfold leavesFor at hl
    obtain ⟨⟨l', k⟩, hf, rfl⟩ := List.mem_map.1 hl
    obtain ⟨hmem, happ⟩ := List.mem_filter.1 hf
    exact ⟨k, hmem, by simpa using happ⟩

/-- The two attachments of `launch()` reach every agent (at any depth) and only agents. -/
theorem attach_reaches_agents (i : Interaction) (e : Event) (he : e.lifecycle = false) :
    i.dispatch e = (i.kinds.filter (fun x => x.2 = Kind.agent)).map Prod.fst := by
  rw [dispatch_eq_leavesFor]
  unfold leavesFor
  congr 1
  apply List.filter_congr
  intro x _
  cases hx : x.2 <;> simp [applies, he]

/-! ## State: same path for save and load, distinct paths, parents exist -/

mutual
theorem Agent.loadPaths_eq (p : Path) : (a : Agent) → a.loadPaths p = a.savePaths p
  | .mk id cs => by simp [Agent.loadPaths, Agent.savePaths, Agent.loadPathsL_eq p cs]
theorem Agent.loadPathsL_eq (p : Path) :
    (cs : List (String × Agent)) → Agent.loadPathsL p cs = Agent.savePathsL p cs
  | [] => by simp [Agent.loadPathsL, Agent.savePathsL]
  | (n, a) :: rest => by
    simp [Agent.loadPathsL, Agent.savePathsL, Agent.loadPaths_eq (p ++ [n]) a,
      Agent.loadPathsL_eq p rest]
end

theorem Wrap.loadPaths_eq (p : Path) (w : Wrap) : w.loadPaths p = w.savePaths p := by
  cases w <;> rfl

mutual
theorem Sensor.loadPaths_eq (p : Path) : (s : Sensor) → s.loadPaths p = s.savePaths p
  | .leaf id => by simp [Sensor.loadPaths, Sensor.savePaths]
  | .dict cs => by simp [Sensor.loadPaths, Sensor.savePaths, Sensor.loadPathsL_eq p cs]
  | .wrap s w => by
    simp [Sensor.loadPaths, Sensor.savePaths, Sensor.loadPaths_eq (p ++ ["sensor"]) s,
      Wrap.loadPaths_eq]
theorem Sensor.loadPathsL_eq (p : Path) :
    (cs : List (String × Sensor)) → Sensor.loadPathsL p cs = Sensor.savePathsL p cs
  | [] => by simp [Sensor.loadPathsL, Sensor.savePathsL]
  | (n, s) :: rest => by
    simp [Sensor.loadPathsL, Sensor.savePathsL, Sensor.loadPaths_eq (p ++ [n]) s,
      Sensor.loadPathsL_eq p rest]
end

mutual
theorem Actuator.loadPaths_eq (p : Path) : (s : Actuator) → s.loadPaths p = s.savePaths p
  | .leaf id => by simp [Actuator.loadPaths, Actuator.savePaths]
  | .dict cs => by simp [Actuator.loadPaths, Actuator.savePaths, Actuator.loadPathsL_eq p cs]
  | .wrap s w => by
    simp [Actuator.loadPaths, Actuator.savePaths, Actuator.loadPaths_eq (p ++ ["actuator"]) s,
      Wrap.loadPaths_eq]
theorem Actuator.loadPathsL_eq (p : Path) :
    (cs : List (String × Actuator)) → Actuator.loadPathsL p cs = Actuator.savePathsL p cs
  | [] => by simp [Actuator.loadPathsL, Actuator.savePathsL]
  | (n, s) :: rest => by
    simp [Actuator.loadPathsL, Actuator.savePathsL, Actuator.loadPaths_eq (p ++ [n]) s,
      Actuator.loadPathsL_eq p rest]
end

theorem Env.loadPaths_eq (p : Path) (e : Env) : e.loadPaths p = e.savePaths p := by
  induction e generalizing p with
  | leaf id => rfl
  | modular s a => simp [Env.loadPaths, Env.savePaths, Sensor.loadPaths_eq, Actuator.loadPaths_eq]
  | wrap e o a ih => simp [Env.loadPaths, Env.savePaths, ih, Wrap.loadPaths_eq]

/-- **Same path.** `load_state` hands every component the path `save_state` handed it (same
components, same order, same paths) — for every tree and every root path. -/
theorem load_paths_eq_save_paths (p : Path) (i : Interaction) : i.loadPaths p = i.savePaths p := by
  simp [Interaction.loadPaths, Interaction.savePaths, Agent.loadPaths_eq, Env.loadPaths_eq]

/-- **Distinct paths.** With distinct child names inside each composite (guaranteed by Python
dictionaries) no two components are saved under the same path. -/
theorem paths_injective (p : Path) (i : Interaction) (h : i.namesOk = true) :
    ((i.savePaths p).map Prod.snd).Nodup := by
  rw [Interaction.savePaths_toNode]
  exact Node.savePaths_nodup p i.toNode (by rw [Interaction.namesOk_toNode]; exact h)

/-- Consequence in the usual "injective" form: two different components never share a path. -/
theorem paths_injective' (p : Path) (i : Interaction) (h : i.namesOk = true)
    (a b : LeafId × Path) (ha : a ∈ i.savePaths p) (hb : b ∈ i.savePaths p) (hne : a ≠ b) :
    a.2 ≠ b.2 := by
  have hnd := paths_injective p i h
  intro heq
  have hinj := List.inj_on_of_nodup_map hnd ha hb heq
  exact hne hinj

/-- **Parents exist.** In the sequence of file-system operations of one `save_state(p)`, every
operation (a composite's `mkdir`, or a component being handed its path) has its parent directory
created by an earlier `mkdir` of the same sequence — or the parent is the directory the root is
saved into (`p`'s own parent, created by `StateStore`). Holds for every tree, without hypotheses. -/
theorem parents_exist (p : Path) (i : Interaction) (pre : List FsOp) (op : FsOp) (post : List FsOp)
    (h : i.fsOps p = pre ++ op :: post) :
    op.path.dropLast = p.dropLast ∨ ∃ ok, FsOp.mkdir op.path.dropLast ok ∈ pre := by
  have hok : ParentsOk [p.dropLast] (i.fsOps p) := by
    rw [Interaction.fsOps_toNode]
    exact Node.fsOps_parentsOk p [p.dropLast] i.toNode (by simp)
  rw [h] at hok
  rcases ParentsOk.split pre op post hok with h' | h'
  · exact Or.inl (by simpa using h')
  · exact Or.inr h'

/-- **Saving never fails** for lack of a parent directory (nor because a path is already taken):
executed on a file system in which only the directory the root is saved into exists, the whole
sequence of operations succeeds. -/
theorem save_never_fails (p : Path) (i : Interaction) (hp : p ≠ []) (h : i.namesOk = true) :
    ∃ fs, runFs (i.fsOps p) [p.dropLast] = .ok fs := by
  have hfresh : Fresh p [p.dropLast] := by
    intro q hq hpre
    simp at hq
    subst hq
    have h1 := hpre.length_le
    have h2 : 0 < p.length := List.length_pos_iff.2 hp
    simp at h1
    omega
  obtain ⟨fs, hrun, _, _⟩ := Node.runFs_ok p i.toNode [p.dropLast]
    (by rw [Interaction.namesOk_toNode]; exact h) (by simp) hfresh
  exact ⟨fs, by rw [Interaction.fsOps_toNode]; exact hrun⟩

/-- The hypothesis on names is needed: two children with one name collide (cannot be built from a
Python dict, shown here for the model). -/
theorem same_name_collides :
    ∃ i : Interaction, i.namesOk = false ∧ ¬ ((i.savePaths ["interaction"]).map Prod.snd).Nodup := by
  refine ⟨⟨.mk 1 [("x", .mk 2 []), ("x", .mk 3 [])], .leaf 4⟩, by decide, by decide⟩

/-! ## Data: observations and actions pass through exactly the wrappers on their path -/

/-- **Observation.** The observation handed to the agent decomposes into exactly one reading per
leaf sensor (or leaf environment), found under the dictionary keys on its path, carrying exactly the
wrappers on its path, once each, innermost first. -/
theorem data_path_observe (e : Env) : e.observe.atoms [] = e.sources [] := by
  simpa [Val.tags] using Env.observe_atoms [] e

/-- **Action.** When the delivery of action `v` completes, every leaf actuator (or leaf
environment) has received, in the fixed order, exactly the sub-value of `v` under the keys on its
path, transformed by exactly the wrappers on its path, once each, outermost first. -/
theorem data_path_affect (e : Env) (v : Val) (log : List (LeafId × Val))
    (h : e.affect v = (log, none)) : deliverSpec v (e.sinks []) = some log := by
  apply Env.affect_spec v e [] log
  simpa [Val.tags] using h

/-- The same for a whole `Interaction.step`. -/
theorem data_path_step (i : Interaction) (v : Val) (log : List (LeafId × Val))
    (h : (i.step v).2 = (log, none)) :
    (i.step v).1.atoms [] = i.environment.sources [] ∧
    deliverSpec v (i.environment.sinks []) = some log :=
  ⟨data_path_observe i.environment, data_path_affect i.environment v log h⟩

/-- **Dictionary routing, reading.** `SensorsDict.read` gathers child `k`'s reading under `k`. -/
theorem dict_routes_read (cs : List (String × Sensor)) :
    (Sensor.dict cs).read = .dict (cs.map (fun kc => (kc.1, kc.2.read))) ∧
    ∀ k, (Sensor.dict cs).read.getItem k =
      (match cs.lookup k with
        | some s => .ok s.read
        | none => .error .keyError) := by
  refine ⟨by simp [Sensor.read, Sensor.readL_eq_map], ?_⟩
  intro k
  simp only [Sensor.read, Sensor.readL_eq_map, Val.getItem, lookup_map_snd]
  cases cs.lookup k <;> simp

/-- **Dictionary routing, operating.** When `ActuatorsDict.operate(action)` completes, every child
`k` was operated with exactly `action[k]`, children in insertion order; a missing key stops the
delivery with `KeyError`, a non-mapping with `TypeError`. -/
theorem dict_routes_operate (cs : List (String × Actuator)) (kvs : List (String × Val))
    (log : List (LeafId × Val)) (h : (Actuator.dict cs).operate (.dict kvs) = (log, none)) :
    (∀ kc ∈ cs, ∃ v, kvs.lookup kc.1 = some v ∧ (kc.2.operate v).2 = none) ∧
    log = cs.flatMap (fun kc => match kvs.lookup kc.1 with
      | some v => (kc.2.operate v).1
      | none => []) := by
  simp only [Actuator.operate] at h
  induction cs generalizing log with
  | nil =>
    simp [Actuator.operateL] at h
    simp [h]
  | cons kc rest ih =>
    obtain ⟨k, a⟩ := kc
    simp only [Actuator.operateL, Val.getItem] at h
    cases hk : kvs.lookup k with
    | none => simp [hk] at h
    | some vk =>
      simp only [hk] at h
      cases ha : a.operate vk with
      | mk l1 r1 =>
        cases r1 with
        | some e => simp [ha] at h
        | none =>
          simp only [ha] at h
          cases hr : Actuator.operateL (.dict kvs) rest with
          | mk l2 r2 =>
            simp only [hr, Prod.mk.injEq] at h
            obtain ⟨hlog, hr2⟩ := h
            subst hlog; subst hr2
            obtain ⟨ih1, ih2⟩ := ih l2 hr
            refine ⟨?_, ?_⟩
            · intro kc hkc
              simp at hkc
              rcases hkc with rfl | hkc
              · exact ⟨vk, hk, by simp [ha]⟩
              · exact ih1 kc hkc
            · simp [List.flatMap_cons, hk, ha, ← ih2]

theorem dict_missing_key (k : String) (a : Actuator) (rest : List (String × Actuator))
    (kvs : List (String × Val)) (h : kvs.lookup k = none) :
    (Actuator.dict ((k, a) :: rest)).operate (.dict kvs) = ([], some .keyError) := by
  simp [Actuator.operate, Actuator.operateL, Val.getItem, h]

theorem dict_not_a_mapping (k : String) (a : Actuator) (rest : List (String × Actuator))
    (s : Nat) (t : List Nat) :
    (Actuator.dict ((k, a) :: rest)).operate (.atom s t) = ([], some .typeError) := by
  simp [Actuator.operate, Actuator.operateL, Val.getItem]

/-! ## Non-vacuity: a concrete deep tree satisfies the hypotheses, and the functions above produce
the expected non-trivial results on it. -/

/-- A wrapper around a modular environment whose sensor is a dictionary with a wrapped sensor and
whose actuator is a wrapped dictionary; agents three levels deep. -/
def demo : Interaction :=
  ⟨.mk 1 [("x", .mk 2 []), ("y", .mk 3 [("z", .mk 4 [])])],
   .wrap (.modular (.dict [("a", .leaf 5), ("b", .wrap (.leaf 6) (.user 7))])
                   (.wrap (.dict [("m", .leaf 8), ("n", .leaf 9)]) (.fn 10)))
         (.user 11) (.user 12)⟩

example : demo.ids.Nodup ∧ demo.namesOk = true := by decide

example : demo.dispatch .setup = [1, 2, 3, 4, 5, 6, 7, 8, 9, 11, 12] := by decide
example : demo.dispatch .attachModels = [1, 2, 3, 4] := by decide

example : (demo.savePaths ["interaction"]).length = 11 ∧
    (7, ["interaction", "environment", "env", "sensor", "b", "wrapper"]) ∈ demo.savePaths ["interaction"] := by
  decide

example : ∃ fs, runFs (demo.fsOps ["interaction"]) [[]] = .ok fs ∧ fs.length = 19 := by
  refine ⟨_, rfl, by decide⟩

example : demo.environment.sources [] = [⟨5, ["a"], [11]⟩, ⟨6, ["b"], [7, 11]⟩] := by decide

example :
    (demo.step (.dict [("m", .atom 100 []), ("n", .atom 101 [])])).2 =
      ([(8, .atom 100 [12, 10]), (9, .atom 101 [12, 10])], none) := by
  simp [demo, Interaction.step, Env.affect, Actuator.operate, Actuator.operateL, Wrap.apply, Wrap.id,
    Val.tag, Val.tagL, Val.getItem, List.lookup]

end Pamiq.Tree
