/-
Helper lemmas for C05 / C10 (not property statements): the frame property of file-system
operations, where the operations of a layout live, and the generic save → load round trip of a
layout (`Comp.roundtrip`).
-/
import Pamiq.Model.Persist
import Pamiq.Lemmas.Tree
import Pamiq.Lemmas.Buffer

namespace Pamiq.Persist
open Pamiq
open Pamiq.Tree (distinct namesOf distinct_cons prefix_snoc_inj not_snoc_prefix_self
  prefix_of_snoc_prefix)

/-! ### One operation, a sequence of operations -/

theorem FS.set_same (fs : FS) (p : Path) (n : Node) : (fs.set p n) p = some n := by simp [FS.set]

theorem FS.set_other (fs : FS) {p q : Path} (n : Node) (h : q ≠ p) : (fs.set p n) q = fs q := by
  simp [FS.set, h]

theorem applyOp_frame {op : FsOp} {fs fs' : FS} (h : applyOp op fs = .ok fs') {q : Path}
    (hq : op.path ≠ q) : fs' q = fs q := by
  have hq' : q ≠ op.path := fun e => hq e.symm
  cases op with
  | mkdir p ok =>
    simp only [applyOp, parentCheck] at h
    simp only [FsOp.path] at hq'
    split at h
    · split at h
      · cases h; rfl
      · cases h
    · cases h
    · split at h
      · cases h; exact FS.set_other _ _ hq'
      · cases h
  | create p =>
    simp only [applyOp, parentCheck] at h
    simp only [FsOp.path] at hq'
    split at h
    · cases h
    · cases h; exact FS.set_other _ _ hq'
    · split at h
      · cases h; exact FS.set_other _ _ hq'
      · cases h
  | writeAll p c =>
    simp only [applyOp] at h
    simp only [FsOp.path] at hq'
    split at h
    · cases h; exact FS.set_other _ _ hq'
    · cases h

theorem run_frame (ops : List FsOp) (fs : FS) (q : Path) (h : ∀ op ∈ ops, op.path ≠ q) :
    (run ops fs).1 q = fs q := by
  induction ops generalizing fs with
  | nil => rfl
  | cons op rest ih =>
    simp only [run]
    cases hop : applyOp op fs with
    | error e => rfl
    | ok fs' =>
      simp only
      rw [ih fs' (fun o ho => h o (by simp [ho]))]
      exact applyOp_frame hop (h op (by simp))

theorem tornOp_frame (len : Nat) (op : FsOp) (fs : FS) (q : Path) (h : op.path ≠ q) :
    tornOp len op fs q = fs q := by
  have hq' : q ≠ op.path := fun e => h e.symm
  cases op with
  | mkdir p ok => rfl
  | create p => rfl
  | writeAll p c =>
    simp only [FsOp.path] at hq'
    simp only [tornOp]
    cases hfp : fs p with
    | none => rfl
    | some nd =>
      cases nd with
      | dir => rfl
      | file d => exact FS.set_other _ _ hq'

theorem run_append (a b : List FsOp) (fs : FS) :
    run (a ++ b) fs = (match run a fs with
      | (fs1, none) => run b fs1
      | (fs1, some e) => (fs1, some e)) := by
  induction a generalizing fs with
  | nil => simp [run]
  | cons op rest ih =>
    simp only [List.cons_append, run]
    cases applyOp op fs with
    | error e => rfl
    | ok fs' => exact ih fs'

theorem applyOps_append {a b : List FsOp} {fs fs1 fs2 : FS} (ha : applyOps a fs = .ok fs1)
    (hb : applyOps b fs1 = .ok fs2) : applyOps (a ++ b) fs = .ok fs2 := by
  simp only [applyOps] at ha hb ⊢
  rw [run_append]
  cases hra : run a fs with
  | mk x e =>
    rw [hra] at ha
    cases e with
    | some e => cases ha
    | none =>
      cases ha
      simpa using hb

theorem applyOps_frame {ops : List FsOp} {fs fs' : FS} (h : applyOps ops fs = .ok fs') (q : Path)
    (hq : ∀ op ∈ ops, op.path ≠ q) : fs' q = fs q := by
  have := run_frame ops fs q hq
  simp only [applyOps] at h
  cases hr : run ops fs with
  | mk x e =>
    rw [hr] at h this
    cases e with
    | some e => cases h
    | none => cases h; exact this

theorem applyOps_cons {op : FsOp} {rest : List FsOp} {fs fs1 fs2 : FS} (h1 : applyOp op fs = .ok fs1)
    (h2 : applyOps rest fs1 = .ok fs2) : applyOps (op :: rest) fs = .ok fs2 := by
  simp only [applyOps, run, h1] at h2 ⊢
  exact h2

theorem applyOps_nil (fs : FS) : applyOps [] fs = .ok fs := rfl

/-! ### Where the operations of a layout live -/

theorem prefix_snoc (p : Path) (n : String) : p <+: p ++ [n] := List.prefix_append p [n]

mutual
theorem Comp.ops_under (p : Path) : (c : Comp) → ∀ op ∈ c.ops p, p <+: op.path
  | .leaf c, op, h => by
    simp only [Comp.ops, List.mem_cons, List.mem_nil_iff, or_false] at h
    rcases h with rfl | rfl <;> exact List.prefix_refl _
  | .silent, op, h => by simp [Comp.ops] at h
  | .dir none cs, op, h => by
    simp only [Comp.ops, List.mem_cons] at h
    rcases h with rfl | h
    · exact List.prefix_refl _
    · obtain ⟨n, _, hn⟩ := Comp.opsL_under p cs op h
      exact prefix_of_snoc_prefix hn
  | .dir (some c) cs, op, h => by
    simp only [Comp.ops, List.cons_append, List.nil_append, List.mem_cons] at h
    rcases h with rfl | rfl | rfl | h
    · exact List.prefix_refl _
    · exact prefix_snoc p selfName
    · exact prefix_snoc p selfName
    · cases cs with
      | nil => simp at h
      | cons x xs =>
        simp only [List.mem_cons] at h
        rcases h with rfl | h
        · exact List.prefix_refl _
        · obtain ⟨n, _, hn⟩ := Comp.opsL_under p (x :: xs) op h
          exact prefix_of_snoc_prefix hn
theorem Comp.opsL_under (p : Path) : (cs : List (String × Comp)) → ∀ op ∈ Comp.opsL p cs,
    ∃ n ∈ namesOf cs, p ++ [n] <+: op.path
  | [], op, h => by simp [Comp.opsL] at h
  | (n, c) :: rest, op, h => by
    simp only [Comp.opsL, List.mem_append] at h
    rcases h with h | h
    · exact ⟨n, by simp [namesOf], Comp.ops_under (p ++ [n]) c op h⟩
    · obtain ⟨m, hm, hpre⟩ := Comp.opsL_under p rest op h
      exact ⟨m, by simp [namesOf] at hm ⊢; exact Or.inr hm, hpre⟩
end

/-! ### `load` looks only below its path -/

theorem readFile_congr {fs fs' : FS} {p : Path} (h : fs p = fs' p) : readFile fs p = readFile fs' p := by
  simp [readFile, h]

theorem readLeaf_congr (rd : Rd) {fs fs' : FS} {p : Path} (h : fs p = fs' p) (c : Content) :
    readLeaf rd fs p c = readLeaf rd fs' p c := by
  cases c <;> simp [readLeaf, readUser, readPickle, readText, readFile_congr h]

mutual
theorem Comp.load_congr (rd : Rd) (p : Path) (fs fs' : FS) :
    (c : Comp) → (∀ q, p <+: q → fs q = fs' q) → c.load rd p fs = c.load rd p fs'
  | .leaf c, h => by
    simp only [Comp.load, readLeaf_congr rd (h p (List.prefix_refl _)) c]
  | .silent, _ => rfl
  | .dir none cs, h => by
    simp only [Comp.load, Comp.loadL_congr rd p fs fs' cs h]
  | .dir (some c) cs, h => by
    simp only [Comp.load, Comp.loadL_congr rd p fs fs' cs h,
      readLeaf_congr rd (h (p ++ [selfName]) (prefix_snoc p selfName)) c]
theorem Comp.loadL_congr (rd : Rd) (p : Path) (fs fs' : FS) :
    (cs : List (String × Comp)) → (∀ q, p <+: q → fs q = fs' q) →
      Comp.loadL rd p fs cs = Comp.loadL rd p fs' cs
  | [], _ => rfl
  | (n, c) :: rest, h => by
    simp only [Comp.loadL]
    rw [Comp.load_congr rd (p ++ [n]) fs fs' c (fun q hq => h q (prefix_of_snoc_prefix hq)),
      Comp.loadL_congr rd p fs fs' rest h]
end

/-! ### Reading back what was written -/

theorem readLeaf_full (rd : Rd) (fs : FS) (p : Path) (c0 c : Content) (hk : c0.kind = c.kind)
    (h : fs p = some (.file (.full c))) : readLeaf rd fs p c0 = .ok c := by
  cases c0 <;> cases c <;> simp [Content.kind] at hk <;>
    simp [readLeaf, readUser, readPickle, readText, readFile, h, Content.kind]

theorem dropLast_snoc (p : Path) (n : String) : (p ++ [n]).dropLast = p := by simp

theorem Fresh.self {fs : FS} {p : Path} (h : Fresh fs p) : fs p = none := h p (List.prefix_refl _)

/-- Writing one file into an existing directory. -/
theorem write_file {fs : FS} {p : Path} (c : Content) (hpar : fs p.dropLast = some .dir)
    (hfree : fs p = none) :
    applyOps [.create p, .writeAll p c] fs = .ok ((fs.set p (.file .empty)).set p (.file (.full c))) := by
  simp [applyOps, run, applyOp, parentCheck, hpar, hfree, FS.set]

theorem mkdir_new {fs : FS} {p : Path} (ok : Bool) (hpar : fs p.dropLast = some .dir)
    (hfree : fs p = none) : applyOp (.mkdir p ok) fs = .ok (fs.set p .dir) := by
  simp [applyOp, parentCheck, hpar, hfree]

mutual
/-- **Round trip of a layout.** Saved into a fresh place below an existing directory, the
operations all succeed, and loading into any component of the same shape returns exactly what was
saved (whatever the reader parameters). -/
theorem Comp.roundtrip (rd : Rd) (p : Path) :
    (c c0 : Comp) → (fs : FS) → c.namesOk = true → c0.sameShape c = true →
      fs p.dropLast = some .dir → Fresh fs p →
      ∃ fs', applyOps (c.ops p) fs = .ok fs' ∧ c0.load rd p fs' = .ok c
  | .leaf c, c0, fs, _, hs, hpar, hfresh => by
    cases c0 with
    | leaf c0 =>
      simp only [Comp.sameShape, decide_eq_true_eq] at hs
      refine ⟨_, write_file c hpar hfresh.self, ?_⟩
      simp only [Comp.load]
      rw [readLeaf_full rd _ p c0 c hs (by simp [FS.set])]
    | silent => simp [Comp.sameShape] at hs
    | dir o cs => simp [Comp.sameShape] at hs
  | .silent, c0, fs, _, hs, _, _ => by
    cases c0 with
    | silent => exact ⟨fs, rfl, rfl⟩
    | leaf c0 => simp [Comp.sameShape] at hs
    | dir o cs => simp [Comp.sameShape] at hs
  | .dir none cs, c0, fs, hok, hs, hpar, hfresh => by
    cases c0 with
    | leaf c0 => simp [Comp.sameShape] at hs
    | silent => simp [Comp.sameShape] at hs
    | dir o0 cs0 =>
      cases o0 with
      | some x => simp [Comp.sameShape, optKindEq] at hs
      | none =>
        simp only [Comp.sameShape, optKindEq, Bool.true_and] at hs
        simp only [Comp.namesOk, Option.isNone_none, Bool.true_or, Bool.and_true,
          Bool.and_eq_true] at hok
        have h1 := mkdir_new false hpar hfresh.self
        have hchild : ∀ n ∈ namesOf cs, Fresh (fs.set p .dir) (p ++ [n]) := by
          intro n _ q hq
          have hne : q ≠ p := by
            rintro rfl; exact not_snoc_prefix_self _ _ hq
          rw [FS.set_other _ _ hne]
          exact hfresh q (prefix_of_snoc_prefix hq)
        obtain ⟨fs', hrun, hload⟩ := Comp.roundtripL rd p cs cs0 (fs.set p .dir) hok.1 hok.2 hs
          (FS.set_same _ _ _) hchild
        refine ⟨fs', ?_, ?_⟩
        · simp only [Comp.ops]
          exact applyOps_cons h1 hrun
        · simp only [Comp.load, hload]
  | .dir (some c) cs, c0, fs, hok, hs, hpar, hfresh => by
    cases c0 with
    | leaf c0 => simp [Comp.sameShape] at hs
    | silent => simp [Comp.sameShape] at hs
    | dir o0 cs0 =>
      cases o0 with
      | none => simp [Comp.sameShape, optKindEq] at hs
      | some c0 =>
        simp only [Comp.sameShape, optKindEq, Bool.and_eq_true, decide_eq_true_eq] at hs
        simp only [Comp.namesOk, Option.isNone_some, Bool.false_or, Bool.and_eq_true,
          Bool.not_eq_true', List.contains_eq_mem, decide_eq_false_iff_not] at hok
        obtain ⟨⟨hdist, hself⟩, hkids⟩ := hok
        -- own state: mkdir p, create/write p/__self__
        let sp := p ++ [selfName]
        let fs1 := fs.set p .dir
        have h1 : applyOp (.mkdir p true) fs = .ok fs1 := mkdir_new true hpar hfresh.self
        have hsp_ne : sp ≠ p := by
          intro e
          have := congrArg List.length e
          simp [sp] at this
        have hfree : fs1 sp = none := by
          show (fs.set p .dir) sp = none
          rw [FS.set_other _ _ hsp_ne]
          exact hfresh sp (prefix_snoc p selfName)
        have hpar1 : fs1 sp.dropLast = some .dir := by
          show (fs.set p .dir) (p ++ [selfName]).dropLast = some .dir
          rw [dropLast_snoc]; exact FS.set_same _ _ _
        let fs2 := (fs1.set sp (.file .empty)).set sp (.file (.full c))
        have h2 : applyOps [.create sp, .writeAll sp c] fs1 = .ok fs2 := write_file c hpar1 hfree
        have hp2 : fs2 p = some .dir := by
          show ((fs1.set sp (.file .empty)).set sp (.file (.full c))) p = some .dir
          rw [FS.set_other _ _ (fun e => hsp_ne e.symm), FS.set_other _ _ (fun e => hsp_ne e.symm)]
          exact FS.set_same _ _ _
        have hown2 : fs2 sp = some (.file (.full c)) := FS.set_same _ _ _
        have hchild : ∀ n ∈ namesOf cs, Fresh fs2 (p ++ [n]) := by
          intro n hn q hq
          have hne : q ≠ p := by
            rintro rfl; exact not_snoc_prefix_self _ _ hq
          have hne2 : q ≠ sp := by
            rintro rfl
            have := prefix_snoc_inj hq (List.prefix_refl (p ++ [selfName]))
            exact hself (this ▸ hn)
          show ((fs1.set sp (.file .empty)).set sp (.file (.full c))) q = none
          rw [FS.set_other _ _ hne2, FS.set_other _ _ hne2]
          show (fs.set p .dir) q = none
          rw [FS.set_other _ _ hne]
          exact hfresh q (prefix_of_snoc_prefix hq)
        obtain ⟨fs3, hrun, hload⟩ := Comp.roundtripL rd p cs cs0 fs2 hdist hkids hs.2 hp2 hchild
        -- the children do not touch p/__self__
        have hown3 : fs3 sp = some (.file (.full c)) := by
          rw [applyOps_frame hrun sp ?_]
          · exact hown2
          · intro op hop e
            obtain ⟨n, hn, hpre⟩ := Comp.opsL_under p cs op hop
            rw [e] at hpre
            have := prefix_snoc_inj hpre (List.prefix_refl (p ++ [selfName]))
            exact hself (this ▸ hn)
        refine ⟨fs3, ?_, ?_⟩
        · simp only [Comp.ops, List.cons_append, List.nil_append]
          apply applyOps_cons h1
          have h2' : applyOps ([.create sp, .writeAll sp c] ++ (match cs with
              | [] => []
              | _ :: _ => FsOp.mkdir p true :: Comp.opsL p cs)) fs1 = .ok fs3 := by
            apply applyOps_append h2
            cases cs with
            | nil =>
              simp only [Comp.opsL] at hrun
              exact hrun
            | cons x xs =>
              have hm : applyOp (.mkdir p true) fs2 = .ok fs2 := by
                simp [applyOp, hp2]
              exact applyOps_cons hm hrun
          exact h2'
        · simp only [Comp.load]
          rw [readLeaf_full rd fs3 sp c0 c hs.1 hown3, hload]
theorem Comp.roundtripL (rd : Rd) (p : Path) :
    (cs cs0 : List (String × Comp)) → (fs : FS) → distinct (namesOf cs) = true →
      Comp.namesOkL cs = true → Comp.sameShapeL cs0 cs = true → fs p = some .dir →
      (∀ n ∈ namesOf cs, Fresh fs (p ++ [n])) →
      ∃ fs', applyOps (Comp.opsL p cs) fs = .ok fs' ∧ Comp.loadL rd p fs' cs0 = .ok cs
  | [], cs0, fs, _, _, hs, _, _ => by
    cases cs0 with
    | nil => exact ⟨fs, rfl, rfl⟩
    | cons x xs => simp [Comp.sameShapeL] at hs
  | (n, c) :: rest, cs0, fs, hd, hok, hs, hp, hfresh => by
    cases cs0 with
    | nil => simp [Comp.sameShapeL] at hs
    | cons x0 rest0 =>
      obtain ⟨n0, c0⟩ := x0
      simp only [Comp.sameShapeL, Bool.and_eq_true, decide_eq_true_eq] at hs
      obtain ⟨⟨hn, hsc⟩, hsr⟩ := hs
      subst hn
      simp only [Comp.namesOkL, Bool.and_eq_true] at hok
      have hd' : n0 ∉ namesOf rest ∧ distinct (namesOf rest) = true :=
        (distinct_cons n0 (namesOf rest)).1 (by simpa [namesOf] using hd)
      obtain ⟨fs1, hrun1, hload1⟩ := Comp.roundtrip rd (p ++ [n0]) c c0 fs hok.1 hsc
        (by rw [dropLast_snoc]; exact hp) (hfresh n0 (by simp [namesOf]))
      have hunder1 : ∀ q, ¬ (p ++ [n0] <+: q) → fs1 q = fs q := fun q hq =>
        applyOps_frame hrun1 q (fun op hop e => hq (e ▸ Comp.ops_under (p ++ [n0]) c op hop))
      have hp1 : fs1 p = some .dir := by
        rw [hunder1 p (not_snoc_prefix_self p n0)]; exact hp
      have hfresh1 : ∀ m ∈ namesOf rest, Fresh fs1 (p ++ [m]) := by
        intro m hm q hq
        rw [hunder1 q ?_]
        · exact hfresh m (by simp [namesOf] at hm ⊢; exact Or.inr hm) q hq
        · intro hq0
          have := prefix_snoc_inj hq0 hq
          exact hd'.1 (this ▸ hm)
      obtain ⟨fs2, hrun2, hload2⟩ := Comp.roundtripL rd p rest rest0 fs1 hd'.2 hok.2 hsr hp1 hfresh1
      refine ⟨fs2, ?_, ?_⟩
      · simp only [Comp.opsL]
        exact applyOps_append hrun1 hrun2
      · simp only [Comp.loadL]
        have hcongr : c0.load rd (p ++ [n0]) fs2 = c0.load rd (p ++ [n0]) fs1 := by
          apply Comp.load_congr
          intro q hq
          apply applyOps_frame hrun2 q
          intro op hop e
          obtain ⟨m, hm, hpre⟩ := Comp.opsL_under p rest op hop
          rw [e] at hpre
          have := prefix_snoc_inj hq hpre
          exact hd'.1 (this ▸ hm)
        rw [hcongr, hload1, hload2]
end

/-! ### A reader that must fail makes the whole traversal fail -/

theorem Comp.loadL_last_error (rd : Rd) (p : Path) (fs : FS) (n : String) (c : Content) (e : LoadErr)
    (h : readLeaf rd fs (p ++ [n]) c = .error e) :
    (cs : List (String × Comp)) → ∃ e', Comp.loadL rd p fs (cs ++ [(n, .leaf c)]) = .error e'
  | [] => by
    refine ⟨e, ?_⟩
    simp [Comp.loadL, Comp.load, h]
  | (m, x) :: rest => by
    obtain ⟨e', he'⟩ := Comp.loadL_last_error rd p fs n c e h rest
    simp only [List.cons_append, Comp.loadL]
    cases x.load rd (p ++ [m]) fs with
    | error e1 => exact ⟨e1, rfl⟩
    | ok x' => exact ⟨e', by simp [he']⟩

/-! ### Layout of a system: names, shape, and what `absorb` makes of it -/

theorem namesOf_map {α β} (f : String × α → β) (l : List (String × α)) :
    namesOf (l.map fun x => (x.1, f x)) = namesOf l := by
  induction l with
  | nil => rfl
  | cons x xs ih => simp_all [namesOf]

theorem namesOkL_map {α} (f : String × α → Comp) (hf : ∀ x, (f x).namesOk = true)
    (l : List (String × α)) : Comp.namesOkL (l.map fun x => (x.1, f x)) = true := by
  induction l with
  | nil => rfl
  | cons x xs ih => simp [Comp.namesOkL, hf, ih]

theorem userLayout_namesOk (u : User) : (userLayout u).namesOk = true := by
  simp [userLayout, Comp.namesOk, Comp.namesOkL, namesOf, distinct]

theorem trainerLayout_namesOk (x : ExtRat) : (trainerLayout x).namesOk = true := by
  simp [trainerLayout, Comp.namesOk, Comp.namesOkL, namesOf, distinct]

theorem layout_namesOk (s : Sys) (h : s.namesOk = true) : s.layout.namesOk = true := by
  simp only [Sys.namesOk, keysOk, Bool.and_eq_true] at h
  obtain ⟨⟨⟨hi, hm⟩, hd⟩, ht⟩ := h
  have h1 : (modelsLayout s.models).namesOk = true := by
    simp only [modelsLayout, Comp.namesOk, Option.isNone_none, Bool.true_or, Bool.and_true,
      Bool.and_eq_true]
    exact ⟨by rw [namesOf_map]; exact hm, namesOkL_map _ (fun _ => rfl) _⟩
  have h2 : (dataLayout s.data).namesOk = true := by
    simp only [dataLayout, Comp.namesOk, Option.isNone_none, Bool.true_or, Bool.and_true,
      Bool.and_eq_true]
    exact ⟨by rw [namesOf_map]; exact hd, namesOkL_map _ (fun x => userLayout_namesOk x.2) _⟩
  have h3 : (trainersLayout s.trainers).namesOk = true := by
    simp only [trainersLayout, Comp.namesOk, Option.isNone_none, Bool.true_or, Bool.and_true,
      Bool.and_eq_true]
    exact ⟨by rw [namesOf_map]; exact ht, namesOkL_map _ (fun x => trainerLayout_namesOk x.2) _⟩
  simp [Sys.layout, Sys.layoutV, Comp.namesOk, Comp.namesOkL, namesOf, distinct, timeFile, hi, h1,
    h2, h3]

theorem sameShapeL_map {α} (f : String × α → Comp) (hf : ∀ x y, (f x).sameShape (f y) = true) :
    (a b : List (String × α)) → namesOf a = namesOf b →
      Comp.sameShapeL (a.map fun x => (x.1, f x)) (b.map fun x => (x.1, f x)) = true
  | [], [], _ => rfl
  | [], _ :: _, h => by simp [namesOf] at h
  | _ :: _, [], h => by simp [namesOf] at h
  | x :: xs, y :: ys, h => by
    simp only [namesOf, List.map_cons, List.cons.injEq] at h
    simp only [List.map_cons, Comp.sameShapeL, h.1, decide_true, Bool.true_and, hf,
      Bool.and_eq_true, true_and]
    exact sameShapeL_map f hf xs ys h.2

theorem layout_sameShape (fresh s : Sys) (h : fresh.sameShape s = true) :
    fresh.layout.sameShape s.layout = true := by
  simp only [Sys.sameShape, Bool.and_eq_true, decide_eq_true_eq] at h
  obtain ⟨⟨⟨hi, hm⟩, hd⟩, ht⟩ := h
  have h1 := sameShapeL_map (α := ModelSt) (fun x => .leaf (.user x.2.version))
    (fun _ _ => by simp [Comp.sameShape, Content.kind]) fresh.models s.models hm
  have h2 := sameShapeL_map (α := User) (fun x => userLayout x.2)
    (fun _ _ => by simp [userLayout, Comp.sameShape, Comp.sameShapeL, optKindEq, Content.kind])
    fresh.data s.data hd
  have h3 := sameShapeL_map (α := ExtRat) (fun x => trainerLayout x.2)
    (fun _ _ => by simp [trainerLayout, Comp.sameShape, Comp.sameShapeL, optKindEq, Content.kind])
    fresh.trainers s.trainers ht
  simp [Sys.layout, Sys.layoutV, modelsLayout, dataLayout, trainersLayout, Comp.sameShape,
    Comp.sameShapeL, optKindEq, Content.kind, hi, h1, h2, h3]

theorem absorbModels_layout : (f s : List (String × ModelSt)) → namesOf f = namesOf s →
    absorbModels f (s.map fun nm => (nm.1, Comp.leaf (.user nm.2.version))) = .ok (reloadModels f s)
  | [], [], _ => rfl
  | [], _ :: _, h => by simp [namesOf] at h
  | _ :: _, [], h => by simp [namesOf] at h
  | (n, m) :: xs, (n', m') :: ys, h => by
    simp only [namesOf, List.map_cons, List.cons.injEq] at h
    simp only [List.map_cons, absorbModels, reloadModels, absorbModels_layout xs ys h.2]

theorem absorbData_layout : (f s : List (String × User)) → namesOf f = namesOf s →
    absorbData f (s.map fun nu => (nu.1, userLayout nu.2)) = .ok (reloadData f s)
  | [], [], _ => rfl
  | [], _ :: _, h => by simp [namesOf] at h
  | _ :: _, [], h => by simp [namesOf] at h
  | (n, m) :: xs, (n', m') :: ys, h => by
    simp only [namesOf, List.map_cons, List.cons.injEq] at h
    have ih := absorbData_layout xs ys h.2
    simp only [userLayout] at ih
    simp only [List.map_cons, userLayout, absorbData, reloadData, ih]

theorem absorbTrainers_layout : (f s : List (String × ExtRat)) → namesOf f = namesOf s →
    absorbTrainers f (s.map fun nt => (nt.1, trainerLayout nt.2)) = .ok (reloadTrainers f s)
  | [], [], _ => rfl
  | [], _ :: _, h => by simp [namesOf] at h
  | _ :: _, [], h => by simp [namesOf] at h
  | (n, m) :: xs, (n', m') :: ys, h => by
    simp only [namesOf, List.map_cons, List.cons.injEq] at h
    have ih := absorbTrainers_layout xs ys h.2
    simp only [trainerLayout] at ih
    simp only [List.map_cons, trainerLayout, absorbTrainers, reloadTrainers, ih]

theorem absorb_layout (fresh s : Sys) (r : Clock.R3) (h : fresh.sameShape s = true) :
    fresh.absorb s.layout r = .ok (Sys.reload fresh s r) := by
  simp only [Sys.sameShape, Bool.and_eq_true, decide_eq_true_eq] at h
  obtain ⟨⟨⟨_, hm⟩, hd⟩, ht⟩ := h
  simp only [Sys.absorb, Sys.layout, Sys.layoutV, modelsLayout, dataLayout, trainersLayout,
    Bool.false_eq_true, if_false, List.cons_append, List.nil_append,
    absorbModels_layout _ _ hm, absorbData_layout _ _ hd, absorbTrainers_layout _ _ ht, Sys.reload]

/-! ### `update()` -/

theorem updateAll_names : (d d' : List (String × User)) → updateAll d = .ok d' →
    namesOf d' = namesOf d
  | [], d', h => by cases h; rfl
  | (n, u) :: rest, d', h => by
    simp only [updateAll] at h
    cases hu : u.update with
    | error e => rw [hu] at h; cases h
    | ok u' =>
      rw [hu] at h
      cases hr : updateAll rest with
      | error e => rw [hr] at h; cases h
      | ok rest' =>
        rw [hr] at h
        cases h
        have ih := updateAll_names rest rest' hr
        simp only [namesOf] at ih ⊢
        simp [ih]

/-! ### `update()` keeps names and invariants; pieces of the crash argument -/

theorem update_names (s s1 : Sys) (h : s.update = .ok s1) :
    s1.interaction = s.interaction ∧ s1.models = s.models ∧ s1.trainers = s.trainers ∧
      s1.clock = s.clock ∧ namesOf s1.data = namesOf s.data := by
  simp only [Sys.update] at h
  cases hd : updateAll s.data with
  | error e => rw [hd] at h; cases h
  | ok d =>
    rw [hd] at h
    cases h
    exact ⟨rfl, rfl, rfl, rfl, updateAll_names _ _ hd⟩

theorem Buf.add_wf (b b' : Buf) (x : Int) (u : Rat) (i : Nat) (hw : b.WF) (h : b.add x u i = .ok b') :
    b'.WF ∧ b'.maxQueueSize = b.maxQueueSize := by
  cases b with
  | seq q =>
    simp only [Buf.add] at h
    cases h
    constructor
    · simp only [Buf.WF, Buffer.Seq.add, Buffer.dequeAppend] at hw ⊢
      split <;> simp at * <;> omega
    · rfl
  | rrb r =>
    simp only [Buf.add] at h
    cases hr : r.add Buffer.repaired x u i with
    | error e => rw [hr] at h; cases h
    | ok r' =>
      rw [hr] at h
      cases h
      simp only [Buf.WF, Buf.maxQueueSize] at hw ⊢
      simp only [Buffer.Rrb.add] at hr
      split at hr
      · split at hr
        · cases hr; exact ⟨hw, rfl⟩
        · split at hr
          · cases hr
          · split at hr
            · cases hr; simpa using hw
            · cases hr
      · cases hr
        refine ⟨?_, rfl⟩
        simp
        omega

theorem drain_wf : (l : List Pend) → (u u' : User) → u.WF → u.drain l = .ok u' →
    u'.WF ∧ u'.pend = u.pend
  | [], u, u', hw, h => by cases h; exact ⟨hw, rfl⟩
  | s :: rest, u, u', hw, h => by
    simp only [User.drain] at h
    cases hb : u.buf.add s.x s.u s.i with
    | error e => rw [hb] at h; cases h
    | ok b =>
      rw [hb] at h
      obtain ⟨hbw, hq⟩ := Buf.add_wf _ _ _ _ _ hw.1 hb
      have := drain_wf rest _ u' ⟨hbw, by
        show (lastN u.buf.maxQueueSize (u.ts ++ [s.t])).length ≤ b.maxQueueSize
        rw [hq, Buffer.lastN_length]; omega⟩ h
      exact this

/-- The invariants (C11's for the buffers, the bound of the timestamps deque) survive `update()`,
and the collector queue is empty afterwards. -/
theorem User.update_wf (u u' : User) (hw : u.WF) (h : u.update = .ok u') : u'.WF ∧ u'.pend = [] := by
  simp only [User.update] at h
  exact drain_wf u.pend { u with pend := [] } u' hw h

theorem updateAll_wf : (d d' : List (String × User)) → (∀ nu ∈ d, nu.2.WF) → updateAll d = .ok d' →
    ∀ nu ∈ d', nu.2.WF
  | [], d', _, h => by cases h; simp
  | (n, u) :: rest, d', hw, h => by
    simp only [updateAll] at h
    cases hu : u.update with
    | error e => rw [hu] at h; cases h
    | ok u' =>
      rw [hu] at h
      cases hr : updateAll rest with
      | error e => rw [hr] at h; cases h
      | ok rest' =>
        rw [hr] at h
        cases h
        intro nu hnu
        simp only [List.mem_cons] at hnu
        rcases hnu with rfl | hnu
        · exact (User.update_wf u u' (hw (n, u) (by simp)) hu).1
        · exact updateAll_wf rest rest' (fun x hx => hw x (by simp [hx])) hr nu hnu

theorem applyOps_cons_inv {op : FsOp} {rest : List FsOp} {fs fs2 : FS}
    (h : applyOps (op :: rest) fs = .ok fs2) :
    ∃ fs1, applyOp op fs = .ok fs1 ∧ applyOps rest fs1 = .ok fs2 := by
  simp only [applyOps, run] at h
  cases hop : applyOp op fs with
  | error e => rw [hop] at h; cases h
  | ok fs1 => rw [hop] at h; exact ⟨fs1, rfl, h⟩

theorem update_clock (s s1 : Sys) (c : Clock.Ctl) (h : s.update = .ok s1) :
    ({ s with clock := c } : Sys).update = .ok { s1 with clock := c } := by
  simp only [Sys.update] at h ⊢
  cases hd : updateAll s.data with
  | error e => rw [hd] at h; cases h
  | ok d => rw [hd] at h; cases h; rfl

theorem Comp.opsL_append (p : Path) (a b : List (String × Comp)) :
    Comp.opsL p (a ++ b) = Comp.opsL p a ++ Comp.opsL p b := by
  induction a with
  | nil => simp [Comp.opsL]
  | cons x xs ih => obtain ⟨n, c⟩ := x; simp [Comp.opsL, ih]

/-- What can be found at the path of the file written last, at any crash point before the end. -/
theorem crash_last_file (B : List FsOp) (tp : Path) (c : Content) (fs : FS) (k len : Nat)
    (hB : ∀ op ∈ B, op.path ≠ tp) (h0 : fs tp = none) (hk : k < B.length + 2) :
    crash k len (B ++ [.create tp, .writeAll tp c]) fs tp = none ∨
    crash k len (B ++ [.create tp, .writeAll tp c]) fs tp = some (.file .empty) ∨
    ∃ n, crash k len (B ++ [.create tp, .writeAll tp c]) fs tp = some (.file (.part c n)) := by
  by_cases hle : k ≤ B.length
  · -- the file has not been created yet
    left
    have htake : (B ++ [FsOp.create tp, .writeAll tp c]).take k = B.take k :=
      List.take_append_of_le_length hle
    have hrun := run_frame (B.take k) fs tp (fun op hop => hB op (List.mem_of_mem_take hop))
    simp only [crash, htake]
    cases hr : run (B.take k) fs with
    | mk fs1 e =>
      rw [hr] at hrun
      replace hrun : fs1 tp = fs tp := hrun
      cases e with
      | some e => simp only; rw [hrun, h0]
      | none =>
        simp only
        cases hop : (B ++ [FsOp.create tp, .writeAll tp c])[k]? with
        | none => simp only; rw [hrun, h0]
        | some op =>
          simp only
          by_cases hlt : k < B.length
          · rw [List.getElem?_append_left hlt] at hop
            rw [tornOp_frame len op fs1 tp (hB op (List.mem_of_getElem? hop)), hrun, h0]
          · have hk' : k = B.length := by omega
            subst hk'
            simp at hop
            subst hop
            simp only [tornOp]
            rw [hrun, h0]
  · -- the file has been created, its content is being written
    have hk' : k = B.length + 1 := by omega
    subst hk'
    have htake : (B ++ [FsOp.create tp, .writeAll tp c]).take (B.length + 1)
        = B ++ [FsOp.create tp] := by
      rw [List.take_append, List.take_of_length_le (by omega)]
      simp
    have hget : (B ++ [FsOp.create tp, .writeAll tp c])[B.length + 1]? = some (.writeAll tp c) := by
      rw [List.getElem?_append_right (by omega)]
      simp
    have hrunB := run_frame B fs tp hB
    simp only [crash, htake, hget, run_append]
    cases hr : run B fs with
    | mk fsB e =>
      rw [hr] at hrunB
      replace hrunB : fsB tp = fs tp := hrunB
      cases e with
      | some e => left; simp only; rw [hrunB, h0]
      | none =>
        simp only [run]
        have hB0 : fsB tp = none := by rw [hrunB, h0]
        cases hcr : applyOp (.create tp) fsB with
        | error e => left; simp only; exact hB0
        | ok fs2 =>
          simp only
          have h2 : fs2 = fsB.set tp (.file .empty) := by
            simp only [applyOp, hB0] at hcr
            split at hcr
            · cases hcr; rfl
            · cases hcr
          subst h2
          simp only [tornOp, FS.set_same]
          by_cases hl : len = 0
          · right; left; simp [hl, FS.set]
          · right; right; exact ⟨len, by simp [hl, FS.set]⟩

theorem readPickle_unreadable (fs : FS) (p : Path) (k : Kind)
    (h : fs p = none ∨ fs p = some (.file .empty) ∨ ∃ c n, fs p = some (.file (.part c n))) :
    ∃ e, readPickle fs p k = .error e := by
  rcases h with h | h | ⟨c, n, h⟩ <;> simp [readPickle, readFile, h]

end Pamiq.Persist
