/- Helper lemmas for C07: `lastN`/`keep` algebra, the drain loop, the history invariant. -/
import Pamiq.Model.Queue
namespace Pamiq.Queue
open Pamiq

theorem lastN_of_le {α} (k : Nat) (l : List α) (h : l.length ≤ k) : lastN k l = l := by
  simp [lastN, Nat.sub_eq_zero_of_le h]

theorem length_lastN {α} (k : Nat) (l : List α) : (lastN k l).length = min k l.length := by
  simp [lastN]; omega

theorem lastN_zero {α} (l : List α) : lastN 0 l = [] := by simp [lastN]

theorem map_lastN {α β} (f : α → β) (k : Nat) (l : List α) :
    (lastN k l).map f = lastN k (l.map f) := by
  simp [lastN, List.map_drop]

theorem lastN_sublist {α} (k : Nat) (l : List α) : (lastN k l).Sublist l := by
  simp [lastN, List.drop_sublist]

theorem lastN_lastN_append {α} (k : Nat) (a b : List α) :
    lastN k (lastN k a ++ b) = lastN k (a ++ b) := by
  by_cases h : a.length ≤ k
  · rw [lastN_of_le k a h]
  · have h' : k < a.length := by omega
    simp only [lastN, List.length_append, List.length_drop]
    have e1 : a.length - (a.length - k) + b.length - k = b.length := by omega
    have e2 : a.length + b.length - k = (a.length - k) + b.length := by omega
    rw [e1, e2, ← List.drop_drop]
    congr 1
    rw [List.drop_append_of_le_length (by omega)]

theorem keep_keep_append {α} (m : Option Nat) (a b : List α) :
    keep m (keep m a ++ b) = keep m (a ++ b) := by
  cases m with
  | none => rfl
  | some k => exact lastN_lastN_append k a b

theorem map_keep {α β} (f : α → β) (m : Option Nat) (l : List α) :
    (keep m l).map f = keep m (l.map f) := by
  cases m with
  | none => rfl
  | some k => exact map_lastN f k l

theorem keep_sublist {α} (m : Option Nat) (l : List α) : (keep m l).Sublist l := by
  cases m with
  | none => exact List.Sublist.refl _
  | some k => exact lastN_sublist k l

theorem dqAppend_keep {α} (m : Option Nat) (a : List α) (x : α) :
    dqAppend m (keep m a) x = keep m (a ++ [x]) := by
  cases m with
  | none => rfl
  | some k => exact lastN_lastN_append k a [x]

theorem foldl_dqAppend {α} (m : Option Nat) (a b : List α) :
    b.foldl (dqAppend m) (keep m a) = keep m (a ++ b) := by
  induction b generalizing a with
  | nil => simp
  | cons x b ih => rw [List.foldl_cons, dqAppend_keep, ih]; simp

/-- The drain loop on an index-aligned queue never raises and moves everything, in order. -/
theorem drain_aligned (q : TQ) (u : User) (h : q.queue.length = q.ts.length) :
    drain q.ts.length q u =
      .ok { u with adds := u.adds ++ q.queue,
                   timestamps := q.ts.foldl (dqAppend u.maxLen) u.timestamps } := by
  obtain ⟨qu, ts, ml⟩ := q
  induction ts generalizing qu u with
  | nil =>
    cases qu with
    | nil => simp [drain]
    | cons => simp at h
  | cons t ts ih =>
    cases qu with
    | nil => simp at h
    | cons x qu =>
      simp only [List.length_cons, drain, TQ.popleft]
      have := ih { u with adds := u.adds ++ [x], timestamps := dqAppend u.maxLen u.timestamps t } qu
        (by simpa using h)
      simp only [bind, Except.bind] at this ⊢
      rw [this]; simp

/-- Relation between a reachable `DataUser` state and the windows of the history that led to it. -/
structure Rel (m : Option Nat) (u : User) (w : List (List (Nat × Rat)) × List (Nat × Rat)) :
    Prop where
  ml : u.maxLen = m
  cml : u.collector.q.maxLen = m
  adds : u.adds = ((w.1.map (keep m)).flatten).map (·.1)
  ts : u.timestamps = keep m (((w.1.map (keep m)).flatten).map (·.2))
  queue : u.collector.q.queue = (keep m w.2).map (·.1)
  qts : u.collector.q.ts = (keep m w.2).map (·.2)

theorem init_rel (mi : Option Int) (u : User) (h : User.init mi = .ok u) :
    Rel u.maxLen u ([], []) := by
  unfold User.init at h
  split at h
  · cases h; constructor <;> simp [keep]
  · split at h
    · cases h
    · cases h; constructor <;> simp [keep, lastN]

theorem update_rel {m : Option Nat} {u : User} {w : List (List (Nat × Rat)) × List (Nat × Rat)}
    (h : Rel m u w) :
    ∃ u', u.update = .ok u' ∧ Rel m u' (w.1 ++ [w.2], []) ∧
      u'.adds = u.adds ++ (keep m w.2).map (·.1) := by
  obtain ⟨h1, h2, h3, h4, h5, h6⟩ := h
  have hal : u.collector.q.queue.length = u.collector.q.ts.length := by simp [h5, h6]
  have e : u.update = .ok
      { u with collector := { q := { maxLen := u.collector.q.maxLen } },
               adds := u.adds ++ u.collector.q.queue,
               timestamps := u.collector.q.ts.foldl (dqAppend u.maxLen) u.timestamps } := by
    simp only [User.update, Collector.moveData, TQ.len]
    exact drain_aligned u.collector.q _ hal
  refine ⟨_, e, ?_, ?_⟩
  · constructor
    · exact h1
    · exact h2
    · simp [h3, h5]
    · simp only [h1, h4, h6, foldl_dqAppend]
      simp
    · simp [keep]; cases m <;> simp [keep, lastN]
    · simp [keep]; cases m <;> simp [keep, lastN]
  · simp [h5]

theorem apply_rel {m : Option Nat} {u : User} {w : List (List (Nat × Rat)) × List (Nat × Rat)}
    (h : Rel m u w) (op : Op) : ∃ u', u.apply op = .ok u' ∧ Rel m u' (winStep w op) := by
  cases op with
  | collect x t =>
    refine ⟨_, rfl, ?_⟩
    obtain ⟨h1, h2, h3, h4, h5, h6⟩ := h
    constructor
    · exact h1
    · exact h2
    · exact h3
    · exact h4
    · simp only [User.collect, Collector.collect, TQ.append, winStep, h2, h5]
      rw [map_keep, map_keep, dqAppend_keep]; simp
    · simp only [User.collect, Collector.collect, TQ.append, winStep, h2, h6]
      rw [map_keep, map_keep, dqAppend_keep]; simp
  | update =>
    obtain ⟨u', e, r, _⟩ := update_rel h
    exact ⟨u', e, by simpa [winStep, Op.flushes] using r⟩
  | getData =>
    obtain ⟨u', e, r, _⟩ := update_rel h
    exact ⟨u', by simp [User.apply, User.getData, e, bind, Except.bind, pure, Except.pure],
      by simpa [winStep, Op.flushes] using r⟩
  | save =>
    obtain ⟨u', e, r, _⟩ := update_rel h
    exact ⟨u', by simp [User.apply, User.saveState, e, bind, Except.bind, pure, Except.pure],
      by simpa [winStep, Op.flushes] using r⟩
  | count t => exact ⟨u, rfl, by simpa [winStep, Op.flushes] using h⟩
  | len => exact ⟨u, rfl, by simpa [winStep, Op.flushes] using h⟩

theorem run_rel {m : Option Nat} (ops : List Op) {u : User}
    {w : List (List (Nat × Rat)) × List (Nat × Rat)} (h : Rel m u w) :
    ∃ u', u.run ops = .ok u' ∧ Rel m u' (ops.foldl winStep w) := by
  induction ops generalizing u w with
  | nil => exact ⟨u, rfl, h⟩
  | cons op ops ih =>
    obtain ⟨u1, e1, r1⟩ := apply_rel h op
    obtain ⟨u2, e2, r2⟩ := ih r1
    exact ⟨u2, by simp [User.run, e1, e2, bind, Except.bind], by simpa using r2⟩

end Pamiq.Queue
