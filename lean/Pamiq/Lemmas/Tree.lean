/-
Helper lemmas for C12 (not property statements).

`Node` is the *shape* of a component tree as far as the file system is concerned: a user component
that is handed a path (`leaf`), a part that is handed nothing (`silent`: a `LambdaWrapper`), or a
composite that creates a directory and hands `path / name` to each child (`dir`; `own = some id`
is an agent with children, which is handed the path itself first). Each typed tree of
`Model/Tree.lean` is mapped onto its shape, the path/file-system functions are shown to agree, and
the three structural facts (distinct paths, parents exist, the operations run without error) are
proved once, on shapes.
-/
import Pamiq.Model.Tree
import Pamiq.Model.TreeSpec

namespace Pamiq.Tree

inductive Node
  | leaf (id : LeafId)
  | silent
  | dir (own : Option LeafId) (cs : List (String × Node))

mutual
def Node.savePaths (p : Path) : Node → List (LeafId × Path)
  | .leaf id => [(id, p)]
  | .silent => []
  | .dir own cs => (match own with | some id => [(id, p)] | none => []) ++ Node.savePathsL p cs
def Node.savePathsL (p : Path) : List (String × Node) → List (LeafId × Path)
  | [] => []
  | (n, c) :: rest => c.savePaths (p ++ [n]) ++ Node.savePathsL p rest
end

mutual
def Node.fsOps (p : Path) : Node → List FsOp
  | .leaf id => [.leafSave id p]
  | .silent => []
  | .dir own cs => (match own with
      | some id => [.leafSave id p, .mkdir p true]
      | none => [.mkdir p false]) ++ Node.fsOpsL p cs
def Node.fsOpsL (p : Path) : List (String × Node) → List FsOp
  | [] => []
  | (n, c) :: rest => c.fsOps (p ++ [n]) ++ Node.fsOpsL p rest
end

mutual
def Node.namesOk : Node → Bool
  | .leaf _ => true
  | .silent => true
  | .dir _ cs => distinct (namesOf cs) && Node.namesOkL cs
def Node.namesOkL : List (String × Node) → Bool
  | [] => true
  | (_, c) :: rest => c.namesOk && Node.namesOkL rest
end

/-! ### Typed trees → shapes -/

def Wrap.toNode : Wrap → Node
  | .user i => .leaf i
  | .fn _ => .silent

mutual
def Agent.toNode : Agent → Node
  | .mk id cs => match cs with
    | [] => .leaf id
    | _ :: _ => .dir (some id) (Agent.toNodeL cs)
def Agent.toNodeL : List (String × Agent) → List (String × Node)
  | [] => []
  | (n, a) :: rest => (n, a.toNode) :: Agent.toNodeL rest
end

mutual
def Sensor.toNode : Sensor → Node
  | .leaf id => .leaf id
  | .dict cs => .dir none (Sensor.toNodeL cs)
  | .wrap s w => .dir none [("sensor", s.toNode), ("wrapper", w.toNode)]
def Sensor.toNodeL : List (String × Sensor) → List (String × Node)
  | [] => []
  | (n, s) :: rest => (n, s.toNode) :: Sensor.toNodeL rest
end

mutual
def Actuator.toNode : Actuator → Node
  | .leaf id => .leaf id
  | .dict cs => .dir none (Actuator.toNodeL cs)
  | .wrap a w => .dir none [("actuator", a.toNode), ("wrapper", w.toNode)]
def Actuator.toNodeL : List (String × Actuator) → List (String × Node)
  | [] => []
  | (n, a) :: rest => (n, a.toNode) :: Actuator.toNodeL rest
end

def Env.toNode : Env → Node
  | .leaf id => .leaf id
  | .modular s a => .dir none [("sensor", s.toNode), ("actuator", a.toNode)]
  | .wrap e o a => .dir none [("env", e.toNode), ("obs_wrapper", o.toNode), ("act_wrapper", a.toNode)]

def Interaction.toNode (i : Interaction) : Node :=
  .dir none [("agent", i.agent.toNode), ("environment", i.environment.toNode)]

/-! ### Agreement of the typed functions with the shape functions -/

theorem Wrap.savePaths_toNode (p : Path) (w : Wrap) : w.savePaths p = w.toNode.savePaths p := by
  cases w <;> simp [Wrap.savePaths, Wrap.toNode, Node.savePaths]

theorem Wrap.fsOps_toNode (p : Path) (w : Wrap) : w.fsOps p = w.toNode.fsOps p := by
  cases w <;> simp [Wrap.fsOps, Wrap.toNode, Node.fsOps]

theorem Wrap.namesOk_toNode (w : Wrap) : w.toNode.namesOk = true := by
  cases w <;> simp [Wrap.toNode, Node.namesOk]

mutual
theorem Agent.savePaths_toNode (p : Path) : (a : Agent) → a.savePaths p = a.toNode.savePaths p
  | .mk id [] => by simp [Agent.savePaths, Agent.toNode, Node.savePaths, Agent.savePathsL]
  | .mk id (c :: cs) => by
    have := Agent.savePathsL_toNode p (c :: cs)
    simp [Agent.savePaths, Agent.toNode, Node.savePaths, this]
theorem Agent.savePathsL_toNode (p : Path) :
    (cs : List (String × Agent)) → Agent.savePathsL p cs = Node.savePathsL p (Agent.toNodeL cs)
  | [] => by simp [Agent.savePathsL, Agent.toNodeL, Node.savePathsL]
  | (n, a) :: rest => by
    simp [Agent.savePathsL, Agent.toNodeL, Node.savePathsL, Agent.savePaths_toNode (p ++ [n]) a,
      Agent.savePathsL_toNode p rest]
end

mutual
theorem Agent.fsOps_toNode (p : Path) : (a : Agent) → a.fsOps p = a.toNode.fsOps p
  | .mk id [] => by simp [Agent.fsOps, Agent.toNode, Node.fsOps]
  | .mk id (c :: cs) => by
    have := Agent.fsOpsL_toNode p (c :: cs)
    simp [Agent.fsOps, Agent.toNode, Node.fsOps, this]
theorem Agent.fsOpsL_toNode (p : Path) :
    (cs : List (String × Agent)) → Agent.fsOpsL p cs = Node.fsOpsL p (Agent.toNodeL cs)
  | [] => by simp [Agent.fsOpsL, Agent.toNodeL, Node.fsOpsL]
  | (n, a) :: rest => by
    simp [Agent.fsOpsL, Agent.toNodeL, Node.fsOpsL, Agent.fsOps_toNode (p ++ [n]) a,
      Agent.fsOpsL_toNode p rest]
end

theorem Agent.namesOf_toNodeL : (cs : List (String × Agent)) → namesOf (Agent.toNodeL cs) = namesOf cs
  | [] => by simp [Agent.toNodeL, namesOf]
  | (n, a) :: rest => by
    have := Agent.namesOf_toNodeL rest
    simp [namesOf] at this
    simp [Agent.toNodeL, namesOf, this]

mutual
theorem Agent.namesOk_toNode : (a : Agent) → a.toNode.namesOk = a.namesOk
  | .mk id [] => by simp [Agent.namesOk, Agent.toNode, Node.namesOk, Agent.namesOkL, namesOf, distinct]
  | .mk id (c :: cs) => by
    have h1 := Agent.namesOkL_toNode (c :: cs)
    have h2 := Agent.namesOf_toNodeL (c :: cs)
    simp [Agent.namesOk, Agent.toNode, Node.namesOk, h1, h2]
theorem Agent.namesOkL_toNode :
    (cs : List (String × Agent)) → Node.namesOkL (Agent.toNodeL cs) = Agent.namesOkL cs
  | [] => by simp [Agent.namesOkL, Agent.toNodeL, Node.namesOkL]
  | (n, a) :: rest => by
    simp [Agent.namesOkL, Agent.toNodeL, Node.namesOkL, Agent.namesOk_toNode a,
      Agent.namesOkL_toNode rest]
end

mutual
theorem Sensor.savePaths_toNode (p : Path) : (s : Sensor) → s.savePaths p = s.toNode.savePaths p
  | .leaf id => by simp [Sensor.savePaths, Sensor.toNode, Node.savePaths]
  | .dict cs => by
    simp [Sensor.savePaths, Sensor.toNode, Node.savePaths, Sensor.savePathsL_toNode p cs]
  | .wrap s w => by
    simp [Sensor.savePaths, Sensor.toNode, Node.savePaths, Node.savePathsL,
      Sensor.savePaths_toNode (p ++ ["sensor"]) s, Wrap.savePaths_toNode]
theorem Sensor.savePathsL_toNode (p : Path) :
    (cs : List (String × Sensor)) → Sensor.savePathsL p cs = Node.savePathsL p (Sensor.toNodeL cs)
  | [] => by simp [Sensor.savePathsL, Sensor.toNodeL, Node.savePathsL]
  | (n, s) :: rest => by
    simp [Sensor.savePathsL, Sensor.toNodeL, Node.savePathsL, Sensor.savePaths_toNode (p ++ [n]) s,
      Sensor.savePathsL_toNode p rest]
end

mutual
theorem Sensor.fsOps_toNode (p : Path) : (s : Sensor) → s.fsOps p = s.toNode.fsOps p
  | .leaf id => by simp [Sensor.fsOps, Sensor.toNode, Node.fsOps]
  | .dict cs => by simp [Sensor.fsOps, Sensor.toNode, Node.fsOps, Sensor.fsOpsL_toNode p cs]
  | .wrap s w => by
    simp [Sensor.fsOps, Sensor.toNode, Node.fsOps, Node.fsOpsL,
      Sensor.fsOps_toNode (p ++ ["sensor"]) s, Wrap.fsOps_toNode]
theorem Sensor.fsOpsL_toNode (p : Path) :
    (cs : List (String × Sensor)) → Sensor.fsOpsL p cs = Node.fsOpsL p (Sensor.toNodeL cs)
  | [] => by simp [Sensor.fsOpsL, Sensor.toNodeL, Node.fsOpsL]
  | (n, s) :: rest => by
    simp [Sensor.fsOpsL, Sensor.toNodeL, Node.fsOpsL, Sensor.fsOps_toNode (p ++ [n]) s,
      Sensor.fsOpsL_toNode p rest]
end

theorem Sensor.namesOf_toNodeL : (cs : List (String × Sensor)) → namesOf (Sensor.toNodeL cs) = namesOf cs
  | [] => by simp [Sensor.toNodeL, namesOf]
  | (n, a) :: rest => by
    have := Sensor.namesOf_toNodeL rest
    simp [namesOf] at this
    simp [Sensor.toNodeL, namesOf, this]

mutual
theorem Sensor.namesOk_toNode : (s : Sensor) → s.toNode.namesOk = s.namesOk
  | .leaf id => by simp [Sensor.namesOk, Sensor.toNode, Node.namesOk]
  | .dict cs => by
    simp [Sensor.namesOk, Sensor.toNode, Node.namesOk, Sensor.namesOkL_toNode cs,
      Sensor.namesOf_toNodeL cs]
  | .wrap s w => by
    simp [Sensor.namesOk, Sensor.toNode, Node.namesOk, Node.namesOkL, Sensor.namesOk_toNode s,
      Wrap.namesOk_toNode, namesOf, distinct]
theorem Sensor.namesOkL_toNode :
    (cs : List (String × Sensor)) → Node.namesOkL (Sensor.toNodeL cs) = Sensor.namesOkL cs
  | [] => by simp [Sensor.namesOkL, Sensor.toNodeL, Node.namesOkL]
  | (n, s) :: rest => by
    simp [Sensor.namesOkL, Sensor.toNodeL, Node.namesOkL, Sensor.namesOk_toNode s,
      Sensor.namesOkL_toNode rest]
end

mutual
theorem Actuator.savePaths_toNode (p : Path) : (s : Actuator) → s.savePaths p = s.toNode.savePaths p
  | .leaf id => by simp [Actuator.savePaths, Actuator.toNode, Node.savePaths]
  | .dict cs => by
    simp [Actuator.savePaths, Actuator.toNode, Node.savePaths, Actuator.savePathsL_toNode p cs]
  | .wrap s w => by
    simp [Actuator.savePaths, Actuator.toNode, Node.savePaths, Node.savePathsL,
      Actuator.savePaths_toNode (p ++ ["actuator"]) s, Wrap.savePaths_toNode]
theorem Actuator.savePathsL_toNode (p : Path) :
    (cs : List (String × Actuator)) → Actuator.savePathsL p cs = Node.savePathsL p (Actuator.toNodeL cs)
  | [] => by simp [Actuator.savePathsL, Actuator.toNodeL, Node.savePathsL]
  | (n, s) :: rest => by
    simp [Actuator.savePathsL, Actuator.toNodeL, Node.savePathsL,
      Actuator.savePaths_toNode (p ++ [n]) s, Actuator.savePathsL_toNode p rest]
end

mutual
theorem Actuator.fsOps_toNode (p : Path) : (s : Actuator) → s.fsOps p = s.toNode.fsOps p
  | .leaf id => by simp [Actuator.fsOps, Actuator.toNode, Node.fsOps]
  | .dict cs => by simp [Actuator.fsOps, Actuator.toNode, Node.fsOps, Actuator.fsOpsL_toNode p cs]
  | .wrap s w => by
    simp [Actuator.fsOps, Actuator.toNode, Node.fsOps, Node.fsOpsL,
      Actuator.fsOps_toNode (p ++ ["actuator"]) s, Wrap.fsOps_toNode]
theorem Actuator.fsOpsL_toNode (p : Path) :
    (cs : List (String × Actuator)) → Actuator.fsOpsL p cs = Node.fsOpsL p (Actuator.toNodeL cs)
  | [] => by simp [Actuator.fsOpsL, Actuator.toNodeL, Node.fsOpsL]
  | (n, s) :: rest => by
    simp [Actuator.fsOpsL, Actuator.toNodeL, Node.fsOpsL, Actuator.fsOps_toNode (p ++ [n]) s,
      Actuator.fsOpsL_toNode p rest]
end

theorem Actuator.namesOf_toNodeL :
    (cs : List (String × Actuator)) → namesOf (Actuator.toNodeL cs) = namesOf cs
  | [] => by simp [Actuator.toNodeL, namesOf]
  | (n, a) :: rest => by
    have := Actuator.namesOf_toNodeL rest
    simp [namesOf] at this
    simp [Actuator.toNodeL, namesOf, this]

mutual
theorem Actuator.namesOk_toNode : (s : Actuator) → s.toNode.namesOk = s.namesOk
  | .leaf id => by simp [Actuator.namesOk, Actuator.toNode, Node.namesOk]
  | .dict cs => by
    simp [Actuator.namesOk, Actuator.toNode, Node.namesOk, Actuator.namesOkL_toNode cs,
      Actuator.namesOf_toNodeL cs]
  | .wrap s w => by
    simp [Actuator.namesOk, Actuator.toNode, Node.namesOk, Node.namesOkL,
      Actuator.namesOk_toNode s, Wrap.namesOk_toNode, namesOf, distinct]
theorem Actuator.namesOkL_toNode :
    (cs : List (String × Actuator)) → Node.namesOkL (Actuator.toNodeL cs) = Actuator.namesOkL cs
  | [] => by simp [Actuator.namesOkL, Actuator.toNodeL, Node.namesOkL]
  | (n, s) :: rest => by
    simp [Actuator.namesOkL, Actuator.toNodeL, Node.namesOkL, Actuator.namesOk_toNode s,
      Actuator.namesOkL_toNode rest]
end

theorem Env.savePaths_toNode (p : Path) (e : Env) : e.savePaths p = e.toNode.savePaths p := by
  induction e generalizing p with
  | leaf id => simp [Env.savePaths, Env.toNode, Node.savePaths]
  | modular s a =>
    simp [Env.savePaths, Env.toNode, Node.savePaths, Node.savePathsL, Sensor.savePaths_toNode,
      Actuator.savePaths_toNode]
  | wrap e o a ih =>
    simp [Env.savePaths, Env.toNode, Node.savePaths, Node.savePathsL, ih, Wrap.savePaths_toNode]

theorem Env.fsOps_toNode (p : Path) (e : Env) : e.fsOps p = e.toNode.fsOps p := by
  induction e generalizing p with
  | leaf id => simp [Env.fsOps, Env.toNode, Node.fsOps]
  | modular s a =>
    simp [Env.fsOps, Env.toNode, Node.fsOps, Node.fsOpsL, Sensor.fsOps_toNode, Actuator.fsOps_toNode]
  | wrap e o a ih =>
    simp [Env.fsOps, Env.toNode, Node.fsOps, Node.fsOpsL, ih, Wrap.fsOps_toNode]

theorem Env.namesOk_toNode (e : Env) : e.toNode.namesOk = e.namesOk := by
  induction e with
  | leaf id => simp [Env.namesOk, Env.toNode, Node.namesOk]
  | modular s a =>
    simp [Env.namesOk, Env.toNode, Node.namesOk, Node.namesOkL, Sensor.namesOk_toNode,
      Actuator.namesOk_toNode, namesOf, distinct]
  | wrap e o a ih =>
    simp [Env.namesOk, Env.toNode, Node.namesOk, Node.namesOkL, ih, Wrap.namesOk_toNode, namesOf,
      distinct]

theorem Interaction.savePaths_toNode (p : Path) (i : Interaction) :
    i.savePaths p = i.toNode.savePaths p := by
  simp [Interaction.savePaths, Interaction.toNode, Node.savePaths, Node.savePathsL,
    Agent.savePaths_toNode, Env.savePaths_toNode]

theorem Interaction.fsOps_toNode (p : Path) (i : Interaction) : i.fsOps p = i.toNode.fsOps p := by
  simp [Interaction.fsOps, Interaction.toNode, Node.fsOps, Node.fsOpsL, Agent.fsOps_toNode,
    Env.fsOps_toNode]

theorem Interaction.namesOk_toNode (i : Interaction) : i.toNode.namesOk = i.namesOk := by
  simp [Interaction.namesOk, Interaction.toNode, Node.namesOk, Node.namesOkL, Agent.namesOk_toNode,
    Env.namesOk_toNode, namesOf, distinct]

/-! ### Facts about paths -/

theorem distinct_cons (x : String) (xs : List String) :
    distinct (x :: xs) = true ↔ x ∉ xs ∧ distinct xs = true := by
  simp [distinct]

theorem prefix_snoc_inj {p x : Path} {n m : String}
    (h1 : p ++ [n] <+: x) (h2 : p ++ [m] <+: x) : n = m := by
  obtain ⟨s, rfl⟩ := h1
  obtain ⟨t, ht⟩ := h2
  simp [List.append_assoc] at ht
  exact ht.1.symm

theorem not_snoc_prefix_self (p : Path) (n : String) : ¬ (p ++ [n] <+: p) := by
  intro h
  have := h.length_le
  simp at this
  omega

theorem prefix_of_snoc_prefix {p x : Path} {n : String} (h : p ++ [n] <+: x) : p <+: x :=
  List.IsPrefix.trans (List.prefix_append p [n]) h

/-! ### Distinct paths -/

mutual
theorem Node.savePaths_prefix (p : Path) :
    (t : Node) → ∀ x ∈ (t.savePaths p).map Prod.snd, p <+: x
  | .leaf id => by simp [Node.savePaths]
  | .silent => by simp [Node.savePaths]
  | .dir own cs => by
    intro x hx
    simp only [Node.savePaths, List.map_append, List.mem_append] at hx
    rcases hx with hx | hx
    · cases own <;> simp at hx
      subst hx; exact List.prefix_refl _
    · obtain ⟨n, _, h⟩ := Node.savePathsL_prefix p cs x hx
      exact prefix_of_snoc_prefix h
theorem Node.savePathsL_prefix (p : Path) :
    (cs : List (String × Node)) → ∀ x ∈ (Node.savePathsL p cs).map Prod.snd,
      ∃ n ∈ namesOf cs, p ++ [n] <+: x
  | [] => by simp [Node.savePathsL]
  | (n, c) :: rest => by
    intro x hx
    simp only [Node.savePathsL, List.map_append, List.mem_append] at hx
    rcases hx with hx | hx
    · exact ⟨n, by simp [namesOf], Node.savePaths_prefix (p ++ [n]) c x hx⟩
    · obtain ⟨m, hm, h⟩ := Node.savePathsL_prefix p rest x hx
      exact ⟨m, by simp [namesOf] at hm ⊢; exact Or.inr hm, h⟩
end

mutual
theorem Node.savePaths_nodup (p : Path) :
    (t : Node) → t.namesOk = true → ((t.savePaths p).map Prod.snd).Nodup
  | .leaf id, _ => by simp [Node.savePaths]
  | .silent, _ => by simp [Node.savePaths]
  | .dir own cs, h => by
    simp only [Node.namesOk, Bool.and_eq_true] at h
    have hL := Node.savePathsL_nodup p cs h.1 h.2
    simp only [Node.savePaths, List.map_append]
    rw [List.nodup_append]
    refine ⟨by cases own <;> simp, hL, ?_⟩
    intro a ha b hb hab
    cases own <;> simp at ha
    subst ha; subst hab
    obtain ⟨n, _, hn⟩ := Node.savePathsL_prefix a cs a hb
    exact not_snoc_prefix_self a n hn
theorem Node.savePathsL_nodup (p : Path) :
    (cs : List (String × Node)) → distinct (namesOf cs) = true → Node.namesOkL cs = true →
      ((Node.savePathsL p cs).map Prod.snd).Nodup
  | [], _, _ => by simp [Node.savePathsL]
  | (n, c) :: rest, hd, h => by
    simp only [Node.namesOkL, Bool.and_eq_true] at h
    have hd' : n ∉ namesOf rest ∧ distinct (namesOf rest) = true := by
      have := (distinct_cons n (namesOf rest)).1 (by simpa [namesOf] using hd)
      exact this
    simp only [Node.savePathsL, List.map_append]
    rw [List.nodup_append]
    refine ⟨Node.savePaths_nodup (p ++ [n]) c h.1, Node.savePathsL_nodup p rest hd'.2 h.2, ?_⟩
    intro a ha b hb hab
    subst hab
    have h1 := Node.savePaths_prefix (p ++ [n]) c a ha
    obtain ⟨m, hm, h2⟩ := Node.savePathsL_prefix p rest a hb
    have := prefix_snoc_inj h1 h2
    subst this
    exact hd'.1 hm
end

/-! ### Parents exist -/

/-- Every operation's parent directory is in `ds` or was created by an earlier `mkdir`. -/
def ParentsOk : List Path → List FsOp → Prop
  | _, [] => True
  | ds, .mkdir q _ :: rest => q.dropLast ∈ ds ∧ ParentsOk (q :: ds) rest
  | ds, .leafSave _ q :: rest => q.dropLast ∈ ds ∧ ParentsOk ds rest

theorem ParentsOk.mono {ds ds' : List Path} (hsub : ∀ x ∈ ds, x ∈ ds') :
    (ops : List FsOp) → ParentsOk ds ops → ParentsOk ds' ops
  | [], _ => trivial
  | .mkdir q _ :: rest, h => by
    refine ⟨hsub _ h.1, ParentsOk.mono ?_ rest h.2⟩
    intro x hx
    simp at hx ⊢
    rcases hx with hx | hx
    · exact Or.inl hx
    · exact Or.inr (hsub x hx)
  | .leafSave _ q :: rest, h => ⟨hsub _ h.1, ParentsOk.mono hsub rest h.2⟩

theorem ParentsOk.append {ds : List Path} :
    (a b : List FsOp) → ParentsOk ds a → ParentsOk ds b → ParentsOk ds (a ++ b)
  | [], b, _, hb => by simpa using hb
  | .mkdir q _ :: rest, b, ha, hb => by
    refine ⟨ha.1, ParentsOk.append rest b ha.2 (ParentsOk.mono ?_ b hb)⟩
    intro x hx; simp; exact Or.inr hx
  | .leafSave _ q :: rest, b, ha, hb => ⟨ha.1, ParentsOk.append rest b ha.2 hb⟩

theorem dropLast_snoc (p : Path) (n : String) : (p ++ [n]).dropLast = p := by simp

mutual
theorem Node.fsOps_parentsOk (p : Path) (ds : List Path) :
    (t : Node) → p.dropLast ∈ ds → ParentsOk ds (t.fsOps p)
  | .leaf id, h => by simp [Node.fsOps, ParentsOk, h]
  | .silent, _ => by simp [Node.fsOps, ParentsOk]
  | .dir none cs, h => by
    simp only [Node.fsOps, List.cons_append, List.nil_append, ParentsOk]
    exact ⟨h, Node.fsOpsL_parentsOk p (p :: ds) cs (by simp)⟩
  | .dir (some id) cs, h => by
    simp only [Node.fsOps, List.cons_append, List.nil_append, ParentsOk]
    exact ⟨h, h, Node.fsOpsL_parentsOk p (p :: ds) cs (by simp)⟩
theorem Node.fsOpsL_parentsOk (p : Path) (ds : List Path) :
    (cs : List (String × Node)) → p ∈ ds → ParentsOk ds (Node.fsOpsL p cs)
  | [], _ => by simp [Node.fsOpsL, ParentsOk]
  | (n, c) :: rest, h => by
    simp only [Node.fsOpsL]
    exact ParentsOk.append _ _
      (Node.fsOps_parentsOk (p ++ [n]) ds c (by rw [dropLast_snoc]; exact h))
      (Node.fsOpsL_parentsOk p ds rest h)
end

/-- The list form of `ParentsOk`: split the sequence anywhere. -/
theorem ParentsOk.split {ds : List Path} :
    (pre : List FsOp) → (op : FsOp) → (post : List FsOp) → ParentsOk ds (pre ++ op :: post) →
      op.path.dropLast ∈ ds ∨ ∃ ok, FsOp.mkdir op.path.dropLast ok ∈ pre
  | [], op, post, h => by
    cases op <;> exact Or.inl h.1
  | .mkdir q ok :: pre, op, post, h => by
    rcases ParentsOk.split pre op post h.2 with h' | ⟨ok', h'⟩
    · simp at h'
      rcases h' with h' | h'
      · exact Or.inr ⟨ok, by simp [h']⟩
      · exact Or.inl h'
    · exact Or.inr ⟨ok', by simp [h']⟩
  | .leafSave _ q :: pre, op, post, h => by
    rcases ParentsOk.split pre op post h.2 with h' | ⟨ok', h'⟩
    · exact Or.inl h'
    · exact Or.inr ⟨ok', by simp [h']⟩

/-! ### The operations run without error -/

theorem runFs_append (a b : List FsOp) (fs : List Path) :
    runFs (a ++ b) fs = (match runFs a fs with
      | .ok fs' => runFs b fs'
      | .error e => .error e) := by
  induction a generalizing fs with
  | nil => simp [runFs]
  | cons op rest ih =>
    cases op with
    | mkdir q ok =>
      simp only [List.cons_append, runFs]
      split
      · rfl
      · split
        · split
          · exact ih fs
          · rfl
        · exact ih _
    | leafSave id q =>
      simp only [List.cons_append, runFs]
      split
      · rfl
      · split
        · rfl
        · exact ih _

/-- No existing entry lies at or below `p`. -/
def Fresh (p : Path) (fs : List Path) : Prop := ∀ q ∈ fs, ¬ p <+: q

theorem Fresh.not_mem {p : Path} {fs : List Path} (h : Fresh p fs) : p ∉ fs :=
  fun hp => h p hp (List.prefix_refl p)

theorem Fresh.child {p : Path} {fs : List Path} (h : Fresh p fs) (n : String) :
    Fresh (p ++ [n]) (p :: fs) := by
  intro q hq hpre
  simp at hq
  rcases hq with rfl | hq
  · exact not_snoc_prefix_self _ _ hpre
  · exact h q hq (prefix_of_snoc_prefix hpre)

mutual
theorem Node.runFs_ok (p : Path) :
    (t : Node) → (fs : List Path) → t.namesOk = true → p.dropLast ∈ fs → Fresh p fs →
      ∃ fs', runFs (t.fsOps p) fs = .ok fs' ∧ (∀ q ∈ fs, q ∈ fs') ∧ (∀ q ∈ fs', q ∈ fs ∨ p <+: q)
  | .leaf id, fs, _, hpar, hfresh => by
    refine ⟨p :: fs, ?_, by simp +contextual, ?_⟩
    · simp [Node.fsOps, runFs, hpar, hfresh.not_mem]
    · intro q hq; simp at hq
      rcases hq with rfl | hq
      · exact Or.inr (List.prefix_refl _)
      · exact Or.inl hq
  | .silent, fs, _, _, _ => ⟨fs, by simp [Node.fsOps, runFs], fun _ h => h, fun _ h => Or.inl h⟩
  | .dir own cs, fs, hok, hpar, hfresh => by
    simp only [Node.namesOk, Bool.and_eq_true] at hok
    have hchild : ∀ n ∈ namesOf cs, Fresh (p ++ [n]) (p :: fs) := fun n _ => hfresh.child n
    obtain ⟨fs', hrun, hsub, hnew⟩ :=
      Node.runFsL_ok p cs (p :: fs) hok.1 hok.2 (by simp) hchild
    refine ⟨fs', ?_, fun q hq => hsub q (by simp [hq]), ?_⟩
    · cases own with
      | none =>
        simp only [Node.fsOps, List.cons_append, List.nil_append, runFs]
        simp [hpar, hfresh.not_mem, hrun]
      | some id =>
        simp only [Node.fsOps, List.cons_append, List.nil_append, runFs]
        simp [hpar, hfresh.not_mem, hrun]
    · intro q hq
      rcases hnew q hq with h | ⟨n, _, h⟩
      · simp at h
        rcases h with rfl | h
        · exact Or.inr (List.prefix_refl _)
        · exact Or.inl h
      · exact Or.inr (prefix_of_snoc_prefix h)
theorem Node.runFsL_ok (p : Path) :
    (cs : List (String × Node)) → (fs : List Path) → distinct (namesOf cs) = true →
      Node.namesOkL cs = true → p ∈ fs → (∀ n ∈ namesOf cs, Fresh (p ++ [n]) fs) →
      ∃ fs', runFs (Node.fsOpsL p cs) fs = .ok fs' ∧ (∀ q ∈ fs, q ∈ fs') ∧
        (∀ q ∈ fs', q ∈ fs ∨ ∃ n ∈ namesOf cs, p ++ [n] <+: q)
  | [], fs, _, _, _, _ => ⟨fs, by simp [Node.fsOpsL, runFs], fun _ h => h, fun _ h => Or.inl h⟩
  | (n, c) :: rest, fs, hd, hok, hp, hfresh => by
    simp only [Node.namesOkL, Bool.and_eq_true] at hok
    have hd' : n ∉ namesOf rest ∧ distinct (namesOf rest) = true :=
      (distinct_cons n (namesOf rest)).1 (by simpa [namesOf] using hd)
    obtain ⟨fs1, hrun1, hsub1, hnew1⟩ :=
      Node.runFs_ok (p ++ [n]) c fs hok.1 (by rw [dropLast_snoc]; exact hp)
        (hfresh n (by simp [namesOf]))
    have hfresh2 : ∀ m ∈ namesOf rest, Fresh (p ++ [m]) fs1 := by
      intro m hm q hq hpre
      rcases hnew1 q hq with h | h
      · exact hfresh m (by simp [namesOf] at hm ⊢; exact Or.inr hm) q h hpre
      · have := prefix_snoc_inj h hpre
        subst this
        exact hd'.1 hm
    obtain ⟨fs2, hrun2, hsub2, hnew2⟩ :=
      Node.runFsL_ok p rest fs1 hd'.2 hok.2 (hsub1 p hp) hfresh2
    refine ⟨fs2, ?_, fun q hq => hsub2 q (hsub1 q hq), ?_⟩
    · simp only [Node.fsOpsL]
      rw [runFs_append, hrun1]
      exact hrun2
    · intro q hq
      rcases hnew2 q hq with h | ⟨m, hm, h⟩
      · rcases hnew1 q h with h' | h'
        · exact Or.inl h'
        · exact Or.inr ⟨n, by simp [namesOf], h'⟩
      · exact Or.inr ⟨m, by simp [namesOf] at hm ⊢; exact Or.inr hm, h⟩
end

/-! ### Events -/

theorem Wrap.dispatch_eq (e : Event) (w : Wrap) :
    w.dispatch e = (w.kinds.filter (fun x => applies e x.2)).map Prod.fst := by
  cases w <;> cases h : e.lifecycle <;> simp [Wrap.dispatch, Wrap.kinds, applies, h]

theorem Wrap.kinds_nonlife (e : Event) (h : e.lifecycle = false) (w : Wrap) :
    (w.kinds.filter (fun x => applies e x.2)).map Prod.fst = [] := by
  cases w <;> simp [Wrap.kinds, applies, h]

mutual
theorem Agent.dispatch_eq (e : Event) :
    (a : Agent) → a.dispatch e = (a.kinds.filter (fun x => applies e x.2)).map Prod.fst
  | .mk id cs => by
    simp [Agent.dispatch, Agent.kinds, applies, Agent.dispatchL_eq e cs]
theorem Agent.dispatchL_eq (e : Event) :
    (cs : List (String × Agent)) →
      Agent.dispatchL e cs = ((Agent.kindsL cs).filter (fun x => applies e x.2)).map Prod.fst
  | [] => by simp [Agent.dispatchL, Agent.kindsL]
  | (n, a) :: rest => by
    simp [Agent.dispatchL, Agent.kindsL, Agent.dispatch_eq e a, Agent.dispatchL_eq e rest]
end

mutual
theorem Sensor.kinds_nonlife (e : Event) (h : e.lifecycle = false) :
    (s : Sensor) → (s.kinds.filter (fun x => applies e x.2)).map Prod.fst = []
  | .leaf id => by simp [Sensor.kinds, applies, h]
  | .dict cs => by simpa [Sensor.kinds] using Sensor.kindsL_nonlife e h cs
  | .wrap s w => by
    simp only [Sensor.kinds, List.filter_append, List.map_append, Sensor.kinds_nonlife e h s,
      Wrap.kinds_nonlife e h w, List.append_nil]
theorem Sensor.kindsL_nonlife (e : Event) (h : e.lifecycle = false) :
    (cs : List (String × Sensor)) →
      ((Sensor.kindsL cs).filter (fun x => applies e x.2)).map Prod.fst = []
  | [] => by simp [Sensor.kindsL]
  | (n, s) :: rest => by
    simp only [Sensor.kindsL, List.filter_append, List.map_append, Sensor.kinds_nonlife e h s,
      Sensor.kindsL_nonlife e h rest, List.append_nil]
end

mutual
theorem Sensor.dispatch_eq (e : Event) :
    (s : Sensor) → s.dispatch e = (s.kinds.filter (fun x => applies e x.2)).map Prod.fst
  | .leaf id => by cases h : e.lifecycle <;> simp [Sensor.dispatch, Sensor.kinds, applies, h]
  | .dict cs => by
    cases h : e.lifecycle
    · have := Sensor.kinds_nonlife e h (.dict cs)
      simp [Sensor.dispatch, h, this]
    · simp [Sensor.dispatch, Sensor.kinds, h, Sensor.dispatchL_eq e cs]
  | .wrap s w => by
    cases h : e.lifecycle
    · have := Sensor.kinds_nonlife e h (.wrap s w)
      simp [Sensor.dispatch, h, this]
    · simp [Sensor.dispatch, Sensor.kinds, h, Sensor.dispatch_eq e s, Wrap.dispatch_eq]
theorem Sensor.dispatchL_eq (e : Event) :
    (cs : List (String × Sensor)) →
      Sensor.dispatchL e cs = ((Sensor.kindsL cs).filter (fun x => applies e x.2)).map Prod.fst
  | [] => by simp [Sensor.dispatchL, Sensor.kindsL]
  | (n, s) :: rest => by
    simp [Sensor.dispatchL, Sensor.kindsL, Sensor.dispatch_eq e s, Sensor.dispatchL_eq e rest]
end

mutual
theorem Actuator.kinds_nonlife (e : Event) (h : e.lifecycle = false) :
    (s : Actuator) → (s.kinds.filter (fun x => applies e x.2)).map Prod.fst = []
  | .leaf id => by simp [Actuator.kinds, applies, h]
  | .dict cs => by simpa [Actuator.kinds] using Actuator.kindsL_nonlife e h cs
  | .wrap s w => by
    simp only [Actuator.kinds, List.filter_append, List.map_append, Actuator.kinds_nonlife e h s,
      Wrap.kinds_nonlife e h w, List.append_nil]
theorem Actuator.kindsL_nonlife (e : Event) (h : e.lifecycle = false) :
    (cs : List (String × Actuator)) →
      ((Actuator.kindsL cs).filter (fun x => applies e x.2)).map Prod.fst = []
  | [] => by simp [Actuator.kindsL]
  | (n, s) :: rest => by
    simp only [Actuator.kindsL, List.filter_append, List.map_append, Actuator.kinds_nonlife e h s,
      Actuator.kindsL_nonlife e h rest, List.append_nil]
end

mutual
theorem Actuator.dispatch_eq (e : Event) :
    (s : Actuator) → s.dispatch e = (s.kinds.filter (fun x => applies e x.2)).map Prod.fst
  | .leaf id => by cases h : e.lifecycle <;> simp [Actuator.dispatch, Actuator.kinds, applies, h]
  | .dict cs => by
    cases h : e.lifecycle
    · have := Actuator.kinds_nonlife e h (.dict cs)
      simp [Actuator.dispatch, h, this]
    · simp [Actuator.dispatch, Actuator.kinds, h, Actuator.dispatchL_eq e cs]
  | .wrap s w => by
    cases h : e.lifecycle
    · have := Actuator.kinds_nonlife e h (.wrap s w)
      simp [Actuator.dispatch, h, this]
    · simp [Actuator.dispatch, Actuator.kinds, h, Actuator.dispatch_eq e s, Wrap.dispatch_eq]
theorem Actuator.dispatchL_eq (e : Event) :
    (cs : List (String × Actuator)) →
      Actuator.dispatchL e cs = ((Actuator.kindsL cs).filter (fun x => applies e x.2)).map Prod.fst
  | [] => by simp [Actuator.dispatchL, Actuator.kindsL]
  | (n, s) :: rest => by
    simp [Actuator.dispatchL, Actuator.kindsL, Actuator.dispatch_eq e s,
      Actuator.dispatchL_eq e rest]
end

theorem Env.kinds_nonlife (e : Event) (h : e.lifecycle = false) (env : Env) :
    (env.kinds.filter (fun x => applies e x.2)).map Prod.fst = [] := by
  induction env with
  | leaf id => simp [Env.kinds, applies, h]
  | modular s a =>
    simp only [Env.kinds, List.filter_append, List.map_append, Sensor.kinds_nonlife e h s,
      Actuator.kinds_nonlife e h a, List.append_nil]
  | wrap env o a ih =>
    simp only [Env.kinds, List.filter_append, List.map_append, ih, Wrap.kinds_nonlife e h o,
      Wrap.kinds_nonlife e h a, List.append_nil]

theorem Env.dispatch_eq (e : Event) (env : Env) :
    env.dispatch e = (env.kinds.filter (fun x => applies e x.2)).map Prod.fst := by
  induction env with
  | leaf id => cases h : e.lifecycle <;> simp [Env.dispatch, Env.kinds, applies, h]
  | modular s a =>
    cases h : e.lifecycle
    · have := Env.kinds_nonlife e h (.modular s a)
      simp [Env.dispatch, h, this]
    · simp [Env.dispatch, Env.kinds, h, Sensor.dispatch_eq, Actuator.dispatch_eq]
  | wrap env o a ih =>
    cases h : e.lifecycle
    · have := Env.kinds_nonlife e h (.wrap env o a)
      simp [Env.dispatch, h, this]
    · simp [Env.dispatch, Env.kinds, h, ih, Wrap.dispatch_eq]

/-! ### Data -/

theorem Val.tags_atom (s : Nat) (ws : List Nat) : (t : List Nat) →
    (Val.atom s t).tags ws = .atom s (t ++ ws) := by
  induction ws with
  | nil => intro t; simp [Val.tags]
  | cons w ws ih =>
    intro t
    have := ih (t ++ [w])
    simp only [Val.tags, List.foldl_cons, Val.tag] at this ⊢
    simpa using this

theorem Val.tagL_eq_map (w : Nat) : (kvs : List (String × Val)) →
    Val.tagL w kvs = kvs.map (fun kv => (kv.1, kv.2.tag w))
  | [] => by simp [Val.tagL]
  | (k, v) :: rest => by simp [Val.tagL, Val.tagL_eq_map w rest]

theorem Val.tags_dict (ws : List Nat) : (kvs : List (String × Val)) →
    (Val.dict kvs).tags ws = .dict (kvs.map (fun kv => (kv.1, kv.2.tags ws))) := by
  induction ws with
  | nil => intro kvs; simp [Val.tags]
  | cons w ws ih =>
    intro kvs
    have := ih (Val.tagL w kvs)
    simp only [Val.tags, List.foldl_cons, Val.tag] at this ⊢
    rw [this, Val.tagL_eq_map]
    simp [List.map_map, Function.comp_def]

theorem Val.tags_cons (w : Nat) (ws : List Nat) (v : Val) : (v.tag w).tags ws = v.tags (w :: ws) := by
  simp [Val.tags]

theorem Val.tags_snoc (w : Nat) (ws : List Nat) (v : Val) : (v.tags ws).tag w = v.tags (ws ++ [w]) := by
  simp [Val.tags]

mutual
theorem Sensor.read_atoms (keys : List String) (outer : List Nat) :
    (s : Sensor) → ((s.read).tags outer).atoms keys = s.sources keys outer
  | .leaf id => by simp [Sensor.read, Val.tags_atom, Val.atoms, Sensor.sources]
  | .dict cs => by
    simp only [Sensor.read, Val.tags_dict, Val.atoms, Sensor.sources]
    exact Sensor.readL_atoms keys outer cs
  | .wrap s w => by
    simp only [Sensor.read, Wrap.apply, Val.tags_cons, Sensor.sources]
    exact Sensor.read_atoms keys (w.id :: outer) s
theorem Sensor.readL_atoms (keys : List String) (outer : List Nat) :
    (cs : List (String × Sensor)) →
      Val.atomsL keys ((Sensor.readL cs).map (fun kv => (kv.1, kv.2.tags outer)))
        = Sensor.sourcesL keys outer cs
  | [] => by simp [Sensor.readL, Val.atomsL, Sensor.sourcesL]
  | (k, s) :: rest => by
    simp only [Sensor.readL, List.map_cons, Val.atomsL, Sensor.sourcesL]
    rw [Sensor.read_atoms (keys ++ [k]) outer s, Sensor.readL_atoms keys outer rest]
end

theorem Env.observe_atoms (outer : List Nat) (e : Env) :
    ((e.observe).tags outer).atoms [] = e.sources outer := by
  induction e generalizing outer with
  | leaf id => simp [Env.observe, Val.tags_atom, Val.atoms, Env.sources]
  | modular s a => simpa [Env.observe, Env.sources] using Sensor.read_atoms [] outer s
  | wrap e o a ih =>
    simp only [Env.observe, Wrap.apply, Val.tags_cons, Env.sources]
    exact ih (o.id :: outer)

theorem lookup_map_snd {β γ : Type} (f : β → γ) (k : String) : (kvs : List (String × β)) →
    (kvs.map (fun kv => (kv.1, f kv.2))).lookup k = (kvs.lookup k).map f
  | [] => by simp
  | (k', v) :: rest => by
    simp only [List.map_cons, List.lookup_cons]
    cases h : k == k'
    · simpa using lookup_map_snd f k rest
    · simp

theorem Val.getItem_tags (ws : List Nat) (k : String) (v : Val) :
    (v.tags ws).getItem k = (match v.getItem k with
      | .ok x => .ok (x.tags ws)
      | .error e => .error e) := by
  cases v with
  | atom s t => simp [Val.tags_atom, Val.getItem]
  | dict kvs =>
    simp only [Val.tags_dict, Val.getItem, lookup_map_snd]
    cases kvs.lookup k <;> simp

theorem Val.getPath_snoc (k : String) : (keys : List String) → (v : Val) →
    v.getPath (keys ++ [k]) = (match v.getPath keys with
      | some x => (match x.getItem k with | .ok y => some y | .error _ => none)
      | none => none)
  | [], v => by
    simp only [List.nil_append, Val.getPath]
    cases v.getItem k <;> simp [Val.getPath]
  | k' :: ks, v => by
    simp only [List.cons_append, Val.getPath]
    cases v.getItem k' with
    | ok x => simpa using Val.getPath_snoc k ks x
    | error e => simp

theorem deliverSpec_append (v : Val) : (a b : List Route) → (la lb : List (LeafId × Val)) →
    deliverSpec v a = some la → deliverSpec v b = some lb → deliverSpec v (a ++ b) = some (la ++ lb)
  | [], b, la, lb, ha, hb => by
    simp [deliverSpec] at ha; subst ha; simpa using hb
  | r :: rs, b, la, lb, ha, hb => by
    simp only [deliverSpec] at ha
    split at ha
    · rename_i x rest hx hrest
      simp at ha; subst ha
      have := deliverSpec_append v rs b rest lb hrest hb
      simp [deliverSpec, hx, this]
    · simp at ha

mutual
theorem Actuator.operate_spec (v0 : Val) :
    (a : Actuator) → (keys : List String) → (ws : List Nat) → (x : Val) →
      (log : List (LeafId × Val)) → v0.getPath keys = some x →
      a.operate (x.tags ws) = (log, none) → deliverSpec v0 (a.sinks keys ws) = some log
  | .leaf id, keys, ws, x, log, hx, h => by
    simp [Actuator.operate] at h
    subst h
    simp [Actuator.sinks, deliverSpec, hx]
  | .dict cs, keys, ws, x, log, hx, h => by
    simp only [Actuator.operate] at h
    simpa [Actuator.sinks] using Actuator.operateL_spec v0 cs keys ws x log hx h
  | .wrap a w, keys, ws, x, log, hx, h => by
    simp only [Actuator.operate, Wrap.apply, Val.tags_snoc] at h
    simpa [Actuator.sinks] using Actuator.operate_spec v0 a keys (ws ++ [w.id]) x log hx h
theorem Actuator.operateL_spec (v0 : Val) :
    (cs : List (String × Actuator)) → (keys : List String) → (ws : List Nat) → (x : Val) →
      (log : List (LeafId × Val)) → v0.getPath keys = some x →
      Actuator.operateL (x.tags ws) cs = (log, none) →
      deliverSpec v0 (Actuator.sinksL keys ws cs) = some log
  | [], keys, ws, x, log, hx, h => by
    simp [Actuator.operateL] at h
    subst h
    simp [Actuator.sinksL, deliverSpec]
  | (k, a) :: rest, keys, ws, x, log, hx, h => by
    simp only [Actuator.operateL, Val.getItem_tags] at h
    cases hk : x.getItem k with
    | error e => simp [hk] at h
    | ok xk =>
      simp only [hk] at h
      cases ha : a.operate (xk.tags ws) with
      | mk l1 r1 =>
        cases r1 with
        | some e => simp [ha] at h
        | none =>
          simp only [ha] at h
          cases hr : Actuator.operateL (x.tags ws) rest with
          | mk l2 r2 =>
            simp only [hr, Prod.mk.injEq] at h
            obtain ⟨hlog, hr2⟩ := h
            subst hlog; subst hr2
            have hxk : v0.getPath (keys ++ [k]) = some xk := by
              rw [Val.getPath_snoc, hx]; simp [hk]
            have h1 := Actuator.operate_spec v0 a (keys ++ [k]) ws xk l1 hxk ha
            have h2 := Actuator.operateL_spec v0 rest keys ws x l2 hx hr
            simpa [Actuator.sinksL] using deliverSpec_append v0 _ _ l1 l2 h1 h2
end

theorem Env.affect_spec (v0 : Val) (e : Env) (ws : List Nat) (log : List (LeafId × Val))
    (h : e.affect (v0.tags ws) = (log, none)) : deliverSpec v0 (e.sinks ws) = some log := by
  induction e generalizing ws with
  | leaf id =>
    simp [Env.affect] at h
    subst h
    simp [Env.sinks, deliverSpec, Val.getPath]
  | modular s a =>
    simp only [Env.affect] at h
    simpa [Env.sinks] using Actuator.operate_spec v0 a [] ws v0 log (by simp [Val.getPath]) h
  | wrap e o a ih =>
    simp only [Env.affect, Wrap.apply, Val.tags_snoc] at h
    simpa [Env.sinks] using ih (ws ++ [a.id]) h

theorem Sensor.readL_eq_map : (cs : List (String × Sensor)) →
    Sensor.readL cs = cs.map (fun kc => (kc.1, kc.2.read))
  | [] => by simp [Sensor.readL]
  | (k, s) :: rest => by simp [Sensor.readL, Sensor.readL_eq_map rest]

end Pamiq.Tree
