import Pamiq.Model.ProtoBg
set_option linter.unusedSimpArgs false
namespace Pamiq.Proto

@[simp] theorem synthB_resume (th : BThread) (r d : Bool) : (synthB th r d).resume = r := rfl
@[simp] theorem synthB_shutdown (th : BThread) (r d : Bool) : (synthB th r d).shutdown = d := rfl
@[simp] theorem synthB_thr (th : BThread) (r d : Bool) : (synthB th r d).thr = [th] := rfl
@[simp] theorem synthB_ctl (th : BThread) (r d : Bool) : (synthB th r d).ctl = {} := rfl
@[simp] theorem synthB_clock (th : BThread) (r d : Bool) : (synthB th r d).clockPaused = false := rfl

/-- **`bedge` is `bstep` seen from the thread**: on every state (the lock free when the thread takes it), an action
of thread `t` is enabled exactly when `bedge` allows it on the thread's record with the current flag values, and
leaves the record `bedge` gives. -/
theorem bedge_sound (s : St) (t : Nat) (th : BThread) (a : Act) (ht : s.thr[t]? = some th) (henv : envOkB s a) :
    (bstep s t th a).map (fun s' => s'.thr[t]?) = (bedge th a s.resume s.shutdown).map some := by
  have hlt : t < s.thr.length := by
    rcases Nat.lt_or_ge t s.thr.length with h | h
    · exact h
    · simp [List.getElem?_eq_none h] at ht
  cases a <;>
    simp only [bstep, bedge, St.setThr, envOkB, synthB_resume, synthB_shutdown, synthB_thr, synthB_ctl] at henv ⊢ <;>
    (repeat' split) <;> first | (simp_all [St.setThr, List.getElem?_set]; done) | grind [St.setThr]

end Pamiq.Proto
