/-
Helper lemmas for C14 (not property statements): association lists with distinct keys, the closed
form `build` of `TrainingModelsDict(models)`, and the effect of `sync` / `sync_models` /
`load_state` as maps over the stored models.
-/
import Pamiq.Model.Models

namespace Pamiq.Models

/-! ### Association lists -/

theorem assocSet_absent {α} (k : String) (v : α) :
    (l : List (String × α)) → k ∉ l.map Prod.fst → assocSet k v l = l ++ [(k, v)]
  | [], _ => by simp [assocSet]
  | (k', v') :: rest, h => by
    simp only [List.map_cons, List.mem_cons, not_or] at h
    have hne : ¬ k' = k := fun e => h.1 e.symm
    simp [assocSet, hne, assocSet_absent k v rest h.2]

theorem lookup_of_mem {α} (k : String) (v : α) :
    (l : List (String × α)) → (l.map Prod.fst).Nodup → (k, v) ∈ l → l.lookup k = some v
  | [], _, h => by simp at h
  | (k', v') :: rest, hnd, h => by
    simp only [List.map_cons, List.nodup_cons] at hnd
    simp only [List.mem_cons, Prod.mk.injEq] at h
    rcases h with ⟨rfl, rfl⟩ | h
    · simp [List.lookup]
    · have hne : k ≠ k' := by
        intro e; subst e
        exact hnd.1 (List.mem_map.2 ⟨(k, v), h, rfl⟩)
      have : (k == k') = false := by simpa using hne
      simp [List.lookup, this, lookup_of_mem k v rest hnd.2 h]

theorem mem_of_lookup {α} (k : String) (v : α) :
    (l : List (String × α)) → l.lookup k = some v → (k, v) ∈ l
  | [], h => by simp at h
  | (k', v') :: rest, h => by
    simp only [List.lookup] at h
    split at h
    · rename_i heq
      have : k = k' := by simpa using heq
      simp at h; subst h; subst this; simp
    · exact List.mem_cons_of_mem _ (mem_of_lookup k v rest h)

theorem lookup_map_val {α β} (f : String → α → β) (k : String) :
    (l : List (String × α)) →
      (l.map (fun kv => (kv.1, f kv.1 kv.2))).lookup k = (l.lookup k).map (f k)
  | [] => by simp
  | (k', v) :: rest => by
    simp only [List.map_cons, List.lookup]
    cases h : k == k'
    · simpa using lookup_map_val f k rest
    · have : k = k' := by simpa using h
      subst this; simp

/-! ### Closed form of the constructor -/

/-- A model as it comes out of its own constructor. -/
def Model.fresh (m : Model) : Prop := m.infObj = none

/-- What `TrainingModelsDict(items)` stores: every model with an inference model gets the next
object id, in insertion order. -/
def build : Nat → List (String × Model) → List (String × Model) × List (String × ObjId) × Nat
  | n, [] => ([], [], n)
  | n, (k, m) :: rest =>
    if m.hasInf then
      let r := build (n + 1) rest
      ((k, { m with infObj := some n, infVersion := m.trainVersion }) :: r.1, (k, n) :: r.2.1, r.2.2)
    else
      let r := build n rest
      ((k, m) :: r.1, r.2.1, r.2.2)

theorem build_names (n : Nat) : (items : List (String × Model)) →
    (build n items).1.map Prod.fst = items.map Prod.fst
  | [] => by simp [build]
  | (k, m) :: rest => by
    simp only [build]
    split <;> simp [build_names _ rest]

theorem build_inf_names_sub (n : Nat) : (items : List (String × Model)) →
    ∀ k ∈ (build n items).2.1.map Prod.fst, k ∈ items.map Prod.fst
  | [] => by simp [build]
  | (k, m) :: rest => by
    intro k' hk'
    simp only [build] at hk'
    split at hk'
    · simp only [List.map_cons, List.mem_cons] at hk' ⊢
      rcases hk' with h | h
      · exact Or.inl h
      · exact Or.inr (build_inf_names_sub _ rest k' h)
    · simp only [List.map_cons, List.mem_cons]
      exact Or.inr (build_inf_names_sub _ rest k' hk')

theorem ctor_eq_build : (items : List (String × Model)) → (d0 : Dict) →
    (items.map Prod.fst).Nodup → (∀ km ∈ items, km.2.fresh) →
    (∀ k ∈ items.map Prod.fst, k ∉ d0.data.map Prod.fst) →
    (∀ k ∈ d0.inf.map Prod.fst, k ∈ d0.data.map Prod.fst) →
    Dict.ctor items d0 = .ok
      { data := d0.data ++ (build d0.nextObj items).1, inf := d0.inf ++ (build d0.nextObj items).2.1,
        nextObj := (build d0.nextObj items).2.2 }
  | [], d0, _, _, _, _ => by simp [Dict.ctor, build]
  | (k, m) :: rest, d0, hnd, hfresh, hdisj, hinf => by
    simp only [List.map_cons, List.nodup_cons] at hnd
    have hk : k ∉ d0.data.map Prod.fst := hdisj k (by simp)
    have hk' : k ∉ d0.inf.map Prod.fst := fun h => hk (hinf k h)
    have hm : m.infObj = none := hfresh (k, m) (by simp)
    have hrestfresh : ∀ km ∈ rest, km.2.fresh := fun km h => hfresh km (by simp [h])
    cases hh : m.hasInf
    · -- no inference model
      have hstep : d0.setItem k m = .ok { d0 with data := d0.data ++ [(k, m)] } := by
        simp [Dict.setItem, hh, assocSet_absent k m d0.data hk]
      have ih := ctor_eq_build rest { d0 with data := d0.data ++ [(k, m)] } hnd.2 hrestfresh
        (by
          intro k' hk'' hin
          simp only [List.map_append, List.mem_append, List.map_cons, List.map_nil,
            List.mem_singleton] at hin
          rcases hin with hin | hin
          · exact hdisj k' (by simp [hk'']) hin
          · subst hin; exact hnd.1 hk'')
        (by intro k' h; simp only [List.map_append, List.mem_append]; exact Or.inl (hinf k' h))
      rw [Dict.ctor, hstep]
      simp only []
      rw [ih]
      simp [build, hh]
    · have hstep : d0.setItem k m = .ok
          { data := d0.data ++ [(k, { m with infObj := some d0.nextObj, infVersion := m.trainVersion })],
            inf := d0.inf ++ [(k, d0.nextObj)], nextObj := d0.nextObj + 1 } := by
        simp [Dict.setItem, Model.inferenceModel, hh, hm, assocSet_absent k _ d0.data hk,
          assocSet_absent k _ d0.inf hk']
      have ih := ctor_eq_build rest
        { data := d0.data ++ [(k, { m with infObj := some d0.nextObj, infVersion := m.trainVersion })],
          inf := d0.inf ++ [(k, d0.nextObj)], nextObj := d0.nextObj + 1 } hnd.2 hrestfresh
        (by
          intro k' hk'' hin
          simp only [List.map_append, List.mem_append, List.map_cons, List.map_nil,
            List.mem_singleton] at hin
          rcases hin with hin | hin
          · exact hdisj k' (by simp [hk'']) hin
          · subst hin; exact hnd.1 hk'')
        (by
          intro k' h
          simp only [List.map_append, List.mem_append, List.map_cons, List.map_nil,
            List.mem_singleton] at h ⊢
          rcases h with h | h
          · exact Or.inl (hinf k' h)
          · exact Or.inr h)
      rw [Dict.ctor, hstep]
      simp only []
      rw [ih]
      simp [build, hh]

theorem lookup_none_of_not_mem {α} (k : String) :
    (l : List (String × α)) → k ∉ l.map Prod.fst → l.lookup k = none
  | [], _ => by simp
  | (k', v) :: rest, h => by
    simp only [List.map_cons, List.mem_cons, not_or] at h
    have : (k == k') = false := by simpa using h.1
    simp [List.lookup, this, lookup_none_of_not_mem k rest h.2]

/-- Flags and parameters of a stored model are those of the item it was built from. -/
theorem build_data_lookup (k : String) : (n : Nat) → (items : List (String × Model)) →
    ((build n items).1.lookup k).map (fun m => (m.hasInf, m.infOnly, m.trainVersion)) =
      (items.lookup k).map (fun m => (m.hasInf, m.infOnly, m.trainVersion))
  | n, [] => by simp [build]
  | n, (k', m) :: rest => by
    simp only [build]
    split
    · simp only [List.lookup]
      cases h : k == k'
      · simpa using build_data_lookup k (n + 1) rest
      · simp
    · simp only [List.lookup]
      cases h : k == k'
      · simpa using build_data_lookup k n rest
      · simp

/-- The inference dictionary has an entry exactly for the models that have an inference model. -/
theorem build_inf_lookup (k : String) : (n : Nat) → (items : List (String × Model)) →
    (items.map Prod.fst).Nodup →
    ((build n items).2.1.lookup k).isSome =
      (match items.lookup k with | some m => m.hasInf | none => false)
  | n, [], _ => by simp [build]
  | n, (k', m) :: rest, hnd => by
    simp only [List.map_cons, List.nodup_cons] at hnd
    simp only [build]
    cases hh : m.hasInf
    · simp only [Bool.false_eq_true, if_false, List.lookup]
      cases h : k == k'
      · simpa using build_inf_lookup k n rest hnd.2
      · have hk : k = k' := by simpa using h
        subst hk
        have : k ∉ (build n rest).2.1.map Prod.fst := fun hin => hnd.1 (build_inf_names_sub n rest k hin)
        simp [lookup_none_of_not_mem k _ this, hh]
    · simp only [if_true, List.lookup]
      cases h : k == k'
      · simpa using build_inf_lookup k (n + 1) rest hnd.2
      · simp [hh]

/-- The object listed for `k` in the inference dictionary is the one owned by the model stored
under `k`. -/
theorem build_obj (k : String) (o : ObjId) : (n : Nat) → (items : List (String × Model)) →
    (items.map Prod.fst).Nodup → (build n items).2.1.lookup k = some o →
    ∃ m', (build n items).1.lookup k = some m' ∧ m'.hasInf = true ∧ m'.infObj = some o
  | n, [], _, h => by simp [build] at h
  | n, (k', m) :: rest, hnd, h => by
    simp only [List.map_cons, List.nodup_cons] at hnd
    simp only [build] at h ⊢
    cases hh : m.hasInf
    · simp only [hh, Bool.false_eq_true, if_false, List.lookup] at h ⊢
      cases hk : k == k'
      · simpa using build_obj k o n rest hnd.2 h
      · have hk' : k = k' := by simpa using hk
        subst hk'
        have hin : k ∈ (build n rest).2.1.map Prod.fst :=
          List.mem_map.2 ⟨(k, o), mem_of_lookup k o _ h, rfl⟩
        exact absurd (build_inf_names_sub n rest k hin) hnd.1
    · simp only [hh, if_true, List.lookup] at h ⊢
      cases hk : k == k'
      · simp only [hk] at h
        simpa using build_obj k o (n + 1) rest hnd.2 h
      · simp only [hk] at h
        simp at h
        simp [hh, h]

/-- Object ids are handed out consecutively: no two models share an inference object. -/
theorem build_objs : (n : Nat) → (items : List (String × Model)) →
    (build n items).2.1.map Prod.snd = List.range' n ((items.filter (fun km => km.2.hasInf)).length) ∧
    (build n items).2.2 = n + (items.filter (fun km => km.2.hasInf)).length
  | n, [] => by simp [build]
  | n, (k, m) :: rest => by
    simp only [build]
    cases hh : m.hasInf
    · have := build_objs n rest
      simp [hh, this.1, this.2]
    · have := build_objs (n + 1) rest
      simp [hh, this.1, this.2, List.range'_succ]
      omega

theorem build_data_objs : (n : Nat) → (items : List (String × Model)) → (∀ km ∈ items, km.2.fresh) →
    (build n items).1.filterMap (fun km => km.2.infObj) = (build n items).2.1.map Prod.snd
  | n, [], _ => by simp [build]
  | n, (k, m) :: rest, hf => by
    have hm : m.infObj = none := hf (k, m) (by simp)
    have hr : ∀ km ∈ rest, km.2.fresh := fun km h => hf km (by simp [h])
    simp only [build]
    cases hh : m.hasInf
    · simp [hh, hm, build_data_objs n rest hr]
    · simp [hh, build_data_objs (n + 1) rest hr]

/-- `TrainingModelsDict(items)` from nothing. -/
theorem ctor_empty (items : List (String × Model)) (hnd : (items.map Prod.fst).Nodup)
    (hfresh : ∀ km ∈ items, km.2.fresh) :
    Dict.ctor items Dict.empty = .ok
      { data := (build 0 items).1, inf := (build 0 items).2.1, nextObj := (build 0 items).2.2 } := by
  have := ctor_eq_build items Dict.empty hnd hfresh (by simp [Dict.empty]) (by simp [Dict.empty])
  simpa [Dict.empty] using this

/-! ### `sync` as a pure function on models that already own their inference object -/

def Model.synced (m : Model) : Model :=
  if m.needSync then { m with infVersion := m.trainVersion } else m

/-- Every stored model that has an inference model has created it (true after construction,
because `__setitem__` touches `inference_model`). -/
def Created (data : List (String × Model)) : Prop :=
  ∀ km ∈ data, km.2.hasInf = true → ∃ o, km.2.infObj = some o

@[simp] theorem Model.synced_hasInf (m : Model) : m.synced.hasInf = m.hasInf := by
  unfold Model.synced; split <;> rfl
@[simp] theorem Model.synced_infOnly (m : Model) : m.synced.infOnly = m.infOnly := by
  unfold Model.synced; split <;> rfl
@[simp] theorem Model.synced_infObj (m : Model) : m.synced.infObj = m.infObj := by
  unfold Model.synced; split <;> rfl
@[simp] theorem Model.synced_trainVersion (m : Model) : m.synced.trainVersion = m.trainVersion := by
  unfold Model.synced; split <;> rfl
@[simp] theorem Model.synced_needSync (m : Model) : m.synced.needSync = m.needSync := by
  simp [Model.needSync]
theorem Model.synced_infVersion (m : Model) :
    m.synced.infVersion = if m.needSync then m.trainVersion else m.infVersion := by
  unfold Model.synced; split <;> rfl
@[simp] theorem Model.synced_synced (m : Model) : m.synced.synced = m.synced := by
  unfold Model.synced
  split
  · rename_i h
    have : ({ m with infVersion := m.trainVersion } : Model).needSync = true := by
      simpa [Model.needSync] using h
    simp [this]
  · rename_i h; simp [h]

theorem Model.sync_created (m : Model) (n : Nat) (h : m.hasInf = true → ∃ o, m.infObj = some o) :
    m.sync n = .ok (m.synced, (if m.needSync then m.infObj else none), n) := by
  unfold Model.sync Model.synced
  cases hs : m.needSync
  · simp
  · have hh : m.hasInf = true := by
      simp [Model.needSync] at hs; exact hs.1
    obtain ⟨o, ho⟩ := h hh
    simp [Model.inferenceModel, hh, ho]

theorem mapAt_eq {α} (k : String) (f : α → α) (l : List (String × α)) :
    mapAt k f l = l.map (fun kv => (kv.1, if kv.1 = k then f kv.2 else kv.2)) := by
  unfold mapAt
  apply List.map_congr_left
  intro kv _
  split <;> rfl

theorem map_val_names {α β} (F : String → α → β) (l : List (String × α)) :
    (l.map (fun kv => (kv.1, F kv.1 kv.2))).map Prod.fst = l.map Prod.fst := by
  simp [List.map_map, Function.comp_def]

theorem Created.map (F : String → Model → Model) (data : List (String × Model))
    (hF : ∀ k m, (F k m).hasInf = m.hasInf ∧ (F k m).infObj = m.infObj) (h : Created data) :
    Created (data.map (fun kv => (kv.1, F kv.1 kv.2))) := by
  intro km hkm hh
  obtain ⟨kv, hkv, rfl⟩ := List.mem_map.1 hkm
  have := hF kv.1 kv.2
  simp only [this.1] at hh
  obtain ⟨o, ho⟩ := h kv hkv hh
  exact ⟨o, by simp [this.2, ho]⟩

def stepF (k : String) : String → Model → Model := fun k' m => if k' = k then m.synced else m
def allF (names : List String) : String → Model → Model :=
  fun k' m => if k' ∈ names then m.synced else m

/-- What `sync_impl` is called with for name `k`, read off the stored models. -/
def syncTarget (data : List (String × Model)) (k : String) : Option (String × ObjId) :=
  match data.lookup k with
  | some m => if m.needSync then m.infObj.map (fun o => (k, o)) else none
  | none => none

theorem Dict.syncAt_eq (d d' : Dict) (k : String) (o : Option ObjId)
    (hnd : (d.data.map Prod.fst).Nodup) (hc : Created d.data) (h : d.syncAt k = .ok (d', o)) :
    ∃ m, d.data.lookup k = some m ∧ m.infOnly = false ∧
      d' = { d with data := d.data.map (fun kv => (kv.1, stepF k kv.1 kv.2)) } ∧
      o = (if m.needSync then m.infObj else none) := by
  unfold Dict.syncAt Dict.getItem at h
  cases hl : d.data.lookup k with
  | none => simp [hl] at h
  | some m =>
    simp only [hl] at h
    cases hio : m.infOnly
    · simp only [hio, Bool.false_eq_true, if_false] at h
      have hmem := mem_of_lookup k m d.data hl
      rw [Model.sync_created m d.nextObj (hc (k, m) hmem)] at h
      simp only [Bool.false_eq_true, if_false, Except.ok.injEq, Prod.mk.injEq] at h
      refine ⟨m, rfl, hio, ?_, h.2.symm⟩
      rw [← h.1, mapAt_eq]
      congr 1
      apply List.map_congr_left
      intro kv hkv
      unfold stepF
      split
      · rename_i hk
        have : kv = (k, kv.2) := by rw [← hk]
        have hkv' : (k, kv.2) ∈ d.data := by rw [← this]; exact hkv
        have := lookup_of_mem k kv.2 d.data hnd hkv'
        rw [hl] at this
        simp at this
        rw [this]
      · rfl
    · simp [hio] at h

theorem allF_step (k : String) (rest : List String) (k' : String) (m : Model) :
    allF rest k' (stepF k k' m) = allF (k :: rest) k' m := by
  unfold allF stepF
  by_cases h1 : k' = k <;> by_cases h2 : k' ∈ rest <;> simp [h1, h2]

theorem syncTarget_map (F : String → Model → Model) (data : List (String × Model)) (k : String)
    (hF : ∀ k m, (F k m).needSync = m.needSync ∧ (F k m).infObj = m.infObj) :
    syncTarget (data.map (fun kv => (kv.1, F kv.1 kv.2))) k = syncTarget data k := by
  unfold syncTarget
  rw [lookup_map_val]
  cases data.lookup k with
  | none => rfl
  | some m => simp [(hF k m).1, (hF k m).2]

theorem stepF_pres (k k' : String) (m : Model) :
    (stepF k k' m).needSync = m.needSync ∧ (stepF k k' m).infObj = m.infObj ∧
    (stepF k k' m).hasInf = m.hasInf ∧ (stepF k k' m).infOnly = m.infOnly := by
  unfold stepF; split <;> simp

theorem Dict.syncNames_eq : (names : List String) → (d d' : Dict) → (log : List (String × ObjId)) →
    (d.data.map Prod.fst).Nodup → Created d.data → Dict.syncNames names d = .ok (d', log) →
    d' = { d with data := d.data.map (fun kv => (kv.1, allF names kv.1 kv.2)) } ∧
    log = names.filterMap (syncTarget d.data) ∧
    ∀ k ∈ names, ∃ m, d.data.lookup k = some m ∧ m.infOnly = false
  | [], d, d', log, _, _, h => by
    simp [Dict.syncNames] at h
    refine ⟨?_, by simp [h.2], by simp⟩
    rw [← h.1]
    cases d
    simp [allF]
  | k :: rest, d, d', log, hnd, hc, h => by
    simp only [Dict.syncNames] at h
    cases h1 : d.syncAt k with
    | error e => simp [h1] at h
    | ok r =>
      obtain ⟨d1, o⟩ := r
      simp only [h1] at h
      cases h2 : Dict.syncNames rest d1 with
      | error e => simp [h2] at h
      | ok r2 =>
        obtain ⟨d2, log2⟩ := r2
        simp only [h2, Except.ok.injEq, Prod.mk.injEq] at h
        obtain ⟨m, hl, hio, hd1, ho⟩ := Dict.syncAt_eq d d1 k o hnd hc h1
        have hnd1 : (d1.data.map Prod.fst).Nodup := by
          rw [hd1]; simp only []; rw [map_val_names]; exact hnd
        have hc1 : Created d1.data := by
          rw [hd1]; simp only []
          exact Created.map (stepF k) d.data
            (fun k' m' => ⟨(stepF_pres k k' m').2.2.1, (stepF_pres k k' m').2.1⟩) hc
        obtain ⟨hd2, hlog2, hall⟩ := Dict.syncNames_eq rest d1 d2 log2 hnd1 hc1 h2
        refine ⟨?_, ?_, ?_⟩
        · rw [← h.1, hd2, hd1]
          simp only [List.map_map, Function.comp_def]
          congr 1
          apply List.map_congr_left
          intro kv _
          simp [allF_step]
        · rw [← h.2, hlog2, List.filterMap_cons]
          have htgt : ∀ k', syncTarget d1.data k' = syncTarget d.data k' := by
            intro k'
            rw [hd1]; simp only []
            exact syncTarget_map (stepF k) d.data k'
              (fun k'' m'' => ⟨(stepF_pres k k'' m'').1, (stepF_pres k k'' m'').2.1⟩)
          have hk : syncTarget d.data k = o.map (fun x => (k, x)) := by
            unfold syncTarget; rw [hl, ho]
            cases hq : m.needSync <;> simp [hq]
          rw [hk]
          have hfun : syncTarget d1.data = syncTarget d.data := funext htgt
          rw [hfun]
          cases o <;> simp
        · intro k' hk'
          simp only [List.mem_cons] at hk'
          rcases hk' with rfl | hk'
          · exact ⟨m, hl, hio⟩
          · obtain ⟨m1, hl1, hio1⟩ := hall k' hk'
            rw [hd1] at hl1; simp only [] at hl1
            rw [lookup_map_val] at hl1
            cases hl0 : d.data.lookup k' with
            | none => simp [hl0] at hl1
            | some m0 =>
              simp [hl0] at hl1
              refine ⟨m0, rfl, ?_⟩
              rw [← hl1] at hio1
              simpa [(stepF_pres k k' m0).2.2.2] using hio1

/-! ### `load_state` -/

def loadF (saved : List (String × Nat)) : String → Model → Model := fun k m =>
  match saved.lookup k with
  | some v => ({ m with trainVersion := v } : Model).synced
  | none => m

theorem loadAll_eq (saved : List (String × Nat)) :
    (data : List (String × Model)) → (n : Nat) → (data' : List (String × Model)) →
    (log : List (String × ObjId)) → (n' : Nat) → Created data →
    loadAll saved data n = .ok (data', log, n') →
    n' = n ∧ (∀ kv ∈ data, ∃ v, saved.lookup kv.1 = some v) ∧
    data' = data.map (fun kv => (kv.1, loadF saved kv.1 kv.2)) ∧
    log = data.filterMap (fun kv => if kv.2.needSync then kv.2.infObj.map (fun o => (kv.1, o)) else none)
  | [], n, data', log, n', _, h => by
    simp [loadAll] at h
    simp [h]
  | (k, m) :: rest, n, data', log, n', hc, h => by
    simp only [loadAll] at h
    cases hl : saved.lookup k with
    | none => simp [hl] at h
    | some v =>
      simp only [hl] at h
      have hcm : ({ m with trainVersion := v } : Model).hasInf = true →
          ∃ o, ({ m with trainVersion := v } : Model).infObj = some o := by
        intro hh; exact hc (k, m) (by simp) hh
      rw [Model.sync_created _ n hcm] at h
      simp only [] at h
      cases hr : loadAll saved rest n with
      | error e => simp [hr] at h
      | ok r =>
        obtain ⟨rest', log', n''⟩ := r
        simp only [hr, Except.ok.injEq, Prod.mk.injEq] at h
        have hcr : Created rest := fun km hkm => hc km (by simp [hkm])
        obtain ⟨hn, hall, hdata, hlog⟩ := loadAll_eq saved rest n rest' log' n'' hcr hr
        refine ⟨by rw [← h.2.2, hn], ?_, ?_, ?_⟩
        · intro kv hkv
          simp only [List.mem_cons] at hkv
          rcases hkv with rfl | hkv
          · exact ⟨v, hl⟩
          · exact hall kv hkv
        · rw [← h.1, hdata]
          simp [loadF, hl]
        · rw [← h.2.1, hlog, List.filterMap_cons]
          have hns : ({ m with trainVersion := v } : Model).needSync = m.needSync := rfl
          have hio : ({ m with trainVersion := v } : Model).infObj = m.infObj := rfl
          simp only [hns, hio]
          cases hq : m.needSync <;> cases hq2 : m.infObj <;> simp

/-! ### `train` -/

/-- The last value a training run assigns to model `k` (later assignments win). -/
def lastBump : List (String × Nat) → String → Option Nat
  | [], _ => none
  | (k, v) :: rest, k' =>
    match lastBump rest k' with
    | some x => some x
    | none => if k' = k then some v else none

theorem lastBump_mem (k : String) (v : Nat) : (bumps : List (String × Nat)) →
    lastBump bumps k = some v → ∃ b ∈ bumps, b.1 = k
  | [], h => by simp [lastBump] at h
  | (bk, bv) :: bs, h => by
    simp only [lastBump] at h
    cases hrest : lastBump bs k with
    | some x =>
      obtain ⟨b', hb', he⟩ := lastBump_mem k x bs hrest
      exact ⟨b', by simp [hb'], he⟩
    | none =>
      simp only [hrest] at h
      split at h
      · rename_i heq; exact ⟨(bk, bv), by simp, heq.symm⟩
      · simp at h

def trainF (bumps : List (String × Nat)) : String → Model → Model := fun k m =>
  match lastBump bumps k with
  | some v => { m with trainVersion := v }
  | none => m

theorem trainModels_eq (names : List String) :
    (bumps : List (String × Nat)) → (data data' : List (String × Model)) →
    trainModels names bumps data = .ok data' →
    (∀ b ∈ bumps, b.1 ∈ names) ∧ data' = data.map (fun kv => (kv.1, trainF bumps kv.1 kv.2))
  | [], data, data', h => by
    simp [trainModels] at h
    simp [← h, trainF, lastBump]
  | (k, v) :: rest, data, data', h => by
    simp only [trainModels] at h
    split at h
    · rename_i hc
      obtain ⟨hall, hd⟩ := trainModels_eq names rest _ data' h
      refine ⟨?_, ?_⟩
      · intro b hb
        simp only [List.mem_cons] at hb
        rcases hb with rfl | hb
        · simpa using hc
        · exact hall b hb
      · rw [hd, mapAt_eq]
        simp only [List.map_map, Function.comp_def]
        apply List.map_congr_left
        intro kv _
        simp only [trainF, lastBump]
        cases hlb : lastBump rest kv.1 with
        | some x => by_cases hk : kv.1 = k <;> simp [hk]
        | none => by_cases hk : kv.1 = k <;> simp [hk]
    · simp at h

/-! ### Completion (no `KeyError` out of `sync_models`) -/

theorem Dict.syncNames_completes : (names : List String) → (d : Dict) →
    (d.data.map Prod.fst).Nodup → Created d.data →
    (∀ k ∈ names, ∃ m, d.data.lookup k = some m ∧ m.infOnly = false) →
    ∃ d' log, Dict.syncNames names d = .ok (d', log)
  | [], d, _, _, _ => ⟨d, [], by simp [Dict.syncNames]⟩
  | k :: rest, d, hnd, hc, hall => by
    obtain ⟨m, hl, hio⟩ := hall k (by simp)
    have hmem := mem_of_lookup k m d.data hl
    have h1 : ∃ d1 o, d.syncAt k = .ok (d1, o) := by
      unfold Dict.syncAt Dict.getItem
      simp only [hl, hio, Bool.false_eq_true, if_false]
      rw [Model.sync_created m d.nextObj (hc (k, m) hmem)]
      exact ⟨_, _, rfl⟩
    obtain ⟨d1, o, h1⟩ := h1
    obtain ⟨_, _, _, hd1, -⟩ := Dict.syncAt_eq d d1 k o hnd hc h1
    have hnd1 : (d1.data.map Prod.fst).Nodup := by
      rw [hd1]; simp only []; rw [map_val_names]; exact hnd
    have hc1 : Created d1.data := by
      rw [hd1]; simp only []
      exact Created.map (stepF k) d.data
        (fun k' m' => ⟨(stepF_pres k k' m').2.2.1, (stepF_pres k k' m').2.1⟩) hc
    have hall1 : ∀ k' ∈ rest, ∃ m, d1.data.lookup k' = some m ∧ m.infOnly = false := by
      intro k' hk'
      obtain ⟨m', hl', hio'⟩ := hall k' (by simp [hk'])
      refine ⟨stepF k k' m', ?_, by rw [(stepF_pres k k' m').2.2.2]; exact hio'⟩
      rw [hd1]; simp only []
      rw [lookup_map_val, hl']; rfl
    obtain ⟨d2, log2, h2⟩ := Dict.syncNames_completes rest d1 hnd1 hc1 hall1
    clear hd1
    cases o with
    | none => exact ⟨d2, log2, by simp [Dict.syncNames, h1, h2]⟩
    | some x => exact ⟨d2, (k, x) :: log2, by simp [Dict.syncNames, h1, h2]⟩

theorem trainModels_completes (names : List String) :
    (bumps : List (String × Nat)) → (data : List (String × Model)) →
    (∀ b ∈ bumps, b.1 ∈ names) → ∃ data', trainModels names bumps data = .ok data'
  | [], data, _ => ⟨data, by simp [trainModels]⟩
  | (k, v) :: rest, data, h => by
    have hk : k ∈ names := h (k, v) (by simp)
    obtain ⟨data', hd⟩ := trainModels_completes names rest
      (mapAt k (fun m => { m with trainVersion := v }) data) (fun b hb => h b (by simp [hb]))
    exact ⟨data', by simp [trainModels, hk, hd]⟩

theorem build_created : (n : Nat) → (items : List (String × Model)) → Created (build n items).1
  | n, [] => by simp [build, Created]
  | n, (k, m) :: rest => by
    intro km hkm hh
    simp only [build] at hkm
    split at hkm
    · simp only [List.mem_cons] at hkm
      rcases hkm with rfl | hkm
      · exact ⟨n, rfl⟩
      · exact build_created (n + 1) rest km hkm hh
    · rename_i hno
      simp only [List.mem_cons] at hkm
      rcases hkm with rfl | hkm
      · exact absurd hh hno
      · exact build_created n rest km hkm hh

theorem build_fresh : (n : Nat) → (items : List (String × Model)) →
    ∀ km ∈ (build n items).1, km.2.needSync = true → km.2.infVersion = km.2.trainVersion
  | n, [] => by simp [build]
  | n, (k, m) :: rest => by
    intro km hkm hs
    simp only [build] at hkm
    split at hkm
    · simp only [List.mem_cons] at hkm
      rcases hkm with rfl | hkm
      · rfl
      · exact build_fresh (n + 1) rest km hkm hs
    · rename_i hno
      simp only [List.mem_cons] at hkm
      rcases hkm with rfl | hkm
      · simp [Model.needSync] at hs
        exact absurd hs.1 hno
      · exact build_fresh n rest km hkm hs


end Pamiq.Models
