/-
Inductive invariant of the thread-protocol model `Pamiq.Proto` and its preservation by every
action. Helper lemmas only; the property theorems are in `Props/C01.lean`, `C02.lean`, ….
-/
import Pamiq.Model.Proto
namespace Pamiq.Proto

/-- The thread is somewhere between having acknowledged a pause and having left it: nothing of the
user's runs there. -/
def BThread.inWait (th : BThread) : Bool :=
  match th.pc with
  | .waitEnter | .blocked | .afterWait | .leave | .leaveBack | .clearing => true
  | .top => th.localPaused
  | _ => false

/-- Program counters at which a user callback may be executing. -/
def cbPc : BPc → Bool
  | .start | .hooksP | .hooksR | .tick | .fin => true
  | _ => false

/-- Program counters at which the thread holds the resume lock. -/
def lockPc : BPc → Bool
  | .leave | .clearing | .hooksR | .leaveBack | .excHeld => true
  | _ => false

/-- Control program counters that cannot occur while a pause is acknowledged. -/
def busyPc : CPc → Bool
  | .tpLock | .tpClear | .tpUnlock | .tpSpawn | .tpAck | .tpRetry
  | .rsClock | .rsSet | .sdClock | .sdSet => true
  | _ => false

/-- Control program counters inside a pause attempt. -/
def tpPc : CPc → Bool
  | .tpLock | .tpClear | .tpUnlock | .tpSpawn | .tpAck | .tpRetry => true
  | _ => false

/-- Per-thread part of the invariant (depends on the rest of the state only through the resume
event and the control thread's record). -/
def TInv (resume : Bool) (c : Ctl) (th : BThread) : Prop :=
  (th.pausedFlag = true → th.inWait = true ∧ th.localPaused = true) ∧
  (th.inCb.isSome = true → cbPc th.pc = true) ∧
  (lockPc th.pc = true → th.holds = true) ∧
  (th.pc = .clearing → resume = true) ∧
  (c.holds = true → th.holds = false) ∧
  ((c.pc = .tpSpawn ∨ c.pc = .tpAck) → th.wRes = some true → th.pausedFlag = true) ∧
  (c.pc = .tpAck → th.wRes = some true) ∧
  (c.paused = true → th.pausedFlag = true) ∧
  ((c.pc = .finalIn ∨ c.pc = .returned) → th.joined = true) ∧
  (th.inWait = true → th.inCb = none) ∧
  (th.raised = true → th.pc = .exc ∨ th.pc = .excHeld ∨ th.excFlag = true) ∧
  (th.pc = .new → th.inCb = none ∧ th.pausedFlag = false ∧ th.excFlag = false) ∧
  (th.excFlag = true → th.raised = true) ∧
  ((th.pc = .exc ∨ th.pc = .excHeld) → th.raised = true) ∧
  (th.joined = true → (th.pc = .done ∨ th.pc = .new) ∧ c.pc ≠ .boot) ∧
  (th.localPaused = true → th.inWait = true)

/-- Control-thread part of the invariant. -/
def CInv (resume clockPaused : Bool) (c : Ctl) : Prop :=
  ((c.pc = .tpClear ∨ c.pc = .tpUnlock) → c.holds = true) ∧
  ((c.pc = .tpUnlock ∨ c.pc = .tpSpawn ∨ c.pc = .tpAck) → resume = false) ∧
  (c.paused = true → busyPc c.pc = false ∧ resume = false ∧ clockPaused = true)

/-- Second control-thread part: facts about shutdown, saving and the resume event outside a pause. -/
def CInv2 (resume shutdown clockPaused : Bool) (c : Ctl) : Prop :=
  ((c.pc = .svBegin ∨ c.pc = .svIn ∨ c.pc = .tpDone true) → c.paused = true) ∧
  (resume = false → c.paused = true ∨ busyPc c.pc = true ∨ c.mustStop = true) ∧
  (shutdown = true → resume = true) ∧
  (shutdown = true → c.stopped = true ∨ c.mustStop = true ∨ c.pc = .sdDone) ∧
  ((c.pc = .sdDone ∨ c.pc = .sdShut ∨ c.pc = .rsDone ∨ c.pc = .tpDone false) → resume = true) ∧
  (tpPc c.pc = true → shutdown = false ∧ c.stopped = false) ∧
  ((c.pc = .sdSet ∨ c.pc = .sdShut ∨ c.pc = .sdDone) → clockPaused = false ∧ c.paused = false) ∧
  (c.pc = .sdDone → shutdown = true) ∧
  ((c.pc = .finalIn ∨ c.pc = .returned) → c.stopped = true) ∧
  (shutdown = true → c.cause = true ∨ c.mustStop = true) ∧
  ((c.pc = .sdSet ∨ c.pc = .sdShut) → c.cause = true ∨ c.mustStop = true) ∧
  (c.pc = .sdClock → c.cause = true ∨ c.mustStop = true ∨ c.stopped = true) ∧
  (c.mustStop = true → c.faultSeen = true ∨ c.ctlFault = true) ∧
  (c.stopped = true → clockPaused = false ∧ c.paused = false ∧ shutdown = true ∧
     (c.pc = .idle ∨ c.pc = .sdClock ∨ c.pc = .sdDone ∨ c.pc = .finalIn ∨ c.pc = .returned))

def HInv (s : St) : Prop :=
  (CInv s.resume s.clockPaused s.ctl ∧ CInv2 s.resume s.shutdown s.clockPaused s.ctl) ∧
  ∀ th ∈ s.thr, TInv s.resume s.ctl th

theorem TInv_init (mx : Nat) : TInv true { maxAttempts := mx } {} := by
  simp [TInv, BThread.inWait, cbPc, lockPc]

theorem HInv_init (n mx : Nat) : HInv (init n mx) := by
  constructor
  · simp [CInv, CInv2, init, busyPc, tpPc]
  · intro th hth
    simp only [init, List.mem_replicate] at hth
    obtain ⟨_, rfl⟩ := hth
    exact TInv_init mx

/-- Replacing one thread's record keeps the invariant if the new record satisfies `TInv`. -/
theorem HInv_setThr {s : St} {t : Nat} {th' : BThread} (h : HInv s)
    (hth : TInv s.resume s.ctl th') : HInv (s.setThr t th') := by
  refine ⟨h.1, ?_⟩
  intro x hx
  simp only [St.setThr] at hx
  rcases List.mem_or_eq_of_mem_set hx with hx | rfl
  · exact h.2 x hx
  · exact hth

theorem mem_of_getElem? {l : List BThread} {t : Nat} {th : BThread} (h : l[t]? = some th) : th ∈ l :=
  List.mem_of_getElem? h

/-- Every action of a background thread preserves the invariant. -/
theorem bstep_inv {s s' : St} {t : Nat} {th : BThread} {a : Act} (h : HInv s)
    (hget : s.thr[t]? = some th) (hs : bstep s t th a = some s') : HInv s' := by
  have hT := h.2 th (mem_of_getElem? hget)
  have hC := h.1.1
  unfold TInv at hT
  unfold CInv at hC
  cases a <;> simp only [bstep] at hs <;> try contradiction
  all_goals
    (first
      | (split at hs
         · cases hs
           apply HInv_setThr h
           unfold TInv
           simp only [BThread.inWait, cbPc, lockPc, cbAllowed] at *
           grind
         · first
           | contradiction
           | (split at hs
              · cases hs
                apply HInv_setThr h
                unfold TInv
                simp only [BThread.inWait, cbPc, lockPc, cbAllowed] at *
                grind
              · first
                | contradiction
                | (split at hs
                   · cases hs
                     apply HInv_setThr h
                     unfold TInv
                     simp only [BThread.inWait, cbPc, lockPc, cbAllowed] at *
                     grind
                   · contradiction))))


theorem all_not_holds {l : List BThread} (h : l.all (fun x => !x.holds) = true) :
    ∀ th ∈ l, th.holds = false := by
  intro th hth
  have := List.all_eq_true.mp h th hth
  simpa using this

theorem all_wres_true {l : List BThread} (h : l.all (fun x => x.wRes == some true) = true) :
    ∀ th ∈ l, th.wRes = some true := by
  intro th hth
  have := List.all_eq_true.mp h th hth
  simpa using this

/-- Tactic for control actions that leave the thread list unchanged. -/
macro "ctl_same" h:ident : tactic => `(tactic|
  (refine ⟨⟨?_, ?_⟩, ?_⟩
   · have hC := ($h).1.1
     have hC2 := ($h).1.2
     unfold CInv at hC ⊢
     unfold CInv2 at hC2
     simp only [busyPc, tpPc] at *
     grind
   · have hC := ($h).1.1
     have hC2 := ($h).1.2
     unfold CInv at hC
     unfold CInv2 at hC2 ⊢
     simp only [busyPc, tpPc] at *
     grind
   · intro th hth
     have hT := ($h).2 th hth
     have hC := ($h).1.1
     have hC2 := ($h).1.2
     unfold TInv at hT ⊢
     unfold CInv at hC
     unfold CInv2 at hC2
     simp only [busyPc, tpPc, BThread.inWait, cbPc, lockPc] at *
     grind))

/-- Control part of the invariant for actions whose new control record is `c'` (thread-independent). -/
macro "ctl_part" h:ident : tactic => `(tactic|
  (refine ⟨?_, ?_⟩
   · have hC := ($h).1.1
     have hC2 := ($h).1.2
     unfold CInv at hC ⊢
     unfold CInv2 at hC2
     simp only [busyPc, tpPc] at *
     grind
   · have hC := ($h).1.1
     have hC2 := ($h).1.2
     unfold CInv at hC
     unfold CInv2 at hC2 ⊢
     simp only [busyPc, tpPc] at *
     grind))

/-- Thread part of the invariant for control actions that leave the thread list unchanged. -/
macro "thr_part" h:ident : tactic => `(tactic|
  (intro th hth
   have hT := ($h).2 th hth
   have hC := ($h).1.1
   have hC2 := ($h).1.2
   unfold TInv at hT ⊢
   unfold CInv at hC
   unfold CInv2 at hC2
   simp only [busyPc, tpPc, BThread.inWait, cbPc, lockPc] at *
   grind))

/-- A control action that only rewrites one thread's pause-attempt bookkeeping. -/
macro "thr_set" h:ident hget:ident : tactic => `(tactic|
  (apply HInv_setThr $h
   have hT := ($h).2 _ (mem_of_getElem? $hget)
   have hC2 := ($h).1.2
   unfold TInv at hT ⊢
   unfold CInv2 at hC2
   simp only [BThread.inWait, cbPc, lockPc, tpPc] at *
   grind))

/-- Every action of the control thread (and of the pause workers) preserves the invariant. -/
theorem cstep_inv {s s' : St} {a : Act} (h : HInv s) (hs : cstep s a = some s') : HInv s' := by
  cases a <;> simp only [cstep] at hs <;> try contradiction
  case cSpawn t =>
    split at hs
    · rename_i th hget
      split at hs
      · cases hs; thr_set h hget
      · contradiction
    · contradiction
  case cRun =>
    split at hs
    · cases hs; ctl_same h
    · contradiction
  case cTryPause =>
    split at hs
    · split at hs
      · cases hs; ctl_same h
      · split at hs
        · cases hs; ctl_same h
        · cases hs; ctl_same h
    · contradiction
  case cTryPauseRet v =>
    split at hs
    · cases hs
      have hC := h.1.1
      have hC2 := h.1.2
      unfold CInv at hC
      unfold CInv2 at hC2
      refine ⟨⟨?_, ?_⟩, ?_⟩
      · unfold CInv
        simp only [busyPc, tpPc, afterTryPause] at *
        cases hc : s.ctl.cont <;> cases v <;> (try simp_all) <;> (try grind)
      · unfold CInv2
        simp only [busyPc, tpPc, afterTryPause] at *
        cases hc : s.ctl.cont <;> cases v <;> (try simp_all) <;> (try grind)
      · intro th hth
        have hT := h.2 th hth
        unfold TInv at hT ⊢
        simp only [afterTryPause] at *
        cases hc : s.ctl.cont <;> cases v <;> (try simp_all) <;> (try grind)
    · contradiction
  case cAcquire =>
    split at hs
    · rename_i hg
      cases hs
      have hall := all_not_holds hg.2.2
      refine ⟨?_, ?_⟩
      · ctl_part h
      · intro th hth
        have hT := h.2 th hth
        have hh := hall th hth
        unfold TInv at hT ⊢
        grind
    · contradiction
  case cClearResume =>
    split at hs
    · cases hs
      refine ⟨?_, ?_⟩
      · ctl_part h
      · intro th hth
        have hT := h.2 th hth
        have hC := h.1.1
        unfold TInv at hT ⊢
        unfold CInv at hC
        simp only [lockPc] at *
        grind
    · contradiction
  case cRelease =>
    split at hs
    · cases hs
      refine ⟨?_, ?_⟩
      · ctl_part h
      · intro th hth
        simp only [resetWorkers, List.mem_map] at hth
        obtain ⟨x, hx, rfl⟩ := hth
        have hT := h.2 x hx
        have hC := h.1.1
        unfold TInv at hT ⊢
        unfold CInv at hC
        simp only [BThread.inWait, cbPc, lockPc] at *
        grind
    · split at hs
      · cases hs; ctl_same h
      · contradiction
  case cSpawnWorker t =>
    split at hs
    · rename_i th hget
      split at hs
      · cases hs; thr_set h hget
      · contradiction
    · contradiction
  case wRet t r =>
    split at hs
    · rename_i th hget
      split at hs
      · cases hs; thr_set h hget
      · contradiction
    · contradiction
  case cWorkersJoined =>
    split at hs
    · split at hs
      · rename_i hall
        cases hs
        have hw := all_wres_true hall
        refine ⟨?_, ?_⟩
        · ctl_part h
        · intro th hth
          have hT := h.2 th hth
          have := hw th hth
          have hC2 := h.1.2
          unfold TInv at hT ⊢
          unfold CInv2 at hC2
          simp only [tpPc] at *
          grind
      · cases hs; ctl_same h
    · contradiction
  case cClockPause =>
    split at hs
    · cases hs; ctl_same h
    · contradiction
  case cSetResume =>
    have thr_ok : ∀ (c' : Ctl), c'.holds = s.ctl.holds → c'.paused = s.ctl.paused →
        (c'.pc ≠ .tpSpawn ∧ c'.pc ≠ .tpAck ∧ c'.pc ≠ .finalIn ∧ c'.pc ≠ .returned ∧ c'.pc ≠ .boot) →
        s.ctl.paused = false →
        ∀ th ∈ notifyAll s.thr, TInv true c' th := by
      intro c' hh hp hpc hnp th hth
      simp only [notifyAll, List.mem_map] at hth
      obtain ⟨x, hx, rfl⟩ := hth
      have hT := h.2 x hx
      unfold TInv at hT ⊢
      simp only [BThread.inWait, cbPc, lockPc] at *
      grind
    have hC := h.1.1
    have hC2 := h.1.2
    unfold CInv at hC
    unfold CInv2 at hC2
    split at hs
    · rename_i hpc
      cases hs
      have hnp : s.ctl.paused = false := by
        cases hp : s.ctl.paused
        · rfl
        · have := (hC.2.2 hp).1; simp [hpc, busyPc] at this
      refine ⟨⟨?_, ?_⟩, ?_⟩
      · unfold CInv
        simp only [busyPc, tpPc, hpc] at *
        split <;> (try simp_all) <;> (try grind)
      · unfold CInv2
        simp only [busyPc, tpPc, hpc] at *
        split <;> (try simp_all) <;> (try grind)
      · apply thr_ok
        · rfl
        · rfl
        · simp only; split <;> simp
        · exact hnp
    · split at hs
      · rename_i hpc
        cases hs
        have hnp : s.ctl.paused = false := by
          cases hp : s.ctl.paused
          · rfl
          · have := (hC.2.2 hp).1; simp [hpc, busyPc] at this
        refine ⟨⟨?_, ?_⟩, ?_⟩
        · unfold CInv
          simp only [busyPc, tpPc, hpc] at *
          simp_all
        · unfold CInv2
          simp only [busyPc, tpPc, hpc] at *
          simp_all
          grind
        · apply thr_ok <;> simp [hnp]
      · split at hs
        · rename_i hpc
          cases hs
          have hnp : s.ctl.paused = false := by
            cases hp : s.ctl.paused
            · rfl
            · have := (hC.2.2 hp).1; simp [hpc, busyPc] at this
          refine ⟨⟨?_, ?_⟩, ?_⟩
          · unfold CInv
            simp only [busyPc, tpPc, hpc] at *
            simp_all
          · unfold CInv2
            simp only [busyPc, tpPc, hpc] at *
            simp_all
            grind
          · apply thr_ok <;> simp [hnp]
        · contradiction
  case cResume =>
    split at hs
    · cases hs; ctl_same h
    · contradiction
  case cClockResume =>
    split at hs
    · cases hs; ctl_same h
    · split at hs
      · cases hs
        have hC := h.1.1
        have hC2 := h.1.2
        unfold CInv at hC
        unfold CInv2 at hC2
        refine ⟨⟨?_, ?_⟩, ?_⟩
        · unfold CInv
          simp only [busyPc, tpPc] at *
          cases hsd : s.shutdown <;> (try simp_all) <;> (try grind)
        · unfold CInv2
          simp only [busyPc, tpPc] at *
          cases hsd : s.shutdown <;> (try simp_all) <;> (try grind)
        · intro th hth
          have hT := h.2 th hth
          unfold TInv at hT ⊢
          simp only [busyPc, tpPc] at *
          cases hsd : s.shutdown <;> (try simp_all) <;> (try grind)
      · contradiction
  case cResumeRet =>
    split at hs
    · cases hs
      have hC := h.1.1
      have hC2 := h.1.2
      unfold CInv at hC
      unfold CInv2 at hC2
      refine ⟨⟨?_, ?_⟩, ?_⟩
      · unfold CInv
        simp only [busyPc, tpPc] at *
        cases hc : s.ctl.rsCont <;> (try simp_all) <;> (try grind)
      · unfold CInv2
        simp only [busyPc, tpPc] at *
        cases hc : s.ctl.rsCont <;> (try simp_all) <;> (try grind)
      · intro th hth
        have hT := h.2 th hth
        unfold TInv at hT ⊢
        cases hc : s.ctl.rsCont <;> (try simp_all) <;> (try grind)
    · contradiction
  case cShutdown =>
    split at hs
    · cases hs; ctl_same h
    · contradiction
  case cSetShutdown =>
    split at hs
    · cases hs; ctl_same h
    · contradiction
  case cShutdownRet =>
    split at hs
    · cases hs; ctl_same h
    · contradiction
  case cSave =>
    split at hs
    · cases hs; ctl_same h
    · contradiction
  case cSaveBegin =>
    split at hs
    · cases hs; ctl_same h
    · contradiction
  case cSaveCbBegin =>
    split at hs
    · cases hs; ctl_same h
    · contradiction
  case cSaveCbEnd =>
    split at hs
    · cases hs; ctl_same h
    · contradiction
  case cSaveEnd =>
    split at hs
    · cases hs
      have hC := h.1.1
      have hC2 := h.1.2
      unfold CInv at hC
      unfold CInv2 at hC2
      refine ⟨⟨?_, ?_⟩, ?_⟩
      · unfold CInv
        simp only [busyPc, tpPc] at *
        cases ha : s.ctl.already <;> (try simp_all) <;> (try grind)
      · unfold CInv2
        simp only [busyPc, tpPc] at *
        cases ha : s.ctl.already <;> (try simp_all) <;> (try grind)
      · intro th hth
        have hT := h.2 th hth
        unfold TInv at hT ⊢
        cases ha : s.ctl.already <;> (try simp_all) <;> (try grind)
    · contradiction
  case cSaveRet =>
    split at hs
    · cases hs; ctl_same h
    · contradiction
  case cReadExc t v =>
    split at hs
    · split at hs
      · cases hs; ctl_same h
      · contradiction
    · contradiction
  case cExc =>
    split at hs
    · cases hs; ctl_same h
    · contradiction
  case cCmdShutdown =>
    split at hs
    · cases hs; ctl_same h
    · contradiction
  case cUptime =>
    split at hs
    · cases hs; ctl_same h
    · contradiction
  case cIsAlive t v =>
    split at hs
    · rename_i th hget
      split at hs
      · cases hs
        split
        · exact h
        · thr_set h hget
      · contradiction
    · contradiction
  case cJoin t =>
    split at hs
    · rename_i th hget
      split at hs
      · cases hs; thr_set h hget
      · contradiction
    · contradiction
  case cFinalSaveBegin =>
    split at hs
    · rename_i hg
      cases hs
      have hall : ∀ th ∈ s.thr, th.joined = true := by
        intro th hth
        have := List.all_eq_true.mp hg.2.2 th hth
        simpa using this
      refine ⟨?_, ?_⟩
      · ctl_part h
      · intro th hth
        have hT := h.2 th hth
        have hd := hall th hth
        have hC2 := h.1.2
        unfold TInv at hT ⊢
        unfold CInv2 at hC2
        simp only [BThread.inWait, tpPc] at *
        grind
    · contradiction
  case cFinalSaveEnd =>
    split at hs
    · cases hs; ctl_same h
    · contradiction
  case cReturn =>
    split at hs
    · cases hs; exact h
    · contradiction

theorem step_inv {s s' : St} {a : Act} (h : HInv s) (hs : step s a = some s') : HInv s' := by
  unfold step at hs
  split at hs
  · split at hs
    · rename_i hget
      exact bstep_inv h hget hs
    · contradiction
  · exact cstep_inv h hs

/-- The invariant holds in every state reached by any trace from any initial configuration. -/
theorem run_inv {s s' : St} (h : HInv s) (tr : List Act) (hr : run s tr = some s') : HInv s' := by
  induction tr generalizing s with
  | nil => simp [run] at hr; subst hr; exact h
  | cons a rest ih =>
    simp only [run] at hr
    split at hr
    · rename_i s1 hs1
      exact ih (step_inv h hs1) hr
    · contradiction

end Pamiq.Proto
