import Pamiq.Model.ProtoCtl
namespace Pamiq.Proto

@[simp] theorem synth_ctl (v : CV) (e : Bool) : (synth v e).ctl = v.ctl := rfl
@[simp] theorem synth_resume (v : CV) (e : Bool) : (synth v e).resume = v.resume := rfl
@[simp] theorem synth_shutdown (v : CV) (e : Bool) : (synth v e).shutdown = v.shutdown := rfl
@[simp] theorem synth_clock (v : CV) (e : Bool) : (synth v e).clockPaused = v.clockPaused := rfl
@[simp] theorem synth_thr (v : CV) (e : Bool) :
    (synth v e).thr = [{ wSpawned := true, wRes := some e, pausedFlag := e }] := rfl
@[simp] theorem view_ctl (s : St) : s.view.ctl = s.ctl := rfl
@[simp] theorem view_resume (s : St) : s.view.resume = s.resume := rfl
@[simp] theorem view_shutdown (s : St) : s.view.shutdown = s.shutdown := rfl
@[simp] theorem view_clock (s : St) : s.view.clockPaused = s.clockPaused := rfl

/-- **`cedge` is `cstep` seen from the control thread**: on every state in which the environment's part
of the guard holds, a core control action is enabled exactly when `cedge` allows it on the state's
control view, and changes the view exactly as `cedge` says. -/
theorem cedge_sound (s : St) (a : Act) (e : Bool) (hc : a.ctlCore = true) (henv : envOk s a e) :
    (cstep s a).map St.view = cedge s.view a e := by
  cases a <;> simp [Act.ctlCore] at hc <;>
    simp only [cedge, Act.ctlCore, cstep, envOk, synth_ctl, synth_resume, synth_shutdown, synth_clock, synth_thr,
      view_ctl, view_resume, view_shutdown, view_clock, if_true] at henv ⊢ <;>
    (repeat' split) <;> first | (simp_all [St.view]; done) | grind [St.view]

end Pamiq.Proto
