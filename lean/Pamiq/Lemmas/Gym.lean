/-
Helper lemmas for C20 (not property statements): a generic "for every occurrence in a list"
predicate that distributes over `++`, the shape of the log segment appended by one
`Interaction.step`, and the state invariant at step boundaries.
-/
import Pamiq.Model.Gym
namespace Pamiq.Gym

/-- `EachFrom P pre l`: for every split `l = a ++ e :: b`, `P (pre ++ a) e b`. -/
def EachFrom {α} (P : List α → α → List α → Prop) (pre : List α) : List α → Prop
  | [] => True
  | e :: post => P pre e post ∧ EachFrom P (pre ++ [e]) post

theorem eachFrom_iff {α} (P : List α → α → List α → Prop) (pre l : List α) :
    EachFrom P pre l ↔ ∀ a e b, l = a ++ e :: b → P (pre ++ a) e b := by
  induction l generalizing pre with
  | nil => simp [EachFrom]
  | cons x l ih =>
    simp only [EachFrom, ih]
    constructor
    · rintro ⟨h0, h⟩ a e b hab
      rcases a with _ | ⟨y, a⟩
      · simp at hab; obtain ⟨rfl, rfl⟩ := hab; simpa using h0
      · simp at hab; obtain ⟨rfl, rfl⟩ := hab
        have := h a e b rfl; simpa using this
    · intro h
      refine ⟨by simpa using h [] x l rfl, fun a e b hab => ?_⟩
      subst hab; simpa using h (x :: a) e b rfl

theorem eachFrom_append {α} (P : List α → α → List α → Prop) (pre l1 l2 : List α) :
    EachFrom P pre (l1 ++ l2) ↔
      EachFrom (fun a e b => P a e (b ++ l2)) pre l1 ∧ EachFrom P (pre ++ l1) l2 := by
  induction l1 generalizing pre with
  | nil => simp [EachFrom]
  | cons x l ih => simp [EachFrom, ih, and_assoc]

theorem EachFrom.imp {α} {P Q : List α → α → List α → Prop} {pre l : List α}
    (h : ∀ a e b, P a e b → Q a e b) : EachFrom P pre l → EachFrom Q pre l := by
  induction l generalizing pre with
  | nil => simp [EachFrom]
  | cons x l ih => exact fun ⟨h0, h1⟩ => ⟨h _ _ _ h0, ih h1⟩

/-- The callbacks `GymAgent.step` makes for an observation, and the action it returns. -/
def cbsOf (s : St) : Obs → List Ev × Act
  | .reset j => ([.onReset s.nOnReset j], .ofReset s.nOnReset)
  | .step k t u => ([.onStep s.nOnStep k t u], .ofStep s.nOnStep)
  | .both k t u j => ([.onStep s.nOnStep k t u, .onReset s.nOnReset j], .ofReset s.nOnReset)

/-- The log segment one `Interaction.step` appends. -/
def block (sc : Script) (s : St) (ob : Obs) : List Ev :=
  let a := (cbsOf s ob).2
  let t := (sc.flags s.nStep).1
  let u := (sc.flags s.nStep).2
  (cbsOf s ob).1 ++ [.ret a (sc.wants a), .envStep s.nStep a t u] ++
    (if (u || t) || sc.wants a then [.envReset s.nReset] else [])

theorem block_cases (sc : Script) (s : St) (ob : Obs) :
    ((((sc.flags s.nStep).2 || (sc.flags s.nStep).1) || sc.wants (cbsOf s ob).2) = true ∧
      block sc s ob = (cbsOf s ob).1 ++
        [.ret (cbsOf s ob).2 (sc.wants (cbsOf s ob).2),
         .envStep s.nStep (cbsOf s ob).2 (sc.flags s.nStep).1 (sc.flags s.nStep).2,
         .envReset s.nReset]) ∨
    ((((sc.flags s.nStep).2 || (sc.flags s.nStep).1) || sc.wants (cbsOf s ob).2) = false ∧
      block sc s ob = (cbsOf s ob).1 ++
        [.ret (cbsOf s ob).2 (sc.wants (cbsOf s ob).2),
         .envStep s.nStep (cbsOf s ob).2 (sc.flags s.nStep).1 (sc.flags s.nStep).2]) := by
  simp only [block]
  split <;> rename_i h
  · exact Or.inl ⟨h, by simp⟩
  · exact Or.inr ⟨by simpa using h, by simp⟩

def Out.lt (s : St) : Out → Prop
  | .reset j => j < s.nReset
  | .step k _ _ => k < s.nStep

/-- Invariant at step boundaries. -/
structure Good (n : Nat) (s : St) : Prop where
  nStep : s.nStep = n
  obs : ∃ ob, s.obs = some ob ∧ (∀ k t u, ob = .step k t u → s.needReset = false)
  deliv : outputs s.log = delivered s.log ++ pending s.obs
  lt : ∀ x ∈ outputs s.log, x.lt s
  nodup : (outputs s.log).Nodup

theorem good_setup : Good 0 (setup {}) := by
  refine ⟨rfl, ⟨.reset 0, rfl, by simp⟩, by simp [setup, envReset, outputs, delivered, pending], ?_, ?_⟩
    <;> simp [setup, envReset, outputs, Out.lt]

/-- The state after one `Interaction.step`, field by field. -/
def next (sc : Script) (s : St) (ob : Obs) : St :=
  let a := (cbsOf s ob).2
  let t := (sc.flags s.nStep).1
  let u := (sc.flags s.nStep).2
  let c := (u || t) || sc.wants a
  { obs := some (if c then .both s.nStep t u s.nReset else .step s.nStep t u)
    needReset := sc.wants a
    nReset := if c then s.nReset + 1 else s.nReset
    nStep := s.nStep + 1
    nOnReset := match ob with | .step .. => s.nOnReset | _ => s.nOnReset + 1
    nOnStep := match ob with | .reset .. => s.nOnStep | _ => s.nOnStep + 1
    log := s.log ++ block sc s ob }

theorem interStep_eq (sc : Script) {s : St} {ob : Obs} (hob : s.obs = some ob)
    (hreq : ∀ k t u, ob = .step k t u → s.needReset = false) :
    interStep sc s = .ok (next sc s ob) := by
  simp only [interStep, hob]
  cases ob with
  | reset j =>
    simp only [next, block, cbsOf, agentStep, onReset, affect, envReset, Script.wants, Bool.false_or]
    split <;> simp_all
  | step k t u =>
    have := hreq k t u rfl
    simp only [next, block, cbsOf, agentStep, onStep, affect, envReset, Script.wants, this, Bool.false_or]
    split <;> simp_all
  | both k t u j =>
    simp only [next, block, cbsOf, agentStep, onReset, onStep, affect, envReset, Script.wants, Bool.false_or]
    split <;> simp_all

theorem outputs_block (sc : Script) (s : St) (ob : Obs) :
    outputs (block sc s ob) =
      .step s.nStep (sc.flags s.nStep).1 (sc.flags s.nStep).2 ::
        (if ((sc.flags s.nStep).2 || (sc.flags s.nStep).1) || sc.wants (cbsOf s ob).2
          then [.reset s.nReset] else []) := by
  cases ob <;> simp [block, cbsOf, outputs] <;> split <;> simp

theorem delivered_block (sc : Script) (s : St) (ob : Obs) :
    delivered (block sc s ob) = pending (some ob) := by
  cases ob <;> simp [block, cbsOf, delivered, pending] <;> split <;> simp

theorem requests_block (sc : Script) (s : St) (ob : Obs) :
    requests (block sc s ob) = [sc.wants (cbsOf s ob).2] := by
  cases ob <;> simp [block, cbsOf, requests] <;> split <;> simp

theorem stepFlags_block (sc : Script) (s : St) (ob : Obs) :
    stepFlags (block sc s ob) = [sc.flags s.nStep] := by
  cases ob <;> simp [block, cbsOf, stepFlags] <;> split <;> simp

theorem resets_block (sc : Script) (s : St) (ob : Obs) :
    resets (block sc s ob) =
      (if ((sc.flags s.nStep).2 || (sc.flags s.nStep).1) || sc.wants (cbsOf s ob).2
        then [s.nReset] else []) := by
  cases ob <;> simp [block, cbsOf, resets] <;> split <;> simp

theorem outputs_append (l1 l2 : List Ev) : outputs (l1 ++ l2) = outputs l1 ++ outputs l2 := by
  simp [outputs]

theorem delivered_append (l1 l2 : List Ev) :
    delivered (l1 ++ l2) = delivered l1 ++ delivered l2 := by
  simp [delivered]

theorem interStep_good (sc : Script) {n : Nat} {s : St} (g : Good n s) :
    ∃ ob, s.obs = some ob ∧ interStep sc s = .ok (next sc s ob) ∧ Good (n + 1) (next sc s ob) := by
  obtain ⟨hn, ⟨ob, hob, hreq⟩, hd, hlt, hnd⟩ := g
  refine ⟨ob, hob, interStep_eq sc hob hreq, ?_, ?_, ?_, ?_, ?_⟩
  · simp [next, hn]
  · refine ⟨_, rfl, ?_⟩
    intro k t u h
    simp only [next] at h ⊢
    split at h <;> simp_all
  · simp only [next, outputs_append, delivered_append, outputs_block, delivered_block, hd, hob]
    split <;> simp [pending]
  · intro x hx
    simp only [next, outputs_append, outputs_block, List.mem_append] at hx
    rcases hx with hx | hx
    · have := hlt x hx
      cases x <;> simp only [Out.lt, next] at this ⊢ <;> (try split) <;> omega
    · split at hx <;> simp at hx <;> rcases hx with rfl | rfl <;> simp_all [Out.lt, next]
  · simp only [next, outputs_append, outputs_block]
    rw [List.nodup_append]
    refine ⟨hnd, by split <;> simp, ?_⟩
    intro a ha b hb
    have := hlt a ha
    split at hb <;> simp at hb <;> rcases hb with rfl | rfl <;> cases a <;> simp_all [Out.lt] <;> omega

theorem stepsFrom_succ (sc : Script) (s0 : St) (n : Nat) :
    stepsFrom sc s0 (n + 1) = (stepsFrom sc s0 n).bind (interStep sc) := rfl

/-- `run` never fails, and the invariant holds at every step boundary. -/
theorem run_good (sc : Script) (n : Nat) : ∃ s, run sc n = .ok s ∧ Good n s := by
  induction n with
  | zero => exact ⟨_, rfl, good_setup⟩
  | succ n ih =>
    obtain ⟨s, hs, g⟩ := ih
    obtain ⟨ob, _, h1, g'⟩ := interStep_good sc g
    refine ⟨_, ?_, g'⟩
    simp only [run] at hs ⊢
    rw [stepsFrom_succ, hs]; exact h1

/-- Induction over the steps of a run. -/
theorem run_induction (sc : Script) (Q : Nat → St → Prop) (h0 : Q 0 (setup {}))
    (hstep : ∀ n s ob, run sc n = .ok s → Good n s → s.obs = some ob → Q n s →
      Q (n + 1) (next sc s ob)) :
    ∀ n s, run sc n = .ok s → Q n s := by
  intro n
  induction n with
  | zero => intro s h; cases h; exact h0
  | succ n ih =>
    intro s' h
    obtain ⟨s, hs, g⟩ := run_good sc n
    obtain ⟨ob, hob, h1, _⟩ := interStep_good sc g
    have h' : run sc (n + 1) = .ok (next sc s ob) := by
      simp only [run] at hs ⊢
      rw [stepsFrom_succ, hs]; exact h1
    rw [h'] at h; cases h
    exact hstep n s ob hs g hob (ih s hs)

end Pamiq.Gym
