/- Helper lemmas for `LockObj.lock_atomic` (one-step simulation). -/
import Pamiq.Model.LockObj
namespace Pamiq.LockObj
variable {σ τ : Type}

theorem Cfg.ext' {a b : Cfg σ τ} (h1 : a.obj = b.obj) (h2 : a.lock = b.lock)
    (h3 : ∀ j, a.loc j = b.loc j) (h4 : ∀ j, a.prog j = b.prog j) : a = b := by
  cases a; cases b; simp only [Cfg.mk.injEq] at *
  exact ⟨h1, h2, funext h3, funext h4⟩

/-- One micro-step of the interleaved machine is, on normal forms, either nothing or one atomic
call — the latter exactly when the step is an acquisition. -/
theorem step_norm (c c' : Cfg σ τ) (i : Nat) (h : step c i = some c') :
    norm c' = if atAcq c i then atomicCall (norm c) i else norm c := by
  unfold step at h
  split at h
  · cases h
  · -- loc
    rename_i f rest hp
    split at h
    · cases h
    · rename_i hl
      cases h
      have ha : atAcq c i = false := by simp [atAcq, hp]
      rw [ha]; simp only [Bool.false_eq_true, if_false]
      cases hlock : c.lock with
      | none =>
        apply Cfg.ext' <;> simp only [norm, hlock]
        all_goals intro j
        all_goals by_cases hj : j = i
        all_goals simp [upd, hj, hp, runLoc]
      | some h0 =>
        have hne : h0 ≠ i := by intro e; apply hl; rw [hlock, e]
        apply Cfg.ext' <;> simp only [norm, hlock]
        · simp [upd, hne]
        · intro j
          by_cases hj : j = i
          · subst hj; simp [upd, hp, runLoc, Ne.symm hne]
          · by_cases hj' : j = h0 <;> simp [upd, hj, hj', hne]
        · intro j
          by_cases hj : j = i
          · subst hj; simp [upd, hp, runLoc, Ne.symm hne]
          · by_cases hj' : j = h0 <;> simp [upd, hj, hj', hne]
  · -- acq
    rename_i rest hp
    split at h
    · rename_i hl
      cases h
      have ha : atAcq c i = true := by simp [atAcq, hp]
      rw [ha]; simp only [if_true]
      have hnp : (norm c).prog i = .acq :: rest := by simp [norm, hl, hp, runLoc]
      apply Cfg.ext' <;> simp only [atomicCall, hnp]
      · simp [norm, hl, upd, hp, runLoc]
      · simp [norm, hl]
      · intro j
        by_cases hj : j = i
        · subst hj; simp [norm, hl, upd, hp, runLoc]
        · simp [norm, hl, upd, hj]
      · intro j
        by_cases hj : j = i
        · subst hj; simp [norm, hl, upd, hp, runLoc]
        · simp [norm, hl, upd, hj]
    · cases h
  · -- body
    rename_i g rest hp
    split at h
    · rename_i hl
      cases h
      have ha : atAcq c i = false := by simp [atAcq, hp]
      rw [ha]; simp only [Bool.false_eq_true, if_false]
      apply Cfg.ext' <;> simp only [norm, hl]
      · simp [upd, hp, runBody]
      · intro j
        by_cases hj : j = i
        · subst hj; simp [upd, hp, runBody]
        · simp [upd, hj]
      · intro j
        by_cases hj : j = i
        · subst hj; simp [upd, hp, runBody]
        · simp [upd, hj]
    · cases h
  · -- rel
    rename_i rest hp
    split at h
    · rename_i hl
      cases h
      have ha : atAcq c i = false := by simp [atAcq, hp]
      rw [ha]; simp only [Bool.false_eq_true, if_false]
      apply Cfg.ext' <;> simp only [norm, hl]
      · simp [hp, runBody]
      · intro j
        by_cases hj : j = i
        · subst hj; simp [upd, hp, runBody]
        · simp [upd, hj]
      · intro j
        by_cases hj : j = i
        · subst hj; simp [upd, hp, runBody]
        · simp [upd, hj]
    · cases h

end Pamiq.LockObj
