/- Helper lemmas for `Props/C13.lean` (no property statements here). -/
import Pamiq.Model.Trainer
import Mathlib.Data.List.Induction
namespace Pamiq.Trainer
open Pamiq

theorem set_same {α} (l : List α) (i : Nat) (a : α) (h : l[i]? = some a) : l.set i a = l := by
  apply List.ext_getElem?
  intro j
  by_cases hj : i = j
  · subst hj
    obtain ⟨hlt, _⟩ := List.getElem?_eq_some_iff.1 h
    rw [List.getElem?_set_self hlt, h]
  · rw [List.getElem?_set_ne hj]

theorem lastN_length {α} (n : Nat) (l : List α) : (lastN n l).length = min n l.length := by
  simp only [lastN, List.length_drop]; omega

theorem bound_length {α} (q : Option Nat) (l : List α) :
    (bound q l).length = match q with | none => l.length | some n => min n l.length := by
  cases q with
  | none => rfl
  | some n => exact lastN_length n l

theorem foldl_add1_frame (l : List (Nat × Rat)) (u : DataUser) :
    (l.foldl DataUser.add1 u).cap = u.cap ∧ (l.foldl DataUser.add1 u).qsize = u.qsize ∧
      (l.foldl DataUser.add1 u).pend = u.pend := by
  induction l generalizing u with
  | nil => exact ⟨rfl, rfl, rfl⟩
  | cons x xs ih =>
    simp only [List.foldl_cons]
    obtain ⟨h1, h2, h3⟩ := ih (u.add1 x)
    exact ⟨h1, h2, h3⟩

theorem foldl_add1_bounded (l : List (Nat × Rat)) (u : DataUser) (n : Nat)
    (hq : u.qsize = some n) (hb : u.ts.length ≤ n) (hc : u.buf.length ≤ u.cap) :
    (l.foldl DataUser.add1 u).ts.length ≤ n ∧
      (l.foldl DataUser.add1 u).buf.length ≤ u.cap := by
  induction l generalizing u with
  | nil => exact ⟨hb, hc⟩
  | cons x xs ih =>
    simp only [List.foldl_cons]
    have := ih (u.add1 x) (by simp [DataUser.add1, hq])
      (by simp only [DataUser.add1, hq, bound, lastN_length]; omega)
      (by simp only [DataUser.add1, lastN_length]; omega)
    simpa [DataUser.add1] using this


theorem lastN_snoc {α} (n : Nat) (l : List α) (x : α) :
    lastN n (lastN n l ++ [x]) = lastN n (l ++ [x]) := by
  simp only [lastN, List.length_append, List.length_drop, List.length_singleton, List.drop_append,
    List.drop_drop]
  by_cases h : l.length ≤ n
  · have h1 : l.length - n = 0 := by omega
    simp only [h1, Nat.sub_zero, Nat.zero_add]
  · have h2 : l.length - (l.length - n) = n := by omega
    simp only [h2]
    congr 1
    · congr 1; omega
    · congr 1; omega

theorem bound_snoc {α} (q : Option Nat) (l : List α) (x : α) :
    bound q (bound q l ++ [x]) = bound q (l ++ [x]) := by
  cases q with
  | none => rfl
  | some n => exact lastN_snoc n l x

/-- Closed form of the loop in `DataUser.update`. -/
theorem foldl_add1_closed (l : List (Nat × Rat)) (u : DataUser) :
    (l.foldl DataUser.add1 u).buf = lastN u.cap (lastN u.cap u.buf ++ l.map (·.1)) ∧
      (l.foldl DataUser.add1 u).ts = bound u.qsize (bound u.qsize u.ts ++ l.map (·.2)) ∨ l = [] := by
  induction l using List.reverseRecOn with
  | nil => right; rfl
  | append_singleton init x ih =>
    left
    obtain ⟨hc, hq, _⟩ := foldl_add1_frame init u
    simp only [List.foldl_append, List.foldl_cons, List.foldl_nil, DataUser.add1, hc, hq,
      List.map_append, List.map_cons, List.map_nil]
    rcases ih with ⟨h1, h2⟩ | h0
    · rw [h1, h2, lastN_snoc, bound_snoc, ← List.append_assoc, ← List.append_assoc]
      exact ⟨rfl, rfl⟩
    · subst h0
      simp only [List.foldl_nil, List.map_nil, List.append_nil, List.nil_append]
      rw [lastN_snoc, bound_snoc]
      exact ⟨rfl, rfl⟩

end Pamiq.Trainer
