/- Helper lemmas for `Props/C19.lean`: heap updates, per-parameter loops, the annotation of every
program counter (`Inv`) and its preservation by every micro-step of either thread. -/
import Pamiq.Model.TorchSync
namespace Pamiq.TorchSync

/-! ### Heap -/

@[simp] theorem Heap.get_set_same (h : Heap) (i : Mid) (m : Module) : (h.set i m).get i = m := by
  cases i <;> rfl

theorem Heap.get_set_ne (h : Heap) {i j : Mid} (m : Module) (hne : i ≠ j) :
    (h.set i m).get j = h.get j := by
  cases i <;> cases j <;> simp_all [Heap.set, Heap.get]

/-! ### Lists: one element per step -/

theorem take_succ_of_getElem? {α} (l : List α) (k : Nat) (v : α) (h : l[k]? = some v) :
    l.take (k + 1) = l.take k ++ [v] := by
  induction l generalizing k with
  | nil => simp at h
  | cons a l ih =>
    cases k with
    | zero => simp at h; simp [h]
    | succ k => simp at h; simp [ih k h]

theorem take_of_getElem?_none {α} (l : List α) (k : Nat) (h : l[k]? = none) : l.take k = l := by
  rw [List.getElem?_eq_none_iff] at h
  exact List.take_of_length_le h

theorem take_set_succ {α} (l : List α) (k : Nat) (v : α) (h : k < l.length) :
    (l.set k v).take (k + 1) = l.take k ++ [v] := by
  induction l generalizing k with
  | nil => simp at h
  | cons a l ih =>
    cases k with
    | zero => simp
    | succ k => simp at h; simp [ih k h]

theorem drop_set_succ {α} (l : List α) (k : Nat) (v : α) :
    (l.set k v).drop (k + 1) = l.drop (k + 1) := by
  induction l generalizing k with
  | nil => simp
  | cons a l ih =>
    cases k with
    | zero => simp
    | succ k => simp [ih k]

theorem drop_of_getElem? {α} (l : List α) (k : Nat) (v : α) (h : l[k]? = some v) :
    l.drop k = v :: l.drop (k + 1) := by
  induction l generalizing k with
  | nil => simp at h
  | cons a l ih =>
    cases k with
    | zero => simp at h; simp [h]
    | succ k => simp at h; simp [ih k h]

/-! ### The annotation -/

/-- Number of parameters of (both) modules. -/
def St.N (s : St) : Nat := s.heap.m0.params.length

def St.P (s : St) (m : Mid) : List Int := (s.heap.get m).params
def St.G (s : St) (m : Mid) : List (Option Int) := (s.heap.get m).grads

/-- Both modules have the same number of parameters, and one gradient slot per parameter. -/
structure Shape (h : Heap) (n : Nat) : Prop where
  p : ∀ m, (h.get m).params.length = n
  g : ∀ m, (h.get m).grads.length = n

theorem Shape.set {h : Heap} {n : Nat} (hs : Shape h n) (i : Mid) (m : Module)
    (hp : m.params.length = n) (hg : m.grads.length = n) : Shape (h.set i m) n := by
  constructor <;> intro j <;> by_cases hij : i = j
  · subst hij; simpa using hp
  · rw [Heap.get_set_ne _ _ hij]; exact hs.p j
  · subst hij; simpa using hg
  · rw [Heap.get_set_ne _ _ hij]; exact hs.g j

/-- What is known at each program counter of the inference thread; the facts about the module in
hand need the repaired `unwrap` (`late`). -/
def IAnn (late : Bool) (s : St) : Prop :=
  match s.ipc with
  | .idle | .inferAcq | .unwCall => s.lock ≠ some .inf
  | .unwAcq cap => (late = true → cap = none) ∧ s.lock ≠ some .inf
  | .inferRef | .unwResolve => s.lock = some .inf
  | .holding m k seen =>
    s.lock = some .inf ∧ (late = true → m = s.infRef ∧ seen = (s.P m).take k)

/-- Facts that hold from the end of the gradient stash to the end of `sync_impl`. -/
def Stashed (s : St) (n : Nat) : Prop := s.stash = s.pre.2 ∧ s.stash.length = n

/-- What is known at each program counter of the training thread. `n` = number of parameters. -/
def TAnn (s : St) (n : Nat) : Prop :=
  let I := s.infRef
  let T := s.trRef
  match s.tpc with
  | .idle => s.lock ≠ some .tr ∧ I ≠ T
  | .write _ _ => s.lock ≠ some .tr ∧ I ≠ T
  | .syncEval => s.lock ≠ some .tr ∧ I ≠ T ∧ s.P T = s.pre.1 ∧ s.G T = s.pre.2
  | .syncStash k =>
    s.lock ≠ some .tr ∧ I ≠ T ∧ s.P T = s.pre.1 ∧ s.stash ++ (s.G T).drop k = s.pre.2 ∧
      s.stash.length = k ∧ k ≤ n
  | .syncReadInf => s.lock ≠ some .tr ∧ I ≠ T ∧ s.P T = s.pre.1 ∧ Stashed s n
  | .syncReadTr a => s.lock ≠ some .tr ∧ I ≠ T ∧ s.P T = s.pre.1 ∧ Stashed s n ∧ a = I
  | .syncSetTr a b => s.lock ≠ some .tr ∧ I ≠ T ∧ s.P T = s.pre.1 ∧ Stashed s n ∧ a = I ∧ b = T
  | .syncAcq b => s.lock ≠ some .tr ∧ T = I ∧ b ≠ I ∧ s.P b = s.pre.1 ∧ Stashed s n
  | .syncSetInf b => s.lock = some .tr ∧ T = I ∧ b ≠ I ∧ s.P b = s.pre.1 ∧ Stashed s n
  | .syncRel => s.lock = some .tr ∧ I ≠ T ∧ s.P I = s.pre.1 ∧ Stashed s n
  | .syncSdRef => s.lock ≠ some .tr ∧ I ≠ T ∧ s.P I = s.pre.1 ∧ Stashed s n
  | .syncSd c k sd =>
    s.lock ≠ some .tr ∧ I ≠ T ∧ s.P I = s.pre.1 ∧ Stashed s n ∧ c = I ∧ sd = (s.P c).take k
  | .syncLoad k sd =>
    s.lock ≠ some .tr ∧ I ≠ T ∧ s.P I = s.pre.1 ∧ Stashed s n ∧ sd = s.pre.1 ∧
      (s.P T).take k = s.pre.1.take k
  | .syncRestore k =>
    s.lock ≠ some .tr ∧ I ≠ T ∧ s.P I = s.pre.1 ∧ s.P T = s.pre.1 ∧ Stashed s n ∧
      (s.G T).take k = s.pre.2.take k
  | .syncTrain => s.lock ≠ some .tr ∧ I ≠ T ∧ s.P I = s.pre.1 ∧ s.P T = s.pre.1 ∧ s.G T = s.pre.2
  | .raised => False

/-- The invariant of the interleaved system (a model that needs synchronising). -/
structure Inv (late : Bool) (s : St) (n : Nat) : Prop where
  shape : Shape s.heap n
  iann : IAnn late s
  tann : TAnn s n
  cur : ∃ older, s.published = s.P s.infRef :: older
  obsPub : late = true → ∀ o ∈ s.obs, o ∈ s.published

theorem inv_init {cfg : Cfg} {s : St} (hn : cfg.needSync = true) (hi : Init cfg s) :
    Inv cfg.late s s.heap.m0.params.length := by
  refine ⟨⟨?_, ?_⟩, ?_, ?_, ⟨[], hi.published⟩, ?_⟩
  · intro m; cases m
    · rfl
    · exact hi.len.symm
  · intro m; cases m
    · exact hi.wf0
    · simp only [Heap.get]; rw [hi.wf1]; exact hi.len.symm
  · simp [IAnn, hi.ipc, hi.lock]
  · simp [TAnn, hi.tpc, hi.lock]; exact hi.distinct hn
  · simp [hi.obs]

/-! ### Steps of the inference thread -/


theorem tann_of_inf_step {s s' : St} {n : Nat} (h : TAnn s n)
    (e1 : s'.heap = s.heap) (e2 : s'.infRef = s.infRef) (e3 : s'.trRef = s.trRef)
    (e4 : s'.tpc = s.tpc) (e5 : s'.stash = s.stash) (e6 : s'.pre = s.pre)
    (hl : (s.lock = some .tr ↔ s'.lock = some .tr)) : TAnn s' n := by
  unfold TAnn St.P St.G Stashed at *
  rw [e1, e2, e3, e4, e5, e6]
  cases hp : s.tpc <;> simp only [hp] at h ⊢ <;> grind

theorem inv_stepI {cfg : Cfg} {s s' : St} {l : Label} {n : Nat}
    (hinv : Inv cfg.late s n) (h : stepI cfg s = some (l, s')) : Inv cfg.late s' n := by
  obtain ⟨hshape, hi, ht, hcur, hobs⟩ := hinv
  unfold stepI at h
  cases hp : s.ipc with
  | idle =>
    simp only [hp] at h
    cases hq : s.iprog with
    | nil => simp [hq] at h
    | cons op rest =>
      cases op <;> simp [hq] at h <;> obtain ⟨-, rfl⟩ := h
      all_goals
        refine ⟨hshape, ?_, tann_of_inf_step ht rfl rfl rfl rfl rfl rfl Iff.rfl, hcur, hobs⟩
        simp_all [IAnn]
  | inferAcq =>
    simp only [hp] at h
    cases hk : s.lock with
    | some t => simp [hk] at h
    | none =>
      simp [hk] at h; obtain ⟨-, rfl⟩ := h
      refine ⟨hshape, ?_, tann_of_inf_step ht rfl rfl rfl rfl rfl rfl (by simp [hk]), hcur, hobs⟩
      simp [IAnn]
  | inferRef =>
    simp only [hp] at h; simp at h; obtain ⟨-, rfl⟩ := h
    refine ⟨hshape, ?_, tann_of_inf_step ht rfl rfl rfl rfl rfl rfl Iff.rfl, hcur, hobs⟩
    simp_all [IAnn]
  | unwCall =>
    simp only [hp] at h; simp at h; obtain ⟨-, rfl⟩ := h
    refine ⟨hshape, ?_, tann_of_inf_step ht rfl rfl rfl rfl rfl rfl Iff.rfl, hcur, hobs⟩
    simp only [IAnn, hp] at hi ⊢
    exact ⟨fun hl => by simp [hl], hi⟩
  | unwAcq cap =>
    simp only [hp] at h
    simp only [IAnn, hp] at hi
    cases hk : s.lock with
    | some t => simp [hk] at h
    | none =>
      simp [hk] at h; obtain ⟨-, rfl⟩ := h
      refine ⟨hshape, ?_, tann_of_inf_step ht rfl rfl rfl rfl rfl rfl (by simp [hk]), hcur, hobs⟩
      cases cap with
      | none => simp [IAnn]
      | some m =>
        simp only [IAnn]
        exact ⟨trivial, fun hl => by simpa using hi.1 hl⟩
  | unwResolve =>
    simp only [hp] at h; simp at h; obtain ⟨-, rfl⟩ := h
    refine ⟨hshape, ?_, tann_of_inf_step ht rfl rfl rfl rfl rfl rfl Iff.rfl, hcur, hobs⟩
    simp_all [IAnn]
  | holding m k seen =>
    simp only [hp] at h
    simp only [IAnn, hp] at hi
    obtain ⟨hlk, hlate⟩ := hi
    cases hv : (s.heap.get m).params[k]? with
    | some v =>
      simp [hv] at h; obtain ⟨-, rfl⟩ := h
      refine ⟨hshape, ?_, tann_of_inf_step ht rfl rfl rfl rfl rfl rfl Iff.rfl, hcur, hobs⟩
      simp only [IAnn]
      refine ⟨hlk, fun hl => ⟨(hlate hl).1, ?_⟩⟩
      rw [(hlate hl).2]; exact (take_succ_of_getElem? _ k v hv).symm
    | none =>
      simp [hv] at h; obtain ⟨-, rfl⟩ := h
      refine ⟨hshape, ?_, tann_of_inf_step ht rfl rfl rfl rfl rfl rfl (by simp [hlk]), hcur, ?_⟩
      · simp [IAnn]
      · intro hl o ho
        obtain ⟨hm, hseen⟩ := hlate hl
        simp only [List.mem_append, List.mem_singleton] at ho
        rcases ho with ho | ho
        · exact hobs hl o ho
        · obtain ⟨older, hpub⟩ := hcur
          have : o = s.P s.infRef := by
            rw [ho, hseen, ← hm]; exact take_of_getElem?_none _ k hv
          simp [hpub, this]


/-! ### Steps of the training thread -/


theorem iann_heap {late : Bool} {s s' : St} (h : IAnn late s) (e1 : s'.ipc = s.ipc)
    (e2 : s'.lock = s.lock) (e3 : s'.infRef = s.infRef) (e4 : s'.P s.infRef = s.P s.infRef) :
    IAnn late s' := by
  unfold IAnn at *
  rw [e1, e2, e3]
  cases hp : s.ipc <;> simp only [hp] at h ⊢ <;> try exact h
  obtain ⟨h1, h2⟩ := h
  refine ⟨h1, fun hl => ?_⟩
  obtain ⟨h2, h3⟩ := h2 hl
  subst h2
  exact ⟨rfl, by rw [e4]; exact h3⟩

theorem iann_nolock {late : Bool} {s s' : St} (h : IAnn late s) (e1 : s'.ipc = s.ipc)
    (h1 : s.lock ≠ some .inf) (h2 : s'.lock ≠ some .inf) : IAnn late s' := by
  unfold IAnn at *
  rw [e1]
  cases hp : s.ipc <;> simp only [hp] at h ⊢ <;> grind

theorem P_set_ne (s : St) (T m : Mid) (x : Module) (hne : T ≠ m) (s' : St)
    (hh : s'.heap = s.heap.set T x) : s'.P m = s.P m := by
  simp [St.P, hh, Heap.get_set_ne _ _ hne]

theorem inv_stepT {cfg : Cfg} (hn : cfg.needSync = true) {s s' : St} {l : Label} {n : Nat}
    (hinv : Inv cfg.late s n) (h : stepT cfg s = some (l, s')) : Inv cfg.late s' n := by
  obtain ⟨hshape, hi, ht, hcur, hobs⟩ := hinv
  unfold stepT at h
  cases hp : s.tpc with
  | idle =>
    simp only [hp] at h
    simp only [TAnn, hp] at ht
    cases hq : s.tprog with
    | nil => simp [hq] at h
    | cons op rest =>
      cases op with
      | train vals =>
        simp [hq] at h; obtain ⟨-, rfl⟩ := h
        exact ⟨hshape, iann_heap hi rfl rfl rfl rfl, by simpa [TAnn] using ht, hcur, hobs⟩
      | sync =>
        simp [hq, hn] at h; obtain ⟨-, rfl⟩ := h
        exact ⟨hshape, iann_heap hi rfl rfl rfl rfl, by simp [TAnn, St.P, St.G]; exact ht, hcur, hobs⟩
  | write k vals =>
    simp only [hp] at h
    simp only [TAnn, hp] at ht
    cases hv : vals[k]? with
    | none =>
      simp [hv] at h; obtain ⟨-, rfl⟩ := h
      exact ⟨hshape, iann_heap hi rfl rfl rfl rfl, by simpa [TAnn] using ht, hcur, hobs⟩
    | some vg =>
      obtain ⟨v, g⟩ := vg
      simp [hv] at h; obtain ⟨-, rfl⟩ := h
      have hne : s.trRef ≠ s.infRef := fun e => ht.2 e.symm
      refine ⟨hshape.set _ _ (by simp [hshape.p]) (by simp [hshape.g]),
        iann_heap hi rfl rfl rfl (P_set_ne s _ _ _ hne _ rfl), by simpa [TAnn] using ht, ?_, hobs⟩
      obtain ⟨older, hpub⟩ := hcur
      exact ⟨older, by rw [P_set_ne s _ _ _ hne _ rfl]; exact hpub⟩
  | syncEval =>
    simp only [hp] at h; simp at h; obtain ⟨-, rfl⟩ := h
    simp only [TAnn, hp] at ht
    obtain ⟨h1, h2, h3, h4⟩ := ht
    have hne : s.trRef ≠ s.infRef := fun e => h2 e.symm
    refine ⟨hshape.set _ _ (by simp [hshape.p]) (by simp [hshape.g]),
      iann_heap hi rfl rfl rfl (P_set_ne s _ _ _ hne _ rfl), ?_, ?_, hobs⟩
    · simp only [TAnn, St.P, St.G, Heap.get_set_same] at *
      exact ⟨h1, h2, h3, by simpa using h4, by simp, by omega⟩
    · obtain ⟨older, hpub⟩ := hcur
      exact ⟨older, by rw [P_set_ne s _ _ _ hne _ rfl]; exact hpub⟩
  | syncStash k =>
    simp only [hp] at h
    simp only [TAnn, hp] at ht
    obtain ⟨h1, h2, h3, h4, h5, h6⟩ := ht
    have hne : s.trRef ≠ s.infRef := fun e => h2 e.symm
    by_cases hk : k < (s.heap.get s.trRef).params.length
    · simp only [hk, decide_true] at h
      have hlt : k < (s.heap.get s.trRef).grads.length := by rw [hshape.g, ← hshape.p s.trRef]; exact hk
      have hg : (s.heap.get s.trRef).grads[k]? = some ((s.heap.get s.trRef).grads[k]) :=
        List.getElem?_eq_getElem hlt
      rw [hg] at h
      simp at h; obtain ⟨-, rfl⟩ := h
      refine ⟨hshape.set _ _ (by simp [hshape.p]) (by simp [hshape.g]),
        iann_heap hi rfl rfl rfl (P_set_ne s _ _ _ hne _ rfl), ?_, ?_, hobs⟩
      · simp only [TAnn, St.P, St.G, Heap.get_set_same] at *
        refine ⟨h1, h2, h3, ?_, by simp [h5], by rw [hshape.p] at hk; omega⟩
        rw [drop_set_succ, List.append_assoc, List.singleton_append, ← drop_of_getElem? _ k _ hg]
        exact h4
      · obtain ⟨older, hpub⟩ := hcur
        exact ⟨older, by rw [P_set_ne s _ _ _ hne _ rfl]; exact hpub⟩
    · simp only [hk, decide_false] at h
      simp at h; obtain ⟨-, rfl⟩ := h
      refine ⟨hshape, iann_heap hi rfl rfl rfl rfl, ?_, hcur, hobs⟩
      simp only [TAnn, Stashed, St.P, St.G] at *
      have hkn : k = n := by rw [hshape.p] at hk; omega
      have hd : (s.heap.get s.trRef).grads.drop k = [] := by
        apply List.drop_eq_nil_of_le; rw [hshape.g]; omega
      rw [hd, List.append_nil] at h4
      exact ⟨h1, h2, h3, h4, by omega⟩
  | syncReadInf =>
    simp only [hp] at h; simp at h; obtain ⟨-, rfl⟩ := h
    simp only [TAnn, hp] at ht
    exact ⟨hshape, iann_heap hi rfl rfl rfl rfl, by simpa [TAnn, Stashed, St.P] using ht, hcur, hobs⟩
  | syncReadTr a =>
    simp only [hp] at h; simp at h; obtain ⟨-, rfl⟩ := h
    simp only [TAnn, hp] at ht
    exact ⟨hshape, iann_heap hi rfl rfl rfl rfl, by simpa [TAnn, Stashed, St.P] using ht, hcur, hobs⟩
  | syncSetTr a b =>
    simp only [hp] at h; simp at h; obtain ⟨-, rfl⟩ := h
    simp only [TAnn, hp] at ht
    obtain ⟨h1, h2, h3, h4, rfl, rfl⟩ := ht
    refine ⟨hshape, iann_heap hi rfl rfl rfl rfl, ?_, hcur, hobs⟩
    simp only [TAnn, Stashed, St.P] at *
    exact ⟨h1, trivial, fun e => h2 e.symm, h3, h4⟩
  | syncAcq b =>
    simp only [hp] at h
    simp only [TAnn, hp] at ht
    cases hk : s.lock with
    | some t => simp [hk] at h
    | none =>
      simp [hk] at h; obtain ⟨-, rfl⟩ := h
      refine ⟨hshape, iann_nolock hi rfl (by simp [hk]) (by simp), ?_, hcur, hobs⟩
      simp only [TAnn, Stashed, St.P] at *
      exact ⟨trivial, ht.2⟩
  | syncSetInf b =>
    simp only [hp] at h; simp at h; obtain ⟨-, rfl⟩ := h
    simp only [TAnn, hp] at ht
    obtain ⟨h1, h2, h3, h4, h5⟩ := ht
    refine ⟨hshape, iann_nolock hi rfl (by simp [h1]) (by simp [h1]), ?_, ⟨s.published, rfl⟩, ?_⟩
    · simp only [TAnn, Stashed, St.P] at *
      exact ⟨h1, by rw [h2]; exact h3, h4, h5⟩
    · intro hl o ho; exact List.mem_cons_of_mem _ (hobs hl o ho)
  | syncRel =>
    simp only [hp] at h; simp at h; obtain ⟨-, rfl⟩ := h
    simp only [TAnn, hp] at ht
    refine ⟨hshape, iann_nolock hi rfl (by simp [ht.1]) (by simp), ?_, hcur, hobs⟩
    simp only [TAnn, Stashed, St.P] at *
    exact ⟨by simp, ht.2⟩
  | syncSdRef =>
    simp only [hp] at h; simp at h; obtain ⟨-, rfl⟩ := h
    simp only [TAnn, hp] at ht
    refine ⟨hshape, iann_heap hi rfl rfl rfl rfl, ?_, hcur, hobs⟩
    simp only [TAnn, Stashed, St.P] at *
    obtain ⟨h1, h2, h3, h4⟩ := ht
    exact ⟨h1, h2, h3, h4, trivial, by simp⟩
  | syncSd c k sd =>
    simp only [hp] at h
    simp only [TAnn, hp] at ht
    obtain ⟨h1, h2, h3, h4, rfl, h6⟩ := ht
    cases hv : (s.heap.get s.infRef).params[k]? with
    | some v =>
      simp [hv] at h; obtain ⟨-, rfl⟩ := h
      refine ⟨hshape, iann_heap hi rfl rfl rfl rfl, ?_, hcur, hobs⟩
      simp only [TAnn, Stashed, St.P] at *
      exact ⟨h1, h2, h3, h4, trivial, by rw [h6]; exact (take_succ_of_getElem? _ k v hv).symm⟩
    | none =>
      have hsd : sd = (s.heap.get s.infRef).params := by
        rw [h6]; exact take_of_getElem?_none _ k hv
      have hlen : sd.length = (s.heap.get s.trRef).params.length := by
        rw [hsd, hshape.p, hshape.p]
      simp [hv, hlen] at h; obtain ⟨-, rfl⟩ := h
      refine ⟨hshape, iann_heap hi rfl rfl rfl rfl, ?_, hcur, hobs⟩
      simp only [TAnn, Stashed, St.P] at *
      exact ⟨h1, h2, h3, h4, by rw [hsd]; exact h3, by simp⟩
  | syncLoad k sd =>
    simp only [hp] at h
    simp only [TAnn, hp] at ht
    obtain ⟨h1, h2, h3, h4, rfl, h6⟩ := ht
    have hne : s.trRef ≠ s.infRef := fun e => h2 e.symm
    have hprelen : s.pre.1.length = n := by rw [← h3]; exact hshape.p _
    by_cases hk : k < (s.heap.get s.trRef).params.length
    · simp only [hk, decide_true] at h
      have hlt : k < s.pre.1.length := by rw [hprelen, ← hshape.p s.trRef]; exact hk
      have hg : s.pre.1[k]? = some (s.pre.1[k]) := List.getElem?_eq_getElem hlt
      rw [hg] at h
      simp at h; obtain ⟨-, rfl⟩ := h
      refine ⟨hshape.set _ _ (by simp [hshape.p]) (by simp [hshape.g]),
        iann_heap hi rfl rfl rfl (P_set_ne s _ _ _ hne _ rfl), ?_, ?_, hobs⟩
      · simp only [TAnn, Stashed, St.P, Heap.get_set_same] at *
        refine ⟨h1, h2, ?_, h4, trivial, ?_⟩
        · rw [Heap.get_set_ne _ _ hne]; exact h3
        · rw [take_set_succ _ _ _ hk, take_succ_of_getElem? _ k _ hg, h6]
      · obtain ⟨older, hpub⟩ := hcur
        exact ⟨older, by rw [P_set_ne s _ _ _ hne _ rfl]; exact hpub⟩
    · simp only [hk, decide_false] at h
      simp at h; obtain ⟨-, rfl⟩ := h
      refine ⟨hshape, iann_heap hi rfl rfl rfl rfl, ?_, hcur, hobs⟩
      simp only [TAnn, Stashed, St.P, St.G] at *
      have hT : (s.heap.get s.trRef).params = s.pre.1 := by
        have a1 := List.take_of_length_le (l := (s.heap.get s.trRef).params) (i := k) (by omega)
        have a2 := List.take_of_length_le (l := s.pre.1) (i := k)
          (by rw [hprelen, ← hshape.p s.trRef]; omega)
        rw [a1, a2] at h6; exact h6
      exact ⟨h1, h2, h3, hT, h4, by simp⟩
  | syncRestore k =>
    simp only [hp] at h
    simp only [TAnn, hp] at ht
    obtain ⟨h1, h2, h3, h3', ⟨h4, h5⟩, h6⟩ := ht
    have hne : s.trRef ≠ s.infRef := fun e => h2 e.symm
    by_cases hk : k < (s.heap.get s.trRef).params.length
    · simp only [hk, decide_true] at h
      have hlt : k < s.stash.length := by rw [h5, ← hshape.p s.trRef]; exact hk
      have hg : s.stash[k]? = some (s.stash[k]) := List.getElem?_eq_getElem hlt
      rw [hg] at h
      simp at h; obtain ⟨-, rfl⟩ := h
      have hkg : k < (s.heap.get s.trRef).grads.length := by rw [hshape.g, ← hshape.p s.trRef]; exact hk
      refine ⟨hshape.set _ _ (by simp [hshape.p]) (by simp [hshape.g]),
        iann_heap hi rfl rfl rfl (P_set_ne s _ _ _ hne _ rfl), ?_, ?_, hobs⟩
      · simp only [TAnn, Stashed, St.P, St.G, Heap.get_set_same] at *
        refine ⟨h1, h2, ?_, h3', ⟨h4, h5⟩, ?_⟩
        · rw [Heap.get_set_ne _ _ hne]; exact h3
        · rw [take_set_succ _ _ _ hkg, h6, ← h4, take_succ_of_getElem? _ k _ hg]
      · obtain ⟨older, hpub⟩ := hcur
        exact ⟨older, by rw [P_set_ne s _ _ _ hne _ rfl]; exact hpub⟩
    · simp only [hk, decide_false] at h
      simp at h; obtain ⟨-, rfl⟩ := h
      refine ⟨hshape, iann_heap hi rfl rfl rfl rfl, ?_, hcur, hobs⟩
      simp only [TAnn, Stashed, St.P, St.G] at *
      have hG : (s.heap.get s.trRef).grads = s.pre.2 := by
        have a1 := List.take_of_length_le (l := (s.heap.get s.trRef).grads) (i := k)
          (by rw [hshape.g, ← hshape.p s.trRef]; omega)
        have a2 := List.take_of_length_le (l := s.pre.2) (i := k)
          (by rw [← h4, h5, ← hshape.p s.trRef]; omega)
        rw [a1, a2] at h6; exact h6
      exact ⟨h1, h2, h3, h3', hG⟩
  | syncTrain =>
    simp only [hp] at h; simp at h; obtain ⟨-, rfl⟩ := h
    simp only [TAnn, hp] at ht
    obtain ⟨h1, h2, h3, h4, h5⟩ := ht
    have hne : s.trRef ≠ s.infRef := fun e => h2 e.symm
    refine ⟨hshape.set _ _ (by simp [hshape.p]) (by simp [hshape.g]),
      iann_heap hi rfl rfl rfl (P_set_ne s _ _ _ hne _ rfl), ?_, ?_, hobs⟩
    · simp only [TAnn]; exact ⟨h1, h2⟩
    · obtain ⟨older, hpub⟩ := hcur
      exact ⟨older, by rw [P_set_ne s _ _ _ hne _ rfl]; exact hpub⟩
  | raised => simp [hp] at h


/-! ### Frames -/


/-- The inference thread only touches the lock, its own program counter/program and `obs`. -/
theorem stepI_frame {cfg : Cfg} {s s' : St} {l : Label} (h : stepI cfg s = some (l, s')) :
    s'.heap = s.heap ∧ s'.infRef = s.infRef ∧ s'.trRef = s.trRef ∧ s'.tpc = s.tpc ∧
    s'.tprog = s.tprog ∧ s'.stash = s.stash ∧ s'.published = s.published ∧ s'.pre = s.pre := by
  unfold stepI at h
  cases hp : s.ipc <;> simp only [hp] at h
  · cases hq : s.iprog with
    | nil => simp [hq] at h
    | cons op rest => cases op <;> simp [hq] at h <;> obtain ⟨-, rfl⟩ := h <;> simp
  · cases hk : s.lock <;> simp [hk] at h; obtain ⟨-, rfl⟩ := h; simp
  · simp at h; obtain ⟨-, rfl⟩ := h; simp
  · simp at h; obtain ⟨-, rfl⟩ := h; simp
  · cases hk : s.lock <;> simp [hk] at h; obtain ⟨-, rfl⟩ := h; simp
  · simp at h; obtain ⟨-, rfl⟩ := h; simp
  · rename_i m k seen
    cases hv : (s.heap.get m).params[k]? <;> simp [hv] at h <;> obtain ⟨-, rfl⟩ := h <;> simp

/-- The training thread never touches the inference thread's program counter, program or `obs`;
`pre` changes only when a `sync` starts, `published` only at the swap. -/
theorem stepT_frame {cfg : Cfg} {s s' : St} {l : Label} (h : stepT cfg s = some (l, s')) :
    s'.ipc = s.ipc ∧ s'.iprog = s.iprog ∧ s'.obs = s.obs ∧ (s.tpc ≠ .idle → s'.pre = s.pre) ∧
    ((∀ b, s.tpc ≠ .syncSetInf b) → s'.published = s.published) := by
  unfold stepT at h
  cases hp : s.tpc <;> simp only [hp] at h
  case idle =>
    cases hq : s.tprog with
    | nil => simp [hq] at h
    | cons op rest =>
      cases op with
      | train vals => simp [hq] at h; obtain ⟨-, rfl⟩ := h; simp
      | sync =>
        cases hn : cfg.needSync <;> simp [hq, hn] at h <;> obtain ⟨-, rfl⟩ := h <;> simp
  case write k vals =>
    cases hv : vals[k]? with
    | none => simp [hv] at h; obtain ⟨-, rfl⟩ := h; simp
    | some vg => obtain ⟨v, g⟩ := vg; simp [hv] at h; obtain ⟨-, rfl⟩ := h; simp
  case syncEval => simp at h; obtain ⟨-, rfl⟩ := h; simp
  case syncStash k =>
    by_cases hk : k < (s.heap.get s.trRef).params.length
    · simp only [hk, decide_true] at h
      cases hg : (s.heap.get s.trRef).grads[k]? <;> simp [hg] at h <;> obtain ⟨-, rfl⟩ := h <;> simp
    · simp only [hk, decide_false] at h; simp at h; obtain ⟨-, rfl⟩ := h; simp
  case syncReadInf => simp at h; obtain ⟨-, rfl⟩ := h; simp
  case syncReadTr a => simp at h; obtain ⟨-, rfl⟩ := h; simp
  case syncSetTr a b => simp at h; obtain ⟨-, rfl⟩ := h; simp
  case syncAcq b => cases hk : s.lock <;> simp [hk] at h; obtain ⟨-, rfl⟩ := h; simp
  case syncSetInf b => simp at h; obtain ⟨-, rfl⟩ := h; simp
  case syncRel => simp at h; obtain ⟨-, rfl⟩ := h; simp
  case syncSdRef => simp at h; obtain ⟨-, rfl⟩ := h; simp
  case syncSd c k sd =>
    cases hv : (s.heap.get c).params[k]? with
    | some v => simp [hv] at h; obtain ⟨-, rfl⟩ := h; simp
    | none =>
      by_cases hk : sd.length = (s.heap.get s.trRef).params.length <;>
        simp [hv, hk] at h <;> obtain ⟨-, rfl⟩ := h <;> simp
  case syncLoad k sd =>
    by_cases hk : k < (s.heap.get s.trRef).params.length
    · simp only [hk, decide_true] at h
      cases hg : sd[k]? <;> simp [hg] at h <;> obtain ⟨-, rfl⟩ := h <;> simp
    · simp only [hk, decide_false] at h; simp at h; obtain ⟨-, rfl⟩ := h; simp
  case syncRestore k =>
    by_cases hk : k < (s.heap.get s.trRef).params.length
    · simp only [hk, decide_true] at h
      cases hg : s.stash[k]? <;> simp [hg] at h <;> obtain ⟨-, rfl⟩ := h <;> simp
    · simp only [hk, decide_false] at h; simp at h; obtain ⟨-, rfl⟩ := h; simp
  case syncTrain => simp at h; obtain ⟨-, rfl⟩ := h; simp
  case raised => simp at h


/-! ### Every reachable state -/

theorem inv_step {cfg : Cfg} (hn : cfg.needSync = true) {s s' : St} {t : Tid} {l : Label} {n : Nat}
    (hinv : Inv cfg.late s n) (h : step cfg s t = some (l, s')) : Inv cfg.late s' n := by
  cases t
  · exact inv_stepI hinv h
  · exact inv_stepT hn hinv h

theorem inv_reachable {cfg : Cfg} (hn : cfg.needSync = true) {s0 s : St} (hi : Init cfg s0)
    (hr : Reachable cfg s0 s) : Inv cfg.late s s0.heap.m0.params.length := by
  induction hr with
  | init => exact inv_init hn hi
  | step _ hs ih => exact inv_step hn ih hs

theorem reachable_of_exec {cfg : Cfg} {s0 s s' : St} (hr : Reachable cfg s0 s) (sch : List Tid)
    (h : exec cfg s sch = some s') : Reachable cfg s0 s' := by
  induction sch generalizing s with
  | nil => simp [exec] at h; exact h ▸ hr
  | cons t sch ih =>
    simp only [exec] at h
    cases hs : step cfg s t with
    | none => simp [hs] at h
    | some r =>
      obtain ⟨l, s1⟩ := r
      simp only [hs, Option.bind_some] at h
      exact ih (Reachable.step hr hs) h

end Pamiq.TorchSync
