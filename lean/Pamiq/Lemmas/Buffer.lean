/- Helper lemmas for `Props/C11.lean` (not property statements). -/
import Pamiq.Model.Buffer
import Mathlib.Tactic.Linarith
import Mathlib.Tactic.NormNum
import Mathlib.Algebra.Order.Field.Rat

namespace Pamiq.Buffer
open Pamiq

theorem lastN_length {α} (n : Nat) (l : List α) : (lastN n l).length = min n l.length := by
  simp [lastN]; omega

theorem mem_of_mem_lastN {α} {n : Nat} {l : List α} {x : α} (h : x ∈ lastN n l) : x ∈ l :=
  List.mem_of_mem_drop h

theorem lastN_of_le {α} (n : Nat) (l : List α) (h : l.length ≤ n) : lastN n l = l := by
  simp [lastN, Nat.sub_eq_zero_of_le h]
theorem lastN_zero {α} (l : List α) : lastN 0 l = [] := by simp [lastN]
theorem lastN_append_lastN {α} (n : Nat) (l : List α) (x : α) :
    lastN n (lastN n l ++ [x]) = lastN n (l ++ [x]) := by
  by_cases h : l.length ≤ n
  · rw [lastN_of_le n l h]
  · cases n with
    | zero => simp [lastN_zero]
    | succ m =>
      have hl : m + 1 < l.length := by omega
      unfold lastN
      have e1 : (List.drop (l.length - (m+1)) l ++ [x]).length - (m+1) = 1 := by
        simp [List.length_drop]; omega
      have e2 : (l ++ [x]).length - (m+1) = (l.length - (m+1)) + 1 := by simp; omega
      have e3 : 1 ≤ (List.drop (l.length - (m+1)) l).length := by simp [List.length_drop]; omega
      have e4 : (l.length - (m+1)) + 1 ≤ l.length := by omega
      rw [e1, e2, List.drop_append_of_le_length e3, List.drop_append_of_le_length e4, List.drop_drop]
theorem dequeAppend_eq {α} (n : Nat) (q : List α) (x : α) (h : q.length ≤ n) :
    dequeAppend n q x = lastN n (q ++ [x]) := by
  unfold dequeAppend lastN
  simp only [List.length_append, List.length_cons, List.length_nil]
  split
  · congr 1; omega
  · have : q.length + (0 + 1) - n = 0 := by omega
    simp [this]

/-! ### `int(x)` -/

theorem truncate_nonneg (r : Rat) (h : 0 ≤ r) : 0 ≤ truncate r := by
  unfold truncate
  exact Int.tdiv_nonneg (Rat.num_nonneg.mpr h) (by exact_mod_cast Nat.zero_le _)

theorem truncate_le (r : Rat) (h : 0 ≤ r) : ((truncate r : Int) : Rat) ≤ r := by
  unfold truncate
  have hn : 0 ≤ r.num := Rat.num_nonneg.mpr h
  have hd : (0 : Int) < r.den := by exact_mod_cast r.den_pos
  rw [Int.tdiv_eq_ediv_of_nonneg hn]
  have h1 : r.num / (r.den : Int) * r.den ≤ r.num := Int.ediv_mul_le _ (by omega)
  have h2 : (r.num : Rat) / (r.den : Rat) = r := Rat.num_div_den r
  have hd' : (0 : Rat) < (r.den : Rat) := by exact_mod_cast r.den_pos
  have h3 : ((r.num / (r.den : Int) : Int) : Rat) ≤ (r.num : Rat) / (r.den : Rat) := by
    rw [le_div_iff₀ hd']; exact_mod_cast h1
  rwa [h2] at h3

theorem clamp01_range (x : Rat) : 0 ≤ clamp01 x ∧ clamp01 x ≤ 1 := by
  unfold clamp01
  split
  · norm_num
  · split
    · norm_num
    · constructor <;> linarith

theorem queueSize_total (n : Nat) (p : Rat) (hp : 0 ≤ p) :
    ∃ q : Int, queueSize repaired n p = .ok q ∧ 0 ≤ q ∧ q ≤ sysMaxsize := by
  unfold queueSize
  simp only [repaired, if_true]
  split
  · rename_i hpos
    have hr : (0 : Rat) ≤ (n : Rat) / p := div_nonneg (by exact_mod_cast Nat.zero_le n) hp
    split
    · rename_i hlt
      refine ⟨_, rfl, truncate_nonneg _ hr, ?_⟩
      have := truncate_le _ hr
      have h2 : ((truncate ((n : Rat) / p) : Int) : Rat) < ((sysMaxsize : Int) : Rat) := lt_of_le_of_lt this hlt
      exact le_of_lt (by exact_mod_cast h2)
    · exact ⟨_, rfl, by decide, le_refl _⟩
  · exact ⟨_, rfl, by decide, le_refl _⟩


/-! ### membership after one operation -/

theorem mem_dequeAppend {α} {n : Nat} {q : List α} {x y : α} (h : y ∈ dequeAppend n q x) :
    y ∈ q ∨ y = x := by
  simp only [dequeAppend] at h
  have : y ∈ q ++ [x] := by
    split at h
    · exact List.mem_of_mem_drop h
    · exact h
  simpa using this

theorem rrb_add_mem {α} (v : Variant) (b b' : Rrb α) (x : α) (u : Rat) (i : Nat)
    (h : b.add v x u i = .ok b') : ∀ y ∈ b'.data, y ∈ b.data ∨ y = x := by
  intro y hy
  unfold Rrb.add at h
  split at h
  · split at h
    · cases h; exact .inl hy
    · split at h
      · cases h
      · split at h
        · cases h; exact List.mem_or_eq_of_mem_set hy
        · cases h
  · cases h
    simpa using hy

/-! ### columns of the dict variants -/
/-- The column of key `k`: the value of `k` in every stored sample that has it, in buffer order. -/
def column (k : String) (items : List Sample) : List Int := items.filterMap (lookupS k)

/-- Tabulated columns: the shape `get_data` builds. -/
def tabulate (keys : List String) (acc : String → List Int) : Columns := keys.map fun k => (k, acc k)

theorem sameKeySet_mem {a b : List String} (h : sameKeySet a b = true) (k : String) :
    k ∈ a ↔ k ∈ b := by
  simp only [sameKeySet, Bool.and_eq_true, List.all_eq_true, List.contains_iff_mem] at h
  exact ⟨fun hk => by simpa using h.1 k hk, fun hk => by simpa using h.2 k hk⟩

theorem lookupS_none {k : String} {d : Sample} (h : k ∉ sampleKeys d) : lookupS k d = none := by
  induction d with
  | nil => rfl
  | cons e rest ih =>
    obtain ⟨k', v⟩ := e
    simp only [sampleKeys, List.map_cons, List.mem_cons, not_or] at h
    simp only [lookupS]
    rw [if_neg (fun hh => h.1 hh.symm)]
    exact ih h.2

theorem lookupS_some {k : String} {d : Sample} (h : k ∈ sampleKeys d) : ∃ v, lookupS k d = some v := by
  induction d with
  | nil => simp [sampleKeys] at h
  | cons e rest ih =>
    obtain ⟨k', v⟩ := e
    simp only [lookupS]
    by_cases hk : k' = k
    · exact ⟨v, by rw [if_pos hk]⟩
    · rw [if_neg hk]
      simp only [sampleKeys, List.map_cons, List.mem_cons] at h
      rcases h with h | h
      · exact absurd h.symm hk
      · exact ih h

theorem appendAt_tabulate (keys : List String) (acc : String → List Int) (k : String) (v : Int)
    (hk : k ∈ keys) :
    appendAt (tabulate keys acc) k v =
      .ok (tabulate keys fun k' => if k' = k then acc k' ++ [v] else acc k') := by
  unfold appendAt tabulate
  rw [if_pos (by simp; exact hk)]
  congr 1
  rw [List.map_map]
  apply List.map_congr_left
  intro k' _
  by_cases h : k' = k <;> simp [h]

theorem collectSample_tabulate (keys : List String) (d : Sample) (acc : String → List Int)
    (hnd : (sampleKeys d).Nodup) (hsub : ∀ k ∈ sampleKeys d, k ∈ keys) :
    collectSample d (tabulate keys acc) =
      .ok (tabulate keys fun k => acc k ++ (lookupS k d).toList) := by
  induction d generalizing acc with
  | nil => simp [collectSample, lookupS]
  | cons e rest ih =>
    obtain ⟨k, v⟩ := e
    simp only [sampleKeys, List.map_cons, List.nodup_cons] at hnd
    have hk : k ∈ keys := hsub k (by simp [sampleKeys])
    simp only [collectSample, appendAt_tabulate keys acc k v hk]
    rw [ih _ hnd.2 (fun k' hk' => hsub k' (by simp [sampleKeys] at hk' ⊢; exact .inr hk'))]
    congr 1
    unfold tabulate
    apply List.map_congr_left
    intro k' _
    simp only [lookupS]
    by_cases h : k' = k
    · subst h
      have : lookupS k' rest = none := lookupS_none (by simpa [sampleKeys] using hnd.1)
      simp [this]
    · have h' : ¬ k = k' := fun hh => h hh.symm
      simp [h, h']

theorem collectAll_tabulate (keys : List String) (items : List Sample) (acc : String → List Int)
    (hw : ∀ d ∈ items, (sampleKeys d).Nodup ∧ ∀ k ∈ sampleKeys d, k ∈ keys) :
    collectAll items (tabulate keys acc) = .ok (tabulate keys fun k => acc k ++ column k items) := by
  induction items generalizing acc with
  | nil => simp [collectAll, column]
  | cons d rest ih =>
    have hd := hw d List.mem_cons_self
    simp only [collectAll, collectSample_tabulate keys d acc hd.1 hd.2]
    rw [ih _ (fun d' hd' => hw d' (List.mem_cons_of_mem _ hd'))]
    congr 1
    unfold tabulate
    apply List.map_congr_left
    intro k _
    simp only [column, List.filterMap_cons]
    cases lookupS k d <;> simp


end Pamiq.Buffer
