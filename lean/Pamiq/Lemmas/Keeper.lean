/- Helper lemmas for `Props/C18.lean` (not property statements). -/
import Pamiq.Model.Keeper
import Mathlib.Tactic.Linarith

namespace Pamiq.Keeper
open Pamiq

/-! ### the file-system value -/

theorem kind?_remove (fs : FS) (p q : Path) :
    (fs.remove p).kind? q = if q = p then none else fs.kind? q := by
  induction fs with
  | nil => simp [FS.remove, FS.kind?]
  | cons e rest ih =>
    obtain ⟨x, k⟩ := e
    simp only [FS.remove, List.filter_cons] at ih ⊢
    by_cases hx : x = p
    · subst hx
      simp only [ne_eq, not_true_eq_false, decide_false, Bool.false_eq_true, ↓reduceIte]
      rw [ih]
      simp only [FS.kind?]
      by_cases hq : q = x
      · simp [hq]
      · have : ¬ x = q := fun h => hq h.symm
        simp [hq, this]
    · simp only [ne_eq, hx, not_false_eq_true, decide_true, ↓reduceIte, FS.kind?]
      by_cases hq : x = q
      · subst hq; simp [hx]
      · simp only [hq, ↓reduceIte]; exact ih

theorem kind?_append_single (fs : FS) (p q : Path) (k : Kind) :
    (fs ++ [(p, k)]).kind? q = match fs.kind? q with
      | some k' => some k'
      | none => if p = q then some k else none := by
  induction fs with
  | nil => simp [FS.kind?]
  | cons e rest ih =>
    obtain ⟨x, k'⟩ := e
    simp only [List.cons_append, FS.kind?]
    by_cases hx : x = q
    · simp [hx]
    · simp only [hx, ↓reduceIte]; exact ih

/-- Creating a path never makes another one disappear or change kind. -/
theorem kind?_create (fs : FS) (p q : Path) (k : Kind) (h : fs.kind? q ≠ none) :
    (fs.create p k).kind? q = fs.kind? q := by
  unfold FS.create
  split
  · rfl
  · rw [kind?_append_single]
    cases hq : fs.kind? q with
    | none => exact absurd hq h
    | some k' => rfl

/-! ### the removal loop -/

theorem rmLoop_spec (sel : List Path) (fs : FS) (acc : List Path) :
    ∃ rem, (rmLoop sel fs acc).2.1 = acc ++ rem ∧
      (∀ p ∈ rem, p ∈ sel ∧ fs.kind? p = some .dir) ∧
      (∀ q, (rmLoop sel fs acc).1.kind? q = if q ∈ rem then none else fs.kind? q) ∧
      ((rmLoop sel fs acc).2.2 = none → ∀ p ∈ sel, (rmLoop sel fs acc).1.kind? p = none) ∧
      ((∀ p ∈ sel, fs.kind? p ≠ some .file) → (rmLoop sel fs acc).2.2 = none) := by
  induction sel generalizing fs acc with
  | nil => exact ⟨[], by simp [rmLoop], by simp, by simp [rmLoop], by simp, by simp [rmLoop]⟩
  | cons p rest ih =>
    cases hk : fs.kind? p with
    | none =>
      obtain ⟨rem, h1, h2, h3, h4, h5⟩ := ih fs acc
      refine ⟨rem, by simp [rmLoop, hk, h1], fun x hx => ⟨List.mem_cons_of_mem _ (h2 x hx).1, (h2 x hx).2⟩,
        by simpa [rmLoop, hk] using h3, ?_, ?_⟩
      · intro he x hx
        simp only [rmLoop, hk] at he ⊢
        rcases List.mem_cons.mp hx with rfl | hx'
        · rw [h3]; split <;> simp [hk]
        · exact h4 he x hx'
      · intro hd
        simp only [rmLoop, hk]
        exact h5 fun x hx => hd x (List.mem_cons_of_mem _ hx)
    | some kd =>
      cases kd with
      | file =>
        refine ⟨[], by simp [rmLoop, hk], by simp, by simp [rmLoop, hk], by simp [rmLoop, hk], ?_⟩
        intro hd; exact absurd hk (hd p List.mem_cons_self)
      | dir =>
        obtain ⟨rem, h1, h2, h3, h4, h5⟩ := ih (fs.remove p) (acc ++ [p])
        refine ⟨p :: rem, by simp [rmLoop, hk, h1], ?_, ?_, ?_, ?_⟩
        · intro x hx
          rcases List.mem_cons.mp hx with rfl | hx'
          · exact ⟨List.mem_cons_self, hk⟩
          · have := h2 x hx'
            rw [kind?_remove] at this
            refine ⟨List.mem_cons_of_mem _ this.1, ?_⟩
            by_cases hxp : x = p
            · simp [hxp] at this
            · simpa [hxp] using this.2
        · intro q
          simp only [rmLoop, hk]
          rw [h3, kind?_remove]
          by_cases hq : q = p
          · simp [hq]
          · simp [hq]
        · intro he x hx
          simp only [rmLoop, hk] at he ⊢
          rcases List.mem_cons.mp hx with rfl | hx'
          · rw [h3, kind?_remove]; simp
          · exact h4 he x hx'
        · intro hd
          simp only [rmLoop, hk]
          apply h5
          intro x hx
          rw [kind?_remove]
          by_cases hxp : x = p
          · simp [hxp]
          · simpa [hxp] using hd x (List.mem_cons_of_mem _ hx)

/-! ### the initial scan: a sorted permutation -/

theorem insertByMtime_perm (e : Entry) (l : List Entry) : (insertByMtime e l).Perm (e :: l) := by
  induction l with
  | nil => exact List.Perm.refl _
  | cons x rest ih =>
    simp only [insertByMtime]
    split
    · exact List.Perm.refl _
    · exact (List.Perm.cons x ih).trans (List.Perm.swap e x rest)

theorem sortByMtime_perm (l : List Entry) : (sortByMtime l).Perm l := by
  induction l with
  | nil => exact List.Perm.refl _
  | cons e rest ih => exact (insertByMtime_perm e _).trans (List.Perm.cons e ih)

theorem insertByMtime_sorted (e : Entry) (l : List Entry)
    (h : l.Pairwise fun a b => a.mtime ≤ b.mtime) :
    (insertByMtime e l).Pairwise fun a b => a.mtime ≤ b.mtime := by
  induction l with
  | nil => simp [insertByMtime]
  | cons x rest ih =>
    simp only [insertByMtime]
    rw [List.pairwise_cons] at h
    split
    · rename_i hlt
      refine List.pairwise_cons.mpr ⟨?_, List.pairwise_cons.mpr h⟩
      intro y hy
      rcases List.mem_cons.mp hy with rfl | hy'
      · omega
      · have := h.1 y hy'; omega
    · rename_i hge
      refine List.pairwise_cons.mpr ⟨?_, ih h.2⟩
      intro y hy
      rcases List.mem_cons.mp ((insertByMtime_perm e rest).mem_iff.mp hy) with rfl | hy'
      · omega
      · exact h.1 y hy'

theorem sortByMtime_sorted (l : List Entry) :
    (sortByMtime l).Pairwise fun a b => a.mtime ≤ b.mtime := by
  induction l with
  | nil => simp [sortByMtime]
  | cons e rest ih => exact insertByMtime_sorted e _ ih

/-! ### paths -/

theorem joinPath_inj (dir a b : String) (h : joinPath dir a = joinPath dir b) : a = b := by
  unfold joinPath at h
  have := congrArg String.toList h
  simp only [String.toList_append] at this
  have := List.append_cancel_left this
  exact String.toList_inj.mp this

theorem nodup_map_inj {α β} (f : α → β) (hf : ∀ a b, f a = f b → a = b) (l : List α) (h : l.Nodup) :
    (l.map f).Nodup := by
  induction l with
  | nil => simp
  | cons x rest ih =>
    rw [List.nodup_cons] at h
    simp only [List.map_cons, List.nodup_cons, List.mem_map, not_exists, not_and]
    exact ⟨fun y hy hxy => h.1 (hf _ _ hxy ▸ hy), ih h.2⟩

end Pamiq.Keeper
