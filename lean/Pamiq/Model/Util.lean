/-
Shared, import-free helpers for the executable models and the line-protocol driver.
Nothing here is part of any theorem statement except `lastN`.
-/
namespace Pamiq

/-- Parse `-3/4`, `7`, `-2` as an exact rational. Malformed input is rejected, never defaulted. -/
def parseRat (s : String) : Option Rat :=
  match s.splitOn "/" with
  | [n] => n.toInt?.map (fun i => (i : Rat))
  | [n, d] => do
      let a ← n.toInt?
      let b ← d.toNat?
      if b = 0 then none else some ((a : Rat) / (b : Rat))
  | _ => none

def showRat (q : Rat) : String :=
  if q.den = 1 then toString q.num else s!"{q.num}/{q.den}"

def parseBool (s : String) : Option Bool :=
  if s = "1" ∨ s = "true" ∨ s = "True" then some true
  else if s = "0" ∨ s = "false" ∨ s = "False" then some false
  else none

def showBool (b : Bool) : String := if b then "1" else "0"

def showList {α} (f : α → String) (l : List α) : String :=
  "[" ++ ",".intercalate (l.map f) ++ "]"

/-- Parse `[1,2,3]` / `[]` with an element parser. -/
def parseList {α} (f : String → Option α) (s : String) : Option (List α) :=
  if s.length < 2 ∨ s.front ≠ '[' ∨ s.back ≠ ']' then none
  else
    let inner := ((s.drop 1).dropEnd 1).toString
    if inner.isEmpty then some [] else (inner.splitOn ",").mapM f

/-- The last `n` elements of a list (what a `deque(maxlen=n)` retains). -/
def lastN {α} (n : Nat) (l : List α) : List α := l.drop (l.length - n)

/-- `key=value` lookup in a token list. -/
def kv (toks : List String) (key : String) : Option String :=
  toks.findSome? fun t =>
    match t.splitOn "=" with
    | [k, v] => if k = key then some v else none
    | _ => none

end Pamiq
