/-
Line protocol for the TorchSync model (see `Driver.lean`). Import-free.

  torchsync reset late=1 sync=1 inf=1 tr=0 p0=[1,2] g0=[n,3] t0=1 p1=[1,2] g1=[n,n] t1=1
                  iprog=[infer,unwrap] tprog=[train:5/n:6/2,sync]            -> ok
  torchsync ev inf acq | ev inf rel | ev inf rparam 1 0 5 | ev tr wparam 0 1 7 | ev tr setinf 0
  torchsync ev tr synced inf=0 tr=1 pinf=[..] ptr=[..] gtr=[..] training=1   -> ok <n> | diverge expected=[..]
  torchsync chk infref 1                                                      -> ok | diverge infref=<m>
  torchsync end                    -> done obs=[[..]] pub=[[..]] inf=.. tr=.. p0=.. … | unfinished <n>
  torchsync run sched=[i,t,t,…]    -> (deterministic schedule from the reset state) same as `end`,
                                      or `stuck <k>` when step k is not enabled

`ev` follows an implementation trace (trace refinement): the driver keeps the SET of model states
compatible with the visible events so far; reads of the module references, the bookkeeping of
`sync_impl` on thread-private data (gradient stash, mode flags) and operation boundaries are
invisible (`tau`) and are closed over before every event.
-/
import Pamiq.Model.TorchSync
namespace Pamiq.TorchSync
open Pamiq

def showMid (m : Mid) : String := if m then "1" else "0"

def parseMid : String → Option Mid
  | "0" => some false
  | "1" => some true
  | _ => none

def showOptInt : Option Int → String
  | none => "n"
  | some i => toString i

def parseOptInt (s : String) : Option (Option Int) :=
  if s = "n" then some none else s.toInt?.map some

def showInts (l : List Int) : String := showList toString l

def showLabel : Label → String
  | .tau => "tau"
  | .acq => "acq"
  | .rel => "rel"
  | .rparam m k v => s!"rparam {showMid m} {k} {v}"
  | .wparam m k v => s!"wparam {showMid m} {k} {v}"
  | .setinf m => s!"setinf {showMid m}"
  | .synced i t pi pt gt tt =>
    s!"synced inf={showMid i} tr={showMid t} pinf={showInts pi} ptr={showInts pt} " ++
    s!"gtr={showList showOptInt gt} training={showBool tt}"

def parseIOp : String → Option IOp
  | "infer" => some .infer
  | "unwrap" => some .unwrap
  | _ => none

def parsePair (s : String) : Option (Int × Option Int) :=
  match s.splitOn "/" with
  | [v, g] => do pure (← v.toInt?, ← parseOptInt g)
  | _ => none

def parseTOp (s : String) : Option TOp :=
  match s.splitOn ":" with
  | ["sync"] => some .sync
  | "train" :: pairs => (pairs.mapM parsePair).map .train
  | _ => none

def parseTid : String → Option Tid
  | "inf" | "i" => some .inf
  | "tr" | "t" => some .tr
  | _ => none

def parseModule (toks : List String) (i : String) : Option Module := do
  let p ← parseList String.toInt? (← kv toks ("p" ++ i))
  let g ← parseList parseOptInt (← kv toks ("g" ++ i))
  let t ← parseBool (← kv toks ("t" ++ i))
  pure ⟨p, g, t⟩

def parseReset (toks : List String) : Option (Cfg × St) := do
  let late ← parseBool (← kv toks "late")
  let sync ← parseBool (← kv toks "sync")
  let inf ← parseMid (← kv toks "inf")
  let tr ← parseMid (← kv toks "tr")
  let m0 ← parseModule toks "0"
  let m1 ← parseModule toks "1"
  let ip ← parseList parseIOp (← kv toks "iprog")
  let tp ← parseList parseTOp (← kv toks "tprog")
  let heap : Heap := ⟨m0, m1⟩
  pure (⟨late, sync⟩, { heap := heap, infRef := inf, trRef := tr, iprog := ip, tprog := tp,
                        published := [(heap.get inf).params] })

/-- Invisible successors of a state. -/
def tauSucc (cfg : Cfg) (s : St) : List St :=
  [Tid.inf, Tid.tr].filterMap fun t =>
    match step cfg s t with
    | some (.tau, s') => some s'
    | _ => none

/-- All states reachable by invisible steps (breadth first; every chain of invisible steps is
finite, `fuel` only makes the function total). -/
def closure (cfg : Cfg) : Nat → List St → List St → List St
  | 0, seen, _ => seen
  | fuel + 1, seen, frontier =>
    let new := ((frontier.flatMap (tauSucc cfg)).eraseDups).filter fun s => !seen.contains s
    if new.isEmpty then seen else closure cfg fuel (seen ++ new) new

/-- States after the visible event `ev` of thread `t`, and the visible events `t` could have made. -/
def follow (cfg : Cfg) (S : List St) (t : Tid) (ev : String) : List St × List String :=
  let cl := closure cfg 100000 S S
  let nexts := cl.filterMap fun s =>
    match step cfg s t with
    | some (l, s') => if l = .tau then none else some (showLabel l, s')
    | none => none
  (((nexts.filter (·.1 = ev)).map (·.2)).eraseDups, (nexts.map (·.1)).eraseDups)

def finished (s : St) : Bool :=
  s.ipc = .idle ∧ s.iprog = [] ∧ s.tpc = .idle ∧ s.tprog = []

def showModule (i : String) (m : Module) : String :=
  s!"p{i}={showInts m.params} g{i}={showList showOptInt m.grads} t{i}={showBool m.training}"

def showFinal (s : St) : String :=
  s!"obs={showList showInts s.obs} pub={showList showInts s.published} inf={showMid s.infRef} " ++
  s!"tr={showMid s.trRef} {showModule "0" s.heap.m0} {showModule "1" s.heap.m1}"

def showPc (s : St) : String :=
  let i := match s.ipc with
    | .idle => "idle" | .inferAcq => "inferAcq" | .inferRef => "inferRef" | .unwCall => "unwCall"
    | .unwAcq _ => "unwAcq" | .unwResolve => "unwResolve" | .holding m k _ => s!"holding{showMid m}@{k}"
  let t := match s.tpc with
    | .idle => "idle" | .write k _ => s!"write@{k}" | .syncEval => "syncEval"
    | .syncStash k => s!"syncStash@{k}" | .syncReadInf => "syncReadInf" | .syncReadTr _ => "syncReadTr"
    | .syncSetTr _ _ => "syncSetTr" | .syncAcq _ => "syncAcq" | .syncSetInf _ => "syncSetInf"
    | .syncRel => "syncRel" | .syncSdRef => "syncSdRef" | .syncSd _ k _ => s!"syncSd@{k}"
    | .syncLoad k _ => s!"syncLoad@{k}" | .syncRestore k => s!"syncRestore@{k}"
    | .syncTrain => "syncTrain" | .raised => "raised"
  s!"{i}/{t}"

def finish (cfg : Cfg) (S : List St) : String :=
  let cl := closure cfg 100000 S S
  match (cl.filter finished).eraseDups with
  | [s] => "done " ++ showFinal s
  | [] => s!"unfinished {cl.length} " ++ showList showPc (cl.take 4)
  | many => "ambiguous " ++ showList showFinal many

/-- Deterministic run of a schedule; index of the first disabled step on failure. -/
def runSched (cfg : Cfg) : St → List Tid → Nat → Except Nat St
  | s, [], _ => .ok s
  | s, t :: sch, k =>
    match step cfg s t with
    | some (_, s') => runSched cfg s' sch (k + 1)
    | none => .error k

abbrev DSt := Option (Cfg × St × List St)

def drive (d : DSt) (toks : List String) : DSt × String :=
  match toks with
  | "reset" :: rest =>
    match parseReset rest with
    | some (cfg, s) => (some (cfg, s, [s]), "ok")
    | none => (d, "bad-op")
  | "ev" :: t :: rest =>
    match d, parseTid t, rest with
    | _, _, [] => (d, "bad-op")
    | some (cfg, s0, S), some t, _ =>
      let (S', exp) := follow cfg S t (" ".intercalate rest)
      if S'.isEmpty then (d, "diverge expected=" ++ showList id exp)
      else (some (cfg, s0, S'), s!"ok {S'.length}")
    | _, _, _ => (d, "bad-op")
  | ["chk", "infref", m] =>
    match d, parseMid m with
    | some (_, _, S), some m =>
      match S.find? (fun s => s.infRef ≠ m) with
      | some s => (d, "diverge infref=" ++ showMid s.infRef)
      | none => (d, "ok")
    | _, _ => (d, "bad-op")
  | ["end"] =>
    match d with
    | some (cfg, _, S) => (d, finish cfg S)
    | none => (d, "bad-op")
  | ["run", sch] =>
    match d, (kv [sch] "sched").bind (parseList parseTid) with
    | some (cfg, s0, _), some sched =>
      match runSched cfg s0 sched 0 with
      | .ok s => (d, (if finished s then "done " else "partial " ++ showPc s ++ " ") ++ showFinal s)
      | .error k => (d, s!"stuck {k}")
    | _, _ => (d, "bad-op")
  | _ => (d, "bad-op")

end Pamiq.TorchSync
