/- Line protocol for the Adjust model (see `Driver.lean`). Import-free.

    adjust new <interval> <offset> sys=<s0> scale=<k> paused=<0|1>     -> ok
    adjust ev evs=[w:1/2,p,r,s:2]            wait / pause / resume / set_time_scale
                                             -> sys=<v> scale=<k> paused=<b>
    adjust reset                             -> <value>
    adjust adjust a1=<q> mid=[..] over=<q> a2=<q>
                                             -> delta=<q|inf> sleep=<q|none> real=<q|none> sys=<v>
    adjust isetup evs=[..]                   -> calls=[..] sys=<v>
    adjust istep gap=[..] body=[..] a1=<q> mid=[..] over=<q> a2=<q>
                                             -> calls=[..] start=<S> work=<W> sleep=.. real=.. end=<v>

Scripts must be well formed (waits, overheads ≥ 0; scales > 0; the waits inside a sleep add up to
at most its real duration); anything else is `bad-op`. -/
import Pamiq.Model.Adjust
namespace Pamiq.Adjust
open Pamiq

structure DSt where
  a : Adj := Adj.new 0 0
  t : Tl := ⟨0, 1, false⟩

def parseEv (s : String) : Option Ev :=
  match s.splitOn ":" with
  | ["p"] => some (.ctl .pause)
  | ["r"] => some (.ctl .resume)
  | ["w", d] => do
      let q ← parseRat d
      if q < 0 then none else some (.wait q)
  | ["s", k] => do
      let q ← parseRat k
      if 0 < q then some (.ctl (.setScale q)) else none
  | _ => none

def parseEvs (toks : List String) (key : String) : Option (List Ev) :=
  match kv toks key with
  | some v => parseList parseEv v
  | none => some []

def parseNonNeg (toks : List String) (key : String) : Option Rat :=
  match kv toks key with
  | some v => do
      let q ← parseRat v
      if q < 0 then none else some q
  | none => some 0

def parseAdjEnv (toks : List String) : Option AdjEnv := do
  pure ⟨← parseNonNeg toks "a1", ← parseEvs toks "mid", ← parseNonNeg toks "over",
        ← parseNonNeg toks "a2"⟩

def showOpt (o : Option Rat) (dflt : String) : String :=
  match o with
  | some q => showRat q
  | none => dflt

def showTl (t : Tl) : String :=
  s!"sys={showRat t.sys} scale={showRat t.scale} paused={showBool t.paused}"

/-- the waits scripted inside a sleep must fit into it -/
def midFits (env : AdjEnv) (real : Option Rat) : Bool :=
  match real with
  | some d => decide (waits env.mid ≤ d)
  | none => true

def showCalls (l : List String) : String := showList id l

def drive (d : DSt) (toks : List String) : DSt × String :=
  match toks with
  | "new" :: iv :: off :: rest =>
    match parseRat iv, parseRat off, (kv rest "sys").bind parseRat, (kv rest "scale").bind parseRat,
          (kv rest "paused").bind parseBool with
    | some iv, some off, some s0, some k, some p =>
      if 0 < k then ({ a := Adj.new iv off, t := ⟨s0, k, p⟩ }, "ok") else (d, "bad-op")
    | _, _, _, _, _ => (d, "bad-op")
  | "ev" :: rest =>
    match kv rest "evs" with
    | some _ =>
      match parseEvs rest "evs" with
      | some evs => let t := d.t.evs evs; ({ d with t := t }, showTl t)
      | none => (d, "bad-op")
    | none => (d, "bad-op")
  | ["load", v] =>
    match parseRat v with
    | some v => let t := d.t.load v; ({ d with t := t }, showTl t)
    | none => (d, "bad-op")
  | ["reset"] =>
    let (a, v) := d.a.reset d.t
    ({ d with a := a }, showRat v)
  | "adjust" :: rest =>
    match parseAdjEnv rest with
    | some env =>
      let o := d.a.adjust d.t env
      if midFits env o.real then
        ({ a := o.adj, t := o.tl },
         s!"delta={showOpt o.delta "inf"} sleep={showOpt o.slept "none"} real={showOpt o.real "none"} sys={showRat o.tl.sys}")
      else (d, "bad-op")
    | none => (d, "bad-op")
  | "isetup" :: rest =>
    match parseEvs rest "evs" with
    | some evs =>
      let (a, t) := setup d.a d.t evs
      ({ a := a, t := t }, s!"calls={showCalls setupCalls} sys={showRat t.sys}")
    | none => (d, "bad-op")
  | "istep" :: rest =>
    match parseEvs rest "gap", parseEvs rest "body", parseAdjEnv rest with
    | some gap, some body, some env =>
      let (a, t, r) := stepOnce d.a d.t ⟨gap, body, env⟩
      if midFits env r.real then
        ({ a := a, t := t },
         s!"calls={showCalls stepCalls} start={showRat r.start} work={showRat r.work} sleep={showOpt r.slept "none"} real={showOpt r.real "none"} end={showRat r.fin}")
      else (d, "bad-op")
    | _, _, _ => (d, "bad-op")
  | _ => (d, "bad-op")

end Pamiq.Adjust
