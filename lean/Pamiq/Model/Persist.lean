/-
Model of state persistence:
  `pamiq_core/state_persistence.py`  (`StateStore.save_state/load_state`, `save_pickle/load_pickle`)
  `pamiq_core/launcher.py`           (registration order, load before thread construction, final save)
  `pamiq_core/time.py`               (`TimeController.save_state/load_state` → `time.pkl`)
  `pamiq_core/data/interface.py`, `data/container.py`, `data/impls/*.py`
                                     (`DataUser.save_state`: `update(); mkdir; buffer.pkl; timestamps.pkl`)
  `pamiq_core/trainer/base.py`, `trainer/container.py`   (`previous_training_time` as text)
  `pamiq_core/model/container.py`    (load, then `sync()`)
  `pamiq_core/interaction/*.py`      (composites create a directory and hand `path / name` down)

Three layers.

1. An abstract file system `FS = Path → Option Node` and the three operations a save performs:
   `mkdir` (`Path.mkdir`, with or without `exist_ok`), `create` (`open(p, "wb"/"w")`: the file exists
   and is empty) and `writeAll` (the bytes reach the file, at the latest when it is closed).  A file
   holds `Data`: nothing yet, a *proper prefix* of the encoding of some content, or all of it.
2. `Comp`, the *file layout* of a component: a component that is handed a path and writes one file
   there (`leaf`), a part that writes nothing (`silent`), or a composite that creates a directory and
   hands `path / name` to each child in order (`dir`; `own = some c` is an agent with children, which
   first writes its own state into `path / "__self__"`).  `Comp.ops` lists the file-system operations
   of `save_state(path)` in program order, `Comp.load` is `load_state(path)`: the same traversal,
   every file opened where the code opens it, the first exception wins.
3. `Sys`, the registered objects of `launch()`: interaction tree, models, data users, trainers and
   the clock, with `Sys.layout` saying which class writes what in which order (registration order
   `interaction, models, data, trainers, time`), `save`, `load` and the launch prologue/epilogue.

Explicit inputs: the stdlib-clock readings taken by `state_dict()`, `load_state_dict()` and
`set_time_scale()`; the two random draws of `RandomReplacementBuffer.add` travel with each collected
sample (`Pend.u`, `Pend.i`: used if the buffer is full when that sample is moved into it);
`Rd.textPrefix` is what `float()` returns on a proper prefix of `str(x)`; `Rd.tolerant` selects
user components whose `load_state` accepts a missing or unreadable file (worst case for C10).

Assumed, not modelled (validated on the real bytes by the harness): `pickle.load` rejects every
proper prefix of a pickle (`EOFError`/`UnpicklingError`, both shown as `unpickling`), and
`pickle`/`str(float)`→`float(str)` round trips are exact.

One deliberate commutation: every `DataUser.save_state` begins with `update()`; the model performs
all updates first (`Sys.update`) and then all file-system operations (`saveOps`).  Updates do not
touch the file system and writes do not touch the users, so the final result is the same; only the
error path differs (an exception inside an `update()` would leave the directories written so far).
-/
import Pamiq.Model.Util
import Pamiq.Model.Clock
import Pamiq.Model.Buffer
import Pamiq.Model.Tree
namespace Pamiq.Persist
open Pamiq

abbrev Path := List String

/-! ## Values written to files -/

/-- A Python `float` as far as `_previous_training_time` is concerned. -/
inductive ExtRat
  | negInf
  | fin (q : Rat)
  | posInf
  | nan
deriving DecidableEq, Repr

inductive Content
  | ints (l : List Int)        -- pickle of a buffer's `deque` / `list` of samples
  | rats (l : List Rat)        -- pickle of the `_timestamps` deque
  | clock (d : Clock.Saved)    -- pickle of `TimeControllerState`
  | user (v : Int)             -- a user component's own file (harness leaves and models: one integer)
  | text (x : ExtRat)          -- `str(float)` written by `Path.write_text`
deriving DecidableEq, Repr

inductive Kind | ints | rats | clock | user | text
deriving DecidableEq, Repr

def Content.kind : Content → Kind
  | .ints _ => .ints | .rats _ => .rats | .clock _ => .clock | .user _ => .user | .text _ => .text

/-! ## File system -/

inductive Data
  | empty                           -- created, nothing written yet
  | part (c : Content) (len : Nat)  -- the first `len` bytes of the encoding of `c`, a proper prefix
  | full (c : Content)
deriving DecidableEq, Repr

inductive Node
  | dir
  | file (d : Data)
deriving DecidableEq, Repr

abbrev FS := Path → Option Node

def FS.set (fs : FS) (p : Path) (n : Node) : FS := fun q => if q = p then some n else fs q

/-- Nothing exists at or below `p`. -/
def Fresh (fs : FS) (p : Path) : Prop := ∀ q, p <+: q → fs q = none

inductive Err
  | fileExists      -- FileExistsError
  | fileNotFound    -- FileNotFoundError
  | notADirectory   -- NotADirectoryError
  | isADirectory    -- IsADirectoryError
  | unpickling      -- EOFError / UnpicklingError: truncated pickle
  | value           -- ValueError: `float()` of malformed text, `randint` on an empty range
  | index           -- IndexError
  | type            -- a file holds content of another kind than its reader expects / layout mismatch
  | badHandle       -- `writeAll` without a preceding `create` (unreachable; kept explicit)
  | assertion       -- AssertionError (`set_time_scale` guard; unreachable for the constant 1.0)
deriving DecidableEq, Repr

inductive FsOp
  | mkdir (p : Path) (existOk : Bool)
  | create (p : Path)
  | writeAll (p : Path) (c : Content)
deriving DecidableEq, Repr

def FsOp.path : FsOp → Path
  | .mkdir p _ => p | .create p => p | .writeAll p _ => p

/-- What the parent directory of a new entry must be. -/
def parentCheck (fs : FS) (p : Path) : Except Err Unit :=
  match fs p.dropLast with
  | some .dir => .ok ()
  | some (.file _) => .error .notADirectory
  | none => .error .fileNotFound

def applyOp (op : FsOp) (fs : FS) : Except Err FS :=
  match op with
  | .mkdir p ok =>
    -- `Path.mkdir(exist_ok)`: `os.mkdir`; on `FileExistsError` re-raise unless `exist_ok and is_dir()`
    match fs p with
    | some .dir => if ok then .ok fs else .error .fileExists
    | some (.file _) => .error .fileExists
    | none =>
      match parentCheck fs p with
      | .ok _ => .ok (fs.set p .dir)
      | .error e => .error e
  | .create p =>
    -- `open(p, "wb")`: truncates an existing file
    match fs p with
    | some .dir => .error .isADirectory
    | some (.file _) => .ok (fs.set p (.file .empty))
    | none =>
      match parentCheck fs p with
      | .ok _ => .ok (fs.set p (.file .empty))
      | .error e => .error e
  | .writeAll p c =>
    match fs p with
    | some (.file _) => .ok (fs.set p (.file (.full c)))
    | _ => .error .badHandle

/-- Run the operations in order; stop at the first exception. Returns the state reached and the
exception, if any. -/
def run : List FsOp → FS → FS × Option Err
  | [], fs => (fs, none)
  | op :: rest, fs =>
    match applyOp op fs with
    | .ok fs' => run rest fs'
    | .error e => (fs, some e)

def applyOps (ops : List FsOp) (fs : FS) : Except Err FS :=
  match run ops fs with
  | (fs', none) => .ok fs'
  | (_, some e) => .error e

/-- The operation that was in progress when the process died: a directory creation or a file
creation either happened or did not (it did not); of a write, the first `len` bytes arrived. -/
def tornOp (len : Nat) (op : FsOp) (fs : FS) : FS :=
  match op with
  | .writeAll p c =>
    match fs p with
    | some (.file _) => fs.set p (.file (if len = 0 then .empty else .part c len))
    | _ => fs
  | _ => fs

/-- `crash k len`: the first `k` operations were applied, the `(k+1)`-th was in progress. If one of
the first `k` raised, the save had already stopped there. -/
def crash (k len : Nat) (ops : List FsOp) (fs : FS) : FS :=
  match run (ops.take k) fs with
  | (fs1, some _) => fs1
  | (fs1, none) =>
    match ops[k]? with
    | some op => tornOp len op fs1
    | none => fs1

/-! ## Readers -/

/-- What a failed load reports: the exception class and the file it is about (`[]` when the
exception carries no file name). -/
structure LoadErr where
  kind : Err
  path : Path
deriving DecidableEq, Repr

structure Rd where
  /-- user components (`Content.user`) accept a missing / unreadable file and keep their fresh state -/
  tolerant : Bool
  /-- `float(str(x)[:len])` for a proper prefix; `none` = `ValueError` -/
  textPrefix : ExtRat → Nat → Option ExtRat

/-- `open(p, "rb")` / `read_text` -/
def readFile (fs : FS) (p : Path) : Except LoadErr Data :=
  match fs p with
  | none => .error ⟨.fileNotFound, p⟩
  | some .dir => .error ⟨.isADirectory, p⟩
  | some (.file d) => .ok d

/-- The framework's `pickle.load(open(p, "rb"))` for a file that should hold `k`. -/
def readPickle (fs : FS) (p : Path) (k : Kind) : Except LoadErr Content :=
  match readFile fs p with
  | .error e => .error e
  | .ok .empty => .error ⟨.unpickling, p⟩
  | .ok (.part _ _) => .error ⟨.unpickling, p⟩
  | .ok (.full c) => if c.kind = k then .ok c else .error ⟨.type, p⟩

/-- `float((path / "previous_training_time").read_text())` -/
def readText (rd : Rd) (fs : FS) (p : Path) : Except LoadErr Content :=
  match readFile fs p with
  | .error e => .error e
  | .ok .empty => .error ⟨.value, p⟩
  | .ok (.part (.text x) n) =>
    (match rd.textPrefix x n with
     | some y => .ok (.text y)
     | none => .error ⟨.value, p⟩)
  | .ok (.part _ _) => .error ⟨.value, p⟩
  | .ok (.full (.text x)) => .ok (.text x)
  | .ok (.full _) => .error ⟨.value, p⟩

/-- A user component reading its own file; `v0` is its freshly constructed state. -/
def readUser (rd : Rd) (fs : FS) (p : Path) (v0 : Int) : Except LoadErr Content :=
  match readPickle fs p .user with
  | .ok c => .ok c
  | .error e => if rd.tolerant then .ok (.user v0) else .error e

/-- Reader of the component whose freshly constructed state is `expected`. -/
def readLeaf (rd : Rd) (fs : FS) (p : Path) (expected : Content) : Except LoadErr Content :=
  match expected with
  | .user v0 => readUser rd fs p v0
  | .text _ => readText rd fs p
  | c => readPickle fs p c.kind

/-! ## File layout of a component -/

inductive Comp
  | leaf (c : Content)
  | silent
  | dir (own : Option Content) (cs : List (String × Comp))
deriving Repr

/-- The file inside its directory in which an agent with children keeps its own state. -/
def selfName : String := "__self__"

mutual
/-- File-system operations of `save_state(p)`, in program order. -/
def Comp.ops (p : Path) : Comp → List FsOp
  | .leaf c => [.create p, .writeAll p c]
  | .silent => []
  | .dir none cs => .mkdir p false :: Comp.opsL p cs             -- `path.mkdir()`; children
  | .dir (some c) cs =>
    -- own state first (`path.mkdir(exist_ok=True)`, own file), then `Agent.save_state`:
    -- `if len(self._agents) == 0: return`; `path.mkdir(exist_ok=True)`; children
    [.mkdir p true, .create (p ++ [selfName]), .writeAll (p ++ [selfName]) c] ++
      (match cs with
       | [] => []
       | _ :: _ => .mkdir p true :: Comp.opsL p cs)
def Comp.opsL (p : Path) : List (String × Comp) → List FsOp
  | [] => []
  | (n, c) :: rest => c.ops (p ++ [n]) ++ Comp.opsL p rest
end

mutual
/-- `load_state(p)` into the freshly constructed component (same traversal as `ops`). -/
def Comp.load (rd : Rd) (p : Path) (fs : FS) : Comp → Except LoadErr Comp
  | .leaf c0 =>
    match readLeaf rd fs p c0 with
    | .ok c => .ok (.leaf c)
    | .error e => .error e
  | .silent => .ok .silent
  | .dir none cs =>
    match Comp.loadL rd p fs cs with
    | .ok cs' => .ok (.dir none cs')
    | .error e => .error e
  | .dir (some c0) cs =>
    match readLeaf rd fs (p ++ [selfName]) c0 with
    | .error e => .error e
    | .ok c =>
      match Comp.loadL rd p fs cs with
      | .ok cs' => .ok (.dir (some c) cs')
      | .error e => .error e
def Comp.loadL (rd : Rd) (p : Path) (fs : FS) :
    List (String × Comp) → Except LoadErr (List (String × Comp))
  | [] => .ok []
  | (n, c) :: rest =>
    match c.load rd (p ++ [n]) fs with
    | .error e => .error e
    | .ok c' =>
      match Comp.loadL rd p fs rest with
      | .ok rest' => .ok ((n, c') :: rest')
      | .error e => .error e
end

def optKindEq : Option Content → Option Content → Bool
  | none, none => true
  | some a, some b => decide (a.kind = b.kind)
  | _, _ => false

mutual
/-- Same structure, same names, same kinds of content (states may differ). -/
def Comp.sameShape : Comp → Comp → Bool
  | .leaf a, .leaf b => decide (a.kind = b.kind)
  | .silent, .silent => true
  | .dir o1 cs1, .dir o2 cs2 => optKindEq o1 o2 && Comp.sameShapeL cs1 cs2
  | _, _ => false
def Comp.sameShapeL : List (String × Comp) → List (String × Comp) → Bool
  | [], [] => true
  | (n, a) :: r1, (m, b) :: r2 => decide (n = m) && a.sameShape b && Comp.sameShapeL r1 r2
  | _, _ => false
end

mutual
/-- Child names inside one composite are distinct (Python dict keys) and none of an agent's
children is called `__self__`. -/
def Comp.namesOk : Comp → Bool
  | .leaf _ => true
  | .silent => true
  | .dir own cs =>
    Tree.distinct (Tree.namesOf cs) && (own.isNone || !(Tree.namesOf cs).contains selfName)
      && Comp.namesOkL cs
def Comp.namesOkL : List (String × Comp) → Bool
  | [] => true
  | (_, c) :: rest => c.namesOk && Comp.namesOkL rest
end

mutual
/-- The user components' states with the file each lives in, in load order. -/
def Comp.userStates (p : Path) : Comp → List (Path × Int)
  | .leaf (.user v) => [(p, v)]
  | .leaf _ => []
  | .silent => []
  | .dir own cs =>
    (match own with
     | some (.user v) => [(p ++ [selfName], v)]
     | _ => []) ++ Comp.userStatesL p cs
def Comp.userStatesL (p : Path) : List (String × Comp) → List (Path × Int)
  | [] => []
  | (n, c) :: rest => c.userStates (p ++ [n]) ++ Comp.userStatesL p rest
end

/-! ### The typed trees of `Model/Tree.lean` with a state for every user component -/

def ofWrap (σ : Tree.LeafId → Int) : Tree.Wrap → Comp
  | .user i => .leaf (.user (σ i))
  | .fn _ => .silent

mutual
def ofAgent (σ : Tree.LeafId → Int) : Tree.Agent → Comp
  | .mk id cs => match cs with
    | [] => .leaf (.user (σ id))
    | _ :: _ => .dir (some (.user (σ id))) (ofAgentL σ cs)
def ofAgentL (σ : Tree.LeafId → Int) : List (String × Tree.Agent) → List (String × Comp)
  | [] => []
  | (n, a) :: rest => (n, ofAgent σ a) :: ofAgentL σ rest
end

mutual
def ofSensor (σ : Tree.LeafId → Int) : Tree.Sensor → Comp
  | .leaf id => .leaf (.user (σ id))
  | .dict cs => .dir none (ofSensorL σ cs)
  | .wrap s w => .dir none [("sensor", ofSensor σ s), ("wrapper", ofWrap σ w)]
def ofSensorL (σ : Tree.LeafId → Int) : List (String × Tree.Sensor) → List (String × Comp)
  | [] => []
  | (n, s) :: rest => (n, ofSensor σ s) :: ofSensorL σ rest
end

mutual
def ofActuator (σ : Tree.LeafId → Int) : Tree.Actuator → Comp
  | .leaf id => .leaf (.user (σ id))
  | .dict cs => .dir none (ofActuatorL σ cs)
  | .wrap a w => .dir none [("actuator", ofActuator σ a), ("wrapper", ofWrap σ w)]
def ofActuatorL (σ : Tree.LeafId → Int) : List (String × Tree.Actuator) → List (String × Comp)
  | [] => []
  | (n, a) :: rest => (n, ofActuator σ a) :: ofActuatorL σ rest
end

def ofEnv (σ : Tree.LeafId → Int) : Tree.Env → Comp
  | .leaf id => .leaf (.user (σ id))
  | .modular s a => .dir none [("sensor", ofSensor σ s), ("actuator", ofActuator σ a)]
  | .wrap e o a => .dir none [("env", ofEnv σ e), ("obs_wrapper", ofWrap σ o), ("act_wrapper", ofWrap σ a)]

/-- `Interaction.save_state`: `path.mkdir(); agent.save_state(path/"agent");
environment.save_state(path/"environment")`. -/
def ofInteraction (σ : Tree.LeafId → Int) (i : Tree.Interaction) : Comp :=
  .dir none [("agent", ofAgent σ i.agent), ("environment", ofEnv σ i.environment)]

/-! ## The registered objects -/

/-- A `TrainingModel` whose parameters are a version number (`save_state` writes it to the file
`path`, `load_state` reads it back). -/
structure ModelSt where
  version : Int        -- parameters of the training model
  needSync : Bool      -- `has_inference_model and not inference_thread_only`
  infVersion : Int     -- parameters the inference side sees
deriving DecidableEq, Repr

/-- `model.load_state(path / name); model.sync()` -/
def ModelSt.loaded (m : ModelSt) (v : Int) : ModelSt :=
  { m with version := v, infVersion := if m.needSync then v else m.infVersion }

inductive Buf
  | seq (b : Buffer.Seq Int)
  | rrb (b : Buffer.Rrb Int)
deriving DecidableEq, Repr

def Buf.maxQueueSize : Buf → Nat
  | .seq b => b.maxQueueSize | .rrb b => b.maxQueueSize
def Buf.getData : Buf → List Int
  | .seq b => b.getData | .rrb b => b.getData
def Buf.len : Buf → Nat
  | .seq b => b.len | .rrb b => b.len
def Buf.saveState : Buf → List Int
  | .seq b => b.saveState | .rrb b => b.saveState
def Buf.loadState : Buf → List Int → Buf
  | .seq b, l => .seq (b.loadState l) | .rrb b, l => .rrb (b.loadState l)
def Buf.maxSize : Buf → Nat
  | .seq b => b.maxSize | .rrb b => b.maxSize

def ofBufErr : Buffer.Err → Err
  | .value => .value | .index => .index | _ => .type

/-- `buffer.add(x)`; `u`, `i` are the draws a full `RandomReplacementBuffer` makes. -/
def Buf.add (b : Buf) (x : Int) (u : Rat) (i : Nat) : Except Err Buf :=
  match b with
  | .seq s => .ok (.seq (s.add x))
  | .rrb r =>
    match r.add Buffer.repaired x u i with
    | .ok r' => .ok (.rrb r')
    | .error e => .error (ofBufErr e)

/-- A collected sample waiting in the collector queue: value, timestamp and the two draws that
will be made if the buffer is full when it is added. -/
structure Pend where
  x : Int
  t : Rat
  u : Rat
  i : Nat
deriving DecidableEq, Repr

/-- `DataUser` with its `DataCollector`. -/
structure User where
  buf : Buf
  ts : List Rat          -- `_timestamps = deque(maxlen = buffer.max_queue_size)`, oldest first
  pend : List Pend       -- collector queue (bounded the same way), oldest first
deriving DecidableEq, Repr

/-- `DataCollector.collect(x)` at system time `t`. -/
def User.collect (u : User) (s : Pend) : User :=
  { u with pend := lastN u.buf.maxQueueSize (u.pend ++ [s]) }

/-- The loop of `DataUser.update`: `buffer.add(data); timestamps.append(t)` per queued sample. -/
def User.drain (u : User) : List Pend → Except Err User
  | [] => .ok u
  | s :: rest =>
    match u.buf.add s.x s.u s.i with
    | .error e => .error e
    | .ok b => User.drain { u with buf := b, ts := lastN u.buf.maxQueueSize (u.ts ++ [s.t]) } rest

/-- `DataUser.update()` -/
def User.update (u : User) : Except Err User := User.drain { u with pend := [] } u.pend

/-- `count_data_added_since(timestamp)`: walk the timestamps newest first, stop at the first one
`≤ timestamp`. -/
def countFrom (le : Rat → Bool) : List Rat → Nat → Nat
  | [], i => i
  | t :: rest, i => if le t then i else countFrom le rest (i + 1)

/-- `t <= timestamp` for a finite `t` and a float `timestamp`. -/
def leExt (x : ExtRat) (t : Rat) : Bool :=
  match x with
  | .negInf => false
  | .fin q => decide (t ≤ q)
  | .posInf => true
  | .nan => false

def User.countSince (u : User) (x : ExtRat) : Nat := countFrom (leExt x) u.ts.reverse 0

/-- The decision of `Trainer.is_trainable` for a trainer watching this data user (after its
`update()`): `len(data_user) >= min_buffer_size and count_data_added_since(prev) >= min_new`. -/
def User.trainable (u : User) (prev : ExtRat) (minSize minNew : Int) : Bool :=
  decide ((u.buf.len : Int) ≥ minSize) && decide ((u.countSince prev : Int) ≥ minNew)

/-- `DataUser.load_state`: the buffer loads its file, the timestamps deque is rebuilt with this
user's bound. The collector is not touched. -/
def User.loaded (u : User) (b : List Int) (t : List Rat) : User :=
  { u with buf := u.buf.loadState b, ts := lastN u.buf.maxQueueSize t }

structure Sys where
  interaction : Comp                       -- layout *and* state of every user component of the tree
  models : List (String × ModelSt)         -- `TrainingModelsDict.data`, insertion order
  data : List (String × User)              -- `DataUsersDict`
  trainers : List (String × ExtRat)        -- `TrainersDict`: name ↦ `_previous_training_time`
  clock : Clock.Ctl
deriving Repr

def updateAll : List (String × User) → Except Err (List (String × User))
  | [] => .ok []
  | (n, u) :: rest =>
    match u.update with
    | .error e => .error e
    | .ok u' =>
      match updateAll rest with
      | .ok rest' => .ok ((n, u') :: rest')
      | .error e => .error e

/-- The `update()` with which every `DataUser.save_state` begins. -/
def Sys.update (s : Sys) : Except Err Sys :=
  match updateAll s.data with
  | .ok d => .ok { s with data := d }
  | .error e => .error e

/-! ### Who writes what, in which order -/

/-- `TrainingModelsDict.save_state`: `path.mkdir(); for name, model: model.save_state(path / name)` -/
def modelsLayout (ms : List (String × ModelSt)) : Comp :=
  .dir none (ms.map fun nm => (nm.1, .leaf (.user nm.2.version)))

/-- `DataUser.save_state` (after `update()`): `path.mkdir(); buffer.save_state(path / "buffer")`
(→ `buffer.pkl`); `open(path / "timestamps.pkl", "wb")`. -/
def userLayout (u : User) : Comp :=
  .dir none [("buffer.pkl", .leaf (.ints u.buf.saveState)), ("timestamps.pkl", .leaf (.rats u.ts))]

/-- `DataUsersDict.save_state`: `path.mkdir(); for name, user: user.save_state(path / name)` -/
def dataLayout (d : List (String × User)) : Comp :=
  .dir none (d.map fun nu => (nu.1, userLayout nu.2))

/-- `Trainer.save_state`: `path.mkdir(); (path / "previous_training_time").write_text(str(t))` -/
def trainerLayout (x : ExtRat) : Comp := .dir none [("previous_training_time", .leaf (.text x))]

/-- `TrainersDict.save_state`: `path.mkdir(); for name, trainer: trainer.save_state(path / name)` -/
def trainersLayout (ts : List (String × ExtRat)) : Comp :=
  .dir none (ts.map fun nt => (nt.1, trainerLayout nt.2))

/-- Names under which `launch()` registers the objects, in registration order. -/
def registrationOrder : List String := ["interaction", "models", "data", "trainers", "time"]

/-- `TimeController.save_state(path)` writes `path.with_suffix(".pkl")`. -/
def timeFile : String := "time.pkl"

/-- `StateStore.save_state`: `state_path.mkdir(); for name, state in registered: state.save_state(
state_path / name)`. `timeFirst = true` is the (hypothetical) variant that registers the clock
first; the property theorems are about `false`, the code as it is. -/
def Sys.layoutV (timeFirst : Bool) (s : Sys) : Comp :=
  let rest := [("interaction", s.interaction), ("models", modelsLayout s.models),
               ("data", dataLayout s.data), ("trainers", trainersLayout s.trainers)]
  let time := (timeFile, Comp.leaf (.clock s.clock.saved))
  .dir none (if timeFirst then time :: rest else rest ++ [time])

def Sys.layout (s : Sys) : Comp := s.layoutV false

/-- Operations of `StateStore.save_state()` into the new directory `root`, for a system whose data
users are up to date and whose clock anchors were just exported. -/
def saveOps (s : Sys) (root : Path) : List FsOp := s.layout.ops root

/-- `TimeController.state_dict()` inside `TimeController.save_state`: re-anchors the clock (readings
`r1`, `r2`); what is pickled is `clock.saved` of the result. -/
def Sys.exported (s : Sys) (r1 r2 : Clock.R3) : Sys :=
  { s with clock := (Clock.stateDict true s.clock r1 r2).1 }

/-- `StateStore.save_state()`: the updates, `TimeController.state_dict()` (readings `r1`, `r2`),
and the operations. Returns the system as it is afterwards and the new file system. -/
def save (s : Sys) (root : Path) (fs : FS) (r1 r2 : Clock.R3) : Except Err (Sys × FS) :=
  match s.update with
  | .error e => .error e
  | .ok s1 =>
    let s2 := s1.exported r1 r2
    match applyOps (saveOps s2 root) fs with
    | .ok fs' => .ok (s2, fs')
    | .error e => .error e

/-! ### Loading: what each class does with what it read -/

def absorbModels : List (String × ModelSt) → List (String × Comp) →
    Except LoadErr (List (String × ModelSt))
  | [], [] => .ok []
  | (n, m) :: r, (_, .leaf (.user v)) :: r' =>
    (match absorbModels r r' with
     | .ok rest => .ok ((n, m.loaded v) :: rest)
     | .error e => .error e)
  | _, _ => .error ⟨.type, []⟩

def absorbData : List (String × User) → List (String × Comp) →
    Except LoadErr (List (String × User))
  | [], [] => .ok []
  | (n, u) :: r, (_, .dir none [(_, .leaf (.ints b)), (_, .leaf (.rats t))]) :: r' =>
    (match absorbData r r' with
     | .ok rest => .ok ((n, u.loaded b t) :: rest)
     | .error e => .error e)
  | _, _ => .error ⟨.type, []⟩

def absorbTrainers : List (String × ExtRat) → List (String × Comp) →
    Except LoadErr (List (String × ExtRat))
  | [], [] => .ok []
  | (n, _) :: r, (_, .dir none [(_, .leaf (.text x))]) :: r' =>
    (match absorbTrainers r r' with
     | .ok rest => .ok ((n, x) :: rest)
     | .error e => .error e)
  | _, _ => .error ⟨.type, []⟩

/-- The freshly constructed system takes over what was read (`r` = the stdlib-clock reading taken
by `load_state_dict`). A layout that does not match is a `type` error (it cannot arise: `Comp.load`
returns the layout it was given). -/
def Sys.absorb (fresh : Sys) (loaded : Comp) (r : Clock.R3) : Except LoadErr Sys :=
  match loaded with
  | .dir none [(_, i), (_, .dir none ms), (_, .dir none ds), (_, .dir none ts),
               (_, .leaf (.clock d))] =>
    match absorbModels fresh.models ms with
    | .error e => .error e
    | .ok models =>
      match absorbData fresh.data ds with
      | .error e => .error e
      | .ok data =>
        match absorbTrainers fresh.trainers ts with
        | .error e => .error e
        | .ok trainers =>
          .ok { interaction := i, models := models, data := data, trainers := trainers,
                clock := Clock.loadStateDict fresh.clock d r }
  | _ => .error ⟨.type, []⟩

/-- `StateStore.load_state(root)` into the freshly constructed objects `fresh`:
`if not state_path.exists(): raise FileNotFoundError`, then every registered object in
registration order. -/
def load (rd : Rd) (fresh : Sys) (root : Path) (fs : FS) (r : Clock.R3) : Except LoadErr Sys :=
  match fs root with
  | none => .error ⟨.fileNotFound, root⟩
  | some _ =>
    match fresh.layout.load rd root fs with
    | .error e => .error e
    | .ok loaded => fresh.absorb loaded r

/-! ### Observables of a system -/

def lookup {α} (k : String) : List (String × α) → Option α
  | [] => none
  | (k', v) :: rest => if k' = k then some v else lookup k rest

/-! ### Specification vocabulary (used by the theorems; not executed by the driver) -/

def keysOk {α} (l : List (String × α)) : Bool := Tree.distinct (Tree.namesOf l)

/-- Names are usable: distinct inside every composite and every container. -/
def Sys.namesOk (s : Sys) : Bool :=
  s.interaction.namesOk && keysOk s.models && keysOk s.data && keysOk s.trainers

/-- `fresh` was built by the same construction code: the same component tree and the same names
(states, versions, capacities, markers and the clock may all differ). -/
def Sys.sameShape (fresh s : Sys) : Bool :=
  fresh.interaction.sameShape s.interaction &&
    decide (Tree.namesOf fresh.models = Tree.namesOf s.models) &&
    decide (Tree.namesOf fresh.data = Tree.namesOf s.data) &&
    decide (Tree.namesOf fresh.trainers = Tree.namesOf s.trainers)

def reloadModels : List (String × ModelSt) → List (String × ModelSt) → List (String × ModelSt)
  | (n, m0) :: r0, (_, m) :: r => (n, m0.loaded m.version) :: reloadModels r0 r
  | _, _ => []

def reloadData : List (String × User) → List (String × User) → List (String × User)
  | (n, u0) :: r0, (_, u) :: r => (n, u0.loaded u.buf.saveState u.ts) :: reloadData r0 r
  | _, _ => []

def reloadTrainers : List (String × ExtRat) → List (String × ExtRat) → List (String × ExtRat)
  | (n, _) :: r0, (_, x) :: r => (n, x) :: reloadTrainers r0 r
  | _, _ => []

/-- What loading the state saved from `s` makes of the freshly constructed `fresh`. -/
def Sys.reload (fresh s : Sys) (r : Clock.R3) : Sys :=
  { interaction := s.interaction
    models := reloadModels fresh.models s.models
    data := reloadData fresh.data s.data
    trainers := reloadTrainers fresh.trainers s.trainers
    clock := Clock.loadStateDict fresh.clock s.clock.saved r }

/-- Constructor parameters of a buffer. -/
def Buf.params : Buf → Bool × Nat × Rat × Nat
  | .seq b => (false, b.maxSize, 0, b.maxSize)
  | .rrb b => (true, b.maxSize, b.p, b.maxQueueSize)

/-- Invariants of the buffer classes (C11) and of the timestamps deque. -/
def Buf.WF : Buf → Prop
  | .seq b => b.queue.length ≤ b.maxSize
  | .rrb b => b.size = b.data.length ∧ b.data.length ≤ b.maxSize

def User.WF (u : User) : Prop := u.buf.WF ∧ u.ts.length ≤ u.buf.maxQueueSize

/-- The fresh data users were constructed with the same parameters as the saved ones. -/
def sameParams : List (String × User) → List (String × User) → Prop
  | [], [] => True
  | (_, u0) :: r0, (_, u) :: r => u0.buf.params = u.buf.params ∧ sameParams r0 r
  | _, _ => False

/-! ## `launch()`: prologue and epilogue -/

inductive Step
  | register (name : String)
  | loadState
  | newThread (t : String)
  | setTimeScale
  | startThread (t : String)
  | controlRun
  | controlShutdown               -- launch()'s `finally`: tell the background threads to stop …
  | joinThread (t : String)       -- … then join each thread that is alive
  | resetTimeScale
  | finalSave
deriving DecidableEq, Repr

/-- What `launch()` does up to and including thread construction. -/
def prologueSteps (hasSaved : Bool) : List Step :=
  registrationOrder.map .register ++ (if hasSaved then [.loadState] else []) ++
    [.newThread "control", .newThread "inference", .newThread "training"]

def runSteps : List Step :=
  [.setTimeScale, .startThread "inference", .startThread "training", .controlRun, .controlShutdown,
   .joinThread "inference", .joinThread "training", .resetTimeScale, .finalSave]

/-- The prologue of `launch()`: register, load the saved state if one is given, construct the
threads. Returns the steps that were executed and the system the threads get (or the exception). -/
def launchPrologue (rd : Rd) (fresh : Sys) (saved : Option Path) (fs : FS) (r : Clock.R3) :
    List Step × Except LoadErr Sys :=
  let regs := registrationOrder.map Step.register
  let threads := [Step.newThread "control", .newThread "inference", .newThread "training"]
  match saved with
  | none => (regs ++ threads, .ok fresh)
  | some root =>
    match load rd fresh root fs r with
    | .error e => (regs ++ [.loadState], .error e)
    | .ok s => (regs ++ [.loadState] ++ threads, .ok s)

/-- The epilogue of `launch()` once both background threads are joined:
`time.set_time_scale(1.0)` (readings `ra`, `rb`), then `state_store.save_state()`. -/
def launchEpilogue (s : Sys) (root : Path) (fs : FS) (ra rb r1 r2 : Clock.R3) :
    Except Err (Sys × FS) :=
  match Clock.setScale s.clock 1 ra rb with
  | .error _ => .error .assertion
  | .ok c => save { s with clock := c } root fs r1 r2

end Pamiq.Persist
