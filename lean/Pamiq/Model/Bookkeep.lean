/-
Framework bookkeeping on the paths that must never terminate `launch()` (C08):

* `InferenceThread.on_tick` / `log_tick_time_statistics` (thread/threads/inference.py): tick-time
  samples, `statistics.mean` (needs ≥ 1 point) and `statistics.stdev` (needs ≥ 2 points), fired by
  a `TimeIntervalScheduler` — the firing is an input (every interval, including 0, is covered by
  every firing pattern).
* the uptime test `time.time() - start > max_uptime` on the pausable clock (control.py).

`guarded = true` is the repaired statistics code (stdev only with ≥ 2 samples);
`guarded = false` is the code as found (finding F5).
-/
import Pamiq.Model.Util
namespace Pamiq.Bookkeep

inductive Err | statisticsError
deriving DecidableEq, Repr

structure Stats where
  tickStart : Bool := false    -- `_tick_start is not None`
  n : Nat := 0                 -- `len(_tick_times)`
  logged : List Nat := []      -- ghost: sample counts of the statistics lines written
deriving DecidableEq, Repr

/-- One `on_tick` after the step: record the tick time (from the second tick on), then the
scheduler update, which calls `log_tick_time_statistics` iff `fires`. -/
def tick (guarded : Bool) (s : Stats) (fires : Bool) : Except Err Stats :=
  let n1 := if s.tickStart then s.n + 1 else s.n
  if fires then
    if n1 = 0 then .ok { s with tickStart := true, n := 0 }
    else if n1 = 1 ∧ guarded = false then .error .statisticsError    -- statistics.stdev of one point
    else .ok { tickStart := true, n := 0, logged := s.logged ++ [n1] }
  else .ok { s with tickStart := true, n := n1 }

def runTicks (guarded : Bool) (s : Stats) : List Bool → Except Err Stats
  | [] => .ok s
  | f :: rest => match tick guarded s f with
    | .ok s' => runTicks guarded s' rest
    | .error e => .error e

/-- The uptime test evaluated at a check whose unpaused real elapsed time since start is `e`
(system elapsed = scale · e by C06). -/
def uptimeReached (scale limit e : Rat) : Bool := decide (scale * e > limit)

/-- First check at which the uptime test is true. -/
def firstReached (scale limit : Rat) : List Rat → Option Rat
  | [] => none
  | e :: rest => if uptimeReached scale limit e then some e else firstReached scale limit rest

end Pamiq.Bookkeep
