/- Line protocol for the TorchTrainer model. Names travel hex-encoded (UTF-8 bytes of the Python
   string; every byte is one `Char` of the model), payloads are naturals.

     ttrainer reset 1|0                          strict (removesuffix) | as found (replace)
     ttrainer keep opt=[hex:n,..] sch=[hex:n,..]   teardown(): the kept states
     ttrainer save                               -> files=[hexfile:n,..]   (sorted)
     ttrainer reload                             load_state into a fresh trainer
                                                 -> opt=[hex:n,..] sch=[hex:n,..] (sorted)
     ttrainer setup opt=[hex,..] sch=[hex,..]    -> ok | err KeyError -/
import Pamiq.Model.TorchTrainer
namespace Pamiq.TorchTrainer
open Pamiq

structure DSt where
  strict : Bool := true
  t : T := {}
  files : Files := []
  loaded : T := {}

def hexVal (c : Char) : Option Nat :=
  if '0' ≤ c ∧ c ≤ '9' then some (c.toNat - '0'.toNat)
  else if 'a' ≤ c ∧ c ≤ 'f' then some (c.toNat - 'a'.toNat + 10)
  else none

def unhex : List Char → Option Name
  | [] => some []
  | a :: b :: rest => do
    let x ← hexVal a
    let y ← hexVal b
    let r ← unhex rest
    pure (Char.ofNat (x * 16 + y) :: r)
  | _ => none

def hexDigit (n : Nat) : Char := if n < 10 then Char.ofNat ('0'.toNat + n) else Char.ofNat ('a'.toNat + n - 10)

def hex (n : Name) : String :=
  String.ofList (n.flatMap fun c => [hexDigit (c.toNat / 16 % 16), hexDigit (c.toNat % 16)])

def parseEntry (s : String) : Option (Name × Nat) :=
  match s.splitOn ":" with
  | [h, v] => do pure (← unhex h.toList, ← v.toNat?)
  | _ => none

def parseEntries (toks : List String) (key : String) : Option (List (Name × Nat)) :=
  match kv toks key with
  | some v => parseList parseEntry v
  | none => none

def parseNames (toks : List String) (key : String) : Option (List Name) :=
  match kv toks key with
  | some v => parseList (fun s => unhex s.toList) v
  | none => none

def insertSorted (p : String) : List String → List String
  | [] => [p]
  | q :: rest => if p ≤ q then p :: q :: rest else q :: insertSorted p rest

def showEntries (l : List (Name × Nat)) : String :=
  "[" ++ ",".intercalate ((l.map fun p => s!"{hex p.1}:{p.2}").foldr insertSorted []) ++ "]"

def drive (d : DSt) (toks : List String) : DSt × String :=
  match toks with
  | ["reset", v] =>
    match parseBool v with
    | some b => ({ strict := b }, "ok")
    | none => (d, "bad-op")
  | "keep" :: rest =>
    match parseEntries rest "opt", parseEntries rest "sch" with
    | some o, some s => ({ d with t := { optStates := o, schStates := s } }, "ok")
    | _, _ => (d, "bad-op")
  | ["save"] =>
    let f := d.t.save
    ({ d with files := f }, "files=" ++ showEntries f)
  | ["reload"] =>
    let l := T.load d.strict {} d.files
    ({ d with loaded := l }, s!"opt={showEntries l.optStates} sch={showEntries l.schStates}")
  | "setup" :: rest =>
    match parseNames rest "opt", parseNames rest "sch" with
    | some o, some s =>
      match d.loaded.setup o s with
      | .ok _ => (d, "ok")
      | .error _ => (d, "err KeyError")
    | _, _ => (d, "bad-op")
  | _ => (d, "bad-op")

end Pamiq.TorchTrainer
