/-
Line protocol for the Keeper model (first token `keeper`, see `Driver.lean`). Import-free.

  keeper new keep=<int> dir=<d> [pat=<glob>] ls=[name:d|f:mtime,...] extra=[path:d|f,...]
                                   -> ok | err ValueError
  keeper append <path>             -> ok      (the path exists / is created as a directory)
  keeper append_missing <path>     -> ok      (the path does not exist)
  keeper select                    -> [paths popped]
  keeper cleanup                   -> [removed] ls=[existing paths, sorted]
                                    | err NotADirectoryError ls=[...]
  keeper ext_remove <path> | ext_create <path> <d|f>   -> ok
  keeper ls                        -> [existing paths, sorted]
Paths and names contain no space, comma, colon, `=` or bracket.
-/
import Pamiq.Model.Keeper
namespace Pamiq.Keeper
open Pamiq

def Err.pyName : Err → String
  | .value => "ValueError"
  | .notADirectory => "NotADirectoryError"

def parseKind : String → Option Kind
  | "d" => some .dir | "f" => some .file | _ => none

def validName (s : String) : Bool :=
  !s.isEmpty && s.all fun c => c.isAlphanum || c == '.' || c == '_' || c == '-' || c == '/'

def parseEntry (s : String) : Option Entry :=
  match s.splitOn ":" with
  | [n, k, m] => do
    let k ← parseKind k
    let m ← m.toInt?
    if validName n then some ⟨n, k, m⟩ else none
  | _ => none

def parseExtra (s : String) : Option (Path × Kind) :=
  match s.splitOn ":" with
  | [n, k] => do
    let k ← parseKind k
    if validName n then some (n, k) else none
  | _ => none

def validPattern (s : String) : Bool :=
  !s.isEmpty && s.all fun c => c.isAlphanum || c == '.' || c == '_' || c == '-' || c == '*' || c == '?'

def showPaths (l : List Path) : String := showList id l

def showFs (fs : FS) : String :=
  showList id ((fs.map (·.1)).mergeSort fun a b => !(b < a))

def nodupNames (l : List String) : Bool := l.eraseDups.length = l.length

def drive (st : Option St) (toks : List String) : Option St × String :=
  let bad := (st, "bad-op")
  match toks with
  | "new" :: rest =>
    let pat := (kv rest "pat").getD "*.state"
    match (kv rest "keep").bind String.toInt?, kv rest "dir",
          (kv rest "ls").bind (parseList parseEntry), (kv rest "extra").bind (parseList parseExtra) with
    | some keep, some dir, some ls, some extra =>
      let fs0 : FS := (ls.map fun e => (joinPath dir e.name, e.kind)) ++ extra
      if !validPattern pat || !validName dir || !nodupNames (fs0.map (·.1)) then bad
      else
        match Keeper.ctor keep dir pat ls with
        | .ok k => (some ⟨k, fs0, []⟩, "ok")
        | .error e => (none, "err " ++ e.pyName)
    | _, _, _, _ => bad
  | ["append", p] =>
    match st with
    | some s => if validName p then (some (s.step (.append p)), "ok") else bad
    | none => bad
  | ["append_missing", p] =>
    match st with
    | some s => if validName p && !s.fs.has p then (some (s.step (.appendMissing p)), "ok") else bad
    | none => bad
  | ["select"] =>
    match st with
    | some s =>
      let r := s.keeper.selectRemoval
      (some { s with keeper := r.2 }, showPaths r.1)
    | none => bad
  | ["cleanup"] =>
    match st with
    | some s =>
      let r := s.keeper.cleanup s.fs
      let s' := s.step .cleanup
      match r.err with
      | none => (some s', s!"{showPaths r.removed} ls={showFs s'.fs}")
      | some e => (some s', s!"err {e.pyName} ls={showFs s'.fs}")
    | none => bad
  | ["ext_remove", p] =>
    match st with
    | some s => (some (s.step (.extRemove p)), "ok")
    | none => bad
  | ["ext_create", p, k] =>
    match st, parseKind k with
    | some s, some k => if validName p then (some (s.step (.extCreate p k)), "ok") else bad
    | _, _ => bad
  | ["ls"] =>
    match st with
    | some s => (st, showFs s.fs)
    | none => bad
  | _ => bad

end Pamiq.Keeper
