/- Line protocol (stateless): `tick run sc=<0|1> q=[pause,save,…] exc=[0,1,…] up=<0|1>` →
   `[sc1,save,x:pause,sd,r0:0,…,up0] left=[…] stopped=<0|1>`;
   `tick loop <n>` is not needed: the harness compares tick by tick. -/
import Pamiq.Model.Tick
namespace Pamiq.Tick
open Pamiq

def parseCmd : String → Option Cmd
  | "pause" => some .pause | "resume" => some .resume | "shutdown" => some .shutdown | "save" => some .save
  | _ => none

def showCmd : Cmd → String
  | .pause => "pause" | .resume => "resume" | .shutdown => "shutdown" | .save => "save"

def showEv : Ev → String
  | .saveCond v => s!"sc{showBool v}"
  | .saveState => "save"
  | .exec c => s!"x:{showCmd c}"
  | .readExc t v => s!"r{t}:{showBool v}"
  | .shutdown => "sd"
  | .uptime v => s!"up{showBool v}"

def drive (toks : List String) : String :=
  match toks with
  | "run" :: rest =>
    match (kv rest "sc").bind parseBool, (kv rest "q").bind (parseList parseCmd),
          (kv rest "exc").bind (parseList parseBool), (kv rest "up").bind parseBool with
    | some sc, some q, some exc, some up =>
      if rest.length = 4 then
        let o := tick ⟨sc, q, exc, up⟩
        s!"{showList showEv o.evs} left={showList showCmd o.left} stopped={showBool o.stopped}"
      else "bad-op"
    | _, _, _, _ => "bad-op"
  | _ => "bad-op"

end Pamiq.Tick
