/-
Model of the Gymnasium adapter: `pamiq_core/gym/env.py` (`GymEnvironment`),
`pamiq_core/gym/agent.py` (`GymAgent`), `pamiq_core/gym/types.py` and the loop body
`Interaction.step` of `pamiq_core/interaction/interactions.py`.

Everything that is not the adapter is an explicit input (`Script`):
* the wrapped Gymnasium environment answers its k-th `step` with `flags k = (terminated, truncated)`;
* the user's agent sets `self.need_reset = True` inside its o-th `on_reset` callback iff
  `reqReset o`, inside its o-th `on_step` callback iff `reqStep o`.

Values are identified by where they came from: the result of the j-th `env.reset()` is
`Out.reset j`, of the k-th `env.step()` is `Out.step k terminated truncated`; the return value of
the o-th `on_reset` / `on_step` callback is `Act.ofReset o` / `Act.ofStep o`. The state carries the
complete call log (`Ev`), which is what the theorems of `Props/C20.lean` talk about and what the
correspondence compares with the call log of the real classes.
-/
import Pamiq.Model.Util
namespace Pamiq.Gym

/-- Return value of a user callback. -/
inductive Act
  | ofReset (o : Nat)
  | ofStep (o : Nat)
deriving DecidableEq, Repr

/-- Result of a call of the wrapped environment. -/
inductive Out
  | reset (j : Nat)
  | step (k : Nat) (terminated truncated : Bool)
deriving DecidableEq, Repr

/-- One entry of the call log. -/
inductive Ev
  /-- j-th call of `env.reset()`; it returns `Out.reset j` -/
  | envReset (j : Nat)
  /-- k-th call of `env.step(a)`; it returns `Out.step k terminated truncated` -/
  | envStep (k : Nat) (a : Act) (terminated truncated : Bool)
  /-- o-th call of the user's `on_reset`, with the result of reset `j`; returns `Act.ofReset o` -/
  | onReset (o : Nat) (j : Nat)
  /-- o-th call of the user's `on_step`, with the result of step `k`; returns `Act.ofStep o` -/
  | onStep (o : Nat) (k : Nat) (terminated truncated : Bool)
  /-- `GymAgent.step` returns `GymAction(a, need_reset)` -/
  | ret (a : Act) (needReset : Bool)
deriving DecidableEq, Repr

/-- `GymEnvironment._obs`: `EnvReset`, `EnvStep` or the pair `(EnvStep, EnvReset)`. -/
inductive Obs
  | reset (j : Nat)
  | step (k : Nat) (terminated truncated : Bool)
  | both (k : Nat) (terminated truncated : Bool) (j : Nat)
deriving DecidableEq, Repr

structure Script where
  flags : Nat → Bool × Bool
  reqReset : Nat → Bool
  reqStep : Nat → Bool

structure St where
  /-- `GymEnvironment._obs`; `none` = the attribute does not exist yet (before `setup`) -/
  obs : Option Obs := none
  /-- `GymAgent.need_reset` (class attribute `False` until assigned) -/
  needReset : Bool := false
  nReset : Nat := 0
  nStep : Nat := 0
  nOnReset : Nat := 0
  nOnStep : Nat := 0
  log : List Ev := []
deriving DecidableEq, Repr

inductive Err | attribute
deriving DecidableEq, Repr

/-- `self.env.reset()` -/
def envReset (s : St) : St × Nat :=
  ({ s with nReset := s.nReset + 1, log := s.log ++ [.envReset s.nReset] }, s.nReset)

/-- `Interaction.setup`: `agent.setup()` (clears `need_reset`), then `environment.setup()`
(`self._obs = EnvReset(*self.env.reset())`). -/
def setup (s : St) : St :=
  let s := { s with needReset := false }
  let (s, j) := envReset s
  { s with obs := some (.reset j) }

/-- `GymAgent._on_reset`: clear the flag, then the user's `on_reset` (which may set it again). -/
def onReset (sc : Script) (s : St) (j : Nat) : St × Act :=
  let s := { s with needReset := false }
  let o := s.nOnReset
  ({ s with nOnReset := o + 1, log := s.log ++ [.onReset o j],
            needReset := s.needReset || sc.reqReset o }, .ofReset o)

/-- The user's `on_step` (which may set the flag). -/
def onStep (sc : Script) (s : St) (k : Nat) (t u : Bool) : St × Act :=
  let o := s.nOnStep
  ({ s with nOnStep := o + 1, log := s.log ++ [.onStep o k t u],
            needReset := s.needReset || sc.reqStep o }, .ofStep o)

/-- `GymAgent.step(observation)`: dispatch on the shape, return `GymAction(action, need_reset)`. -/
def agentStep (sc : Script) (s : St) (ob : Obs) : St × Act × Bool :=
  let (s, a) :=
    match ob with
    | .reset j => onReset sc s j
    | .step k t u => onStep sc s k t u
    | .both k t u j =>
      let (s, _) := onStep sc s k t u
      onReset sc s j
  ({ s with log := s.log ++ [.ret a s.needReset] }, a, s.needReset)

/-- `GymEnvironment.affect(action)`: step; if `obs.done or action.need_reset` also reset and
store the pair. -/
def affect (sc : Script) (s : St) (a : Act) (req : Bool) : St :=
  let k := s.nStep
  let t := (sc.flags k).1
  let u := (sc.flags k).2
  let s := { s with nStep := k + 1, log := s.log ++ [.envStep k a t u] }
  if (u || t) || req then
    let (s, j) := envReset s
    { s with obs := some (.both k t u j) }
  else
    { s with obs := some (.step k t u) }

/-- `Interaction.step`: `obs = environment.observe(); action = agent.step(obs);
environment.affect(action)`. `observe` before `setup` is an `AttributeError`. -/
def interStep (sc : Script) (s : St) : Except Err St :=
  match s.obs with
  | none => .error .attribute
  | some ob =>
    let (s, a, req) := agentStep sc s ob
    .ok (affect sc s a req)

/-- `n` interaction steps from state `s`. -/
def stepsFrom (sc : Script) (s : St) : Nat → Except Err St
  | 0 => .ok s
  | n + 1 => do
    let s' ← stepsFrom sc s n
    interStep sc s'

/-- A fresh interaction: `setup()`, then `n` times `step()`. -/
def run (sc : Script) (n : Nat) : Except Err St := stepsFrom sc (setup {}) n

/-! ### Observations on a call log (vocabulary of the theorems; nothing below is executed by the
driver). -/

/-- The results produced by the wrapped environment, in call order. -/
def outputs (l : List Ev) : List Out :=
  l.filterMap fun
    | .envReset j => some (.reset j)
    | .envStep k _ t u => some (.step k t u)
    | _ => none

/-- The results handed to the user callbacks, in call order. -/
def delivered (l : List Ev) : List Out :=
  l.filterMap fun
    | .onReset _ j => some (.reset j)
    | .onStep _ k t u => some (.step k t u)
    | _ => none

/-- What `GymEnvironment._obs` still holds for the agent. -/
def pending : Option Obs → List Out
  | none => []
  | some (.reset j) => [.reset j]
  | some (.step k t u) => [.step k t u]
  | some (.both k t u j) => [.step k t u, .reset j]

/-- Return value of a callback event. -/
def cbRet : Ev → Option Act
  | .onReset o _ => some (.ofReset o)
  | .onStep o _ _ _ => some (.ofStep o)
  | _ => none

/-- Return value of the latest user callback in `l`. -/
def lastCallback (l : List Ev) : Option Act := (l.filterMap cbRet).getLast?

/-- Did the callback that returned `a` set `need_reset`? -/
def Script.wants (sc : Script) : Act → Bool
  | .ofReset o => sc.reqReset o
  | .ofStep o => sc.reqStep o

/-- `need_reset` of every `GymAction` returned by `GymAgent.step`, in order. -/
def requests (l : List Ev) : List Bool :=
  l.filterMap fun | .ret _ r => some r | _ => none

/-- `(terminated, truncated)` of every `env.step`, in order. -/
def stepFlags (l : List Ev) : List (Bool × Bool) :=
  l.filterMap fun | .envStep _ _ t u => some (t, u) | _ => none

/-- The labels of the `env.reset` calls, in order. -/
def resets (l : List Ev) : List Nat :=
  l.filterMap fun | .envReset j => some j | _ => none

end Pamiq.Gym
