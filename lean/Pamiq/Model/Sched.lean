/-
Model of `pamiq_core/utils/schedulers.py` (`Scheduler`, `TimeIntervalScheduler`,
`StepIntervalScheduler`) and of `PeriodicSaveCondition` in `pamiq_core/state_persistence.py`.

Callbacks are identified by natural numbers; the list `cbs` is `Scheduler._callbacks`
(registration order). An update reports which callbacks it invoked, in order (`ran`).

Every operation receives, as explicit inputs and in source order, the readings of the system clock
(`pamiq_core.time.time()`) the Python code makes while executing it, so "the clock advances between
two reads inside one update" is expressible; `reads` says how many of them were consumed.

`decideOnce = true`  is `TimeIntervalScheduler.update` as repaired: the availability test is
                     evaluated once; callbacks and the restart of the interval hang on that one
                     decision (readings: decision, then the restart value).
`decideOnce = false` is the variant that evaluates `is_available()` a second time after the
                     callbacks and restarts the interval on that second answer (finding F7;
                     readings: first test, second test, restart value).
-/
import Pamiq.Model.Util
namespace Pamiq.Sched

inductive Err | valueError
deriving DecidableEq, Repr

/-! ### `Scheduler` base class -/

/-- `register_callback` -/
def register (cbs : List Nat) (c : Nat) : List Nat := cbs ++ [c]

/-- `remove_callback`: `list.remove` deletes the first occurrence, `ValueError` when absent. -/
def remove (cbs : List Nat) (c : Nat) : Except Err (List Nat) :=
  if c ∈ cbs then .ok (cbs.erase c) else .error .valueError

/-! ### `TimeIntervalScheduler` -/

structure TSched where
  interval : Rat
  prev : Rat            -- `_previous_available_time`
  cbs : List Nat
deriving DecidableEq, Repr

/-- `__init__`: callbacks stored, `interval < 0` rejected *before* the clock is read, then one
reading `r0`. -/
def TSched.new (interval : Rat) (cbs : List Nat) (r0 : Rat) : Except Err TSched :=
  if interval < 0 then .error .valueError else .ok ⟨interval, r0, cbs⟩

/-- `is_available()` evaluated on the reading `r`. -/
def TSched.due (s : TSched) (r : Rat) : Bool := decide (r - s.prev > s.interval)

/-- Result of one `update()`. -/
structure Upd where
  st : TSched
  fired : Bool          -- the callback loop was entered
  ran : List Nat        -- callbacks invoked, in invocation order
  reads : Nat           -- clock readings consumed
deriving DecidableEq, Repr

/-- `update()`. `r1 r2 r3` are the successive clock readings (only the first `reads` are used). -/
def TSched.update (decideOnce : Bool) (s : TSched) (r1 r2 r3 : Rat) : Upd :=
  if decideOnce then
    -- available = is_available()            [r1]
    -- if available: callbacks; prev = time() [r2]
    if s.due r1 then ⟨{ s with prev := r2 }, true, s.cbs, 2⟩
    else ⟨s, false, [], 1⟩
  else
    -- super().update(): if is_available() [r1]: callbacks
    -- if is_available() [r2]: prev = time() [r3]
    let fired := s.due r1
    let ran := if fired then s.cbs else []
    if s.due r2 then ⟨{ s with prev := r3 }, fired, ran, 3⟩
    else ⟨s, fired, ran, 2⟩

/-- Result of an `update()` in which a callback may raise. -/
structure UpdF where
  st : TSched
  ran : List Nat        -- callbacks invoked (the raising one included), in invocation order
  raised : Bool         -- the exception of a callback left `update()`
  reads : Nat
deriving DecidableEq, Repr

/-- `update()` (as repaired) when the callback at position `failAt` of the list raises: the loop
stops there, the exception propagates, and the statement that restarts the interval is not reached. -/
def TSched.updateF (s : TSched) (r1 r2 : Rat) (failAt : Option Nat) : UpdF :=
  if s.due r1 then
    match failAt with
    | some k =>
      if k < s.cbs.length then ⟨s, s.cbs.take (k + 1), true, 1⟩
      else ⟨{ s with prev := r2 }, s.cbs, false, 2⟩
    | none => ⟨{ s with prev := r2 }, s.cbs, false, 2⟩
  else ⟨s, [], false, 1⟩

/-! ### `StepIntervalScheduler` -/

structure SSched where
  interval : Nat
  steps : Nat           -- `_steps_since_last_call`
  cbs : List Nat
deriving DecidableEq, Repr

/-- `__init__`: `interval <= 0` rejected. -/
def SSched.new (interval : Int) (cbs : List Nat) : Except Err SSched :=
  if interval ≤ 0 then .error .valueError else .ok ⟨interval.toNat, 0, cbs⟩

def SSched.due (s : SSched) : Bool := decide (s.steps ≥ s.interval)

structure SUpd where
  st : SSched
  fired : Bool
  ran : List Nat
deriving DecidableEq, Repr

/-- `update()`: count the step, run the callbacks if due, then test again and reset. -/
def SSched.update (s : SSched) : SUpd :=
  let s1 := { s with steps := s.steps + 1 }
  let fired := s1.due
  let ran := if fired then s1.cbs else []
  if s1.due then ⟨{ s1 with steps := 0 }, fired, ran⟩ else ⟨s1, fired, ran⟩

structure SUpdF where
  st : SSched
  ran : List Nat
  raised : Bool
deriving DecidableEq, Repr

/-- `update()` of the step scheduler when the callback at position `failAt` raises: the step has been
counted, the counter is not reset (the next update is due again). -/
def SSched.updateF (s : SSched) (failAt : Option Nat) : SUpdF :=
  let s1 := { s with steps := s.steps + 1 }
  if s1.due then
    match failAt with
    | some k =>
      if k < s1.cbs.length then ⟨s1, s1.cbs.take (k + 1), true⟩ else ⟨{ s1 with steps := 0 }, s1.cbs, false⟩
    | none => ⟨{ s1 with steps := 0 }, s1.cbs, false⟩
  else ⟨s1, [], false⟩

/-! ### `PeriodicSaveCondition` : a flag latched by the single callback of a time scheduler -/

structure Psc where
  sched : TSched        -- callbacks = [0] (`set_true`)
  flag : Bool
deriving DecidableEq, Repr

def Psc.new (interval : Rat) (r0 : Rat) : Except Err Psc :=
  match TSched.new interval [0] r0 with
  | .ok s => .ok ⟨s, false⟩
  | .error e => .error e

structure PUpd where
  st : Psc
  out : Bool
  schedFired : Bool
  reads : Nat
deriving DecidableEq, Repr

/-- `__call__`: update the scheduler (its callback sets the flag), return the flag and clear it. -/
def Psc.call (decideOnce : Bool) (c : Psc) (r1 r2 r3 : Rat) : PUpd :=
  let u := c.sched.update decideOnce r1 r2 r3
  let flag1 := if 0 ∈ u.ran then true else c.flag
  ⟨⟨u.st, false⟩, flag1, u.fired, u.reads⟩

/-! ### Histories -/

/-- The three readings handed to one update. -/
structure R3 where
  r1 : Rat
  r2 : Rat
  r3 : Rat
deriving DecidableEq, Repr

/-- State after a history of updates. -/
def TSched.run (decideOnce : Bool) (s : TSched) : List R3 → TSched
  | [] => s
  | r :: rest => TSched.run decideOnce (s.update decideOnce r.r1 r.r2 r.r3).st rest

/-- Decision readings of the updates of a history in which the callbacks ran. -/
def TSched.fires (decideOnce : Bool) (s : TSched) : List R3 → List Rat
  | [] => []
  | r :: rest =>
    let u := s.update decideOnce r.r1 r.r2 r.r3
    (if u.fired then [r.r1] else []) ++ TSched.fires decideOnce u.st rest

/-- State after `k` updates of a step scheduler. -/
def SSched.run (s : SSched) : Nat → SSched
  | 0 => s
  | k + 1 => (SSched.run s k).update.st

/-- Outputs of a history of calls of the save condition, paired with "its scheduler fired". -/
def Psc.outs (decideOnce : Bool) (c : Psc) : List R3 → List (Bool × Bool)
  | [] => []
  | r :: rest =>
    let u := c.call decideOnce r.r1 r.r2 r.r3
    (u.out, u.schedFired) :: Psc.outs decideOnce u.st rest

end Pamiq.Sched
