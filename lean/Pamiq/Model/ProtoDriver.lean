/- Line protocol for the Proto model: `proto reset n max`, `proto act <ctor> <args…>`, `proto state`. -/
import Pamiq.Model.Proto
namespace Pamiq.Proto
open Pamiq

def parseKind : String → Option CbKind
  | "setup" => some .setup | "step" => some .step | "pausedHook" => some .pausedHook
  | "resumedHook" => some .resumedHook | "teardown" => some .teardown | _ => none

def parseAct (toks : List String) : Option Act :=
  match toks with
  | ["bCbBegin", t, k] => do pure (.bCbBegin (← t.toNat?) (← parseKind k))
  | ["bCbEnd", t, k] => do pure (.bCbEnd (← t.toNat?) (← parseKind k))
  | ["bCbRaise", t, k] => do pure (.bCbRaise (← t.toNat?) (← parseKind k))
  | ["bReadResume", t, v] => do pure (.bReadResume (← t.toNat?) (← parseBool v))
  | ["bSetPaused", t] => do pure (.bSetPaused (← t.toNat?))
  | ["bWaitImm", t] => do pure (.bWaitImm (← t.toNat?))
  | ["bWaitBlock", t] => do pure (.bWaitBlock (← t.toNat?))
  | ["bWaitWoken", t] => do pure (.bWaitWoken (← t.toNat?))
  | ["bWaitTimeout", t] => do pure (.bWaitTimeout (← t.toNat?))
  | ["bAcquire", t] => do pure (.bAcquire (← t.toNat?))
  | ["bLeaveRead", t, v] => do pure (.bLeaveRead (← t.toNat?) (← parseBool v))
  | ["bClearPaused", t] => do pure (.bClearPaused (← t.toNat?))
  | ["bRelease", t] => do pure (.bRelease (← t.toNat?))
  | ["bReadShutdown", t, v] => do pure (.bReadShutdown (← t.toNat?) (← parseBool v))
  | ["bLoopSleep", t] => do pure (.bLoopSleep (← t.toNat?))
  | ["bSetExc", t] => do pure (.bSetExc (← t.toNat?))
  | ["bExit", t] => do pure (.bExit (← t.toNat?))
  | ["cSpawn", t] => do pure (.cSpawn (← t.toNat?))
  | ["cRun"] => some .cRun
  | ["cTryPause"] => some .cTryPause
  | ["cTryPauseRet", v] => do pure (.cTryPauseRet (← parseBool v))
  | ["cAcquire"] => some .cAcquire
  | ["cClearResume"] => some .cClearResume
  | ["cRelease"] => some .cRelease
  | ["cSpawnWorker", t] => do pure (.cSpawnWorker (← t.toNat?))
  | ["wRet", t, r] => do pure (.wRet (← t.toNat?) (← parseBool r))
  | ["cWorkersJoined"] => some .cWorkersJoined
  | ["cClockPause"] => some .cClockPause
  | ["cClockResume"] => some .cClockResume
  | ["cSetResume"] => some .cSetResume
  | ["cSetShutdown"] => some .cSetShutdown
  | ["cResume"] => some .cResume
  | ["cResumeRet"] => some .cResumeRet
  | ["cShutdown"] => some .cShutdown
  | ["cShutdownRet"] => some .cShutdownRet
  | ["cSave"] => some .cSave
  | ["cSaveBegin"] => some .cSaveBegin
  | ["cSaveCbBegin"] => some .cSaveCbBegin
  | ["cSaveCbEnd"] => some .cSaveCbEnd
  | ["cSaveEnd"] => some .cSaveEnd
  | ["cSaveRet"] => some .cSaveRet
  | ["cReadExc", t, v] => do pure (.cReadExc (← t.toNat?) (← parseBool v))
  | ["cExc"] => some .cExc
  | ["cCmdShutdown"] => some .cCmdShutdown
  | ["cUptime"] => some .cUptime
  | ["cIsAlive", t, v] => do pure (.cIsAlive (← t.toNat?) (← parseBool v))
  | ["cJoin", t] => do pure (.cJoin (← t.toNat?))
  | ["cFinalSaveBegin"] => some .cFinalSaveBegin
  | ["cFinalSaveEnd"] => some .cFinalSaveEnd
  | ["cReturn"] => some .cReturn
  | _ => none

def showThread (th : BThread) : String :=
  s!"{repr th.pc}|f={showBool th.pausedFlag}|x={showBool th.excFlag}|lp={showBool th.localPaused}" ++
  s!"|n={showBool th.notified}|h={showBool th.holds}|cb={repr th.inCb}|td={th.tdBegun}|j={showBool th.joined}"

def showState (s : St) : String :=
  s!"resume={showBool s.resume} shutdown={showBool s.shutdown} clockPaused={showBool s.clockPaused} " ++
  s!"ctl={repr s.ctl.pc}|paused={showBool s.ctl.paused}|stopped={showBool s.ctl.stopped}" ++
  s!"|must={showBool s.ctl.mustStop}|att={s.ctl.attempt} thr=" ++ showList showThread s.thr

/-- Coverage key of an action taken in state `s`: the action constructor and the program counter of the
thread that takes it (for `wRet`, the control thread's). Reported by `proto cov`. -/
def covKey (s : St) (toks : List String) : Option String :=
  match parseAct toks with
  | none => none
  | some a =>
    let label := toks.head?.getD "?" ++ (match a with
      | .bCbBegin _ k | .bCbEnd _ k | .bCbRaise _ k => ":" ++ toString (repr k)
      | _ => "")
    match a.thread with
    | some t => (s.thr[t]?).map fun th => s!"{label}@{repr th.pc}"
    | none => some s!"{label}@{repr s.ctl.pc}"

/-- Executable form of the C01 statement, evaluated by the follower on every visited state. -/
def quiescentWhenPaused (s : St) : Bool :=
  !s.ctl.paused || (s.clockPaused && s.thr.all fun th => th.inCb.isNone && th.pausedFlag)

def drive (s : St) (toks : List String) : St × String :=
  match toks with
  | ["reset", n, m] =>
    match n.toNat?, m.toNat? with
    | some n, some m => (init n m, "ok")
    | _, _ => (s, "bad-op")
  | "act" :: rest =>
    match parseAct rest with
    | some a =>
      match step s a with
      | some s' => (s', if quiescentWhenPaused s' then "ok" else "ok-but-paused-not-quiescent")
      | none =>
        -- an additional *read* of a shared event that the model does not expect at this point is a
        -- stutter, provided the value read is the model's value (harmless rewrites add such reads)
        match a with
        | .bReadResume _ v | .bLeaveRead _ v => if v = s.resume then (s, "ok") else (s, "disabled " ++ showState s)
        | .bReadShutdown _ v => if v = s.shutdown then (s, "ok") else (s, "disabled " ++ showState s)
        | _ => (s, "disabled " ++ showState s)
    | none => (s, "bad-op")
  | ["state"] => (s, showState s)
  | _ => (s, "bad-op")

end Pamiq.Proto
