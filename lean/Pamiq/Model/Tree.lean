/-
Model of the composite components of `pamiq_core/interaction`:

* `Interaction(agent, environment)`                      — interactions.py
* `Agent(agents = {name: Agent, …})`                     — agent.py (an agent is a user component
  *and* a composite: its own callbacks run, then the call is forwarded to the children)
* `Environment` leaf, `ModularEnvironment(sensor, actuator)` — env.py, modular_env.py
* `EnvironmentWrapper(env, obs_wrapper, act_wrapper)`    — wrappers.py
* `Sensor` leaf, `SensorsDict{name: Sensor}`, `SensorWrapper(sensor, wrapper)`
* `Actuator` leaf, `ActuatorsDict{name: Actuator}`, `ActuatorWrapper(actuator, wrapper)`
* `Wrapper` leaves: a user `Wrapper` subclass (`Wrap.user`) or a plain callable that
  `_ensure_wrapper` turns into a `LambdaWrapper` (`Wrap.fn`, no user callbacks, only a transformation)

Every user-written component ("leaf", including every agent) carries an id. Each function below
follows the corresponding method of the class, call by call and in the same order.
-/
import Pamiq.Model.Util
namespace Pamiq.Tree

abbrev LeafId := Nat
abbrev Path := List String

/-- The eight events issued at the root: six by `Interaction` methods, the two attachments by
`launch()` directly on `interaction.agent` (launcher.py). -/
inductive Event
  | setup | teardown | onPaused | onResumed | saveState | loadState
  | attachModels | attachCollectors
deriving DecidableEq, Repr

/-- The six events every component class has; the two attachments exist on `Agent` only. -/
def Event.lifecycle : Event → Bool
  | .attachModels | .attachCollectors => false
  | _ => true

inductive Wrap
  | user (id : LeafId)  -- user subclass of `Wrapper`
  | fn (id : LeafId)    -- callable → `LambdaWrapper`
deriving DecidableEq, Repr

def Wrap.id : Wrap → LeafId
  | .user i => i | .fn i => i

inductive Agent
  | mk (id : LeafId) (children : List (String × Agent))
deriving Repr

inductive Sensor
  | leaf (id : LeafId)
  | dict (children : List (String × Sensor))
  | wrap (sensor : Sensor) (wrapper : Wrap)
deriving Repr

inductive Actuator
  | leaf (id : LeafId)
  | dict (children : List (String × Actuator))
  | wrap (actuator : Actuator) (wrapper : Wrap)
deriving Repr

inductive Env
  | leaf (id : LeafId)
  | modular (sensor : Sensor) (actuator : Actuator)
  | wrap (env : Env) (obs act : Wrap)
deriving Repr

structure Interaction where
  agent : Agent
  environment : Env
deriving Repr

/-! ## Events -/

/-- A `Wrapper` leaf: `LambdaWrapper` inherits the empty mixin methods, a user wrapper records. -/
def Wrap.dispatch (e : Event) : Wrap → List LeafId
  | .user i => if e.lifecycle then [i] else []
  | .fn _ => []

mutual
/-- `Agent.setup/teardown/on_paused/on_resumed/save_state/load_state/attach_*`: own callback
(the user's override runs and calls `super()`), then every child in insertion order. -/
def Agent.dispatch (e : Event) : Agent → List LeafId
  | .mk id cs => id :: Agent.dispatchL e cs
def Agent.dispatchL (e : Event) : List (String × Agent) → List LeafId
  | [] => []
  | (_, a) :: rest => a.dispatch e ++ Agent.dispatchL e rest
end

mutual
def Sensor.dispatch (e : Event) : Sensor → List LeafId
  | .leaf id => if e.lifecycle then [id] else []
  -- SensorsDict: `super().<event>()` (empty mixin), then `for v in self.values(): v.<event>()`
  | .dict cs => if e.lifecycle then Sensor.dispatchL e cs else []
  -- SensorWrapper: `self.sensor.<event>(); self._wrapper.<event>()`
  | .wrap s w => if e.lifecycle then s.dispatch e ++ w.dispatch e else []
def Sensor.dispatchL (e : Event) : List (String × Sensor) → List LeafId
  | [] => []
  | (_, s) :: rest => s.dispatch e ++ Sensor.dispatchL e rest
end

mutual
def Actuator.dispatch (e : Event) : Actuator → List LeafId
  | .leaf id => if e.lifecycle then [id] else []
  | .dict cs => if e.lifecycle then Actuator.dispatchL e cs else []
  | .wrap a w => if e.lifecycle then a.dispatch e ++ w.dispatch e else []
def Actuator.dispatchL (e : Event) : List (String × Actuator) → List LeafId
  | [] => []
  | (_, a) :: rest => a.dispatch e ++ Actuator.dispatchL e rest
end

def Env.dispatch (e : Event) : Env → List LeafId
  | .leaf id => if e.lifecycle then [id] else []
  -- ModularEnvironment: `self.sensor.<event>(); self.actuator.<event>()`
  | .modular s a => if e.lifecycle then s.dispatch e ++ a.dispatch e else []
  -- EnvironmentWrapper: `self.env.<event>(); self._obs_wrapper.<event>(); self._act_wrapper.<event>()`
  | .wrap env o a => if e.lifecycle then env.dispatch e ++ o.dispatch e ++ a.dispatch e else []

/-- Root. Lifecycle events: `Interaction.<event>` = agent then environment. Attachments:
`interaction.agent.attach_inference_models(…)` / `attach_data_collectors(…)` in `launch()`. -/
def Interaction.dispatch (e : Event) (i : Interaction) : List LeafId :=
  if e.lifecycle then i.agent.dispatch e ++ i.environment.dispatch e else i.agent.dispatch e

/-! ## Paths handed to the leaves by `save_state` and by `load_state` (two separate methods in
every class, hence two separate definitions here). -/

def Wrap.savePaths (p : Path) : Wrap → List (LeafId × Path)
  | .user i => [(i, p)]
  | .fn _ => []

def Wrap.loadPaths (p : Path) : Wrap → List (LeafId × Path)
  | .user i => [(i, p)]
  | .fn _ => []

mutual
def Agent.savePaths (p : Path) : Agent → List (LeafId × Path)
  | .mk id cs => (id, p) :: Agent.savePathsL p cs          -- `agent.save_state(path / name)`
def Agent.savePathsL (p : Path) : List (String × Agent) → List (LeafId × Path)
  | [] => []
  | (n, a) :: rest => a.savePaths (p ++ [n]) ++ Agent.savePathsL p rest
end

mutual
def Agent.loadPaths (p : Path) : Agent → List (LeafId × Path)
  | .mk id cs => (id, p) :: Agent.loadPathsL p cs          -- `agent.load_state(path / name)`
def Agent.loadPathsL (p : Path) : List (String × Agent) → List (LeafId × Path)
  | [] => []
  | (n, a) :: rest => a.loadPaths (p ++ [n]) ++ Agent.loadPathsL p rest
end

mutual
def Sensor.savePaths (p : Path) : Sensor → List (LeafId × Path)
  | .leaf id => [(id, p)]
  | .dict cs => Sensor.savePathsL p cs                     -- `v.save_state(path / k)`
  | .wrap s w => s.savePaths (p ++ ["sensor"]) ++ w.savePaths (p ++ ["wrapper"])
def Sensor.savePathsL (p : Path) : List (String × Sensor) → List (LeafId × Path)
  | [] => []
  | (n, s) :: rest => s.savePaths (p ++ [n]) ++ Sensor.savePathsL p rest
end

mutual
def Sensor.loadPaths (p : Path) : Sensor → List (LeafId × Path)
  | .leaf id => [(id, p)]
  | .dict cs => Sensor.loadPathsL p cs
  | .wrap s w => s.loadPaths (p ++ ["sensor"]) ++ w.loadPaths (p ++ ["wrapper"])
def Sensor.loadPathsL (p : Path) : List (String × Sensor) → List (LeafId × Path)
  | [] => []
  | (n, s) :: rest => s.loadPaths (p ++ [n]) ++ Sensor.loadPathsL p rest
end

mutual
def Actuator.savePaths (p : Path) : Actuator → List (LeafId × Path)
  | .leaf id => [(id, p)]
  | .dict cs => Actuator.savePathsL p cs
  | .wrap a w => a.savePaths (p ++ ["actuator"]) ++ w.savePaths (p ++ ["wrapper"])
def Actuator.savePathsL (p : Path) : List (String × Actuator) → List (LeafId × Path)
  | [] => []
  | (n, a) :: rest => a.savePaths (p ++ [n]) ++ Actuator.savePathsL p rest
end

mutual
def Actuator.loadPaths (p : Path) : Actuator → List (LeafId × Path)
  | .leaf id => [(id, p)]
  | .dict cs => Actuator.loadPathsL p cs
  | .wrap a w => a.loadPaths (p ++ ["actuator"]) ++ w.loadPaths (p ++ ["wrapper"])
def Actuator.loadPathsL (p : Path) : List (String × Actuator) → List (LeafId × Path)
  | [] => []
  | (n, a) :: rest => a.loadPaths (p ++ [n]) ++ Actuator.loadPathsL p rest
end

def Env.savePaths (p : Path) : Env → List (LeafId × Path)
  | .leaf id => [(id, p)]
  | .modular s a => s.savePaths (p ++ ["sensor"]) ++ a.savePaths (p ++ ["actuator"])
  | .wrap env o a => env.savePaths (p ++ ["env"]) ++ o.savePaths (p ++ ["obs_wrapper"])
      ++ a.savePaths (p ++ ["act_wrapper"])

def Env.loadPaths (p : Path) : Env → List (LeafId × Path)
  | .leaf id => [(id, p)]
  | .modular s a => s.loadPaths (p ++ ["sensor"]) ++ a.loadPaths (p ++ ["actuator"])
  | .wrap env o a => env.loadPaths (p ++ ["env"]) ++ o.loadPaths (p ++ ["obs_wrapper"])
      ++ a.loadPaths (p ++ ["act_wrapper"])

def Interaction.savePaths (p : Path) (i : Interaction) : List (LeafId × Path) :=
  i.agent.savePaths (p ++ ["agent"]) ++ i.environment.savePaths (p ++ ["environment"])

def Interaction.loadPaths (p : Path) (i : Interaction) : List (LeafId × Path) :=
  i.agent.loadPaths (p ++ ["agent"]) ++ i.environment.loadPaths (p ++ ["environment"])

/-! ## File-system operations of one `save_state(path)` in program order. -/

inductive FsOp
  | mkdir (p : Path) (existOk : Bool)     -- `path.mkdir()` / `path.mkdir(exist_ok=True)` by a composite
  | leafSave (id : LeafId) (p : Path)     -- a user component is handed `p` (file or directory of its own)
deriving DecidableEq, Repr

def FsOp.path : FsOp → Path
  | .mkdir p _ => p
  | .leafSave _ p => p

def Wrap.fsOps (p : Path) : Wrap → List FsOp
  | .user i => [.leafSave i p]
  | .fn _ => []

mutual
/-- `Agent.save_state`: own state; `if len(self._agents) == 0: return`; `path.mkdir(exist_ok=True)`;
children. -/
def Agent.fsOps (p : Path) : Agent → List FsOp
  | .mk id cs =>
    .leafSave id p :: (match cs with
      | [] => []
      | _ :: _ => .mkdir p true :: Agent.fsOpsL p cs)
def Agent.fsOpsL (p : Path) : List (String × Agent) → List FsOp
  | [] => []
  | (n, a) :: rest => a.fsOps (p ++ [n]) ++ Agent.fsOpsL p rest
end

mutual
def Sensor.fsOps (p : Path) : Sensor → List FsOp
  | .leaf id => [.leafSave id p]
  | .dict cs => .mkdir p false :: Sensor.fsOpsL p cs       -- `super().save_state(path); path.mkdir()`
  | .wrap s w => .mkdir p false :: (s.fsOps (p ++ ["sensor"]) ++ w.fsOps (p ++ ["wrapper"]))
def Sensor.fsOpsL (p : Path) : List (String × Sensor) → List FsOp
  | [] => []
  | (n, s) :: rest => s.fsOps (p ++ [n]) ++ Sensor.fsOpsL p rest
end

mutual
def Actuator.fsOps (p : Path) : Actuator → List FsOp
  | .leaf id => [.leafSave id p]
  | .dict cs => .mkdir p false :: Actuator.fsOpsL p cs
  | .wrap a w => .mkdir p false :: (a.fsOps (p ++ ["actuator"]) ++ w.fsOps (p ++ ["wrapper"]))
def Actuator.fsOpsL (p : Path) : List (String × Actuator) → List FsOp
  | [] => []
  | (n, a) :: rest => a.fsOps (p ++ [n]) ++ Actuator.fsOpsL p rest
end

def Env.fsOps (p : Path) : Env → List FsOp
  | .leaf id => [.leafSave id p]
  | .modular s a => .mkdir p false :: (s.fsOps (p ++ ["sensor"]) ++ a.fsOps (p ++ ["actuator"]))
  | .wrap env o a => .mkdir p false :: (env.fsOps (p ++ ["env"]) ++ o.fsOps (p ++ ["obs_wrapper"])
      ++ a.fsOps (p ++ ["act_wrapper"]))

def Interaction.fsOps (p : Path) (i : Interaction) : List FsOp :=
  .mkdir p false :: (i.agent.fsOps (p ++ ["agent"]) ++ i.environment.fsOps (p ++ ["environment"]))

/-! ### Executing the operations on an abstract file system (the set of existing paths). -/

inductive FsErr | fileNotFound | fileExists
deriving DecidableEq, Repr

/-- `Path.mkdir` needs the parent to exist and (without `exist_ok`) the path to be new. A user
component that is handed `p` creates `p` (a file or a directory of its own): the parent must exist
and `p` must not be taken. An agent with children is handed `p`, creates it as a directory (the
documented pattern `path.mkdir(exist_ok=True)`), and `Agent.save_state` tolerates that. -/
def runFs : List FsOp → List Path → Except FsErr (List Path)
  | [], fs => .ok fs
  | .mkdir p ok :: rest, fs =>
    if fs.contains p.dropLast = false then .error .fileNotFound
    else if fs.contains p then (if ok then runFs rest fs else .error .fileExists)
    else runFs rest (p :: fs)
  | .leafSave _ p :: rest, fs =>
    if fs.contains p.dropLast = false then .error .fileNotFound
    else if fs.contains p then .error .fileExists
    else runFs rest (p :: fs)

/-! ## Data: observations and actions.

A value is an atom (who produced it, and the trail of wrapper ids applied to it, oldest first) or a
dictionary of values. The harness wrappers transform a value by appending their id to the trail of
every atom in it. -/

inductive Val
  | atom (src : Nat) (trail : List Nat)
  | dict (kvs : List (String × Val))
deriving Repr

mutual
def Val.tag (w : Nat) : Val → Val
  | .atom s t => .atom s (t ++ [w])
  | .dict kvs => .dict (Val.tagL w kvs)
def Val.tagL (w : Nat) : List (String × Val) → List (String × Val)
  | [] => []
  | (k, v) :: rest => (k, v.tag w) :: Val.tagL w rest
end

/-- `wrapper(value)` -/
def Wrap.apply (w : Wrap) (v : Val) : Val := v.tag w.id

mutual
/-- `Sensor.read` -/
def Sensor.read : Sensor → Val
  | .leaf id => .atom id []
  | .dict cs => .dict (Sensor.readL cs)                    -- `{k: v.read() for k, v in self.items()}`
  | .wrap s w => w.apply s.read                            -- `self._wrapper(self.sensor.read())`
def Sensor.readL : List (String × Sensor) → List (String × Val)
  | [] => []
  | (k, s) :: rest => (k, s.read) :: Sensor.readL rest
end

/-- What the Python `action[k]` can raise. -/
inductive DataErr | keyError | typeError
deriving DecidableEq, Repr

/-- Result of delivering an action: what each leaf received, in call order, and the exception that
stopped the delivery (if any). -/
abbrev Delivery := List (LeafId × Val) × Option DataErr

/-- `action[k]` on a Python value: a dict lookup, `KeyError` when absent, `TypeError` on an atom. -/
def Val.getItem (k : String) : Val → Except DataErr Val
  | .atom _ _ => .error .typeError
  | .dict kvs => match kvs.lookup k with
    | some v => .ok v
    | none => .error .keyError

mutual
/-- `Actuator.operate(action)` -/
def Actuator.operate (v : Val) : Actuator → Delivery
  | .leaf id => ([(id, v)], none)
  | .dict cs => Actuator.operateL v cs                     -- `for k, a in self.items(): a.operate(action[k])`
  | .wrap a w => a.operate (w.apply v)                     -- `self.actuator.operate(self._wrapper(action))`
def Actuator.operateL (v : Val) : List (String × Actuator) → Delivery
  | [] => ([], none)
  | (k, a) :: rest =>
    match v.getItem k with
    | .error e => ([], some e)
    | .ok vk =>
      match a.operate vk with
      | (log, some e) => (log, some e)
      | (log, none) =>
        let (log', r) := Actuator.operateL v rest
        (log ++ log', r)
end

def Env.observe : Env → Val
  | .leaf id => .atom id []
  | .modular s _ => s.read
  | .wrap env o _ => o.apply env.observe                   -- `self._obs_wrapper(self.env.observe())`

def Env.affect (v : Val) : Env → Delivery
  | .leaf id => ([(id, v)], none)
  | .modular _ a => a.operate v
  | .wrap env _ a => env.affect (a.apply v)                -- `self.env.affect(self._act_wrapper(action))`

/-- `Interaction.step()` with the agent answering `action`: the observation handed to
`agent.step`, then the delivery of the action. -/
def Interaction.step (i : Interaction) (action : Val) : Val × Delivery :=
  (i.environment.observe, i.environment.affect action)

/-! ## Well-formedness: what Python guarantees by construction (dict keys are distinct) and what
the property assumes (a component object is used at one place only). Child names are assumed to be
single path components (no separator, not `.`/`..`): `Path` is a list of components. -/

def distinct : List String → Bool
  | [] => true
  | x :: xs => !xs.contains x && distinct xs

def namesOf {α} (cs : List (String × α)) : List String := cs.map Prod.fst

mutual
def Agent.namesOk : Agent → Bool
  | .mk _ cs => distinct (namesOf cs) && Agent.namesOkL cs
def Agent.namesOkL : List (String × Agent) → Bool
  | [] => true
  | (_, a) :: rest => a.namesOk && Agent.namesOkL rest
end

mutual
def Sensor.namesOk : Sensor → Bool
  | .leaf _ => true
  | .dict cs => distinct (namesOf cs) && Sensor.namesOkL cs
  | .wrap s _ => s.namesOk
def Sensor.namesOkL : List (String × Sensor) → Bool
  | [] => true
  | (_, s) :: rest => s.namesOk && Sensor.namesOkL rest
end

mutual
def Actuator.namesOk : Actuator → Bool
  | .leaf _ => true
  | .dict cs => distinct (namesOf cs) && Actuator.namesOkL cs
  | .wrap a _ => a.namesOk
def Actuator.namesOkL : List (String × Actuator) → Bool
  | [] => true
  | (_, a) :: rest => a.namesOk && Actuator.namesOkL rest
end

def Env.namesOk : Env → Bool
  | .leaf _ => true
  | .modular s a => s.namesOk && a.namesOk
  | .wrap e _ _ => e.namesOk

def Interaction.namesOk (i : Interaction) : Bool := i.agent.namesOk && i.environment.namesOk

/-! All user-visible parts of the tree with their kind, in pre-order (own before children, children
in insertion order, wrapped component before its wrapper(s)). -/

inductive Kind
  | agent       -- has all eight events
  | component   -- environment / sensor / actuator / user wrapper: the six lifecycle events
  | lambda      -- `LambdaWrapper` around a callable: no user callbacks
deriving DecidableEq, Repr

def Wrap.kinds : Wrap → List (LeafId × Kind)
  | .user i => [(i, .component)]
  | .fn i => [(i, .lambda)]

mutual
def Agent.kinds : Agent → List (LeafId × Kind)
  | .mk id cs => (id, .agent) :: Agent.kindsL cs
def Agent.kindsL : List (String × Agent) → List (LeafId × Kind)
  | [] => []
  | (_, a) :: rest => a.kinds ++ Agent.kindsL rest
end

mutual
def Sensor.kinds : Sensor → List (LeafId × Kind)
  | .leaf id => [(id, .component)]
  | .dict cs => Sensor.kindsL cs
  | .wrap s w => s.kinds ++ w.kinds
def Sensor.kindsL : List (String × Sensor) → List (LeafId × Kind)
  | [] => []
  | (_, s) :: rest => s.kinds ++ Sensor.kindsL rest
end

mutual
def Actuator.kinds : Actuator → List (LeafId × Kind)
  | .leaf id => [(id, .component)]
  | .dict cs => Actuator.kindsL cs
  | .wrap a w => a.kinds ++ w.kinds
def Actuator.kindsL : List (String × Actuator) → List (LeafId × Kind)
  | [] => []
  | (_, a) :: rest => a.kinds ++ Actuator.kindsL rest
end

def Env.kinds : Env → List (LeafId × Kind)
  | .leaf id => [(id, .component)]
  | .modular s a => s.kinds ++ a.kinds
  | .wrap e o a => e.kinds ++ o.kinds ++ a.kinds

def Interaction.kinds (i : Interaction) : List (LeafId × Kind) := i.agent.kinds ++ i.environment.kinds

def Interaction.ids (i : Interaction) : List LeafId := i.kinds.map Prod.fst

end Pamiq.Tree
