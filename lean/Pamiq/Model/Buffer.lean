/-
Model of the built-in data buffers
  `pamiq_core/data/buffer.py`                          (`DataBuffer.__init__`)
  `pamiq_core/data/impls/sequential_buffer.py`         (`SequentialBuffer`, `DictSequentialBuffer`)
  `pamiq_core/data/impls/random_replacement_buffer.py` (`RandomReplacementBuffer`, `Dict…`).

Samples are values of an arbitrary type `α` (the driver uses `Int`); dict samples are association
lists `List (String × Int)` with distinct keys (a Python `dict`). The two random draws made by
`RandomReplacementBuffer.add` are explicit inputs: `u` = the value of `random.random()` (a rational
in `[0,1)`), `i` = the value of `random.randint(0, max_size - 1)`. The value of
`math.log(max_size) + gamma` used by the survival-length formula is an explicit rational input `lg`
(the theorems hold for every value of it). Every place where the Python code can raise is an
`Except` result. A Python exception leaves the object as it was: the caller keeps the old value.

`Variant` selects the code that is modelled:
  `totalCtor = true`   the constructor computes the collector-queue size totally
                       (`max_size / p`, capped at `sys.maxsize`, also for `p = 0`);
  `totalCtor = false`  `int(max_size / replace_probability)` as found: `ZeroDivisionError` for `0.0`,
                       `OverflowError` when the quotient is not a finite float (finding F6);
  `strictSkip = true`  a full buffer skips the sample iff `u ≥ p` (replaces iff `u < p`);
  `strictSkip = false` `random.random() > p` as found: replaces also when `u = p`, so `p = 0` is not
                       "never" (finding F6).
-/
import Pamiq.Model.Util
namespace Pamiq.Buffer

inductive Err
  | value         -- ValueError
  | zeroDivision  -- ZeroDivisionError
  | overflow      -- OverflowError
  | index         -- IndexError
  | key           -- KeyError
deriving DecidableEq, Repr

structure Variant where
  totalCtor : Bool
  strictSkip : Bool
deriving DecidableEq, Repr

/-- The repaired code (what the property theorems are about). -/
def repaired : Variant := ⟨true, true⟩
/-- The code as found (finding F6). -/
def asFound : Variant := ⟨false, false⟩

/-- `DataBuffer.__init__(max_queue_size)` for an integer argument: negative → `ValueError`. -/
def dataBufferInit (maxQueueSize : Int) : Except Err Nat :=
  if maxQueueSize < 0 then .error .value else .ok maxQueueSize.toNat

/-! ## SequentialBuffer -/

structure Seq (α : Type) where
  maxSize : Nat
  queue : List α          -- `deque(maxlen = max_size)`, oldest first
deriving DecidableEq, Repr

/-- `deque(maxlen).append(x)`: append on the right, then drop the oldest if over length. -/
def dequeAppend {α} (maxlen : Nat) (q : List α) (x : α) : List α :=
  let q' := q ++ [x]
  if maxlen < q'.length then q'.drop 1 else q'

/-- `SequentialBuffer.__init__(max_size)`; the collector queue gets the same size. -/
def Seq.ctor {α} (maxSize : Int) : Except Err (Seq α) :=
  match dataBufferInit maxSize with
  | .error e => .error e
  | .ok n => .ok ⟨n, []⟩

def Seq.maxQueueSize {α} (b : Seq α) : Nat := b.maxSize
def Seq.add {α} (b : Seq α) (x : α) : Seq α := { b with queue := dequeAppend b.maxSize b.queue x }
/-- `list(self._queue)` -/
def Seq.getData {α} (b : Seq α) : List α := b.queue
def Seq.len {α} (b : Seq α) : Nat := b.queue.length
/-- `pickle.dump(self._queue)` -/
def Seq.saveState {α} (b : Seq α) : List α := b.queue
/-- `deque(pickle.load(f), maxlen = max_size)`: keeps the newest `max_size`. -/
def Seq.loadState {α} (b : Seq α) (saved : List α) : Seq α :=
  { b with queue := lastN b.maxSize saved }

/-! ## RandomReplacementBuffer -/

structure Rrb (α : Type) where
  maxSize : Nat
  p : Rat                 -- `_replace_probability`
  maxQueueSize : Nat
  data : List α           -- `_data_list`
  size : Nat              -- `_current_size`
deriving DecidableEq, Repr

/-- `sys.maxsize` (largest length a `deque` accepts). -/
def sysMaxsize : Int := 9223372036854775807

/-- Smallest magnitude that is not a finite double. -/
def floatHuge : Rat := ((2 ^ 1024 : Nat) : Rat)

/-- `int(x)` for a rational: truncation towards zero. -/
def truncate (r : Rat) : Int := r.num.tdiv r.den

/-- `min(max(x, 0.0), 1.0)` -/
def clamp01 (x : Rat) : Rat := if x < 0 then 0 else if 1 < x then 1 else x

/-- `compute_replace_probability_from_expected_survival_length(max_size, survival_length)` with
`lg` standing for the value of `math.log(max_size) + gamma`. -/
def computeProb (maxSize : Nat) (survival : Int) (lg : Rat) : Except Err Rat :=
  if survival = 0 then .error .zeroDivision
  else .ok (clamp01 ((maxSize : Rat) / (survival : Rat) * lg))

/-- The argument handed to `DataBuffer.__init__` (size of the collector queue). -/
def queueSize (v : Variant) (maxSize : Nat) (p : Rat) : Except Err Int :=
  if v.totalCtor = true then
    if 0 < p then
      let ratio := (maxSize : Rat) / p
      if ratio < (sysMaxsize : Rat) then .ok (truncate ratio) else .ok sysMaxsize
    else .ok sysMaxsize
  else
    if p = 0 then .error .zeroDivision
    else
      let ratio := (maxSize : Rat) / p
      if floatHuge ≤ ratio then .error .overflow else .ok (truncate ratio)

/-- Resolution of the two optional constructor parameters into the probability. -/
def resolveProb (maxSize : Nat) (replaceProbability : Option Rat) (survival : Option Int)
    (lg : Rat) : Except Err Rat :=
  match replaceProbability, survival with
  | none, none => .ok 1
  | none, some s => computeProb maxSize s lg
  | some _, some _ => .error .value
  | some p, none => .ok p

/-- `RandomReplacementBuffer.__init__(max_size, replace_probability, expected_survival_length)`. -/
def Rrb.ctor {α} (v : Variant) (maxSize : Nat) (replaceProbability : Option Rat)
    (survival : Option Int) (lg : Rat) : Except Err (Rrb α) :=
  match resolveProb maxSize replaceProbability survival lg with
  | .error e => .error e
  | .ok p =>
    if ¬ (p ≤ 1 ∧ 0 ≤ p) then .error .value
    else match queueSize v maxSize p with
      | .error e => .error e
      | .ok q => match dataBufferInit q with
        | .error e => .error e
        | .ok mq => .ok ⟨maxSize, p, mq, [], 0⟩

def Rrb.isFull {α} (b : Rrb α) : Bool := decide (b.maxSize ≤ b.size)

/-- Does a full buffer leave the new sample out, given the draw `u`? -/
def skips (v : Variant) (u p : Rat) : Bool :=
  if v.strictSkip = true then decide (p ≤ u) else decide (p < u)

/-- `add(data)` with the draws `u = random.random()`, `i = random.randint(0, max_size - 1)`
(`randint` raises `ValueError` on the empty range when `max_size = 0`; the list assignment raises
`IndexError` for an index outside the list). -/
def Rrb.add {α} (v : Variant) (b : Rrb α) (x : α) (u : Rat) (i : Nat) : Except Err (Rrb α) :=
  if b.maxSize ≤ b.size then
    if skips v u b.p = true then .ok b
    else if b.maxSize = 0 then .error .value
    else if i < b.data.length then .ok { b with data := b.data.set i x }
    else .error .index
  else .ok { b with data := b.data ++ [x], size := b.size + 1 }

/-- Which draws `add` consumes, in order (same branch structure as `Rrb.add`): what the scripted
`random` module of the correspondence harness must have been asked for. -/
def Rrb.drawsUsed {α} (v : Variant) (b : Rrb α) (u : Rat) : List String :=
  if b.maxSize ≤ b.size then
    if skips v u b.p = true then ["random"]
    else ["random", s!"randint(0,{(b.maxSize : Int) - 1})"]
  else []

/-- `self._data_list.copy()` -/
def Rrb.getData {α} (b : Rrb α) : List α := b.data
def Rrb.len {α} (b : Rrb α) : Nat := b.size
def Rrb.saveState {α} (b : Rrb α) : List α := b.data
/-- `list(pickle.load(f))[: max_size]`, `_current_size = len(_data_list)`: keeps the first. -/
def Rrb.loadState {α} (b : Rrb α) (saved : List α) : Rrb α :=
  { b with data := saved.take b.maxSize, size := (saved.take b.maxSize).length }

/-! ## Dict variants -/

abbrev Sample := List (String × Int)
abbrev Columns := List (String × List Int)

def sampleKeys (d : Sample) : List String := d.map (·.1)

/-- `set(data.keys()) == self._keys` -/
def sameKeySet (a b : List String) : Bool := a.all (fun k => b.contains k) && b.all (fun k => a.contains k)

def lookupS (k : String) : Sample → Option Int
  | [] => none
  | (k', v) :: rest => if k' = k then some v else lookupS k rest

def lookupC (k : String) : Columns → Option (List Int)
  | [] => none
  | (k', l) :: rest => if k' = k then some l else lookupC k rest

/-- `out[k].append(v)`: `KeyError` when `k` is not a key of `out`. -/
def appendAt (out : Columns) (k : String) (v : Int) : Except Err Columns :=
  if out.any (fun e => e.1 = k) = true then
    .ok (out.map fun e => if e.1 = k then (e.1, e.2 ++ [v]) else e)
  else .error .key

/-- `for k, v in data.items(): out[k].append(v)` -/
def collectSample : Sample → Columns → Except Err Columns
  | [], out => .ok out
  | (k, v) :: rest, out =>
    match appendAt out k v with
    | .error e => .error e
    | .ok out' => collectSample rest out'

def collectAll : List Sample → Columns → Except Err Columns
  | [], out => .ok out
  | d :: rest, out =>
    match collectSample d out with
    | .error e => .error e
    | .ok out' => collectAll rest out'

/-- `get_data()` of both dict variants: `{k: [] for k in keys}`, then every stored sample in buffer
order, every item of the sample in its own order. -/
def collect (keys : List String) (items : List Sample) : Except Err Columns :=
  collectAll items (keys.map fun k => (k, []))

structure DictSeq where
  keys : List String       -- `set(keys)`: no duplicates, order immaterial
  buffer : Seq Sample
deriving DecidableEq, Repr

def DictSeq.ctor (keys : List String) (maxSize : Int) : Except Err DictSeq :=
  match Seq.ctor maxSize with
  | .error e => .error e
  | .ok b => .ok ⟨keys.eraseDups, b⟩

/-- key check, then delegate. -/
def DictSeq.add (b : DictSeq) (d : Sample) : Except Err DictSeq :=
  if sameKeySet (sampleKeys d) b.keys = true then .ok { b with buffer := b.buffer.add d }
  else .error .value

def DictSeq.getData (b : DictSeq) : Except Err Columns := collect b.keys b.buffer.getData
def DictSeq.len (b : DictSeq) : Nat := b.buffer.len
def DictSeq.saveState (b : DictSeq) : List Sample := b.buffer.saveState
def DictSeq.loadState (b : DictSeq) (saved : List Sample) : DictSeq :=
  { b with buffer := b.buffer.loadState saved }

structure DictRrb where
  keys : List String
  buffer : Rrb Sample
deriving DecidableEq, Repr

def DictRrb.ctor (v : Variant) (keys : List String) (maxSize : Nat)
    (replaceProbability : Option Rat) (survival : Option Int) (lg : Rat) : Except Err DictRrb :=
  match Rrb.ctor v maxSize replaceProbability survival lg with
  | .error e => .error e
  | .ok b => .ok ⟨keys.eraseDups, b⟩

def DictRrb.add (v : Variant) (b : DictRrb) (d : Sample) (u : Rat) (i : Nat) : Except Err DictRrb :=
  if sameKeySet (sampleKeys d) b.keys = true then
    match b.buffer.add v d u i with
    | .error e => .error e
    | .ok inner => .ok { b with buffer := inner }
  else .error .value

/-- A rejected sample consumes no draw. -/
def DictRrb.drawsUsed (v : Variant) (b : DictRrb) (d : Sample) (u : Rat) : List String :=
  if sameKeySet (sampleKeys d) b.keys = true then b.buffer.drawsUsed v u else []

def DictRrb.getData (b : DictRrb) : Except Err Columns := collect b.keys b.buffer.getData
def DictRrb.len (b : DictRrb) : Nat := b.buffer.len
def DictRrb.saveState (b : DictRrb) : List Sample := b.buffer.saveState
def DictRrb.loadState (b : DictRrb) (saved : List Sample) : DictRrb :=
  { b with buffer := b.buffer.loadState saved }

/-! ## Histories (what the property theorems quantify over) -/

inductive SeqOp (α : Type)
  | add (x : α)
  | load (saved : List α)
deriving Repr

def Seq.step {α} (b : Seq α) : SeqOp α → Seq α
  | .add x => b.add x
  | .load l => b.loadState l

def Seq.run {α} (b : Seq α) : List (SeqOp α) → Seq α
  | [] => b
  | op :: rest => (b.step op).run rest

inductive RrbOp (α : Type)
  | add (x : α) (u : Rat) (i : Nat)
  | load (saved : List α)
deriving Repr

def Rrb.step {α} (v : Variant) (b : Rrb α) : RrbOp α → Except Err (Rrb α)
  | .add x u i => b.add v x u i
  | .load l => .ok (b.loadState l)

def Rrb.run {α} (v : Variant) (b : Rrb α) : List (RrbOp α) → Except Err (Rrb α)
  | [] => .ok b
  | op :: rest =>
    match b.step v op with
    | .error e => .error e
    | .ok b' => b'.run v rest

/-- Histories of the dict variants. A call that raises leaves the object as it was and the
caller goes on with it. -/
inductive DictOp
  | add (d : Sample) (u : Rat) (i : Nat)
  | load (saved : List Sample)
deriving Repr

def DictSeq.stepH (b : DictSeq) : DictOp → DictSeq
  | .add d _ _ => match b.add d with | .ok b' => b' | .error _ => b
  | .load l => b.loadState l

def DictSeq.runH (b : DictSeq) : List DictOp → DictSeq
  | [] => b
  | op :: rest => (b.stepH op).runH rest

def DictRrb.stepH (v : Variant) (b : DictRrb) : DictOp → DictRrb
  | .add d u i => match b.add v d u i with | .ok b' => b' | .error _ => b
  | .load l => b.loadState l

def DictRrb.runH (v : Variant) (b : DictRrb) : List DictOp → DictRrb
  | [] => b
  | op :: rest => (b.stepH v op).runH v rest

end Pamiq.Buffer
