/-
Model of the model containers: `pamiq_core/model/interface.py` (`TrainingModel`),
`model/container.py` (`TrainingModelsDict`, `InferenceModelsDict`), the model-related part of
`trainer/base.py` (`get_training_model`, `sync_models`, `run`) and `Agent.get_inference_model`.

Objects: every inference model object gets an id from a counter when `_create_inference_model` is
called, so "the very same object" is a statement about ids. Parameters are abstracted to a version
number: `trainVersion` on the training side, `infVersion` inside the inference object
(`sync_impl` copies one to the other; the harness models do exactly that).
-/
import Pamiq.Model.Util
namespace Pamiq.Models

abbrev ObjId := Nat

inductive Err
  | valueError        -- constructor guard
  | runtimeError      -- `inference_model` of a model without one
  | keyError          -- container look-ups
  | fileNotFound      -- `load_state` of a model whose file is absent
  | notRetrieved      -- (harness discipline) a trainer trains a model it never obtained
  | noSuchTrainer     -- protocol level: unknown trainer name
  | noOwner           -- protocol level: an inference object without an owning model (unreachable)
deriving DecidableEq, Repr

/-- A `TrainingModel` object. -/
structure Model where
  hasInf : Bool                 -- `has_inference_model`
  infOnly : Bool                -- `inference_thread_only`
  trainVersion : Nat            -- parameters of the training model
  infObj : Option ObjId         -- `_inference_model` (`None` until first accessed)
  infVersion : Nat              -- parameters inside the inference object (meaningful once created)
deriving DecidableEq, Repr

/-- `TrainingModel.__init__` -/
def Model.new (hasInf infOnly : Bool) (v : Nat) : Except Err Model :=
  if !hasInf && infOnly then .error .valueError
  else .ok { hasInf, infOnly, trainVersion := v, infObj := none, infVersion := 0 }

/-- `_need_sync` -/
def Model.needSync (m : Model) : Bool := m.hasInf && !m.infOnly

/-- The `inference_model` property: `RuntimeError` without one; created on first access
(`fresh` = next object id; a new inference model starts as a copy of the training parameters). -/
def Model.inferenceModel (m : Model) (fresh : Nat) : Except Err (Model × ObjId × Nat) :=
  if !m.hasInf then .error .runtimeError
  else match m.infObj with
    | some o => .ok (m, o, fresh)
    | none => .ok ({ m with infObj := some fresh, infVersion := m.trainVersion }, fresh, fresh + 1)

/-- `sync()`: `if self._need_sync: self.sync_impl(self.inference_model)`. Returns the object
written into (if any). -/
def Model.sync (m : Model) (fresh : Nat) : Except Err (Model × Option ObjId × Nat) :=
  if m.needSync then
    match m.inferenceModel fresh with
    | .ok (m', o, fresh') => .ok ({ m' with infVersion := m'.trainVersion }, some o, fresh')
    | .error e => .error e
  else .ok (m, none, fresh)

/-! ## `TrainingModelsDict` -/

/-- `d[k] = v` on an insertion-ordered dict. -/
def assocSet {α} (k : String) (v : α) : List (String × α) → List (String × α)
  | [] => [(k, v)]
  | (k', v') :: rest => if k' = k then (k, v) :: rest else (k', v') :: assocSet k v rest

/-- Replace the value stored under `k` (the object is mutated in place). -/
def mapAt {α} (k : String) (f : α → α) (l : List (String × α)) : List (String × α) :=
  l.map (fun kv => if kv.1 = k then (kv.1, f kv.2) else kv)

structure Dict where
  data : List (String × Model)        -- `self.data`
  inf : List (String × ObjId)         -- `self._inference_models_dict`
  nextObj : Nat                       -- object-id counter of the heap
deriving Repr

def Dict.empty : Dict := ⟨[], [], 0⟩

/-- `__setitem__`: store; `if model.has_inference_model: inference_dict[key] = model.inference_model` -/
def Dict.setItem (d : Dict) (k : String) (m : Model) : Except Err Dict :=
  if m.hasInf then
    match m.inferenceModel d.nextObj with
    | .ok (m', o, n') => .ok { data := assocSet k m' d.data, inf := assocSet k o d.inf, nextObj := n' }
    | .error e => .error e
  else .ok { d with data := assocSet k m d.data }

/-- `TrainingModelsDict(models)`: `UserDict.__init__` → `update` → `__setitem__` per item. -/
def Dict.ctor : List (String × Model) → Dict → Except Err Dict
  | [], d => .ok d
  | (k, m) :: rest, d =>
    match d.setItem k m with
    | .ok d' => Dict.ctor rest d'
    | .error e => .error e

/-- `__getitem__` (what a trainer uses): `KeyError` when absent or inference-thread-only. -/
def Dict.getItem (d : Dict) (k : String) : Except Err Model :=
  match d.data.lookup k with
  | none => .error .keyError
  | some m => if m.infOnly then .error .keyError else .ok m

/-- `Agent.get_inference_model`: `self._inference_models[name]`. -/
def Dict.agentGet (d : Dict) (k : String) : Except Err ObjId :=
  match d.inf.lookup k with
  | none => .error .keyError
  | some o => .ok o

/-- `self._training_models[name].sync()` -/
def Dict.syncAt (d : Dict) (k : String) : Except Err (Dict × Option ObjId) :=
  match d.getItem k with
  | .error e => .error e
  | .ok m =>
    match m.sync d.nextObj with
    | .error e => .error e
    | .ok (m', o, n') => .ok ({ d with data := mapAt k (fun _ => m') d.data, nextObj := n' }, o)

/-- `Trainer.sync_models`: `for name in self._retrieved_model_names: …[name].sync()`.
Returns the `(name, object)` pairs `sync_impl` was called with. -/
def Dict.syncNames : List String → Dict → Except Err (Dict × List (String × ObjId))
  | [], d => .ok (d, [])
  | k :: rest, d =>
    match d.syncAt k with
    | .error e => .error e
    | .ok (d', o) =>
      match Dict.syncNames rest d' with
      | .error e => .error e
      | .ok (d'', log) => .ok (d'', (match o with | some o => [(k, o)] | none => []) ++ log)

/-- `TrainingModelsDict.load_state`: `for name, model in self.data.items(): model.load_state(…);
model.sync()`. `saved` = the version found in each model's file. -/
def loadAll (saved : List (String × Nat)) :
    List (String × Model) → Nat → Except Err (List (String × Model) × List (String × ObjId) × Nat)
  | [], n => .ok ([], [], n)
  | (k, m) :: rest, n =>
    match saved.lookup k with
    | none => .error .fileNotFound
    | some v =>
      match ({ m with trainVersion := v } : Model).sync n with
      | .error e => .error e
      | .ok (m', o, n') =>
        match loadAll saved rest n' with
        | .error e => .error e
        | .ok (rest', log, n'') =>
          .ok ((k, m') :: rest', (match o with | some o => [(k, o)] | none => []) ++ log, n'')

def Dict.loadState (d : Dict) (saved : List (String × Nat)) :
    Except Err (Dict × List (String × ObjId)) :=
  match loadAll saved d.data d.nextObj with
  | .error e => .error e
  | .ok (data', log, n') => .ok ({ d with data := data', nextObj := n' }, log)

/-- `save_state`: every model (also the inference-only ones) writes its training parameters. -/
def Dict.saveState (d : Dict) : List (String × Nat) := d.data.map (fun km => (km.1, km.2.trainVersion))

/-! ## Trainers -/

structure Sys where
  dict : Dict
  trainers : List (String × List String)      -- `_retrieved_model_names` of each trainer
deriving Repr

def insertName (k : String) (l : List String) : List String := if l.contains k then l else l ++ [k]

def Sys.retrieved (s : Sys) (t : String) : Except Err (List String) :=
  match s.trainers.lookup t with
  | some r => .ok r
  | none => .error .noSuchTrainer

/-- `Trainer.get_training_model(name)`: look up (may raise), then remember the name. -/
def Sys.trainerGet (s : Sys) (t k : String) : Except Err (Sys × Model) :=
  match s.retrieved t with
  | .error e => .error e
  | .ok _ =>
    match s.dict.getItem k with
    | .error e => .error e
    | .ok m => .ok ({ s with trainers := mapAt t (insertName k) s.trainers }, m)

/-- `train()` of a harness trainer: sets new parameters on models it obtained through
`get_training_model` (it has no other way to reach a model). -/
def trainModels (retrieved : List String) :
    List (String × Nat) → List (String × Model) → Except Err (List (String × Model))
  | [], data => .ok data
  | (k, v) :: rest, data =>
    if retrieved.contains k then
      trainModels retrieved rest (mapAt k (fun m => { m with trainVersion := v }) data)
    else .error .notRetrieved

/-- `Trainer.run()` (always trainable): `setup(); train(); sync_models(); teardown()`. -/
def Sys.run (s : Sys) (t : String) (bumps : List (String × Nat)) :
    Except Err (Sys × List (String × ObjId)) :=
  match s.retrieved t with
  | .error e => .error e
  | .ok names =>
    match trainModels names bumps s.dict.data with
    | .error e => .error e
    | .ok data' =>
      match Dict.syncNames names { s.dict with data := data' } with
      | .error e => .error e
      | .ok (d', log) => .ok ({ s with dict := d' }, log)

/-- `Trainer.run()` whose `train()` raises after having changed some parameters: the exception
leaves `run` before `sync_models()` (and before `teardown()`), so nothing is synchronised. -/
def Sys.runFail (s : Sys) (t : String) (bumps : List (String × Nat)) : Except Err Sys :=
  match s.retrieved t with
  | .error e => .error e
  | .ok names =>
    match trainModels names bumps s.dict.data with
    | .error e => .error e
    | .ok data' => .ok { s with dict := { s.dict with data := data' } }

/-- `training_models[k] = model` after `launch()` has wired the system (the agent holds the live
inference dictionary). -/
def Sys.setItem (s : Sys) (k : String) (m : Model) : Except Err Sys :=
  match s.dict.setItem k m with
  | .error e => .error e
  | .ok d' => .ok { s with dict := d' }

def Sys.load (s : Sys) (saved : List (String × Nat)) : Except Err (Sys × List (String × ObjId)) :=
  match s.dict.loadState saved with
  | .error e => .error e
  | .ok (d', log) => .ok ({ s with dict := d' }, log)

/-- What the inference side sees of model `k`: the object the agent holds and its parameters. -/
def Sys.agentView (s : Sys) (k : String) : Except Err (ObjId × Nat) :=
  match s.dict.agentGet k with
  | .error e => .error e
  | .ok o =>
    -- the agent holds the object; its parameters are those of the model owning that object
    match s.dict.data.find? (fun km => km.2.infObj = some o) with
    | some km => .ok (o, km.2.infVersion)
    | none => .error .noOwner

/-- `launch()`: `TrainingModelsDict(models)`; trainers start with nothing retrieved. -/
def Sys.init (models : List (String × Model)) (trainers : List String) : Except Err Sys :=
  match Dict.ctor models Dict.empty with
  | .error e => .error e
  | .ok d => .ok ⟨d, trainers.map (fun t => (t, []))⟩

end Pamiq.Models
