/-
Model of `StatesKeeper.cleanup` / `LatestStatesKeeper` in `pamiq_core/state_persistence.py`
(used by `ControlThread`: `append` after each runtime save, `cleanup` on every control tick).

The file system is an explicit value: the list of existing paths with their kind. A state
directory is one atomic path (its content goes with it). The keeper's constructor receives the
listing of the states directory (name, kind, modification time of every entry) as an input.
Every place where the Python code can raise is explicit: `ValueError` for a negative `max_keep`,
`NotADirectoryError` when `shutil.rmtree` is handed an existing path that is not a directory
(then the paths already popped from the deque stay popped — the code does not put them back).
-/
import Pamiq.Model.Util
namespace Pamiq.Keeper

inductive Err
  | value            -- ValueError
  | notADirectory    -- NotADirectoryError (shutil.rmtree on a regular file)
deriving DecidableEq, Repr

inductive Kind | dir | file
deriving DecidableEq, Repr

abbrev Path := String

/-- One entry of the states directory as the constructor sees it. -/
structure Entry where
  name : String
  kind : Kind
  mtime : Int
deriving DecidableEq, Repr

/-- Existing paths. At most one entry per path (maintained by `create`). -/
abbrev FS := List (Path × Kind)

def FS.kind? (fs : FS) (p : Path) : Option Kind :=
  match fs with
  | [] => none
  | (q, k) :: rest => if q = p then some k else FS.kind? rest p

def FS.has (fs : FS) (p : Path) : Bool := (fs.kind? p).isSome

def FS.remove (fs : FS) (p : Path) : FS := fs.filter fun e => e.1 ≠ p

/-- Someone creates `p` (no effect when it exists). -/
def FS.create (fs : FS) (p : Path) (k : Kind) : FS := if fs.has p then fs else fs ++ [(p, k)]

/-- `fnmatch`-style match of one path component: `*` any run of characters (also none, also a
leading dot — `pathlib` does not hide dot files), `?` exactly one character, anything else itself.
Character classes are not modelled (the driver refuses patterns containing `[`). -/
def globMatch : List Char → List Char → Bool
  | [], [] => true
  | [], _ :: _ => false
  | '*' :: ps, [] => globMatch ps []
  | '*' :: ps, c :: cs => globMatch ps (c :: cs) || globMatch ('*' :: ps) cs
  | '?' :: _, [] => false
  | '?' :: ps, _ :: cs => globMatch ps cs
  | _ :: _, [] => false
  | p :: ps, c :: cs => p == c && globMatch ps cs
termination_by p n => p.length + n.length

def matchesPattern (pattern name : String) : Bool := globMatch pattern.toList name.toList

/-- Stable insertion sort by modification time, oldest first (`list.sort(key=mtime)`). -/
def insertByMtime (e : Entry) : List Entry → List Entry
  | [] => [e]
  | x :: rest => if e.mtime < x.mtime then e :: x :: rest else x :: insertByMtime e rest

def sortByMtime : List Entry → List Entry
  | [] => []
  | e :: rest => insertByMtime e (sortByMtime rest)

structure Keeper where
  maxKeep : Nat
  paths : List Path        -- `_state_paths` deque, oldest first
deriving DecidableEq, Repr

def joinPath (dir name : String) : Path := dir ++ "/" ++ name

/-- What the initial scan tracks: the entries matching the pattern, oldest first. -/
def initialScan (dir pattern : String) (listing : List Entry) : List Path :=
  (sortByMtime (listing.filter fun e => matchesPattern pattern e.name)).map fun e => joinPath dir e.name

/-- `LatestStatesKeeper.__init__(states_dir, max_keep, state_name_pattern)`; `listing` = the
entries of `states_dir` (empty when it did not exist and was created). -/
def Keeper.ctor (maxKeep : Int) (dir pattern : String) (listing : List Entry) : Except Err Keeper :=
  if maxKeep < 0 then .error .value
  else .ok ⟨maxKeep.toNat, initialScan dir pattern listing⟩

/-- `append(path)`: a path that is tracked already (a state name that recurs: the earlier directory was removed or
moved away by someone and the name used again) is tracked as its newest incarnation only (`deque.remove`, then
`deque.append`). -/
def Keeper.append (k : Keeper) (p : Path) : Keeper := { k with paths := k.paths.erase p ++ [p] }

/-- The code as found (finding F15): the path is appended whether tracked or not. -/
def Keeper.appendAsFound (k : Keeper) (p : Path) : Keeper := { k with paths := k.paths ++ [p] }

/-- `select_removal_states()`: pops `len - max_keep` paths from the old end and returns them. -/
def Keeper.selectRemoval (k : Keeper) : List Path × Keeper :=
  if k.paths.length ≤ k.maxKeep then ([], k)
  else
    let n := k.paths.length - k.maxKeep
    (k.paths.take n, { k with paths := k.paths.drop n })

/-- The loop of `cleanup`: `if path.exists(): shutil.rmtree(path); removed.append(path)`.
Returns the file system, the paths removed so far and the exception that ended the loop, if any. -/
def rmLoop : List Path → FS → List Path → FS × List Path × Option Err
  | [], fs, acc => (fs, acc, none)
  | p :: rest, fs, acc =>
    match fs.kind? p with
    | none => rmLoop rest fs acc
    | some .dir => rmLoop rest (fs.remove p) (acc ++ [p])
    | some .file => (fs, acc, some .notADirectory)

structure CleanupResult where
  keeper : Keeper
  fs : FS
  removed : List Path
  err : Option Err
deriving Repr

/-- `cleanup()`. -/
def Keeper.cleanup (k : Keeper) (fs : FS) : CleanupResult :=
  let sel := k.selectRemoval
  let r := rmLoop sel.1 fs []
  ⟨sel.2, r.1, r.2.1, r.2.2⟩

/-! ## Histories -/

inductive Op
  | append (p : Path)            -- the control thread saved a state at `p` (it exists) and tells the keeper
  | appendMissing (p : Path)     -- `append` of a path that does not exist (any more)
  | cleanup
  | extRemove (p : Path)         -- somebody else removes `p`
  | extCreate (p : Path) (k : Kind)  -- somebody else creates `p`
deriving DecidableEq, Repr

structure St where
  keeper : Keeper
  fs : FS
  removedLog : List Path := []   -- every path the keeper removed, in order
deriving Repr

def St.step (s : St) : Op → St
  | .append p => { s with keeper := s.keeper.append p, fs := s.fs.create p .dir }
  | .appendMissing p => { s with keeper := s.keeper.append p }
  | .cleanup =>
    let r := s.keeper.cleanup s.fs
    { keeper := r.keeper, fs := r.fs, removedLog := s.removedLog ++ r.removed }
  | .extRemove p => { s with fs := s.fs.remove p }
  | .extCreate p k => { s with fs := s.fs.create p k }

def St.run (s : St) : List Op → St
  | [] => s
  | op :: rest => (s.step op).run rest

end Pamiq.Keeper
