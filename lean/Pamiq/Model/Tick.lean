/-
The control thread's loop body, `ControlThread.on_tick` (thread/threads/control.py:246-269) with
`process_received_web_api_commands` (194-212) and `ThreadStatusesMonitor.check_exception_raised`
(thread_control.py:344-357), as a function from what one tick *finds* (the value of the save
condition, the commands waiting in the queue, the exception flags, the outcome of the uptime test)
to the ordered list of things it *does*, and the loop `while is_running(): on_tick(); sleep`.

Order of a tick, as in the source:
  save condition → (save_state) → [states keeper cleanup] → drain the command queue (stop draining
  after SHUTDOWN) → read the exception flags (all of them) → (shutdown)
  → uptime test → (shutdown).
`shutdown()` only clears `_running`: the tick goes on to its end, the loop test then fails.
-/
import Pamiq.Model.Util
namespace Pamiq.Tick

inductive Cmd | pause | resume | shutdown | save
deriving DecidableEq, Repr

/-- What a tick does, in order. -/
inductive Ev
  | saveCond (v : Bool)          -- the save condition was evaluated
  | saveState                    -- `self.save_state()` (pause, write, resume)
  | exec (c : Cmd)               -- a command was taken off the queue and carried out
  | readExc (t : Nat) (v : Bool) -- exception flag of thread `t` read
  | shutdown                     -- `self.shutdown()`
  | uptime (v : Bool)            -- the uptime test
deriving DecidableEq, Repr

/-- What a tick finds. -/
structure In where
  saveCond : Bool
  queue : List Cmd
  exc : List Bool
  uptime : Bool
deriving Repr

/-- `process_received_web_api_commands`: carry out the waiting commands in order; `SHUTDOWN` ends the
draining (`self.shutdown(); return`). Returns the events and the commands left in the queue. -/
def drain : List Cmd → List Ev × List Cmd
  | [] => ([], [])
  | .shutdown :: rest => ([.exec .shutdown, .shutdown], rest)
  | c :: rest => let (evs, left) := drain rest; (.exec c :: evs, left)

/-- `check_exception_raised`: a loop over *all* statuses (`flag = True` for each raised one; no early
exit), so every flag is read in every tick. -/
def readFlags : Nat → List Bool → List Ev × Bool
  | _, [] => ([], false)
  | t, v :: rest => let (evs, r) := readFlags (t + 1) rest; (.readExc t v :: evs, v || r)

structure Out where
  evs : List Ev
  left : List Cmd          -- commands still queued after the tick
  stopped : Bool           -- `shutdown()` was called during the tick: the loop ends after it
deriving Repr

/-- One `on_tick`. -/
def tick (i : In) : Out :=
  let e1 := [Ev.saveCond i.saveCond] ++ (if i.saveCond then [Ev.saveState] else [])
  let (e2, left) := drain i.queue
  let (e3, raised) := readFlags 0 i.exc
  let e4 := if raised then [Ev.shutdown] else []
  let e5 := [Ev.uptime i.uptime] ++ (if i.uptime then [Ev.shutdown] else [])
  { evs := e1 ++ e2 ++ e3 ++ e4 ++ e5, left := left,
    stopped := e2.contains .shutdown || raised || i.uptime }

/-- The loop: ticks are executed while `_running`; the tick in which `shutdown()` is called is the
last one. Returns the executed ticks' outputs. -/
def loop : List In → List Out
  | [] => []
  | i :: rest => let o := tick i; if o.stopped then [o] else o :: loop rest

end Pamiq.Tick
