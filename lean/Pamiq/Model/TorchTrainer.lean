/-
Model of the optimizer / LR-scheduler state handling of `pamiq_core/torch/trainer.py`
(`TorchTrainer.setup`, `teardown`, `save_state`, `load_state`).

Names are strings (lists of characters), states are opaque payloads (`Nat`). Python dictionaries are
association lists with unique keys in insertion order. A state directory is an association list
file name ↦ payload (`torch.save(state, path / f"{name}.optim.pt")`).

  teardown   optimizer_states := {name: optimizer.state_dict()}           (likewise schedulers)
  save_state one file `<name>.optim.pt` / `<name>.lrsch.pt` per kept state
  load_state for every file matching `*.optim.pt`: name := file name without the suffix;
             optimizer_states[name] := content                            (likewise `*.lrsch.pt`)
  setup      fresh optimizers from `create_optimizers()`, then every kept state is loaded into the
             optimizer of that name (`KeyError` if there is none)

`strict = true`  takes the name by removing the suffix once, at the end (`str.removesuffix`);
`strict = false` is the code as found: `file_name.replace(".optim.pt", "")` removes *every* occurrence.
-/
import Pamiq.Model.Util
namespace Pamiq.TorchTrainer

abbrev Name := List Char
abbrev Files := List (Name × Nat)

def optimSuffix : Name := ".optim.pt".toList
def lrschSuffix : Name := ".lrsch.pt".toList

/-- `name + suffix` -/
def fileOf (suf : Name) (n : Name) : Name := n ++ suf

/-- `glob("*" + suffix)` on one file name. -/
def matchesSuffix (suf : Name) (f : Name) : Bool := suf.isSuffixOf f

/-- `str.removesuffix(suffix)` on a name known to end with it. -/
def stripSuffix (suf : Name) (f : Name) : Name := f.take (f.length - suf.length)

/-- Python `str.replace(pat, "")` (all non-overlapping occurrences, left to right); `pat` non-empty.
`skip` = characters of a matched occurrence still to be dropped. -/
def removeAllAux (pat : Name) : Nat → Name → Name
  | _, [] => []
  | skip + 1, _ :: cs => removeAllAux pat skip cs
  | 0, c :: cs =>
    if pat ≠ [] ∧ pat.isPrefixOf (c :: cs) then removeAllAux pat (pat.length - 1) cs
    else c :: removeAllAux pat 0 cs

def removeAll (pat : Name) (s : Name) : Name := removeAllAux pat 0 s

def nameOfFile (strict : Bool) (suf : Name) (f : Name) : Name :=
  if strict then stripSuffix suf f else removeAll suf f

/-- Dictionary assignment `d[k] = v` (replace in place, else append). -/
def assign (d : List (Name × Nat)) (k : Name) (v : Nat) : List (Name × Nat) :=
  if d.any (fun p => p.1 == k) then d.map (fun p => if p.1 == k then (k, v) else p) else d ++ [(k, v)]

/-- `save_state`: the files written for one kind of kept state. -/
def saveFiles (suf : Name) (states : List (Name × Nat)) : Files :=
  states.map fun p => (fileOf suf p.1, p.2)

/-- `load_state`: fold the matching files of the directory into the kept states. -/
def loadFiles (strict : Bool) (suf : Name) (files : Files) (into : List (Name × Nat)) : List (Name × Nat) :=
  (files.filter fun p => matchesSuffix suf p.1).foldl
    (fun acc p => assign acc (nameOfFile strict suf p.1) p.2) into

structure T where
  optStates : List (Name × Nat) := []
  schStates : List (Name × Nat) := []
deriving DecidableEq, Repr

def T.save (t : T) : Files := saveFiles optimSuffix t.optStates ++ saveFiles lrschSuffix t.schStates

def T.load (strict : Bool) (t : T) (files : Files) : T :=
  { optStates := loadFiles strict optimSuffix files t.optStates,
    schStates := loadFiles strict lrschSuffix files t.schStates }

inductive Err | keyError
deriving DecidableEq, Repr

/-- `setup`: every kept state must find the freshly created object of its name. -/
def T.setupOk (t : T) (optNames schNames : List Name) : Bool :=
  t.optStates.all (fun p => optNames.contains p.1) && t.schStates.all (fun p => schNames.contains p.1)

def T.setup (t : T) (optNames schNames : List Name) : Except Err Unit :=
  if t.setupOk optNames schNames then .ok () else .error .keyError

end Pamiq.TorchTrainer
