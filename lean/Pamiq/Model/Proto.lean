/-
The shared thread-protocol model `Proto` (DESIGN.md §7.0): the pause / resume / shutdown / save
handshake between the control thread and any number of background threads, as implemented by

  thread/thread_control.py   ThreadController (resume/shutdown events, resume lock),
                             ControllerCommandHandler.stop_if_pause / manage_loop,
                             ThreadStatus (paused / exception flags), ThreadStatusesMonitor
  thread/threads/base.py     Thread.run skeleton, BackgroundThread.on_paused / on_resumed
  thread/threads/inference.py, training.py   hooks-then-flag order
  thread/threads/control.py  try_pause / resume / shutdown / save_state / on_tick
  launcher.py                spawn (an interrupt may cut the start-up short), shutdown, join of
                             the threads that are alive, final save

It is a labelled transition system `step : St → Act → Option St`. Every action is one primitive
operation of one thread (one `threading.Event` / lock operation, one boundary of a user callback,
one API-level call or return of the control thread): the label set is exactly the event vocabulary
the deterministic harness records from the real code, so an implementation trace can be replayed
through `step` (trace refinement, `run`). Nondeterminism = which action comes next: scheduling,
time-outs, faults (`bCbRaise`), commands, save condition, interrupts (`cExc`).

The model is written for the repaired protocol (hooks before the paused flag; leaving a pause under
the resume lock; clock released on shutdown).
-/
import Pamiq.Model.Util
namespace Pamiq.Proto

inductive CbKind | setup | step | pausedHook | resumedHook | teardown
deriving DecidableEq, Repr

/-- Program counter of a background thread (`Thread.run` + `stop_if_pause`). -/
inductive BPc
  | new         -- not started
  | start       -- on_start (setup callbacks); then the loop guard
  | top         -- loop guard: `if not paused and is_pause()`
  | hooksP      -- on_paused: user hooks, then the paused flag
  | waitEnter   -- about to call wait_for_resume(1.0)
  | blocked     -- inside the wait
  | afterWait   -- the wait returned True
  | leave       -- holds the resume lock, about to test the resume event (call_if_resume)
  | clearing    -- resume confirmed under the lock: about to clear the paused flag
  | hooksR      -- on_resumed user hooks (still under the lock)
  | leaveBack   -- paused again: release the lock and go back to waiting
  | chk         -- about to read the shutdown event (is_active)
  | tick        -- on_tick (step / training callbacks); then the loop delay
  | excHeld     -- a resume hook raised: the lock is released while unwinding
  | exc         -- on_exception: about to set the exception flag
  | fin         -- on_finally (teardown callbacks)
  | dying       -- a teardown callback raised
  | done
deriving DecidableEq, Repr

structure BThread where
  pc : BPc := .new
  pausedFlag : Bool := false
  excFlag : Bool := false
  localPaused : Bool := false     -- the local `paused` of stop_if_pause
  notified : Bool := false        -- notified by resume_event.set() while blocked
  holds : Bool := false           -- holds the resume lock
  inCb : Option CbKind := none    -- a user callback of this kind is executing
  tdBegun : Nat := 0              -- teardown callbacks begun
  stepsDone : Nat := 0            -- step callbacks finished
  raised : Bool := false          -- ghost: a callback raised outside on_finally
  wSpawned : Bool := false        -- pause attempt in progress: worker spawned for this thread
  wRes : Option Bool := none      -- … and its result
  joined : Bool := false          -- ghost: launch()'s epilogue has dealt with this thread (found it not alive, or joined it)
deriving DecidableEq, Repr

inductive Cont | cmd | save
deriving DecidableEq, Repr

/-- Program counter of the control thread. -/
inductive CPc
  | boot
  | idle
  | tpLock | tpClear | tpUnlock | tpSpawn | tpAck | tpRetry
  | tpDone (v : Bool)
  | rsClock | rsSet | rsDone
  | sdClock | sdSet | sdShut | sdDone
  | svCall | svBegin | svIn | svAfter | svRet
  | finalIn | returned
deriving DecidableEq, Repr

structure Ctl where
  pc : CPc := .boot
  attempt : Nat := 0
  maxAttempts : Nat := 3
  cont : Cont := .cmd
  rsCont : Cont := .cmd
  already : Bool := false
  paused : Bool := false          -- ghost: a pause has been acknowledged and neither resume nor shutdown issued since
  stopped : Bool := false         -- `_running = False`
  mustStop : Bool := false        -- saw an exception flag / an exception unwinds the control loop (sticky)
  cause : Bool := false           -- ghost: a SHUTDOWN command was dequeued or the uptime limit was reached
  faultSeen : Bool := false       -- ghost: an exception flag of a background thread was read set
  ctlFault : Bool := false        -- ghost: an exception / interrupt unwound the control loop
  holds : Bool := false           -- holds the resume lock
  inCb : Bool := false            -- a save callback is executing in the control thread
  saves : Nat := 0
deriving DecidableEq, Repr

structure St where
  resume : Bool := true
  shutdown : Bool := false
  clockPaused : Bool := false
  thr : List BThread := []
  ctl : Ctl := {}
deriving DecidableEq, Repr

inductive Act
  -- background thread `t`
  | bCbBegin (t : Nat) (k : CbKind) | bCbEnd (t : Nat) (k : CbKind) | bCbRaise (t : Nat) (k : CbKind)
  | bReadResume (t : Nat) (v : Bool)
  | bSetPaused (t : Nat)
  | bWaitImm (t : Nat) | bWaitBlock (t : Nat) | bWaitWoken (t : Nat) | bWaitTimeout (t : Nat)
  | bAcquire (t : Nat) | bLeaveRead (t : Nat) (v : Bool) | bClearPaused (t : Nat) | bRelease (t : Nat)
  | bReadShutdown (t : Nat) (v : Bool)
  | bLoopSleep (t : Nat)
  | bSetExc (t : Nat)
  | bExit (t : Nat)
  -- control thread
  | cSpawn (t : Nat) | cRun
  | cTryPause | cTryPauseRet (v : Bool)
  | cAcquire | cClearResume | cRelease
  | cSpawnWorker (t : Nat) | wRet (t : Nat) (r : Bool) | cWorkersJoined
  | cClockPause | cClockResume | cSetResume | cSetShutdown
  | cResume | cResumeRet
  | cShutdown | cShutdownRet
  | cSave | cSaveBegin | cSaveCbBegin | cSaveCbEnd | cSaveEnd | cSaveRet
  | cReadExc (t : Nat) (v : Bool)
  | cCmdShutdown               -- the drain loop dequeued SHUTDOWN
  | cUptime                    -- the uptime test `now - start > max_uptime` came out true
  | cExc                       -- an exception / interrupt unwinds the control loop
  | cIsAlive (t : Nat) (v : Bool)   -- launch()'s epilogue: `thread.is_alive()`
  | cJoin (t : Nat)
  | cFinalSaveBegin | cFinalSaveEnd | cReturn
deriving DecidableEq, Repr

def init (n : Nat) (maxAttempts : Nat) : St :=
  { thr := List.replicate n {}, ctl := { maxAttempts := maxAttempts } }

/-- Which callback kinds may run at which program counter. -/
def cbAllowed : BPc → CbKind → Bool
  | .start, .setup => true
  | .hooksP, .pausedHook => true
  | .hooksR, .resumedHook => true
  | .tick, .step => true
  | .fin, .teardown => true
  | _, _ => false

/-- Update thread `t`. -/
def St.setThr (s : St) (t : Nat) (th : BThread) : St := { s with thr := s.thr.set t th }

/-- One step of background thread `t` (its record is `th`), `none` when the action is not enabled. -/
def bstep (s : St) (t : Nat) (th : BThread) : Act → Option St
  | .bCbBegin _ k =>
    if th.inCb = none ∧ cbAllowed th.pc k = true then
      some (s.setThr t { th with inCb := some k,
                                 tdBegun := if k = .teardown then th.tdBegun + 1 else th.tdBegun })
    else none
  | .bCbEnd _ k =>
    if th.inCb = some k then
      some (s.setThr t { th with inCb := none,
                                 stepsDone := if k = .step then th.stepsDone + 1 else th.stepsDone })
    else none
  | .bCbRaise _ k =>
    if th.inCb = some k then
      some (s.setThr t { th with inCb := none,
                                 raised := if th.pc = .fin then th.raised else true,
                                 pc := if th.pc = .fin then .dying
                                       else if th.pc = .hooksR then .excHeld else .exc })
    else none
  | .bReadResume _ v =>
    if (th.pc = .start ∨ th.pc = .top) ∧ th.inCb = none ∧ th.localPaused = false ∧ v = s.resume then
      some (s.setThr t { th with pc := if v then .waitEnter else .hooksP })
    else none
  | .bSetPaused _ =>
    if th.pc = .hooksP ∧ th.inCb = none then
      some (s.setThr t { th with pausedFlag := true, localPaused := true, pc := .waitEnter })
    else none
  | .bWaitImm _ =>
    if (th.pc = .waitEnter ∨ (th.pc = .top ∧ th.localPaused = true)) ∧ s.resume = true then
      some (s.setThr t { th with pc := .afterWait })
    else none
  | .bWaitBlock _ =>
    if (th.pc = .waitEnter ∨ (th.pc = .top ∧ th.localPaused = true)) ∧ s.resume = false then
      some (s.setThr t { th with pc := .blocked, notified := false })
    else none
  | .bWaitWoken _ =>
    if th.pc = .blocked ∧ th.notified = true then
      some (s.setThr t { th with pc := .afterWait, notified := false })
    else none
  | .bWaitTimeout _ =>
    if th.pc = .blocked ∧ th.notified = false then
      some (s.setThr t { th with pc := .top })
    else none
  | .bAcquire _ =>
    if th.pc = .afterWait ∧ th.localPaused = true ∧ s.ctl.holds = false
        ∧ s.thr.all (fun x => !x.holds) = true then
      some (s.setThr t { th with pc := .leave, holds := true })
    else none
  | .bLeaveRead _ v =>
    if th.pc = .leave ∧ v = s.resume then
      some (s.setThr t { th with pc := if v then .clearing else .leaveBack })
    else none
  | .bClearPaused _ =>
    if th.pc = .clearing then
      some (s.setThr t { th with pausedFlag := false, localPaused := false, pc := .hooksR })
    else none
  | .bRelease _ =>
    if th.pc = .hooksR ∧ th.inCb = none then some (s.setThr t { th with pc := .chk, holds := false })
    else if th.pc = .leaveBack then some (s.setThr t { th with pc := .top, holds := false })
    else if th.pc = .excHeld then some (s.setThr t { th with pc := .exc, holds := false })
    else none
  | .bReadShutdown _ v =>
    if (th.pc = .chk ∨ (th.pc = .afterWait ∧ th.localPaused = false)) ∧ v = s.shutdown then
      some (s.setThr t { th with pc := if v then .fin else .tick })
    else none
  | .bLoopSleep _ =>
    if th.pc = .tick ∧ th.inCb = none then some (s.setThr t { th with pc := .top }) else none
  | .bSetExc _ =>
    if th.pc = .exc then some (s.setThr t { th with excFlag := true, pc := .fin }) else none
  | .bExit _ =>
    if (th.pc = .fin ∧ th.inCb = none) ∨ th.pc = .dying then
      some (s.setThr t { th with pc := .done })
    else none
  | _ => none

def resetWorkers (thr : List BThread) : List BThread :=
  thr.map fun th => { th with wSpawned := false, wRes := none }

def notifyAll (thr : List BThread) : List BThread :=
  thr.map fun th => { th with notified := if th.pc = .blocked then true else th.notified }

def afterTryPause (c : Ctl) (v : Bool) : CPc :=
  match c.cont with
  | .cmd => .idle
  | .save => if v then .svBegin else .svRet

/-- One step of the control thread (and of the pool workers of a pause attempt). -/
def cstep (s : St) : Act → Option St
  | .cSpawn t =>
    match s.thr[t]? with
    | some th => if s.ctl.pc = .boot ∧ th.pc = .new then some (s.setThr t { th with pc := .start }) else none
    | none => none
  | .cRun => if s.ctl.pc = .boot then some { s with ctl := { s.ctl with pc := .idle } } else none
  | .cTryPause =>
    if (s.ctl.pc = .idle ∨ s.ctl.pc = .svCall) ∧ s.ctl.stopped = false ∧ s.ctl.mustStop = false then
      let cont := if s.ctl.pc = .idle then Cont.cmd else Cont.save
      if s.resume = false then some { s with ctl := { s.ctl with pc := .tpDone true, cont := cont } }
      else if s.ctl.maxAttempts = 0 then
        some { s with ctl := { s.ctl with pc := .tpDone false, cont := cont } }
      else some { s with ctl := { s.ctl with pc := .tpLock, cont := cont, attempt := 0 } }
    else none
  | .cAcquire =>
    if s.ctl.pc = .tpLock ∧ s.ctl.holds = false ∧ s.thr.all (fun x => !x.holds) = true then
      some { s with ctl := { s.ctl with pc := .tpClear, holds := true } }
    else none
  | .cClearResume =>
    if s.ctl.pc = .tpClear then some { s with resume := false, ctl := { s.ctl with pc := .tpUnlock } }
    else none
  | .cRelease =>
    if s.ctl.pc = .tpUnlock then
      some { s with thr := resetWorkers s.thr, ctl := { s.ctl with pc := .tpSpawn, holds := false } }
    else if s.ctl.holds = true ∧ s.ctl.pc = .idle then
      some { s with ctl := { s.ctl with holds := false } }   -- lock dropped while an exception unwinds
    else none
  | .cSpawnWorker t =>
    match s.thr[t]? with
    | some th =>
      if s.ctl.pc = .tpSpawn ∧ th.wSpawned = false then some (s.setThr t { th with wSpawned := true })
      else none
    | none => none
  | .wRet t r =>
    match s.thr[t]? with
    | some th =>
      if th.wSpawned = true ∧ th.wRes = none ∧ (r = true → th.pausedFlag = true) then
        some (s.setThr t { th with wRes := some r })
      else none
    | none => none
  | .cWorkersJoined =>
    if s.ctl.pc = .tpSpawn ∧ s.thr.all (fun x => x.wRes.isSome) = true then
      if s.thr.all (fun x => x.wRes == some true) = true then
        some { s with ctl := { s.ctl with pc := .tpAck } }
      else some { s with ctl := { s.ctl with pc := .tpRetry } }
    else none
  | .cClockPause =>
    if s.ctl.pc = .tpAck then
      some { s with clockPaused := true, ctl := { s.ctl with pc := .tpDone true, paused := true } }
    else none
  | .cSetResume =>
    if s.ctl.pc = .tpRetry then
      some { s with resume := true, thr := notifyAll s.thr,
                    ctl := { s.ctl with attempt := s.ctl.attempt + 1,
                                        pc := if s.ctl.attempt + 1 < s.ctl.maxAttempts then .tpLock
                                              else .tpDone false } }
    else if s.ctl.pc = .rsSet then
      some { s with resume := true, thr := notifyAll s.thr, ctl := { s.ctl with pc := .rsDone } }
    else if s.ctl.pc = .sdSet then
      some { s with resume := true, thr := notifyAll s.thr, ctl := { s.ctl with pc := .sdShut } }
    else none
  | .cTryPauseRet v =>
    if s.ctl.pc = .tpDone v then some { s with ctl := { s.ctl with pc := afterTryPause s.ctl v } }
    else none
  | .cResume =>
    if (s.ctl.pc = .idle ∨ s.ctl.pc = .svAfter) ∧ s.ctl.stopped = false ∧ s.ctl.mustStop = false then
      some { s with ctl := { s.ctl with pc := .rsClock, paused := false,
                                        rsCont := if s.ctl.pc = .idle then .cmd else .save } }
    else none
  | .cClockResume =>
    if s.ctl.pc = .rsClock then some { s with clockPaused := false, ctl := { s.ctl with pc := .rsSet } }
    else if s.ctl.pc = .sdClock then
      some { s with clockPaused := false,
                    ctl := { s.ctl with pc := if s.shutdown then .sdDone else .sdSet } }
    else none
  | .cResumeRet =>
    if s.ctl.pc = .rsDone then
      some { s with ctl := { s.ctl with pc := match s.ctl.rsCont with | .cmd => .idle | .save => .svRet } }
    else none
  | .cShutdown =>
    -- `shutdown()` is called for a cause only: a SHUTDOWN command, the uptime limit, a fault seen
    -- or unwinding, or (again, harmlessly) from `on_finally` once the loop has been stopped
    if s.ctl.pc = .idle ∧ (s.ctl.cause = true ∨ s.ctl.mustStop = true ∨ s.ctl.stopped = true) then
      some { s with ctl := { s.ctl with pc := .sdClock, paused := false } }
    else none
  | .cCmdShutdown =>
    if s.ctl.pc = .idle ∧ s.ctl.stopped = false then some { s with ctl := { s.ctl with cause := true } }
    else none
  | .cUptime =>
    if s.ctl.pc = .idle then some { s with ctl := { s.ctl with cause := true } } else none
  | .cSetShutdown =>
    if s.ctl.pc = .sdShut then some { s with shutdown := true, ctl := { s.ctl with pc := .sdDone } }
    else none
  | .cShutdownRet =>
    if s.ctl.pc = .sdDone then
      some { s with ctl := { s.ctl with pc := .idle, stopped := true } }
    else none
  | .cSave =>
    if s.ctl.pc = .idle ∧ s.ctl.stopped = false ∧ s.ctl.mustStop = false then
      some { s with ctl := { s.ctl with pc := .svCall, already := !s.resume } }
    else none
  | .cSaveBegin =>
    if s.ctl.pc = .svBegin then some { s with ctl := { s.ctl with pc := .svIn } } else none
  | .cSaveCbBegin =>
    if (s.ctl.pc = .svIn ∨ s.ctl.pc = .finalIn) ∧ s.ctl.inCb = false then
      some { s with ctl := { s.ctl with inCb := true } }
    else none
  | .cSaveCbEnd =>
    if (s.ctl.pc = .svIn ∨ s.ctl.pc = .finalIn) ∧ s.ctl.inCb = true then
      some { s with ctl := { s.ctl with inCb := false } }
    else none
  | .cSaveEnd =>
    if s.ctl.pc = .svIn ∧ s.ctl.inCb = false then
      some { s with ctl := { s.ctl with pc := if s.ctl.already then .svRet else .svAfter,
                                        saves := s.ctl.saves + 1 } }
    else none
  | .cSaveRet =>
    if s.ctl.pc = .svRet then some { s with ctl := { s.ctl with pc := .idle } } else none
  | .cReadExc t v =>
    match s.thr[t]? with
    | some th =>
      if s.ctl.pc = .idle ∧ v = th.excFlag then
        some { s with ctl := { s.ctl with mustStop := s.ctl.mustStop || v,
                                          faultSeen := s.ctl.faultSeen || v } }
      else none
    | none => none
  | .cExc =>
    -- an exception or interrupt leaves whatever the control thread was doing - the control loop
    -- (`on_finally` follows) or, at `boot`, the start-up section of `launch()` with some, all or
    -- none of the background threads started (its `finally` follows): no thread is started afterwards
    if s.ctl.pc ≠ .returned ∧ s.ctl.pc ≠ .finalIn ∧ s.ctl.stopped = false then
      some { s with ctl := { s.ctl with pc := .idle, mustStop := true, ctlFault := true, inCb := false } }
    else none
  | .cIsAlive t v =>
    -- `Thread.is_alive()`: true from `start()` until the thread's `run` has ended
    match s.thr[t]? with
    | some th =>
      if s.ctl.pc = .idle ∧ s.ctl.stopped = true ∧ v = (th.pc != .new && th.pc != .done) then
        some (if v then s else s.setThr t { th with joined := true })
      else none
    | none => none
  | .cJoin t =>
    -- `Thread.join()` returns once the thread's `run` has ended
    match s.thr[t]? with
    | some th =>
      if s.ctl.pc = .idle ∧ s.ctl.stopped = true ∧ th.pc = .done then
        some (s.setThr t { th with joined := true })
      else none
    | none => none
  | .cFinalSaveBegin =>
    -- only after the epilogue has dealt with every thread
    if s.ctl.pc = .idle ∧ s.ctl.stopped = true ∧ s.thr.all (fun x => x.joined) = true then
      some { s with ctl := { s.ctl with pc := .finalIn } }
    else none
  | .cFinalSaveEnd =>
    if s.ctl.pc = .finalIn ∧ s.ctl.inCb = false then
      some { s with ctl := { s.ctl with pc := .returned, saves := s.ctl.saves + 1 } }
    else none
  | .cReturn => if s.ctl.pc = .returned then some s else none
  | _ => none

def Act.thread : Act → Option Nat
  | .bCbBegin t _ | .bCbEnd t _ | .bCbRaise t _ | .bReadResume t _ | .bSetPaused t | .bWaitImm t
  | .bWaitBlock t | .bWaitWoken t | .bWaitTimeout t | .bAcquire t | .bLeaveRead t _
  | .bClearPaused t | .bRelease t | .bReadShutdown t _ | .bLoopSleep t | .bSetExc t | .bExit t => some t
  | _ => none

def step (s : St) (a : Act) : Option St :=
  match a.thread with
  | some t =>
    match s.thr[t]? with
    | some th => bstep s t th a
    | none => none
  | none => cstep s a

/-- Replay a trace; `none` as soon as an action is not enabled. -/
def run (s : St) : List Act → Option St
  | [] => some s
  | a :: rest => match step s a with
    | some s' => run s' rest
    | none => none

/-- A user callback of a kind the pause contract speaks about is executing. -/
def BThread.executing (th : BThread) : Bool :=
  match th.inCb with
  | some .step | some .pausedHook | some .resumedHook => true
  | _ => false

end Pamiq.Proto
