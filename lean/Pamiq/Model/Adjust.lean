/-
Model of `pamiq_core/interaction/interval_adjustors.py` (`IntervalAdjustor`,
`SleepIntervalAdjustor`) and of `FixedIntervalInteraction` (`interaction/interactions.py`) on a
timeline in *system time* (`pamiq_core.time.perf_counter()` / `sleep()`).

The timeline `Tl` is the clock as the adjustor sees it: the current system time, the time scale
and whether the clock is paused. Real time enters only through `wait dt` ("`dt` real seconds
pass"): system time then advances by `dt·scale`, or not at all while paused (C06). Everything the
environment does — step durations, loop overhead, pauses, scale changes, the real clock advancing
between two reads inside `adjust`, a late return of the real sleep, control events while the
adjustor sleeps — is an explicit input.

None of the modelled Python statements can raise (the only library call with a precondition,
`sleep(secs)`, is made with `secs > 0`), so the functions are total.
-/
import Pamiq.Model.Util
namespace Pamiq.Adjust

/-- The pausable, scaled clock seen through `pamiq_core.time`. -/
structure Tl where
  sys : Rat          -- value of `time.perf_counter()` now
  scale : Rat
  paused : Bool
deriving DecidableEq, Repr

/-- `dt` real seconds pass. -/
def Tl.elapse (t : Tl) (dt : Rat) : Tl :=
  if t.paused then t else { t with sys := t.sys + dt * t.scale }

/-- What the control side can do to the clock. -/
inductive Ctl
  | pause
  | resume
  | setScale (k : Rat)
deriving DecidableEq, Repr

/-- `time.pause()`, `time.resume()`, `time.set_time_scale(k)` (a non-positive scale is refused by
an assertion in the caller and leaves the clock as it is). All three are continuous (C06). -/
def Tl.ctl (t : Tl) : Ctl → Tl
  | .pause => { t with paused := true }
  | .resume => { t with paused := false }
  | .setScale k => if 0 < k then { t with scale := k } else t

/-- `time.load_state_dict(...)`: the system clock continues from a saved value - possibly an *earlier* one than it
shows now (a checkpoint older than the end of the previous run, loaded in the same process). -/
def Tl.load (t : Tl) (v : Rat) : Tl := { t with sys := v }

/-- One thing that happens in the environment. -/
inductive Ev
  | wait (dt : Rat)
  | ctl (c : Ctl)
deriving DecidableEq, Repr

def Tl.ev (t : Tl) : Ev → Tl
  | .wait dt => t.elapse dt
  | .ctl c => t.ctl c

def Tl.evs (t : Tl) : List Ev → Tl
  | [] => t
  | e :: rest => (t.ev e).evs rest

/-- Real seconds contained in an event list. -/
def waits : List Ev → Rat
  | [] => 0
  | .wait dt :: rest => dt + waits rest
  | .ctl _ :: rest => waits rest

/-- `time.sleep(secs)`: returns at once while paused; otherwise hands `secs/scale` (scale read at
the call) to the real sleep. While the caller is inside the real sleep the events `mid` happen
(their waits are part of the sleep), the rest of the duration elapses after them, and the real sleep
returns `over ≥ 0` late. -/
def Tl.sleep (t : Tl) (secs : Rat) (mid : List Ev) (over : Rat) : Tl :=
  if t.paused then t
  else (((t.evs mid).elapse (secs / t.scale - waits mid)).elapse over)

/-- Real duration handed to the stdlib sleep (`none`: no real sleep). -/
def Tl.sleepReal (t : Tl) (secs : Rat) : Option Rat :=
  if t.paused then none else some (secs / t.scale)

/-! ### `IntervalAdjustor` / `SleepIntervalAdjustor` -/

structure Adj where
  interval : Rat
  offset : Rat
  timeToWait : Rat          -- `_time_to_wait = interval - offset`
  last : Option Rat         -- `_last_reset_time`; `none` = `-inf`
deriving DecidableEq, Repr

def Adj.new (interval offset : Rat) : Adj := ⟨interval, offset, interval - offset, none⟩

/-- `reset()`: one clock reading. -/
def Adj.reset (a : Adj) (t : Tl) : Adj × Rat := ({ a with last := some t.sys }, t.sys)

/-- What the environment does while `adjust()` executes. -/
structure AdjEnv where
  a1 : Rat := 0             -- real time between the reading in `adjust_impl` and what follows it
  mid : List Ev := []       -- events while the adjustor is inside the real sleep
  over : Rat := 0           -- late return of the real sleep
  a2 : Rat := 0             -- real time between the `delta_time` reading and the `reset` reading
deriving DecidableEq, Repr

structure AdjOut where
  adj : Adj
  tl : Tl
  delta : Option Rat        -- return value; `none` = `+inf` (first call without a reset)
  slept : Option Rat        -- argument of `time.sleep`, `none` when it was not called
  real : Option Rat         -- real duration handed to the stdlib sleep, `none` when there was none
deriving DecidableEq, Repr

/-- `adjust()` = `adjust_impl()` (one reading, maybe a sleep); `delta = perf_counter() - last`
(second reading); `reset()` (third reading). -/
def Adj.adjust (a : Adj) (t : Tl) (env : AdjEnv) : AdjOut :=
  match a.last with
  | none =>
    -- `-inf + w - now > 0` is false: no sleep; `now - (-inf)` = `+inf`
    let t1 := t.elapse env.a1
    let t2 := t1.elapse env.a2
    ⟨{ a with last := some t2.sys }, t2, none, none, none⟩
  | some l =>
    let remaining := l + a.timeToWait - t.sys
    let t1 := t.elapse env.a1
    if 0 < remaining then
      let t2 := t1.sleep remaining env.mid env.over
      let t3 := t2.elapse env.a2
      ⟨{ a with last := some t3.sys }, t3, some (t2.sys - l), some remaining, t1.sleepReal remaining⟩
    else
      let t3 := t1.elapse env.a2
      ⟨{ a with last := some t3.sys }, t3, some (t1.sys - l), none, none⟩

/-! ### `FixedIntervalInteraction` -/

/-- Callbacks in the order `setup()` makes them, then the adjustor is reset. -/
def setupCalls : List String := ["agent.setup", "environment.setup", "adjustor.reset"]

/-- Callbacks in the order `step()` makes them. -/
def stepCalls : List String :=
  ["environment.observe", "agent.step", "environment.affect", "adjustor.adjust"]

/-- `setup()`: `evs` = what happens during the agent's and environment's `setup`. -/
def setup (a : Adj) (t : Tl) (evs : List Ev) : Adj × Tl :=
  let t1 := t.evs evs
  ((a.reset t1).1, t1)

/-- Environment of one loop iteration. -/
structure StepEnv where
  gap : List Ev := []       -- between the end of the previous `step()`/`setup()` and this step
  body : List Ev := []      -- during observe / step / affect, up to the reading in `adjust_impl`
  adj : AdjEnv := {}
deriving DecidableEq, Repr

/-- What one iteration shows. -/
structure Rec where
  start : Rat               -- system time at which the step started
  work : Rat                -- system time at the reading in `adjust_impl`
  fin : Rat                 -- system time of the `reset` reading that ends the step
  slept : Option Rat
  real : Option Rat
deriving DecidableEq, Repr

def stepOnce (a : Adj) (t : Tl) (se : StepEnv) : Adj × Tl × Rec :=
  let t0 := t.evs se.gap
  let t1 := t0.evs se.body
  let o := a.adjust t1 se.adj
  (o.adj, o.tl, ⟨t0.sys, t1.sys, o.tl.sys, o.slept, o.real⟩)

def runSteps (a : Adj) (t : Tl) : List StepEnv → List Rec
  | [] => []
  | se :: rest =>
    let r := stepOnce a t se
    r.2.2 :: runSteps r.1 r.2.1 rest

end Pamiq.Adjust
