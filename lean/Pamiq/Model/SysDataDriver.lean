/- Line protocol for the SysData model (protocol × component values):
   `sysdata reset n mx qcap|none steps obs act [runs] [delivered]`, `sysdata act <proto action>`,
   `sysdata agentStep|envObserve|envAffect|update|clockTick`, `sysdata trainRun i`,
   `sysdata write agent|env|data|time`, `sysdata write trainer i`, `sysdata snap|obs|ack`. -/
import Pamiq.Model.SysData
import Pamiq.Model.ProtoDriver
namespace Pamiq.SysData
open Pamiq Pamiq.Proto

structure DSt where
  s : St := {}
  d : D := {}

def showOptNat : Option Nat → String
  | some n => toString n
  | none => "-"

def showSnap (sn : Snap) : String :=
  s!"agent={showOptNat sn.agentSteps} env=" ++
  (match sn.env with | some (a, b) => s!"{a},{b}" | none => "-") ++
  " data=" ++ (match sn.data with | some l => showList toString l | none => "-") ++
  " runs=" ++ showList (fun (p : Nat × Nat) => s!"{p.1}:{p.2}") sn.trainRuns ++
  s!" clock={showOptNat sn.clock}"

def showObs (o : Obs) : String :=
  s!"agent={o.agentSteps} env={o.envObs},{o.envAct} data={showList toString o.data} " ++
  s!"runs={showList toString o.trainRuns} clock={o.clock}"

/-- Executable form of `cut_stable` / `snapshot_is_cut`, evaluated on every visited state. -/
def cutOk (s : St) (d : D) : Bool :=
  (!s.ctl.paused || d.v.obs == d.ack)

def parseDAct (toks : List String) : Option DAct :=
  match toks with
  | "act" :: rest => (parseAct rest).map DAct.p
  | ["agentStep"] => some .agentStep
  | ["envObserve"] => some .envObserve
  | ["envAffect"] => some .envAffect
  | ["trainRun", i] => i.toNat?.map DAct.trainRun
  | ["update"] => some .update
  | ["clockTick"] => some .clockTick
  | ["write", "agent"] => some (.write .agent)
  | ["write", "env"] => some (.write .env)
  | ["write", "data"] => some (.write .data)
  | ["write", "time"] => some (.write .time)
  | ["write", "trainer", i] => i.toNat?.map fun i => DAct.write (.trainer i)
  | _ => none

def drive (st : DSt) (toks : List String) : DSt × String :=
  match toks with
  | ["reset", n, m, q, a, o, f, runs, deliv] =>
    match n.toNat?, m.toNat?, a.toNat?, o.toNat?, f.toNat?, parseList String.toNat? runs,
          parseList String.toNat? deliv with
    | some n, some m, some a, some o, some f, some runs, some deliv =>
      let qcap : Option (Option Nat) := if q = "none" then some none else q.toNat?.map some
      match qcap with
      | some qcap =>
        let v0 : Vals := { agentSteps := a, envObs := o, envAct := f, trainRuns := runs, delivered := deliv }
        let (s, d) := dinit n m qcap v0
        ({ s := s, d := d }, "ok")
      | none => (st, "bad-op")
    | _, _, _, _, _, _, _ => (st, "bad-op")
  | ["snap"] => (st, showSnap st.d.snap)
  | ["obs"] => (st, showObs st.d.v.obs)
  | ["ack"] => (st, showObs st.d.ack)
  | ["state"] => (st, showState st.s)
  | _ =>
    match parseDAct toks with
    | some a =>
      match dstep st.s st.d a with
      | some (s', d') => ({ s := s', d := d' }, if cutOk s' d' then "ok" else "ok-but-cut-moved")
      | none =>
        -- harmless extra reads of a shared event (value = the model's) are stutters, as in `proto`
        match a with
        | .p (.bReadResume _ v) | .p (.bLeaveRead _ v) =>
          if v = st.s.resume then (st, "ok") else (st, "disabled " ++ showState st.s)
        | .p (.bReadShutdown _ v) => if v = st.s.shutdown then (st, "ok") else (st, "disabled " ++ showState st.s)
        | _ => (st, "disabled " ++ showState st.s)
    | none => (st, "bad-op")

end Pamiq.SysData
