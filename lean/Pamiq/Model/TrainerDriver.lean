/- Line protocol for the Trainer model (see `Driver.lean`). Import-free.

    trainer reset                                          -> ok
    trainer user <name> cap=<n> q=<n|none>                 -> ok | err dup
    trainer add <name> cond=<user|none> min_size=<i> min_new=<i> prev=<q|-inf>   -> ok | err dup
    trainer collect <user> <d> t=<q>                       -> ok | err KeyError
    trainer tick now=<q>        -> offered=<name|none> ran=<0|1> calls=[..] reads=<k> | err KeyError
    trainer update <user>                                  -> ok | err KeyError
    trainer len <user>                                     -> <n>
    trainer count <user> since=<q|-inf>                    -> <n>
    trainer data <user>         (`get_data()`: update, then the buffer)  -> [..]
    trainer prev <name>                                    -> <q|-inf>
-/
import Pamiq.Model.Trainer
namespace Pamiq.Trainer
open Pamiq

structure DSt where
  th : Th := { trainers := [], users := [] }

def parseExt (s : String) : Option (Option Rat) :=
  if s = "-inf" then some none else (parseRat s).map some

def showExt (o : Option Rat) : String :=
  match o with
  | none => "-inf"
  | some q => showRat q

def parseQ (s : String) : Option (Option Nat) :=
  if s = "none" then some none else s.toNat?.map some

def parseCond (s : String) : Option String := if s = "none" then none else some s

def drive (d : DSt) (toks : List String) : DSt × String :=
  match toks with
  | ["reset"] => ({}, "ok")
  | "user" :: name :: rest =>
    match (kv rest "cap").bind String.toNat?, (kv rest "q").bind parseQ with
    | some cap, some q =>
      if (d.th.users.get name).isSome then (d, "err dup")
      else ({ th := { d.th with users := d.th.users ++ [(name, { cap := cap, qsize := q })] } }, "ok")
    | _, _ => (d, "bad-op")
  | ["reattach"] => ({ th := d.th.reattach }, "ok")
  | "add" :: name :: rest =>
    match kv rest "cond", (kv rest "min_size").bind String.toInt?,
          (kv rest "min_new").bind String.toInt?, (kv rest "prev").bind parseExt with
    | some c, some ms, some mn, some p =>
      if d.th.trainers.any (·.name = name) then (d, "err dup")
      else ({ th := { d.th with trainers := d.th.trainers ++ [⟨name, parseCond c, ms, mn, p⟩] } }, "ok")
    | _, _, _, _ => (d, "bad-op")
  | ["collect", user, x, t] =>
    match x.toNat?, (kv [t] "t").bind parseRat with
    | some x, some t =>
      match d.th.collect user x t with
      | .ok th => ({ th := th }, "ok")
      | .error _ => (d, "err KeyError")
    | _, _ => (d, "bad-op")
  | ["tick", now] =>
    match (kv [now] "now").bind parseRat with
    | some now =>
      match d.th.tick now with
      | .ok o =>
        ({ th := o.th },
         s!"offered={o.offered.getD "none"} ran={showBool o.ran} calls={showList id o.calls} reads={o.reads}")
      | .error .keyError => (d, "err KeyError")
      | .error .indexError => (d, "err IndexError")
    | none => (d, "bad-op")
  | ["update", user] =>
    match d.th.users.get user with
    | some u => ({ th := { d.th with users := d.th.users.put user u.update } }, "ok")
    | none => (d, "err KeyError")
  | ["len", user] =>
    match d.th.users.get user with
    | some u => (d, toString u.len)
    | none => (d, "err KeyError")
  | ["count", user, since] =>
    match d.th.users.get user, (kv [since] "since").bind parseExt with
    | some u, some p => (d, toString (countSince u.ts p))
    | none, some _ => (d, "err KeyError")
    | _, none => (d, "bad-op")
  | ["data", user] =>
    match d.th.users.get user with
    | some u =>
      let u' := u.update
      ({ th := { d.th with users := d.th.users.put user u' } }, showList toString u'.buf)
    | none => (d, "err KeyError")
  | ["prev", name] =>
    match d.th.trainers.find? (·.name = name) with
    | some t => (d, showExt t.prev)
    | none => (d, "err KeyError")
  | _ => (d, "bad-op")

end Pamiq.Trainer
