/-
Model of the web-API command path (`console/web_api.py` `_add_command` / `has_commands` /
`receive_command`, drained by `ControlThread.process_received_web_api_commands`) and of the status
decision table (`console/system_status.py`).
-/
import Pamiq.Model.Util
namespace Pamiq.WebQ

inductive Cmd | shutdown | pause | resume | save
deriving DecidableEq, Repr

structure Q where
  cap : Nat                 -- `Queue(maxsize=cap)`; `cap = 0` means unbounded (queue.Queue semantics)
  q : List Cmd := []
  accepted : List Cmd := []   -- ghost: commands answered 200, in order
  executed : List Cmd := []   -- ghost: commands dispatched by the control loop, in order
  stopped : Bool := false     -- the control loop has executed SHUTDOWN
deriving DecidableEq, Repr

/-- `POST /api/<cmd>`: `put_nowait`, 503 when full. Returns the HTTP status. -/
def post (w : Q) (c : Cmd) : Q × Nat :=
  if w.cap > 0 ∧ w.q.length ≥ w.cap then (w, 503)
  else ({ w with q := w.q ++ [c], accepted := w.accepted ++ [c] }, 200)

/-- One iteration of the drain loop `while has_commands(): match receive_command()`:
nothing once SHUTDOWN has been executed (the loop returns and the thread stops running). -/
def drainOne (w : Q) : Q :=
  if w.stopped then w
  else match w.q with
    | [] => w
    | c :: rest => { w with q := rest, executed := w.executed ++ [c], stopped := decide (c = .shutdown) }

/-- Requests that are not one of the five routes (404 / 405) do not touch the queue. -/
def invalid (w : Q) : Q := w

inductive Op | post (c : Cmd) | drain | invalid
deriving DecidableEq, Repr

def apply (w : Q) : Op → Q
  | .post c => (post w c).1
  | .drain => drainOne w
  | .invalid => invalid w

def runOps (w : Q) (ops : List Op) : Q := ops.foldl apply w

/-! ### Status decision table -/

inductive Status | active | pausing | paused | resuming | shuttingDown
deriving DecidableEq, Repr

/-- `SystemStatusProvider.get_current_status` applied to one instant: controller events and the
paused flags of any number of threads. -/
def statusOf (shutdown resume : Bool) (flags : List Bool) : Status :=
  if shutdown then .shuttingDown
  else if !resume then (if flags.all id then .paused else .pausing)
  else if flags.any id then .resuming
  else .active

/-- A global instant as far as the status is concerned. -/
structure Snap where
  shutdown : Bool
  resume : Bool
  flags : List Bool
deriving DecidableEq, Repr

def Snap.status (s : Snap) : Status := statusOf s.shutdown s.resume s.flags

/-- The real reader is not atomic: it reads the shutdown event, the resume event (`is_pause`), the
resume event again (`is_resume`, only on that branch) and then the flags one by one, each possibly
at a later instant. `r0 r1 r2` are the instants of the three controller reads and `fl` gives, per
thread, the instant at which its flag is read. -/
def readerStatus (r0 r1 r2 : Snap) (fl : List Snap) : Status :=
  let flags := (List.range fl.length).map fun i => ((fl[i]?).bind fun s => s.flags[i]?).getD false
  if r0.shutdown then .shuttingDown
  else if !r1.resume then (if flags.all id then .paused else .pausing)
  else if r2.resume then (if flags.any id then .resuming else .active)
  else .active

end Pamiq.WebQ
