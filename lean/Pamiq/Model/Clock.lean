/-
Model of `pamiq_core/time.py` (`TimeController`).

One controller owns three *channels* (time / perf_counter / monotonic). Each channel is
`⟨anchor, sAnchor⟩`: the real-clock reading taken when the rate last changed and the system-clock
value at that instant. All three share `scale` and `paused`.

Every operation receives, as explicit inputs and in source order, the real-clock readings the
Python code makes while executing it (`R3` = one reading of each stdlib clock), so "real time
advances between two reads inside one operation" is expressible.

`exportReanchors = true`  is `state_dict` as repaired (re-anchors both sides);
`exportReanchors = false` is the variant that only rewrites the scaled anchors (finding F4).
-/
import Pamiq.Model.Util
namespace Pamiq.Clock

inductive Src | time | perf | mono
deriving DecidableEq, Repr

structure Chan where
  anchor : Rat
  sAnchor : Rat
deriving DecidableEq, Repr

/-- One reading of each of the three stdlib clocks. -/
structure R3 where
  t : Rat
  p : Rat
  m : Rat
deriving DecidableEq, Repr

def R3.get (r : R3) : Src → Rat
  | .time => r.t | .perf => r.p | .mono => r.m

structure Ctl where
  t : Chan
  p : Chan
  m : Chan
  scale : Rat
  paused : Bool
deriving DecidableEq, Repr

def Ctl.chan (c : Ctl) : Src → Chan
  | .time => c.t | .perf => c.p | .mono => c.m

/-- `TimeController.__init__`: six readings, scale 1, running. -/
def init (r1 r2 : R3) : Ctl :=
  { t := ⟨r1.t, r2.t⟩, p := ⟨r1.p, r2.p⟩, m := ⟨r1.m, r2.m⟩, scale := 1, paused := false }

/-- System-clock value of one channel when the real clock reads `r`. -/
def Chan.value (ch : Chan) (scale : Rat) (paused : Bool) (r : Rat) : Rat :=
  if paused then ch.sAnchor else ch.sAnchor + (r - ch.anchor) * scale

/-- `time()`, `perf_counter()`, `monotonic()` (pure: the state is not changed). -/
def Ctl.read (c : Ctl) (s : Src) (r : Rat) : Rat := (c.chan s).value c.scale c.paused r

/-- `_update_anchor_values` -/
def updAnchors (c : Ctl) (r : R3) : Ctl :=
  { c with t := { c.t with anchor := r.t }, p := { c.p with anchor := r.p },
           m := { c.m with anchor := r.m } }

/-- `_update_scaled_anchor_values` (calls `time()`, `perf_counter()`, `monotonic()`). -/
def updScaled (c : Ctl) (r : R3) : Ctl :=
  { c with t := { c.t with sAnchor := c.read .time r.t },
           p := { c.p with sAnchor := c.read .perf r.p },
           m := { c.m with sAnchor := c.read .mono r.m } }

inductive Err | assertion
deriving DecidableEq, Repr

/-- `set_time_scale(s)`: `assert s > 0`, re-anchor scaled side then real side, store scale. -/
def setScale (c : Ctl) (s : Rat) (r1 r2 : R3) : Except Err Ctl :=
  if 0 < s then .ok { updAnchors (updScaled c r1) r2 with scale := s } else .error .assertion

def pause (c : Ctl) (r : R3) : Ctl :=
  if c.paused then c else { updScaled c r with paused := true }

def resume (c : Ctl) (r : R3) : Ctl :=
  if c.paused then updAnchors { c with paused := false } r else c

structure Saved where
  t : Rat
  p : Rat
  m : Rat
deriving DecidableEq, Repr

def Ctl.saved (c : Ctl) : Saved := ⟨c.t.sAnchor, c.p.sAnchor, c.m.sAnchor⟩

/-- `state_dict()`. -/
def stateDict (exportReanchors : Bool) (c : Ctl) (r1 r2 : R3) : Ctl × Saved :=
  let c1 := updScaled c r1
  let c2 := if exportReanchors then updAnchors c1 r2 else c1
  (c2, c2.saved)

/-- `load_state_dict(d)`. -/
def loadStateDict (c : Ctl) (d : Saved) (r : R3) : Ctl :=
  updAnchors { c with t := { c.t with sAnchor := d.t }, p := { c.p with sAnchor := d.p },
                      m := { c.m with sAnchor := d.m } } r

/-- `sleep(secs)`: real duration handed to the stdlib `sleep`, `none` when it returns at once. -/
def sleepReal (c : Ctl) (secs : Rat) : Option Rat :=
  if c.paused then none else some (secs / c.scale)

/-! ### Single-instant operations (every reading inside the operation is the same instant).
The refinement theorems are stated over these; the multi-reading versions above are what the
driver executes and what `slip` theorems talk about. -/

inductive Op
  | read (s : Src)
  | setScale (k : Rat)
  | pause
  | resume
  | exportSt
  | load (d : Saved)
deriving DecidableEq, Repr

/-- Apply one operation observed at the single instant `r` (all three stdlib clocks are driven by
the same real time but may have different origins: `r` gives each one's reading). -/
def applyOp (c : Ctl) (op : Op) (r : R3) : Ctl :=
  match op with
  | .read _ => c
  | .setScale k => match setScale c k r r with | .ok c' => c' | .error _ => c
  | .pause => pause c r
  | .resume => resume c r
  | .exportSt => (stateDict true c r r).1
  | .load d => loadStateDict c d r

end Pamiq.Clock
