/-
Model of the training side's scheduling: `TrainingThread.on_tick` (`thread/threads/training.py`),
`Trainer.is_trainable` / `Trainer.run` (`trainer/base.py`), `TrainersDict` (`trainer/container.py`,
an ordered mapping) and the `DataUser` / `DataCollector` pair of `data/interface.py` with a
`SequentialBuffer`.

Samples are natural numbers. Every reading of the system clock (`pamiq_core.time.time()`) is an
explicit input: the timestamp taken by `collect`, and the reading `is_trainable` takes when (and
only when) its decision is positive. `-inf` (the initial `_previous_training_time`) is `none`.
-/
import Pamiq.Model.Util
namespace Pamiq.Trainer
open Pamiq

inductive Err
  | keyError        -- `training_condition_data_user` names no data user
  | indexError      -- cursor outside the trainer list (unreachable; kept explicit)
deriving DecidableEq, Repr

/-- What a `deque(maxlen=q)` keeps; `none` = unbounded. -/
def bound {α} (q : Option Nat) (l : List α) : List α :=
  match q with
  | none => l
  | some n => lastN n l

/-! ### `DataUser` with its `DataCollector` and a `SequentialBuffer` -/

structure DataUser where
  cap : Nat                   -- `SequentialBuffer.max_size`
  qsize : Option Nat          -- `max_queue_size`: bound of the collector queue and of `_timestamps`
  buf : List Nat := []        -- buffer content, oldest first
  ts : List Rat := []         -- `_timestamps`, oldest first
  pend : List (Nat × Rat) := []   -- collector queue (sample, timestamp), oldest first
deriving DecidableEq, Repr

/-- `DataCollector.collect(d)`: append to both bounded deques; `t` = the clock reading. -/
def DataUser.collect (u : DataUser) (d : Nat) (t : Rat) : DataUser :=
  { u with pend := bound u.qsize (u.pend ++ [(d, t)]) }

/-- One iteration of the loop in `DataUser.update`: `buffer.add(d)`, `timestamps.append(t)`. -/
def DataUser.add1 (u : DataUser) (x : Nat × Rat) : DataUser :=
  { u with buf := lastN u.cap (u.buf ++ [x.1]), ts := bound u.qsize (u.ts ++ [x.2]) }

/-- `DataUser.update()`: take the whole collector queue, add its elements oldest first. -/
def DataUser.update (u : DataUser) : DataUser :=
  u.pend.foldl DataUser.add1 { u with pend := [] }

/-- `len(data_user)` -/
def DataUser.len (u : DataUser) : Nat := u.buf.length

/-- `count_data_added_since(p)`: walk the timestamps newest first, stop at the first one `≤ p`.
`p = none` is `-inf` (no finite timestamp is `≤ -inf`). -/
def countSince (ts : List Rat) (p : Option Rat) : Nat :=
  match p with
  | none => ts.length
  | some p => (ts.reverse.takeWhile (fun t => decide (p < t))).length

/-! ### `Trainer` -/

structure Tr where
  name : String
  cond : Option String        -- `training_condition_data_user`
  minSize : Int               -- `min_buffer_size`
  minNew : Int                -- `min_new_data_count`
  prev : Option Rat := none   -- `_previous_training_time`
deriving DecidableEq, Repr

abbrev Users := List (String × DataUser)

def Users.get (us : Users) (k : String) : Option DataUser := (us.find? (·.1 = k)).map (·.2)

def Users.put (us : Users) (k : String) (u : DataUser) : Users :=
  us.map (fun p => if p.1 = k then (k, u) else p)

structure Decision where
  tr : Tr
  users : Users
  trainable : Bool
  reads : Nat                 -- clock readings consumed (0 or 1)
deriving DecidableEq, Repr

/-- `is_trainable()`. `now` is read only when the decision is positive. -/
def Tr.isTrainable (t : Tr) (us : Users) (now : Rat) : Except Err Decision :=
  match t.cond with
  | none => .ok ⟨t, us, true, 0⟩
  | some k =>
    match us.get k with
    | none => .error .keyError
    | some u =>
      let u' := u.update
      let us' := us.put k u'
      let trainable := decide ((u'.len : Int) ≥ t.minSize) &&
        decide ((countSince u'.ts t.prev : Int) ≥ t.minNew)
      if trainable then .ok ⟨{ t with prev := some now }, us', true, 1⟩
      else .ok ⟨t, us', false, 0⟩

/-- The calls `run()` makes on a positive decision, in order. -/
def runCalls : List String := ["setup", "train", "sync_models", "teardown"]

/-! ### `TrainingThread` -/

structure Th where
  trainers : List Tr          -- `TrainersDict` in mapping order
  users : Users
  cursor : Nat := 0           -- `_current_trainer_index`
deriving DecidableEq, Repr

structure TickOut where
  th : Th
  offered : Option String     -- the trainer whose `run()` was called
  ran : Bool
  calls : List String         -- what that `run()` executed
  reads : Nat
deriving DecidableEq, Repr

/-- `on_tick()`. An exception from `run()` propagates before the cursor is advanced. -/
def Th.tick (th : Th) (now : Rat) : Except Err TickOut :=
  if th.trainers.length = 0 then .ok ⟨th, none, false, [], 0⟩
  else
    match th.trainers[th.cursor]? with
    | none => .error .indexError
    | some tr =>
      match tr.isTrainable th.users now with
      | .error e => .error e
      | .ok d =>
        .ok ⟨{ trainers := th.trainers.set th.cursor d.tr, users := d.users,
               cursor := (th.cursor + 1) % th.trainers.length },
             some tr.name, d.trainable, if d.trainable then runCalls else [], d.reads⟩

/-- `TrainersDict.attach_data_users(fresh)`: the same trainer objects are wired to a new set of data users
(a second session in one process): every decision from now on looks at the new buffers; cursor and
markers are the trainers' own and stay. -/
def Th.reattach (th : Th) : Th :=
  { th with users := th.users.map (fun p => (p.1, { cap := p.2.cap, qsize := p.2.qsize })) }

/-- A sample arrives for data user `k` (inference side), stamped `t`. Unknown `k`: `KeyError`. -/
def Th.collect (th : Th) (k : String) (d : Nat) (t : Rat) : Except Err Th :=
  match th.users.get k with
  | none => .error .keyError
  | some u => .ok { th with users := th.users.put k (u.collect d t) }

/-! ### Histories -/

inductive Op
  | collect (k : String) (d : Nat) (t : Rat)
  | tick (now : Rat)
deriving DecidableEq, Repr

/-- Run a history; the outputs of its ticks in order. Stops at the first error. -/
def Th.run (th : Th) : List Op → Except Err (Th × List TickOut)
  | [] => .ok (th, [])
  | .collect k d t :: rest =>
    match th.collect k d t with
    | .error e => .error e
    | .ok th' => th'.run rest
  | .tick now :: rest =>
    match th.tick now with
    | .error e => .error e
    | .ok o =>
      match o.th.run rest with
      | .error e => .error e
      | .ok (th', outs) => .ok (th', o :: outs)

end Pamiq.Trainer
