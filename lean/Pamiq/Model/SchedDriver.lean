/- Line protocol for the Sched model (see `Driver.lean`). Import-free.

    sched variant 1|0                       1 = decide once (repaired), 0 = double read (F7)
    sched new_time <interval> cbs=[..] r=[r0]     -> ok reads=1 | err ValueError reads=0
    sched is_available r=[r]                -> 0|1
    sched update r=[r1,..]                  -> ran=[..] reads=k
    sched register <c>                      -> ok          (acts on the time scheduler)
    sched remove <c>                        -> ok | err ValueError
    sched new_step <n> cbs=[..]             -> ok | err ValueError
    sched step_available                    -> 0|1
    sched step_update                       -> ran=[..]
    sched step_register <c> / step_remove <c>
    sched new_psc <interval> r=[r0]         -> ok reads=1 | err ValueError reads=0
    sched psc_call r=[r1,..]                -> out=0|1 reads=k

The implementation's clock readings are passed in `r=[..]`; the reply carries the number of
readings the model consumed, so a different number of reads is a visible difference. A reading the
model needs but the implementation did not make is taken to be the last one supplied. -/
import Pamiq.Model.Sched
namespace Pamiq.Sched
open Pamiq

structure DSt where
  variant : Bool := true
  t : TSched := ⟨0, 0, []⟩
  s : SSched := ⟨1, 0, []⟩
  p : Psc := ⟨⟨0, 0, [0]⟩, false⟩

def showNats (l : List Nat) : String := showList toString l

def parseNat (s : String) : Option Nat := s.toNat?

/-- k-th reading (0-based); falls back to the last supplied reading. `none` when no reading. -/
def nthRead (rs : List Rat) (k : Nat) : Option Rat :=
  match rs[k]? with
  | some r => some r
  | none => rs.getLast?

def reads3 (rs : List Rat) : Option (Rat × Rat × Rat) := do
  pure (← nthRead rs 0, ← nthRead rs 1, ← nthRead rs 2)

def parseReads (toks : List String) : Option (List Rat) :=
  match kv toks "r" with
  | some v => parseList parseRat v
  | none => none

def parseCbs (toks : List String) : Option (List Nat) :=
  match kv toks "cbs" with
  | some v => parseList parseNat v
  | none => some []

def drive (d : DSt) (toks : List String) : DSt × String :=
  match toks with
  | ["variant", v] =>
    match parseBool v with
    | some b => ({ d with variant := b }, "ok")
    | none => (d, "bad-op")
  | "new_time" :: iv :: rest =>
    match parseRat iv, parseCbs rest, parseReads rest with
    | some iv, some cbs, some rs =>
      -- the guard comes before the clock read: a rejected constructor needs no reading
      match rs with
      | [] =>
        match TSched.new iv cbs 0 with
        | .error _ => (d, "err ValueError reads=0")
        | .ok _ => (d, "bad-op")
      | r0 :: _ =>
        match TSched.new iv cbs r0 with
        | .ok t => ({ d with t := t }, "ok reads=1")
        | .error _ => (d, "err ValueError reads=0")
    | _, _, _ => (d, "bad-op")
  | "is_available" :: rest =>
    match parseReads rest with
    | some [r] => (d, showBool (d.t.due r))
    | _ => (d, "bad-op")
  | "update_f" :: f :: rest =>
    -- update with a raising callback: `update_f <pos>|none r=[r1,r2]`
    let failAt : Option (Option Nat) := if f = "none" then some none else f.toNat?.map some
    match failAt, (parseReads rest).bind reads3 with
    | some fa, some (r1, r2, _) =>
      let u := d.t.updateF r1 r2 fa
      ({ d with t := u.st }, s!"ran={showNats u.ran} raised={showBool u.raised} reads={u.reads}")
    | _, _ => (d, "bad-op")
  | ["step_update_f", f] =>
    let failAt : Option (Option Nat) := if f = "none" then some none else f.toNat?.map some
    match failAt with
    | some fa =>
      let u := d.s.updateF fa
      ({ d with s := u.st }, s!"ran={showNats u.ran} raised={showBool u.raised}")
    | none => (d, "bad-op")
  | "update" :: rest =>
    match (parseReads rest).bind reads3 with
    | some (r1, r2, r3) =>
      let u := d.t.update d.variant r1 r2 r3
      ({ d with t := u.st }, s!"ran={showNats u.ran} reads={u.reads}")
    | none => (d, "bad-op")
  | ["register", c] =>
    match parseNat c with
    | some c => ({ d with t := { d.t with cbs := register d.t.cbs c } }, "ok")
    | none => (d, "bad-op")
  | ["remove", c] =>
    match parseNat c with
    | some c =>
      match remove d.t.cbs c with
      | .ok cbs => ({ d with t := { d.t with cbs := cbs } }, "ok")
      | .error _ => (d, "err ValueError")
    | none => (d, "bad-op")
  | "new_step" :: n :: rest =>
    match n.toInt?, parseCbs rest with
    | some n, some cbs =>
      match SSched.new n cbs with
      | .ok s => ({ d with s := s }, "ok")
      | .error _ => (d, "err ValueError")
    | _, _ => (d, "bad-op")
  | ["step_available"] => (d, showBool d.s.due)
  | ["step_update"] =>
    let u := d.s.update
    ({ d with s := u.st }, s!"ran={showNats u.ran}")
  | ["step_register", c] =>
    match parseNat c with
    | some c => ({ d with s := { d.s with cbs := register d.s.cbs c } }, "ok")
    | none => (d, "bad-op")
  | ["step_remove", c] =>
    match parseNat c with
    | some c =>
      match remove d.s.cbs c with
      | .ok cbs => ({ d with s := { d.s with cbs := cbs } }, "ok")
      | .error _ => (d, "err ValueError")
    | none => (d, "bad-op")
  | "new_psc" :: iv :: rest =>
    match parseRat iv, parseReads rest with
    | some iv, some rs =>
      match rs with
      | [] =>
        match Psc.new iv 0 with
        | .error _ => (d, "err ValueError reads=0")
        | .ok _ => (d, "bad-op")
      | r0 :: _ =>
        match Psc.new iv r0 with
        | .ok p => ({ d with p := p }, "ok reads=1")
        | .error _ => (d, "err ValueError reads=0")
    | _, _ => (d, "bad-op")
  | "psc_call" :: rest =>
    match (parseReads rest).bind reads3 with
    | some (r1, r2, r3) =>
      let u := d.p.call d.variant r1 r2 r3
      ({ d with p := u.st }, s!"out={showBool u.out} reads={u.reads}")
    | none => (d, "bad-op")
  | _ => (d, "bad-op")

end Pamiq.Sched
