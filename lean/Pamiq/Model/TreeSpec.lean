/-
Specification vocabulary for C12 (import-free, executable): what the property statements of
`Props/C12.lean` compare the model of `Model/Tree.lean` with. These definitions walk the tree
*top-down with accumulators* (path from the root), whereas the model follows the code bottom-up.
-/
import Pamiq.Model.Tree
namespace Pamiq.Tree

/-- Which events apply to which kind of part. -/
def applies : Event → Kind → Bool
  | _, .agent => true
  | e, .component => e.lifecycle
  | _, .lambda => false

/-- The components an event issued at the root must reach, in the fixed pre-order. -/
def leavesFor (e : Event) (i : Interaction) : List LeafId :=
  (i.kinds.filter (fun x => applies e x.2)).map Prod.fst

/-- Apply the wrappers `ws`, first to last. -/
def Val.tags (ws : List Nat) (v : Val) : Val := ws.foldl (fun acc w => acc.tag w) v

/-- The sub-value under a path of dictionary keys. -/
def Val.getPath : List String → Val → Option Val
  | [], v => some v
  | k :: ks, v => match v.getItem k with
    | .ok x => Val.getPath ks x
    | .error _ => none

/-- A leaf of the data path: who, under which dictionary keys (from the root), and which wrappers
lie between it and the root, in the order in which they must be applied. -/
structure Route where
  id : Nat
  keys : List String
  wrappers : List Nat
deriving DecidableEq, Repr

mutual
/-- Decompose a value into its atoms: producer, key path, trail. -/
def Val.atoms (keys : List String) : Val → List Route
  | .atom s t => [⟨s, keys, t⟩]
  | .dict kvs => Val.atomsL keys kvs
def Val.atomsL (keys : List String) : List (String × Val) → List Route
  | [] => []
  | (k, v) :: rest => v.atoms (keys ++ [k]) ++ Val.atomsL keys rest
end

mutual
/-- Leaf sensors with the wrappers on their path, innermost first (`outer` = wrappers above). -/
def Sensor.sources (keys : List String) (outer : List Nat) : Sensor → List Route
  | .leaf id => [⟨id, keys, outer⟩]
  | .dict cs => Sensor.sourcesL keys outer cs
  | .wrap s w => s.sources keys (w.id :: outer)
def Sensor.sourcesL (keys : List String) (outer : List Nat) : List (String × Sensor) → List Route
  | [] => []
  | (k, s) :: rest => s.sources (keys ++ [k]) outer ++ Sensor.sourcesL keys outer rest
end

def Env.sources (outer : List Nat) : Env → List Route
  | .leaf id => [⟨id, [], outer⟩]
  | .modular s _ => s.sources [] outer
  | .wrap e o _ => e.sources (o.id :: outer)

mutual
/-- Leaf actuators with the wrappers on their path, outermost first. -/
def Actuator.sinks (keys : List String) (outer : List Nat) : Actuator → List Route
  | .leaf id => [⟨id, keys, outer⟩]
  | .dict cs => Actuator.sinksL keys outer cs
  | .wrap a w => a.sinks keys (outer ++ [w.id])
def Actuator.sinksL (keys : List String) (outer : List Nat) : List (String × Actuator) → List Route
  | [] => []
  | (k, a) :: rest => a.sinks (keys ++ [k]) outer ++ Actuator.sinksL keys outer rest
end

def Env.sinks (outer : List Nat) : Env → List Route
  | .leaf id => [⟨id, [], outer⟩]
  | .modular _ a => a.sinks [] outer
  | .wrap e _ a => e.sinks (outer ++ [a.id])

/-- What each sink must receive from the action `v`: the sub-value under its keys, transformed by
exactly the wrappers on its path, in order. `none` when the action lacks a sub-value. -/
def deliverSpec (v : Val) : List Route → Option (List (LeafId × Val))
  | [] => some []
  | r :: rs =>
    match v.getPath r.keys, deliverSpec v rs with
    | some x, some rest => some ((r.id, x.tags r.wrappers) :: rest)
    | _, _ => none

end Pamiq.Tree
