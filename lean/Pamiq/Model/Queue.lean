/-
Model of the sample path from the inference side to the training side:
`pamiq_core/data/interface.py` (`TimestampingQueue`, `DataCollector`, `DataUser`) and the exclusive
acquisition in `pamiq_core/data/container.py` (`DataCollectorsDict.acquire`).

Sequential semantics: every method is one atomic operation (that this is all an interleaving can
do is `LockObj.lock_atomic`, instantiated in `Props/C07.lean`). Samples are `Nat` identifiers, the
clock reading taken inside `TimestampingQueue.append` is an explicit input of `collect`. The
buffer behind the `DataUser` is a recording one: `adds` is the log of its `add()` calls.
-/
import Pamiq.Model.Util
namespace Pamiq.Queue
open Pamiq

inductive Err | index | key | value
deriving DecidableEq, Repr

/-- `deque(maxlen=m).append(x)`: `None` = unbounded; a full deque drops its oldest element;
`maxlen = 0` keeps nothing. -/
def dqAppend {α} (maxLen : Option Nat) (l : List α) (x : α) : List α :=
  match maxLen with
  | none => l ++ [x]
  | some m => lastN m (l ++ [x])

/-- `TimestampingQueue` -/
structure TQ where
  queue : List Nat := []
  ts : List Rat := []
  maxLen : Option Nat
deriving DecidableEq, Repr

/-- `append(data)`: `self._queue.append(data); self._timestamps.append(time.time())` -/
def TQ.append (q : TQ) (x : Nat) (t : Rat) : TQ :=
  { q with queue := dqAppend q.maxLen q.queue x, ts := dqAppend q.maxLen q.ts t }

/-- `__len__`: `len(self._timestamps)` -/
def TQ.len (q : TQ) : Nat := q.ts.length

/-- `popleft()`: `IndexError` when either deque is empty. -/
def TQ.popleft (q : TQ) : Except Err ((Nat × Rat) × TQ) :=
  match q.queue, q.ts with
  | x :: qs, t :: tss => .ok ((x, t), { q with queue := qs, ts := tss })
  | _, _ => .error .index

/-- `DataCollector` (its lock is the subject of `LockObj`) -/
structure Collector where
  q : TQ
deriving DecidableEq, Repr

/-- `collect(data)` — `t` is the clock reading taken inside `append`. -/
def Collector.collect (c : Collector) (x : Nat) (t : Rat) : Collector := { q := c.q.append x t }

/-- `_move_data()`: hand the whole queue over, install a fresh one of the same bound. -/
def Collector.moveData (c : Collector) : TQ × Collector := (c.q, { q := { maxLen := c.q.maxLen } })

/-- `DataUser` with a recording buffer. -/
structure User where
  collector : Collector
  /-- `self._timestamps = deque(maxlen=buffer.max_queue_size)` -/
  timestamps : List Rat := []
  maxLen : Option Nat
  /-- every `buffer.add(x)` so far, in call order -/
  adds : List Nat := []
deriving DecidableEq, Repr

/-- `DataUser(buffer)`; `DataBuffer.__init__` rejects a negative `max_queue_size`. -/
def User.init (maxLen : Option Int) : Except Err User :=
  match maxLen with
  | none => .ok { collector := { q := { maxLen := none } }, maxLen := none }
  | some m =>
    if m < 0 then .error .value
    else .ok { collector := { q := { maxLen := some m.toNat } }, maxLen := some m.toNat }

/-- The loop of `update`: `for _ in range(len(queue)): data, t = queue.popleft();
buffer.add(data); self._timestamps.append(t)`. -/
def drain : Nat → TQ → User → Except Err User
  | 0, _, u => .ok u
  | n + 1, q, u => do
    let ((x, t), q') ← q.popleft
    drain n q' { u with adds := u.adds ++ [x], timestamps := dqAppend u.maxLen u.timestamps t }

/-- `update()` -/
def User.update (u : User) : Except Err User :=
  let (q, c) := u.collector.moveData
  drain q.len q { u with collector := c }

/-- `update()` in which the buffer's `add` raises at the `k`-th sample of this hand-over (counting from 0):
the samples before it have been added and time-stamped one by one, the failing sample and the rest of the
batch are gone with the local queue (the collector was already swapped). `k` beyond the batch: a normal
update. The flag tells whether the exception was raised. -/
def User.updateF (u : User) (k : Nat) : Except Err (User × Bool) :=
  let (q, c) := u.collector.moveData
  if k < q.len then (drain k q { u with collector := c }).map (fun u' => (u', true))
  else (drain q.len q { u with collector := c }).map (fun u' => (u', false))

/-- `get_data()`: update, then the buffer's content (the recording buffer keeps every add). -/
def User.getData (u : User) : Except Err (User × List Nat) := do
  let u' ← u.update
  pure (u', u'.adds)

/-- The loop of `count_data_added_since` over `reversed(self._timestamps)`, `i` = index reached. -/
def countFrom (t : Rat) : List Rat → Nat → Nat
  | [], i => i
  | x :: rest, i => if x ≤ t then i else countFrom t rest (i + 1)

/-- `count_data_added_since(timestamp)` -/
def User.countSince (u : User) (t : Rat) : Nat := countFrom t u.timestamps.reverse 0

/-- `save_state(path)`: update first; what is pickled is the timestamp deque. -/
def User.saveState (u : User) : Except Err (User × List Rat) := do
  let u' ← u.update
  pure (u', u'.timestamps)

/-- `load_state(path)`: the buffer loads its own content (not an `add`), the timestamp deque is replaced by the pickled one
(re-bounded to this user's queue size); the collector - and whatever waits in it - is not touched. -/
def User.loadState (u : User) (ts : List Rat) : User :=
  { u with timestamps := ts.foldl (dqAppend u.maxLen) [] }

/-- `__len__`: `len(self._buffer)` -/
def User.len (u : User) : Nat := u.adds.length

/-- `DataUsersDict`'s collector side: `collect` reaches the user's own collector. -/
def User.collect (u : User) (x : Nat) (t : Rat) : User :=
  { u with collector := u.collector.collect x t }

/-! ### Operation histories -/

inductive Op
  | collect (x : Nat) (t : Rat)
  | update
  | getData
  | count (t : Rat)
  | save
  | len
deriving DecidableEq, Repr

/-- Does the operation hand the queue over (`update` inside)? -/
def Op.flushes : Op → Bool
  | .update | .getData | .save => true
  | _ => false

def User.apply (u : User) : Op → Except Err User
  | .collect x t => .ok (u.collect x t)
  | .update => u.update
  | .getData => do let (u', _) ← u.getData; pure u'
  | .count _ => .ok u
  | .save => do let (u', _) ← u.saveState; pure u'
  | .len => .ok u

def User.run (u : User) : List Op → Except Err User
  | [] => .ok u
  | op :: rest => do
    let u' ← u.apply op
    u'.run rest

/-! ### Specification vocabulary (used by the theorems; not executed by the driver) -/

/-- What a bounded queue retains of a sequence: everything (`none`) or its last `k` elements. -/
def keep {α} (m : Option Nat) (l : List α) : List α :=
  match m with
  | none => l
  | some k => lastN k l

/-- Inter-update windows of a history: `(closed, open)` — the collected `(sample, clock reading)`
pairs between consecutive hand-overs (`update` / `get_data` / `save_state`), and those collected
since the last one. -/
def winStep (w : List (List (Nat × Rat)) × List (Nat × Rat)) : Op → List (List (Nat × Rat)) × List (Nat × Rat)
  | .collect x t => (w.1, w.2 ++ [(x, t)])
  | op => if op.flushes then (w.1 ++ [w.2], []) else w

def windows (h : List Op) : List (List (Nat × Rat)) × List (Nat × Rat) := h.foldl winStep ([], [])

/-- Everything collected, in collection order. -/
def collected : List Op → List (Nat × Rat)
  | [] => []
  | .collect x t :: rest => (x, t) :: collected rest
  | _ :: rest => collected rest

/-- What the specification says has been delivered: of every closed window, all but its oldest
`length − maxLen` elements. -/
def deliveredSpec (m : Option Nat) (h : List Op) : List (Nat × Rat) :=
  ((windows h).1.map (keep m)).flatten

/-! ### `DataCollectorsDict.acquire` -/

structure Dict where
  names : List String
  acquired : List String := []
deriving DecidableEq, Repr

/-- `acquire(name)`: `KeyError` if already acquired or unknown. -/
def Dict.acquire (d : Dict) (name : String) : Except Err Dict :=
  if name ∈ d.acquired then .error .key
  else if name ∉ d.names then .error .key
  else .ok { d with acquired := name :: d.acquired }

end Pamiq.Queue
