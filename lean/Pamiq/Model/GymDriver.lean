/- Line protocol for the Gym model (see `Driver.lean`). Import-free.

  gym reset flags=[10,00,01,11] rr=[0,1] rs=[0,0,1]   start a case: per env.step "<terminated><truncated>",
                                                    per on_reset / on_step occurrence "does it set need_reset"
  gym setup                                         Interaction.setup()            -> ok
  gym step                                          Interaction.step()             -> ok | err AttributeError
  gym run <n>                                       setup() then n times step()    -> ok (or the first reply that is not ok)
  gym user_request                                  agent.need_reset = True (set by user code outside the callbacks) -> ok
  gym obs                                           environment.observe()          -> none | reset:R0 | step:S2:0:0 | both:S2:1:0:R1
  gym need_reset                                    agent.need_reset               -> 0 | 1
  gym log                                           the call log so far            -> [envReset:0,onReset:0:R0,ret:a=R0:0,envStep:0:a=R0:0:0,...]

A `step` for which one of the three scripts has no entry left answers `bad-op` (the scripts are
inputs; they are never extended by a default).
-/
import Pamiq.Model.Gym
namespace Pamiq.Gym
open Pamiq

structure DSt where
  flags : List (Bool × Bool) := []
  rr : List Bool := []
  rs : List Bool := []
  st : St := {}

def parseFlag (s : String) : Option (Bool × Bool) :=
  match s.toList with
  | [a, b] => do pure (← parseBool (String.singleton a), ← parseBool (String.singleton b))
  | _ => none

def showAct : Act → String
  | .ofReset o => s!"a=R{o}"
  | .ofStep o => s!"a=S{o}"

def showEv : Ev → String
  | .envReset j => s!"envReset:{j}"
  | .envStep k a t u => s!"envStep:{k}:{showAct a}:{showBool t}:{showBool u}"
  | .onReset o j => s!"onReset:{o}:R{j}"
  | .onStep o k t u => s!"onStep:{o}:S{k}:{showBool t}:{showBool u}"
  | .ret a r => s!"ret:{showAct a}:{showBool r}"

def showObs : Option Obs → String
  | none => "none"
  | some (.reset j) => s!"reset:R{j}"
  | some (.step k t u) => s!"step:S{k}:{showBool t}:{showBool u}"
  | some (.both k t u j) => s!"both:S{k}:{showBool t}:{showBool u}:R{j}"

/-- The scripts as total functions; only consulted below their length (checked by `drive`). -/
def DSt.script (d : DSt) : Script :=
  { flags := fun k => match d.flags[k]? with | some f => f | none => (false, false)
    reqReset := fun o => match d.rr[o]? with | some b => b | none => false
    reqStep := fun o => match d.rs[o]? with | some b => b | none => false }

/-- One `Interaction.step()` on the driver state. -/
def driveStep (d : DSt) : DSt × String :=
  if d.st.nStep < d.flags.length ∧ d.st.nOnReset < d.rr.length ∧ d.st.nOnStep < d.rs.length then
    match interStep d.script d.st with
    | .ok s => ({ d with st := s }, "ok")
    | .error .attribute => (d, "err AttributeError")
  else (d, "bad-op")

/-- `n` steps, stopping at the first reply that is not `ok`. -/
def driveSteps (d : DSt) : Nat → DSt × String
  | 0 => (d, "ok")
  | n + 1 =>
    match driveStep d with
    | (d', "ok") => driveSteps d' n
    | r => r

def drive (d : DSt) (toks : List String) : DSt × String :=
  match toks with
  | "reset" :: rest =>
    match (kv rest "flags").bind (parseList parseFlag), (kv rest "rr").bind (parseList parseBool),
          (kv rest "rs").bind (parseList parseBool) with
    | some f, some rr, some rs => ({ flags := f, rr := rr, rs := rs, st := {} }, "ok")
    | _, _, _ => (d, "bad-op")
  | ["setup"] => ({ d with st := setup d.st }, "ok")
  | ["step"] => driveStep d
  | ["run", n] =>
    match n.toNat? with
    | some n => driveSteps { d with st := setup d.st } n
    | none => (d, "bad-op")
  | ["user_request"] => ({ d with st := { d.st with needReset := true } }, "ok")
  | ["obs"] => (d, showObs d.st.obs)
  | ["need_reset"] => (d, showBool d.st.needReset)
  | ["log"] => (d, showList showEv d.st.log)
  | _ => (d, "bad-op")

end Pamiq.Gym
