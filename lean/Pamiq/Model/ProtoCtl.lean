/-
The control thread's own transition graph, cut out of `Proto.cstep`: what a control action does to the
control record and the three shared flags when everything the *environment* contributes (no background
thread holds the resume lock; the pool workers of a pause attempt have all returned, with a given
outcome) is as the action needs it. `cedge` is obtained by running `cstep` itself on a synthetic
state with one background thread in exactly that situation, so it cannot drift from `cstep`;
`Lemmas/ProtoCtl.lean` proves that on *every* state satisfying the environment condition `cstep`
acts on the control view as `cedge` says. The translated methods of `ControlThread`
(`Gen/ControlThreadTie.lean`) are interpreted over this graph.
-/
import Pamiq.Model.Proto
namespace Pamiq.Proto

/-- What the control thread's own code can see and change. -/
structure CV where
  ctl : Ctl
  resume : Bool
  shutdown : Bool
  clockPaused : Bool
deriving DecidableEq, Repr

def St.view (s : St) : CV := { ctl := s.ctl, resume := s.resume, shutdown := s.shutdown, clockPaused := s.clockPaused }

/-- The control actions whose guard and effect concern only the control view, the lock and the
joined workers (spawning, per-thread reads and the launch prologue / epilogue are not among them). -/
def Act.ctlCore : Act → Bool
  | .cTryPause | .cTryPauseRet _ | .cAcquire | .cClearResume | .cRelease | .cWorkersJoined
  | .cClockPause | .cClockResume | .cSetResume | .cSetShutdown | .cResume | .cResumeRet
  | .cShutdown | .cShutdownRet | .cSave | .cSaveBegin | .cSaveCbBegin | .cSaveCbEnd | .cSaveEnd | .cSaveRet
  | .cCmdShutdown | .cUptime => true
  | _ => false

/-- A state with the given control view and one background thread that does not hold the lock and
whose pool worker has returned `e`. -/
def synth (v : CV) (e : Bool) : St :=
  { resume := v.resume, shutdown := v.shutdown, clockPaused := v.clockPaused, ctl := v.ctl,
    thr := [{ wSpawned := true, wRes := some e, pausedFlag := e }] }

/-- The control graph: `e` is the outcome of the wait (`wait_for_all_threads_pause`), used by `cWorkersJoined` only. -/
def cedge (v : CV) (a : Act) (e : Bool) : Option CV :=
  if a.ctlCore then (cstep (synth v e) a).map St.view else none

/-- What the environment has to contribute for the action to be possible. -/
def envOk (s : St) (a : Act) (e : Bool) : Prop :=
  match a with
  | .cAcquire => s.thr.all (fun x => !x.holds) = true
  | .cWorkersJoined => s.thr.all (fun x => x.wRes.isSome) = true ∧ s.thr.all (fun x => x.wRes == some true) = e
  | _ => True

/-- Follow a sequence of control actions (each with the wait outcome it sees). -/
def crun (v : CV) : List (Act × Bool) → Option CV
  | [] => some v
  | (a, e) :: rest => match cedge v a e with
    | some v' => crun v' rest
    | none => none

end Pamiq.Proto
