/- Line protocol for the Models model (see `Driver.lean`). Import-free.

`models new <hasInf> <infOnly>`                    → `ok` | `err ValueError`
`models reset ms=[name:<h><i>:<version>,…] ts=[t,…]` → `ok` | `err ValueError`
`models agent_get <name>`                          → `obj=<id> v=<inference version>` | `err KeyError`
`models trainer_get <trainer> <name>`              → `ok v=<training version>` | `err KeyError`
`models run <trainer> [name=<version>,…]`          → `synced=[name:obj,…]` (sorted by name)
`models save` → `[name=version,…]`;  `models load [name=version,…]` → `synced=[name:obj,…]` (dict order)
`models state` → `[name:train:inf|-,…]`; `models retrieved <trainer>` → sorted names; `models inf_names`
-/
import Pamiq.Model.Models
namespace Pamiq.Models
open Pamiq

def nameOk (s : String) : Bool := s ≠ "" && s.toList.all (fun c => c.isAlphanum || c = '_')

def parseFlags (s : String) : Option (Bool × Bool) :=
  match s.toList with
  | [a, b] =>
    (match a, b with
     | '0', '0' => some (false, false) | '0', '1' => some (false, true)
     | '1', '0' => some (true, false) | '1', '1' => some (true, true)
     | _, _ => none)
  | _ => none

def parseModelSpec (s : String) : Option (String × Bool × Bool × Nat) :=
  match s.splitOn ":" with
  | [n, f, v] => do
    let (h, i) ← parseFlags f
    let v ← v.toNat?
    if nameOk n then pure (n, h, i, v) else none
  | _ => none

def parseKV (s : String) : Option (String × Nat) :=
  match s.splitOn "=" with
  | [k, v] => do
    let v ← v.toNat?
    if nameOk k then pure (k, v) else none
  | _ => none

def parseName (s : String) : Option String := if nameOk s then some s else none

def distinctNames : List String → Bool
  | [] => true
  | x :: xs => !xs.contains x && distinctNames xs

def showErr : Err → String
  | .valueError => "err ValueError"
  | .runtimeError => "err RuntimeError"
  | .keyError => "err KeyError"
  | .fileNotFound => "err FileNotFoundError"
  | .notRetrieved => "bad-op"
  | .noSuchTrainer => "bad-op"
  | .noOwner => "bad-state"

def showLog (l : List (String × ObjId)) : String :=
  "synced=" ++ showList (fun (x : String × ObjId) => s!"{x.1}:{x.2}") l

def sortByName {α} (l : List (String × α)) : List (String × α) :=
  l.mergeSort (fun a b => !(decide (b.1 < a.1)))

def buildModels : List (String × Bool × Bool × Nat) → Except Err (List (String × Model))
  | [] => .ok []
  | (n, h, i, v) :: rest =>
    match Model.new h i v with
    | .error e => .error e
    | .ok m =>
      match buildModels rest with
      | .error e => .error e
      | .ok ms => .ok ((n, m) :: ms)

/-- One protocol line → new state and reply. -/
def drive (st : Option Sys) (toks : List String) : Option Sys × String :=
  match toks with
  | ["new", h, i] =>
    match parseBool h, parseBool i with
    | some h, some i =>
      (st, match Model.new h i 0 with | .ok _ => "ok" | .error e => showErr e)
    | _, _ => (st, "bad-op")
  | ["reset", ms, ts] =>
    match (kv [ms] "ms").bind (parseList parseModelSpec), (kv [ts] "ts").bind (parseList parseName) with
    | some ms, some ts =>
      if distinctNames (ms.map (·.1)) && distinctNames ts then
        match buildModels ms with
        | .error e => (none, showErr e)
        | .ok models =>
          match Sys.init models ts with
          | .ok s => (some s, "ok")
          | .error e => (none, showErr e)
      else (none, "bad-op")
    | _, _ => (none, "bad-op")
  | cmd :: args =>
    match st with
    | none => (st, "bad-op")
    | some s =>
      match cmd, args with
      | "agent_get", [k] =>
        match s.agentView k with
        | .ok (o, v) => (st, s!"obj={o} v={v}")
        | .error e => (st, showErr e)
      | "trainer_get", [t, k] =>
        match s.trainerGet t k with
        | .ok (s', m) => (some s', s!"ok v={m.trainVersion}")
        | .error e => (st, showErr e)
      | "run", [t, b] =>
        match parseList parseKV b with
        | some bumps =>
          match s.run t bumps with
          | .ok (s', log) => (some s', showLog (sortByName log))
          | .error e => (st, showErr e)
        | none => (st, "bad-op")
      | "run_fail", [t, b] =>
        match parseList parseKV b with
        | some bumps =>
          match s.runFail t bumps with
          | .ok s' => (some s', "raised synced=[]")
          | .error e => (st, showErr e)
        | none => (st, "bad-op")
      | "set_item", [spec] =>
        match parseModelSpec spec with
        | some (k, h, i, v) =>
          match Model.new h i v with
          | .error e => (st, showErr e)
          | .ok m =>
            match s.setItem k m with
            | .ok s' => (some s', "ok")
            | .error e => (st, showErr e)
        | none => (st, "bad-op")
      | "load", [b] =>
        match parseList parseKV b with
        | some saved =>
          if distinctNames (saved.map (·.1)) then
            match s.load saved with
            | .ok (s', log) => (some s', showLog log)
            | .error e => (st, showErr e)
          else (st, "bad-op")
        | none => (st, "bad-op")
      | "save", [] =>
        (st, showList (fun (x : String × Nat) => s!"{x.1}={x.2}") s.dict.saveState)
      | "state", [] =>
        (st, showList (fun (x : String × Model) =>
          s!"{x.1}:{x.2.trainVersion}:" ++
            (match x.2.infObj with | some _ => toString x.2.infVersion | none => "-")) s.dict.data)
      | "retrieved", [t] =>
        match s.retrieved t with
        | .ok r => (st, showList id (r.mergeSort (fun a b => !(decide (b < a)))))
        | .error e => (st, showErr e)
      | "inf_names", [] => (st, showList id (s.dict.inf.map (·.1)))
      | _, _ => (st, "bad-op")
  | _ => (st, "bad-op")

end Pamiq.Models
