/- Line protocol for the Tree model (see `Driver.lean`). Import-free.

Terms (no spaces):  interaction `I(<agent>,<env>)`; agent `A<id>{name:<agent>,…}`;
env `E<id>` | `EM(<sensor>,<actuator>)` | `EW(<env>,<wrap>,<wrap>)`;
sensor `S<id>` | `SD{name:<sensor>,…}` | `SW(<sensor>,<wrap>)`;
actuator `C<id>` | `CD{name:<actuator>,…}` | `CW(<actuator>,<wrap>)`;
wrap `W<id>` (user wrapper) | `F<id>` (callable);  value `v<src>[t1,t2]` | `d{key:<value>,…}`.
Duplicate names inside one `{…}` are rejected (`bad-op`): a Python dict cannot contain them.
-/
import Pamiq.Model.Tree
namespace Pamiq.Tree
open Pamiq

abbrev P (α : Type) := List Char → Option (α × List Char)

def pChar (c : Char) : P Unit
  | x :: xs => if x = c then some ((), xs) else none
  | [] => none

def pNat : P Nat := fun cs =>
  let ds := cs.takeWhile Char.isDigit
  if ds.isEmpty then none
  else some (ds.foldl (fun n c => n * 10 + (c.toNat - 48)) 0, cs.drop ds.length)

def isNameChar (c : Char) : Bool := c.isAlphanum || c = '_'

def pName : P String := fun cs =>
  let ds := cs.takeWhile isNameChar
  if ds.isEmpty then none else some (String.ofList ds, cs.drop ds.length)

def pEntries {α : Type} (pElem : P α) : Nat → P (List (String × α))
  | 0 => fun _ => none
  | f + 1 => fun cs => do
    let (k, cs) ← pName cs
    let (_, cs) ← pChar ':' cs
    let (v, cs) ← pElem cs
    match cs with
    | ',' :: cs => do
      let (rest, cs) ← pEntries pElem f cs
      pure ((k, v) :: rest, cs)
    | '}' :: cs => pure ([(k, v)], cs)
    | _ => none

/-- `{k:elem,…}` with distinct keys. -/
def pDict {α : Type} (pElem : P α) (fuel : Nat) : P (List (String × α)) := fun cs =>
  match cs with
  | '{' :: '}' :: cs => some ([], cs)
  | '{' :: cs => do
    let (es, cs) ← pEntries pElem fuel cs
    if distinct (namesOf es) then pure (es, cs) else none
  | _ => none

def pWrap : P Wrap
  | 'W' :: cs => do let (n, cs) ← pNat cs; pure (.user n, cs)
  | 'F' :: cs => do let (n, cs) ← pNat cs; pure (.fn n, cs)
  | _ => none

def pAgent : Nat → P Agent
  | 0 => fun _ => none
  | f + 1 => fun cs =>
    match cs with
    | 'A' :: cs => do
      let (n, cs) ← pNat cs
      let (kids, cs) ← pDict (pAgent f) (f + 1) cs
      pure (.mk n kids, cs)
    | _ => none

def pSensor : Nat → P Sensor
  | 0 => fun _ => none
  | f + 1 => fun cs =>
    match cs with
    | 'S' :: 'D' :: cs => do
      let (kids, cs) ← pDict (pSensor f) (f + 1) cs
      pure (.dict kids, cs)
    | 'S' :: 'W' :: '(' :: cs => do
      let (s, cs) ← pSensor f cs
      let (_, cs) ← pChar ',' cs
      let (w, cs) ← pWrap cs
      let (_, cs) ← pChar ')' cs
      pure (.wrap s w, cs)
    | 'S' :: cs => do let (n, cs) ← pNat cs; pure (.leaf n, cs)
    | _ => none

def pActuator : Nat → P Actuator
  | 0 => fun _ => none
  | f + 1 => fun cs =>
    match cs with
    | 'C' :: 'D' :: cs => do
      let (kids, cs) ← pDict (pActuator f) (f + 1) cs
      pure (.dict kids, cs)
    | 'C' :: 'W' :: '(' :: cs => do
      let (a, cs) ← pActuator f cs
      let (_, cs) ← pChar ',' cs
      let (w, cs) ← pWrap cs
      let (_, cs) ← pChar ')' cs
      pure (.wrap a w, cs)
    | 'C' :: cs => do let (n, cs) ← pNat cs; pure (.leaf n, cs)
    | _ => none

def pEnv : Nat → P Env
  | 0 => fun _ => none
  | f + 1 => fun cs =>
    match cs with
    | 'E' :: 'M' :: '(' :: cs => do
      let (s, cs) ← pSensor (f + 1) cs
      let (_, cs) ← pChar ',' cs
      let (a, cs) ← pActuator (f + 1) cs
      let (_, cs) ← pChar ')' cs
      pure (.modular s a, cs)
    | 'E' :: 'W' :: '(' :: cs => do
      let (e, cs) ← pEnv f cs
      let (_, cs) ← pChar ',' cs
      let (o, cs) ← pWrap cs
      let (_, cs) ← pChar ',' cs
      let (a, cs) ← pWrap cs
      let (_, cs) ← pChar ')' cs
      pure (.wrap e o a, cs)
    | 'E' :: cs => do let (n, cs) ← pNat cs; pure (.leaf n, cs)
    | _ => none

def pInteraction (s : String) : Option Interaction :=
  let cs := s.toList
  let fuel := cs.length + 1
  match cs with
  | 'I' :: '(' :: cs => do
    let (a, cs) ← pAgent fuel cs
    let (_, cs) ← pChar ',' cs
    let (e, cs) ← pEnv fuel cs
    match cs with
    | [')'] => pure ⟨a, e⟩
    | _ => none
  | _ => none

def pNatList : Nat → P (List Nat)
  | 0 => fun _ => none
  | f + 1 => fun cs => do
    let (n, cs) ← pNat cs
    match cs with
    | ',' :: cs => do let (r, cs) ← pNatList f cs; pure (n :: r, cs)
    | ']' :: cs => pure ([n], cs)
    | _ => none

def pVal : Nat → P Val
  | 0 => fun _ => none
  | f + 1 => fun cs =>
    match cs with
    | 'v' :: cs => do
      let (n, cs) ← pNat cs
      match cs with
      | '[' :: ']' :: cs => pure (.atom n [], cs)
      | '[' :: cs => do let (t, cs) ← pNatList (f + 1) cs; pure (.atom n t, cs)
      | _ => none
    | 'd' :: cs => do
      let (kvs, cs) ← pDict (pVal f) (f + 1) cs
      pure (.dict kvs, cs)
    | _ => none

def parseVal (s : String) : Option Val :=
  let cs := s.toList
  match pVal (cs.length + 1) cs with
  | some (v, []) => some v
  | _ => none

mutual
def showVal : Val → String
  | .atom s t => s!"v{s}{showList toString t}"
  | .dict kvs => "d{" ++ ",".intercalate (showValL kvs) ++ "}"
def showValL : List (String × Val) → List String
  | [] => []
  | (k, v) :: rest => (k ++ ":" ++ showVal v) :: showValL rest
end

def showPath (p : Path) : String := "/".intercalate p

def showFsOp : FsOp → String
  | .mkdir p false => "M:" ++ showPath p
  | .mkdir p true => "X:" ++ showPath p
  | .leafSave i p => s!"L{i}:" ++ showPath p

def parseEvent : String → Option Event
  | "setup" => some .setup
  | "teardown" => some .teardown
  | "on_paused" => some .onPaused
  | "on_resumed" => some .onResumed
  | "save_state" => some .saveState
  | "load_state" => some .loadState
  | "attach_inference_models" => some .attachModels
  | "attach_data_collectors" => some .attachCollectors
  | _ => none

def showDataErr : Option DataErr → String
  | none => "none"
  | some .keyError => "KeyError"
  | some .typeError => "TypeError"

def showIdPaths (l : List (LeafId × Path)) : String :=
  showList (fun (x : LeafId × Path) => s!"{x.1}=" ++ showPath x.2) l

structure DSt where
  tree : Option Interaction := none
  root : Path := ["interaction"]

/-- One protocol line → new state and reply. -/
def drive (st : DSt) (toks : List String) : DSt × String :=
  match toks with
  | ["reset", t] =>
    match pInteraction t with
    | some i => ({ st with tree := some i, root := ["interaction"] }, "ok")
    | none => ({ st with tree := none }, "bad-op")
  | ["reset", t, r] =>
    match pInteraction t, kv [r] "root" with
    | some i, some name =>
      if name.toList.all isNameChar ∧ name ≠ "" then ({ tree := some i, root := [name] }, "ok")
      else ({ st with tree := none }, "bad-op")
    | _, _ => ({ st with tree := none }, "bad-op")
  | cmd :: args =>
    match st.tree with
    | none => (st, "bad-op")
    | some i =>
      match cmd, args with
      | "dispatch", [e] =>
        match parseEvent e with
        | some e => (st, showList toString (i.dispatch e))
        | none => (st, "bad-op")
      | "save_paths", [] => (st, showIdPaths (i.savePaths st.root))
      | "load_paths", [] => (st, showIdPaths (i.loadPaths st.root))
      | "fs_ops", [] => (st, showList showFsOp (i.fsOps st.root))
      | "run_fs", [] =>
        match runFs (i.fsOps st.root) [st.root.dropLast] with
        | .ok _ => (st, "ok")
        | .error .fileNotFound => (st, "err FileNotFoundError")
        | .error .fileExists => (st, "err FileExistsError")
      | "observe", [] => (st, showVal i.environment.observe)
      | "step", [a] =>
        match parseVal a with
        | some a =>
          let (obs, (log, err)) := i.step a
          (st, s!"obs={showVal obs} log=" ++
            showList (fun (x : LeafId × Val) => s!"{x.1}=" ++ showVal x.2) log ++
            " err=" ++ showDataErr err)
        | none => (st, "bad-op")
      | "names_ok", [] => (st, showBool i.namesOk)
      | "ids", [] => (st, showList toString i.ids)
      | _, _ => (st, "bad-op")
  | _ => (st, "bad-op")

end Pamiq.Tree
