/-
Line protocol for the Buffer model (first token `buf`, see `Driver.lean`). Import-free.

  buf variant total=<b> strict=<b>                       -> ok
  buf new seq  cap=<int>                                 -> ok q=<n> | err <E>
  buf new rrb  cap=<nat> [p=<rat>] [esl=<int>] [lg=<rat>] -> ok q=<n> | err <E>
  buf new dseq cap=<int> keys=[a,b]                      -> ok q=<n> | err <E>
  buf new drrb cap=<nat> keys=[a,b] [p=] [esl=] [lg=]    -> ok q=<n> | err <E>
  buf computep cap=<nat> esl=<int> lg=<rat>              -> <rat> | err <E>
  buf add <int> [u=<rat> i=<nat>]                        -> ok [random [randint(0,k)]] | err <E>
  buf addd {a:1;b:2} [u=<rat> i=<nat>]                   -> same
  buf get                                                -> [1,2] | {a:[1,2];b:[3,4]} | err <E>
  buf len | full | maxsize | maxq | keys
  buf save                                               -> [1,2] | [{a:1;b:2},{a:3;b:4}]
  buf load <blob>                                        -> ok
Samples of the dict variants are printed with their keys sorted (a Python dict compares by
content); the columns of `get` are printed sorted by key.
-/
import Pamiq.Model.Buffer
namespace Pamiq.Buffer
open Pamiq

inductive AnyBuf
  | none
  | seq (b : Seq Int)
  | rrb (b : Rrb Int)
  | dseq (b : DictSeq)
  | drrb (b : DictRrb)

structure BufSt where
  variant : Variant := repaired
  buf : AnyBuf := .none

def Err.pyName : Err → String
  | .value => "ValueError"
  | .zeroDivision => "ZeroDivisionError"
  | .overflow => "OverflowError"
  | .index => "IndexError"
  | .key => "KeyError"

def errReply (e : Err) : String := "err " ++ e.pyName

def validKey (k : String) : Bool := !k.isEmpty && k.all Char.isAlphanum

/-- `{a:1;b:2}` / `{}`; duplicate keys are not a dict → rejected. -/
def parseSample (s : String) : Option Sample :=
  if s.length < 2 ∨ s.front ≠ '{' ∨ s.back ≠ '}' then none
  else
    let inner := ((s.drop 1).dropEnd 1).toString
    if inner.isEmpty then some []
    else do
      let items ← (inner.splitOn ";").mapM fun kvs =>
        match kvs.splitOn ":" with
        | [k, v] => if validKey k then v.toInt?.map (fun i => (k, i)) else none
        | _ => none
      if (items.map (·.1)).eraseDups.length = items.length then some items else none

def parseKeys (s : String) : Option (List String) :=
  parseList (fun k => if validKey k then some k else none) s

def sortByKey {β} (l : List (String × β)) : List (String × β) :=
  l.mergeSort (fun a b => !(b.1 < a.1))

def showSample (d : Sample) : String :=
  "{" ++ ";".intercalate ((sortByKey d).map fun kv => s!"{kv.1}:{kv.2}") ++ "}"

def showInt (i : Int) : String := toString i

def showColumns (c : Columns) : String :=
  "{" ++ ";".intercalate ((sortByKey c).map fun kv => s!"{kv.1}:{showList showInt kv.2}") ++ "}"

def showKeys (ks : List String) : String :=
  showList id (ks.mergeSort (fun a b => !(b < a)))

/-- Optional `key=value` token: absent → `some none`, malformed → `none`. -/
def optKv {β} (toks : List String) (key : String) (f : String → Option β) : Option (Option β) :=
  match kv toks key with
  | none => some none
  | some s => (f s).map some

structure CtorArgs where
  p : Option Rat
  esl : Option Int
  lg : Rat

def parseCtorArgs (toks : List String) : Option CtorArgs := do
  let p ← optKv toks "p" parseRat
  let esl ← optKv toks "esl" String.toInt?
  let lg ← optKv toks "lg" parseRat
  -- the survival-length formula needs the value of `math.log(max_size) + gamma`
  if esl.isSome ∧ p.isNone ∧ lg.isNone then none
  else pure ⟨p, esl, lg.getD 0⟩

def parseDraws (toks : List String) : Option (Rat × Nat) := do
  let u ← parseRat (← kv toks "u")
  let i ← (← kv toks "i").toNat?
  pure (u, i)

def drawsReply (l : List String) : String := " ".intercalate ("ok" :: l)

def driveNew (st : BufSt) (kind : String) (toks : List String) : BufSt × String :=
  let bad := (st, "bad-op")
  match kind with
  | "seq" =>
    match (kv toks "cap").bind String.toInt? with
    | some cap =>
      match (Seq.ctor cap : Except Err (Seq Int)) with
      | .ok b => ({ st with buf := .seq b }, s!"ok q={b.maxQueueSize}")
      | .error e => ({ st with buf := .none }, errReply e)
    | none => bad
  | "dseq" =>
    match (kv toks "cap").bind String.toInt?, (kv toks "keys").bind parseKeys with
    | some cap, some keys =>
      match DictSeq.ctor keys cap with
      | .ok b => ({ st with buf := .dseq b }, s!"ok q={b.buffer.maxQueueSize}")
      | .error e => ({ st with buf := .none }, errReply e)
    | _, _ => bad
  | "rrb" =>
    match (kv toks "cap").bind String.toNat?, parseCtorArgs toks with
    | some cap, some a =>
      match (Rrb.ctor st.variant cap a.p a.esl a.lg : Except Err (Rrb Int)) with
      | .ok b => ({ st with buf := .rrb b }, s!"ok q={b.maxQueueSize}")
      | .error e => ({ st with buf := .none }, errReply e)
    | _, _ => bad
  | "drrb" =>
    match (kv toks "cap").bind String.toNat?, (kv toks "keys").bind parseKeys, parseCtorArgs toks with
    | some cap, some keys, some a =>
      match DictRrb.ctor st.variant keys cap a.p a.esl a.lg with
      | .ok b => ({ st with buf := .drrb b }, s!"ok q={b.buffer.maxQueueSize}")
      | .error e => ({ st with buf := .none }, errReply e)
    | _, _, _ => bad
  | _ => bad

def drive (st : BufSt) (toks : List String) : BufSt × String :=
  let bad := (st, "bad-op")
  match toks with
  | "variant" :: rest =>
    match (kv rest "total").bind parseBool, (kv rest "strict").bind parseBool with
    | some t, some s => ({ st with variant := ⟨t, s⟩ }, "ok")
    | _, _ => bad
  | "new" :: kind :: rest => driveNew st kind rest
  | "computep" :: rest =>
    match (kv rest "cap").bind String.toNat?, (kv rest "esl").bind String.toInt?,
          (kv rest "lg").bind parseRat with
    | some cap, some esl, some lg =>
      match computeProb cap esl lg with
      | .ok p => (st, showRat p)
      | .error e => (st, errReply e)
    | _, _, _ => bad
  | "add" :: x :: rest =>
    match x.toInt?, st.buf with
    | some x, .seq b => ({ st with buf := .seq (b.add x) }, "ok")
    | some x, .rrb b =>
      match parseDraws rest with
      | some (u, i) =>
        match b.add st.variant x u i with
        | .ok b' => ({ st with buf := .rrb b' }, drawsReply (b.drawsUsed st.variant u))
        | .error e => (st, errReply e)
      | none => bad
    | _, _ => bad
  | "addd" :: d :: rest =>
    match parseSample d, st.buf with
    | some d, .dseq b =>
      match b.add d with
      | .ok b' => ({ st with buf := .dseq b' }, "ok")
      | .error e => (st, errReply e)
    | some d, .drrb b =>
      match parseDraws rest with
      | some (u, i) =>
        match b.add st.variant d u i with
        | .ok b' => ({ st with buf := .drrb b' }, drawsReply (b.drawsUsed st.variant d u))
        | .error e => (st, errReply e)
      | none => bad
    | _, _ => bad
  | ["get"] =>
    match st.buf with
    | .seq b => (st, showList showInt b.getData)
    | .rrb b => (st, showList showInt b.getData)
    | .dseq b => (st, match b.getData with | .ok c => showColumns c | .error e => errReply e)
    | .drrb b => (st, match b.getData with | .ok c => showColumns c | .error e => errReply e)
    | .none => bad
  | ["len"] =>
    match st.buf with
    | .seq b => (st, toString b.len)
    | .rrb b => (st, toString b.len)
    | .dseq b => (st, toString b.len)
    | .drrb b => (st, toString b.len)
    | .none => bad
  | ["full"] =>
    match st.buf with
    | .rrb b => (st, showBool b.isFull)
    | _ => bad
  | ["maxsize"] =>
    match st.buf with
    | .seq b => (st, toString b.maxSize)
    | .rrb b => (st, toString b.maxSize)
    | .dseq b => (st, toString b.buffer.maxSize)
    | .drrb b => (st, toString b.buffer.maxSize)
    | .none => bad
  | ["maxq"] =>
    match st.buf with
    | .seq b => (st, toString b.maxQueueSize)
    | .rrb b => (st, toString b.maxQueueSize)
    | .dseq b => (st, toString b.buffer.maxQueueSize)
    | .drrb b => (st, toString b.buffer.maxQueueSize)
    | .none => bad
  | ["keys"] =>
    match st.buf with
    | .dseq b => (st, showKeys b.keys)
    | .drrb b => (st, showKeys b.keys)
    | _ => bad
  | ["save"] =>
    match st.buf with
    | .seq b => (st, showList showInt b.saveState)
    | .rrb b => (st, showList showInt b.saveState)
    | .dseq b => (st, showList showSample b.saveState)
    | .drrb b => (st, showList showSample b.saveState)
    | .none => bad
  | ["load", blob] =>
    match st.buf with
    | .seq b =>
      match parseList String.toInt? blob with
      | some l => ({ st with buf := .seq (b.loadState l) }, "ok")
      | none => bad
    | .rrb b =>
      match parseList String.toInt? blob with
      | some l => ({ st with buf := .rrb (b.loadState l) }, "ok")
      | none => bad
    | .dseq b =>
      match parseList parseSample blob with
      | some l => ({ st with buf := .dseq (b.loadState l) }, "ok")
      | none => bad
    | .drrb b =>
      match parseList parseSample blob with
      | some l => ({ st with buf := .drrb (b.loadState l) }, "ok")
      | none => bad
    | .none => bad
  | _ => bad

end Pamiq.Buffer
