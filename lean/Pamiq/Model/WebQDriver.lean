/- Line protocol: `webq reset cap`, `webq post <cmd>`, `webq drain`, `webq invalid`, `webq state`,
   `webq status <shutdown> <resume> [flags]`. -/
import Pamiq.Model.WebQ
namespace Pamiq.WebQ
open Pamiq

def parseCmd : String → Option Cmd
  | "SHUTDOWN" => some .shutdown | "PAUSE" => some .pause | "RESUME" => some .resume
  | "SAVE_STATE" => some .save | _ => none

def showCmd : Cmd → String
  | .shutdown => "SHUTDOWN" | .pause => "PAUSE" | .resume => "RESUME" | .save => "SAVE_STATE"

def showStatus : Status → String
  | .active => "active" | .pausing => "pausing" | .paused => "paused" | .resuming => "resuming"
  | .shuttingDown => "shutting down"

def drive (w : Q) (toks : List String) : Q × String :=
  match toks with
  | ["reset", c] => match c.toNat? with
    | some c => ({ cap := c }, "ok")
    | none => (w, "bad-op")
  | ["post", c] => match parseCmd c with
    | some c => let (w', st) := post w c; (w', toString st)
    | none => (w, "bad-op")
  | ["drain"] =>
    let w' := drainOne w
    (w', if w'.executed.length > w.executed.length then
           (match w'.executed.getLast? with | some c => showCmd c | none => "none") else "none")
  | ["invalid"] => (invalid w, "ok")
  | ["state"] => (w, s!"q={showList showCmd w.q} executed={showList showCmd w.executed} stopped={showBool w.stopped}")
  | ["status", sd, rs, fl] =>
    match parseBool sd, parseBool rs, parseList parseBool fl with
    | some sd, some rs, some fl => (w, showStatus (statusOf sd rs fl))
    | _, _, _ => (w, "bad-op")
  | _ => (w, "bad-op")

end Pamiq.WebQ
