/- Line protocol for the Persist model (see `Driver.lean`). Import-free.

A case is built up in a work area (`cur`) and committed to one of two slots: `sys` (the system that
is saved) and `fresh` (the freshly constructed system that loads).

  reset
  tree <I(...) term of TreeDriver> states=[id:v,…]   interaction tree, one integer per user component
  model <name> v=<int> sync=<0|1> iv=<int>
  user <name> kind=seq cap=<n>  |  user <name> kind=rrb cap=<n> p=<rat>     (the real constructors)
  collect <name> x=<int> t=<rat> u=<rat> i=<nat>      `DataCollector.collect` (+ the draws)
  update <name>                                       `DataUser.update()`           → ok | err X
  trainer <name> prev=<-inf|inf|nan|rat>
  clk <line of the clock protocol>                    the work area's `TimeController`
  commit sys|fresh
  fs dirs=[a,a/b]                                     a file system holding exactly these directories
  save root=<a/b> <clock reads>                       `StateStore.save_state()`    → ok | err X
  epilogue root=<a/b> ra=<r3> rb=<r3> <clock reads>   `set_time_scale(1.0)` + final save
  ops                                                 operations of that save, in order
  crash k=<n> l=<n>                                   file system := crash k l ops (fs before the save)
  look <path>                                         none | dir | empty | part:<n> | full:<kind>
  load root=<a/b> tol=<0|1> tp=<err|ext> <clock reads>    into `fresh`          → ok | err X
  prologue root=<a/b> tol=… tp=… <clock reads>        launch prologue → steps + ok | err X
  obs sys|loaded                                      canonical dump of the observables
  count sys|loaded <name> <ext>                       `count_data_added_since`
  clockread sys|loaded <src> <clock reads>
  launch_order saved=<0|1>                            the steps of `launch()` the model assumes
-/
import Pamiq.Model.Persist
import Pamiq.Model.ClockDriver
import Pamiq.Model.TreeDriver
namespace Pamiq.Persist
open Pamiq

def emptySys : Sys :=
  { interaction := .dir none [], models := [], data := [], trainers := [],
    clock := Clock.init ⟨0, 0, 0⟩ ⟨0, 0, 0⟩ }

structure DSt where
  cur : Sys := emptySys
  sys : Sys := emptySys
  fresh : Sys := emptySys
  fs0 : FS := fun _ => none
  fs : FS := fun _ => none
  ops : List FsOp := []
  loaded : Option Sys := none

def showErr : Err → String
  | .fileExists => "err FileExistsError"
  | .fileNotFound => "err FileNotFoundError"
  | .notADirectory => "err NotADirectoryError"
  | .isADirectory => "err IsADirectoryError"
  | .unpickling => "err UnpicklingError"
  | .value => "err ValueError"
  | .index => "err IndexError"
  | .type => "err TypeError"
  | .badHandle => "err BadHandle"
  | .assertion => "err AssertionError"

/-- The OS errors carry the file name; the others do not. -/
def showLoadErr (e : LoadErr) : String :=
  match e.kind with
  | .fileExists | .fileNotFound | .notADirectory | .isADirectory =>
    showErr e.kind ++ "@" ++ "/".intercalate e.path
  | k => showErr k

def parseExt (s : String) : Option ExtRat :=
  if s = "-inf" then some .negInf
  else if s = "inf" then some .posInf
  else if s = "nan" then some .nan
  else (parseRat s).map .fin

def showExt : ExtRat → String
  | .negInf => "-inf" | .posInf => "inf" | .nan => "nan" | .fin q => showRat q

def parsePath (s : String) : Option Path :=
  let parts := s.splitOn "/"
  if parts.any (· = "") then none else some parts

def showPath (p : Path) : String := "/".intercalate p

def showOp : FsOp → String
  | .mkdir p ok => s!"mkdir:{showPath p}:{showBool ok}"
  | .create p => s!"create:{showPath p}"
  | .writeAll p _ => s!"write:{showPath p}"

def showKind : Kind → String
  | .ints => "ints" | .rats => "rats" | .clock => "clock" | .user => "user" | .text => "text"

def showNode : Option Node → String
  | none => "none"
  | some .dir => "dir"
  | some (.file .empty) => "empty"
  | some (.file (.part _ n)) => s!"part:{n}"
  | some (.file (.full c)) => s!"full:{showKind c.kind}"

def parseStates (s : String) : Option (List (Nat × Int)) :=
  parseList (fun e => match e.splitOn ":" with
    | [a, b] => do pure (← a.toNat?, ← b.toInt?)
    | _ => none) s

def setAssoc {α} (k : String) (v : α) : List (String × α) → List (String × α)
  | [] => [(k, v)]
  | (k', v') :: rest => if k' = k then (k, v) :: rest else (k', v') :: setAssoc k v rest

def showStep : Step → String
  | .register n => s!"register:{n}"
  | .loadState => "load_state"
  | .newThread t => s!"thread:{t}"
  | .setTimeScale => "set_time_scale"
  | .startThread t => s!"start:{t}"
  | .controlRun => "control_run"
  | .controlShutdown => "shutdown:control"
  | .joinThread t => s!"join:{t}"
  | .resetTimeScale => "reset_time_scale"
  | .finalSave => "save_state"

def dump (s : Sys) : String :=
  let leaves := showList (fun (e : Path × Int) => s!"{showPath e.1}={e.2}")
    (s.interaction.userStates ["interaction"])
  let models := showList (fun (e : String × ModelSt) => s!"{e.1}:{e.2.version}:{e.2.infVersion}") s.models
  let data := showList (fun (e : String × User) =>
    s!"{e.1}:{e.2.buf.len}:{e.2.buf.maxQueueSize}:{showList toString e.2.buf.getData}") s.data
  let trainers := showList (fun (e : String × ExtRat) => s!"{e.1}:{showExt e.2}") s.trainers
  s!"leaves={leaves} models={models} data={data} trainers={trainers}"

/-- The stdlib-clock readings made by `state_dict()` / `set_time_scale` on controller `c`:
two per source when running, one when paused (see `ClockDriver`). -/
def twoReads (c : Clock.Ctl) (rd : Clock.Reads) : Clock.R3 × Clock.R3 :=
  (rd.nth 0, if c.paused then rd.nth 0 else rd.nth 1)

def parseRd (toks : List String) : Option Rd := do
  let tol ← parseBool (← kv toks "tol")
  let tp ← kv toks "tp"
  if tp = "err" then pure ⟨tol, fun _ _ => none⟩
  else
    let x ← parseExt tp
    pure ⟨tol, fun _ _ => some x⟩

def slot (st : DSt) (which : String) : Option Sys :=
  if which = "sys" then some st.sys
  else if which = "loaded" then st.loaded
  else if which = "fresh" then some st.fresh
  else none

def drive (st : DSt) (toks : List String) : DSt × String :=
  match toks with
  | ["reset"] => ({}, "ok")
  | "tree" :: term :: rest =>
    match Tree.pInteraction term, (kv rest "states").bind parseStates with
    | some i, some states =>
      if i.ids.all (fun id => (states.lookup id).isSome) then
        let σ : Tree.LeafId → Int := fun id => match states.lookup id with | some v => v | none => 0
        ({ st with cur := { st.cur with interaction := ofInteraction σ i } }, "ok")
      else (st, "bad-op")
    | _, _ => (st, "bad-op")
  | "model" :: name :: rest =>
    match (kv rest "v").bind String.toInt?, (kv rest "sync").bind parseBool,
        (kv rest "iv").bind String.toInt? with
    | some v, some sync, some iv =>
      ({ st with cur := { st.cur with models := setAssoc name ⟨v, sync, iv⟩ st.cur.models } }, "ok")
    | _, _, _ => (st, "bad-op")
  | "user" :: name :: rest =>
    match kv rest "kind", (kv rest "cap").bind String.toNat? with
    | some "seq", some cap =>
      match Buffer.Seq.ctor (α := Int) cap with
      | .ok b =>
        ({ st with cur := { st.cur with data := setAssoc name ⟨.seq b, [], []⟩ st.cur.data } }, "ok")
      | .error _ => (st, "err ValueError")
    | some "rrb", some cap =>
      match (kv rest "p").bind parseRat with
      | some p =>
        match Buffer.Rrb.ctor (α := Int) Buffer.repaired cap (some p) none 0 with
        | .ok b =>
          ({ st with cur := { st.cur with data := setAssoc name ⟨.rrb b, [], []⟩ st.cur.data } }, "ok")
        | .error _ => (st, "err ValueError")
      | none => (st, "bad-op")
    | _, _ => (st, "bad-op")
  | "collect" :: name :: rest =>
    match lookup name st.cur.data, (kv rest "x").bind String.toInt?, (kv rest "t").bind parseRat,
        (kv rest "u").bind parseRat, (kv rest "i").bind String.toNat? with
    | some u, some x, some t, some dr, some i =>
      ({ st with cur := { st.cur with data := setAssoc name (u.collect ⟨x, t, dr, i⟩) st.cur.data } }, "ok")
    | _, _, _, _, _ => (st, "bad-op")
  | ["update", name] =>
    match lookup name st.cur.data with
    | some u =>
      match u.update with
      | .ok u' => ({ st with cur := { st.cur with data := setAssoc name u' st.cur.data } }, "ok")
      | .error e => (st, showErr e)
    | none => (st, "bad-op")
  | "trainer" :: name :: rest =>
    match (kv rest "prev").bind parseExt with
    | some x => ({ st with cur := { st.cur with trainers := setAssoc name x st.cur.trainers } }, "ok")
    | none => (st, "bad-op")
  | "clk" :: rest =>
    let (c, out) := Clock.drive true st.cur.clock rest
    ({ st with cur := { st.cur with clock := c } }, out)
  | ["commit", "sys"] => ({ st with sys := st.cur, cur := emptySys }, "ok")
  | ["commit", "fresh"] => ({ st with fresh := st.cur, cur := emptySys }, "ok")
  | "fs" :: rest =>
    match (kv rest "dirs").bind (parseList parsePath) with
    | some dirs =>
      let fs : FS := fun q => if dirs.contains q then some .dir else none
      ({ st with fs := fs, fs0 := fs, ops := [] }, "ok")
    | none => (st, "bad-op")
  | "save" :: rest =>
    match (kv rest "root").bind parsePath, Clock.parseReads rest with
    | some root, some rd =>
      let (r1, r2) := twoReads st.sys.clock rd
      match save st.sys root st.fs r1 r2 with
      | .ok (s2, fs') => ({ st with sys := s2, fs0 := st.fs, fs := fs', ops := saveOps s2 root }, "ok")
      | .error e =>
        -- the directory is left as far as the save got
        match st.sys.update with
        | .ok s1 =>
          let s2 := s1.exported r1 r2
          let ops := saveOps s2 root
          ({ st with sys := s2, fs0 := st.fs, fs := (run ops st.fs).1, ops := ops }, showErr e)
        | .error _ => (st, showErr e)
    | _, _ => (st, "bad-op")
  | "epilogue" :: rest =>
    match (kv rest "root").bind parsePath, (kv rest "ra").bind Clock.parseR3,
        (kv rest "rb").bind Clock.parseR3, Clock.parseReads rest with
    | some root, some ra, some rb, some rd =>
      -- `set_time_scale` leaves the clock running or paused as it was; `state_dict` then reads
      let (r1, r2) := twoReads st.sys.clock rd
      match launchEpilogue st.sys root st.fs ra rb r1 r2 with
      | .ok (s2, fs') => ({ st with sys := s2, fs0 := st.fs, fs := fs', ops := saveOps s2 root }, "ok")
      | .error e => (st, showErr e)
    | _, _, _, _ => (st, "bad-op")
  | ["ops"] => (st, showList showOp st.ops)
  | "crash" :: rest =>
    match (kv rest "k").bind String.toNat?, (kv rest "l").bind String.toNat? with
    | some k, some l => ({ st with fs := crash k l st.ops st.fs0 }, "ok")
    | _, _ => (st, "bad-op")
  | ["look", p] =>
    match parsePath p with
    | some p => (st, showNode (st.fs p))
    | none => (st, "bad-op")
  | "load" :: rest =>
    match (kv rest "root").bind parsePath, parseRd rest, Clock.parseReads rest with
    | some root, some rd, some reads =>
      match load rd st.fresh root st.fs (reads.nth 0) with
      | .ok s => ({ st with loaded := some s }, "ok")
      | .error e => ({ st with loaded := none }, showLoadErr e)
    | _, _, _ => (st, "bad-op")
  | "prologue" :: rest =>
    match (kv rest "root").bind parsePath, parseRd rest, Clock.parseReads rest with
    | some root, some rd, some reads =>
      match launchPrologue rd st.fresh (some root) st.fs (reads.nth 0) with
      | (steps, .ok s) => ({ st with loaded := some s }, s!"steps={showList showStep steps} ok")
      | (steps, .error e) =>
        ({ st with loaded := none }, s!"steps={showList showStep steps} {showLoadErr e}")
    | _, _, _ => (st, "bad-op")
  | ["obs", which] =>
    match slot st which with
    | some s => (st, dump s)
    | none => (st, "bad-op")
  | ["count", which, name, x] =>
    match slot st which, parseExt x with
    | some s, some x =>
      match lookup name s.data with
      | some u => (st, toString (u.countSince x))
      | none => (st, "err KeyError")
    | _, _ => (st, "bad-op")
  | "clockread" :: which :: src :: rest =>
    match slot st which, Clock.parseSrc src, Clock.parseReads rest with
    | some s, some src, some rd => (st, showRat (s.clock.read src ((rd.nth 0).get src)))
    | _, _, _ => (st, "bad-op")
  | "launch_order" :: rest =>
    match (kv rest "saved").bind parseBool with
    | some b => (st, showList showStep (prologueSteps b ++ runSteps))
    | none => (st, "bad-op")
  | _ => (st, "bad-op")

end Pamiq.Persist
