/-
Model of the PyTorch wrappers' synchronisation (`pamiq_core/torch/model.py`):
`TorchInferenceModel.infer / unwrap / _raw_model`, `UnwrappedContextManager.__enter__/__exit__`,
`TorchTrainingModel.sync_impl`, and a training thread that writes parameters one at a time.

Two module objects live in a heap (`Mid = Bool`): initially the training wrapper refers to one and
the inference wrapper to its deep copy. Two threads:

* the **inference thread** executes a program of `infer` / `unwrap` operations; inside either it
  reads the parameters of the module it was handed ONE BY ONE (`holding m k seen`);
* the **training thread** executes a program of `train vals` (optimizer step: parameter `k` and its
  gradient are written, one parameter per micro-step, on the training wrapper's CURRENT module)
  and `sync` (`TrainingModel.sync` → `sync_impl`).

Every micro-step performs at most one access to state the two threads share (the lock, the
inference wrapper's module reference, one parameter of one module). `step` is a partial function
of the state and the thread that moves: every interleaving is a schedule `List Tid`.

`Cfg.late = true`  is `unwrap()` as repaired: the module reference is resolved inside
                   `__enter__`, AFTER the lock has been taken;
`Cfg.late = false` is the variant in which `unwrap()` evaluates `self._raw_model` when the context
                   manager is CREATED, before the lock is taken (finding F8).
`Cfg.needSync`     is `has_inference_model and not inference_thread_only` (`TrainingModel._need_sync`):
                   when false, `sync` does nothing (and an inference-only model shares its module).

`obs` (the parameter tuples seen by completed inference operations), `published` (every complete
parameter set that was ever installed as the inference module's, newest first) and `pre` (the
training module's parameters/gradients when the current `sync` started) are bookkeeping only: no
step reads them.
-/
import Pamiq.Model.Util
namespace Pamiq.TorchSync

structure Module where
  params : List Int
  grads : List (Option Int)
  training : Bool
deriving DecidableEq, Repr

/-- Identity of a module object (there are exactly two). -/
abbrev Mid := Bool

structure Heap where
  m0 : Module
  m1 : Module
deriving DecidableEq, Repr

def Heap.get (h : Heap) : Mid → Module
  | false => h.m0
  | true => h.m1

def Heap.set (h : Heap) (i : Mid) (m : Module) : Heap :=
  match i with
  | false => { h with m0 := m }
  | true => { h with m1 := m }

inductive Tid | inf | tr
deriving DecidableEq, Repr

inductive IOp | infer | unwrap
deriving DecidableEq, Repr

inductive TOp
  /-- optimizer step: parameter `k` gets value `vals[k].1` and gradient `vals[k].2` -/
  | train (vals : List (Int × Option Int))
  | sync
deriving DecidableEq, Repr

/-- Program counter of the inference thread. -/
inductive IPc
  | idle
  /-- `infer`: about to enter `with self._lock:` -/
  | inferAcq
  /-- `infer`: lock held, about to evaluate `self._model` -/
  | inferRef
  /-- `unwrap()` called: the context manager is being created -/
  | unwCall
  /-- `__enter__`: about to `self._lock.acquire()`; `cap` = module captured at creation (early variant) -/
  | unwAcq (cap : Option Mid)
  /-- `__enter__` (late variant): lock held, about to resolve the module reference -/
  | unwResolve
  /-- lock held, module `m` in hand, parameters `0..k-1` read so far -/
  | holding (m : Mid) (k : Nat) (seen : List Int)
deriving DecidableEq, Repr

/-- Program counter of the training thread (`sync*` follow `sync_impl` statement by statement). -/
inductive TPc
  | idle
  | write (k : Nat) (vals : List (Int × Option Int))
  /-- `self.model.eval()` -/
  | syncEval
  /-- `grads.append(p.grad); p.grad = None` for parameter `k` -/
  | syncStash (k : Nat)
  /-- right-hand side, first component: `inference_model._raw_model` -/
  | syncReadInf
  /-- right-hand side, second component: `self.model` -/
  | syncReadTr (a : Mid)
  /-- `self.model = a` -/
  | syncSetTr (a b : Mid)
  /-- `inference_model._raw_model = b`: the setter enters `with self._lock:` -/
  | syncAcq (b : Mid)
  /-- `self._model = b` under the lock -/
  | syncSetInf (b : Mid)
  | syncRel
  /-- `self.inference_model._raw_model` (argument of `load_state_dict`) -/
  | syncSdRef
  /-- `.state_dict()`: copy parameter `k` of module `c` -/
  | syncSd (c : Mid) (k : Nat) (sd : List Int)
  /-- `self.model.load_state_dict(sd)`: copy entry `k` into the training wrapper's module -/
  | syncLoad (k : Nat) (sd : List Int)
  /-- `p.grad = grads[i]` for parameter `k` -/
  | syncRestore (k : Nat)
  /-- `self.model.train()` -/
  | syncTrain
  /-- an exception escaped `sync_impl` (IndexError / RuntimeError of `load_state_dict`) -/
  | raised
deriving DecidableEq, Repr

structure Cfg where
  late : Bool
  needSync : Bool
deriving DecidableEq, Repr

structure St where
  heap : Heap
  /-- `TorchInferenceModel._model` -/
  infRef : Mid
  /-- `TorchTrainingModel.model` -/
  trRef : Mid
  /-- `TorchInferenceModel._lock` (non-nested use) -/
  lock : Option Tid := none
  ipc : IPc := .idle
  iprog : List IOp := []
  tpc : TPc := .idle
  tprog : List TOp := []
  /-- local `grads` of `sync_impl` -/
  stash : List (Option Int) := []
  /-- bookkeeping: parameter tuples seen by the completed inference operations -/
  obs : List (List Int) := []
  /-- bookkeeping: complete parameter sets installed for inference so far, newest first -/
  published : List (List Int) := []
  /-- bookkeeping: parameters and gradients of the training module when the current `sync` began -/
  pre : List Int × List (Option Int) := ([], [])
deriving DecidableEq, Repr

/-- What a micro-step does to the state the two threads share (`tau`: nothing visible). -/
inductive Label
  | tau
  | acq
  | rel
  | rparam (m : Mid) (k : Nat) (v : Int)
  | wparam (m : Mid) (k : Nat) (v : Int)
  | setinf (m : Mid)
  /-- `sync()` returned: both references, both parameter lists, the training module's gradients
  and mode -/
  | synced (infM trM : Mid) (pInf pTr : List Int) (gTr : List (Option Int)) (trainingTr : Bool)
deriving DecidableEq, Repr

def syncedLabel (s : St) : Label :=
  .synced s.infRef s.trRef (s.heap.get s.infRef).params (s.heap.get s.trRef).params
    (s.heap.get s.trRef).grads (s.heap.get s.trRef).training

/-- One micro-step of the inference thread. -/
def stepI (cfg : Cfg) (s : St) : Option (Label × St) :=
  match s.ipc with
  | .idle =>
    match s.iprog with
    | [] => none
    | .infer :: rest => some (.tau, { s with ipc := .inferAcq, iprog := rest })
    | .unwrap :: rest => some (.tau, { s with ipc := .unwCall, iprog := rest })
  | .inferAcq =>
    match s.lock with
    | none => some (.acq, { s with lock := some .inf, ipc := .inferRef })
    | some _ => none
  | .inferRef => some (.tau, { s with ipc := .holding s.infRef 0 [] })
  | .unwCall =>
    -- early variant: `UnwrappedContextManager(self._raw_model, …)` reads the reference here
    some (.tau, { s with ipc := .unwAcq (match cfg.late with | true => none | false => some s.infRef) })
  | .unwAcq cap =>
    match s.lock with
    | none =>
      some (.acq, { s with lock := some .inf,
                           ipc := match cap with
                                  | some m => .holding m 0 []
                                  | none => .unwResolve })
    | some _ => none
  | .unwResolve => some (.tau, { s with ipc := .holding s.infRef 0 [] })
  | .holding m k seen =>
    match (s.heap.get m).params[k]? with
    | some v => some (.rparam m k v, { s with ipc := .holding m (k + 1) (seen ++ [v]) })
    | none => some (.rel, { s with lock := none, ipc := .idle, obs := s.obs ++ [seen] })

/-- One micro-step of the training thread. -/
def stepT (cfg : Cfg) (s : St) : Option (Label × St) :=
  let T := s.heap.get s.trRef
  match s.tpc with
  | .idle =>
    match s.tprog with
    | [] => none
    | .train vals :: rest => some (.tau, { s with tpc := .write 0 vals, tprog := rest })
    | .sync :: rest =>
      match cfg.needSync with
      | true => some (.tau, { s with tpc := .syncEval, tprog := rest, pre := (T.params, T.grads) })
      | false => some (syncedLabel s, { s with tprog := rest })
  | .write k vals =>
    match vals[k]? with
    | none => some (.tau, { s with tpc := .idle })
    | some (v, g) =>
      some (.wparam s.trRef k v,
        { s with heap := s.heap.set s.trRef { T with params := T.params.set k v, grads := T.grads.set k g },
                 tpc := .write (k + 1) vals })
  | .syncEval =>
    some (.tau, { s with heap := s.heap.set s.trRef { T with training := false },
                         tpc := .syncStash 0, stash := [] })
  | .syncStash k =>
    match decide (k < T.params.length) with
    | true =>
      match T.grads[k]? with
      | some g =>
        some (.tau, { s with stash := s.stash ++ [g],
                             heap := s.heap.set s.trRef { T with grads := T.grads.set k none },
                             tpc := .syncStash (k + 1) })
      | none => some (.tau, { s with tpc := .raised })
    | false => some (.tau, { s with tpc := .syncReadInf })
  | .syncReadInf => some (.tau, { s with tpc := .syncReadTr s.infRef })
  | .syncReadTr a => some (.tau, { s with tpc := .syncSetTr a s.trRef })
  | .syncSetTr a b => some (.tau, { s with trRef := a, tpc := .syncAcq b })
  | .syncAcq b =>
    match s.lock with
    | none => some (.acq, { s with lock := some .tr, tpc := .syncSetInf b })
    | some _ => none
  | .syncSetInf b =>
    some (.setinf b, { s with infRef := b, tpc := .syncRel,
                              published := (s.heap.get b).params :: s.published })
  | .syncRel => some (.rel, { s with lock := none, tpc := .syncSdRef })
  | .syncSdRef => some (.tau, { s with tpc := .syncSd s.infRef 0 [] })
  | .syncSd c k sd =>
    match (s.heap.get c).params[k]? with
    | some v => some (.rparam c k v, { s with tpc := .syncSd c (k + 1) (sd ++ [v]) })
    | none =>
      -- `load_state_dict` checks the key sets first
      match decide (sd.length = T.params.length) with
      | true => some (.tau, { s with tpc := .syncLoad 0 sd })
      | false => some (.tau, { s with tpc := .raised })
  | .syncLoad k sd =>
    match decide (k < T.params.length) with
    | true =>
      match sd[k]? with
      | some v =>
        some (.wparam s.trRef k v,
          { s with heap := s.heap.set s.trRef { T with params := T.params.set k v },
                   tpc := .syncLoad (k + 1) sd })
      | none => some (.tau, { s with tpc := .raised })
    | false => some (.tau, { s with tpc := .syncRestore 0 })
  | .syncRestore k =>
    match decide (k < T.params.length) with
    | true =>
      match s.stash[k]? with
      | some g =>
        some (.tau, { s with heap := s.heap.set s.trRef { T with grads := T.grads.set k g },
                             tpc := .syncRestore (k + 1) })
      | none => some (.tau, { s with tpc := .raised })
    | false => some (.tau, { s with tpc := .syncTrain })
  | .syncTrain =>
    let s' := { s with heap := s.heap.set s.trRef { T with training := true }, tpc := .idle }
    some (syncedLabel s', s')
  | .raised => none

def step (cfg : Cfg) (s : St) : Tid → Option (Label × St)
  | .inf => stepI cfg s
  | .tr => stepT cfg s

/-- Run a schedule (every step must be enabled). -/
def exec (cfg : Cfg) (s : St) : List Tid → Option St
  | [] => some s
  | t :: sch => (step cfg s t).bind fun r => exec cfg r.2 sch

/-! ### What the property talks about -/

/-- The module object the inference thread is using (handed to the inference procedure inside
`infer`, or yielded by an entered `unwrap()` context). -/
def inUse (s : St) : Option Mid :=
  match s.ipc with
  | .holding m _ _ => some m
  | _ => none

/-- The module object the training thread's NEXT micro-step writes to (a parameter, a gradient or
the mode flag), if it writes at all. -/
def trWrites (s : St) : Option Mid :=
  match s.tpc with
  | .write k vals => match vals[k]? with | some _ => some s.trRef | none => none
  | .syncEval => some s.trRef
  | .syncStash k =>
    match decide (k < (s.heap.get s.trRef).params.length) with | true => some s.trRef | false => none
  | .syncLoad k _ =>
    match decide (k < (s.heap.get s.trRef).params.length) with | true => some s.trRef | false => none
  | .syncRestore k =>
    match decide (k < (s.heap.get s.trRef).params.length) with | true => some s.trRef | false => none
  | .syncTrain => some s.trRef
  | _ => none

/-- Initial states: both threads idle, lock free, the inference module's parameters are the
first published set; with `needSync` the two wrappers refer to DIFFERENT modules of the same
shape (`copy.deepcopy`). -/
structure Init (cfg : Cfg) (s : St) : Prop where
  ipc : s.ipc = .idle
  tpc : s.tpc = .idle
  lock : s.lock = none
  obs : s.obs = []
  published : s.published = [(s.heap.get s.infRef).params]
  distinct : cfg.needSync = true → s.infRef ≠ s.trRef
  len : s.heap.m0.params.length = s.heap.m1.params.length
  wf0 : s.heap.m0.grads.length = s.heap.m0.params.length
  wf1 : s.heap.m1.grads.length = s.heap.m1.params.length

/-- Every state some interleaving reaches from `s0`. -/
inductive Reachable (cfg : Cfg) (s0 : St) : St → Prop
  | init : Reachable cfg s0 s0
  | step {s s' : St} {t : Tid} {l : Label} :
      Reachable cfg s0 s → step cfg s t = some (l, s') → Reachable cfg s0 s'

end Pamiq.TorchSync
