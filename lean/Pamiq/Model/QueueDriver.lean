/- Line protocol for the Queue model (see `Driver.lean`). Import-free.

  queue reset max=none|<int> names=[a,b]   DataUser(RecordingBuffer(max_queue_size)), collectors dict   -> ok | err ValueError
  queue collect <x> t=<rat>               collector.collect(x), clock reads t inside append            -> ok
  queue update                            user.update()            -> the add() calls it made: [x,…]
  queue get_data                          user.get_data()          -> [adds made] [buffer content]
  queue count <rat>                       user.count_data_added_since(t) -> n
  queue save                              user.save_state(path)    -> [adds made] [pickled timestamps]
  queue len                               len(user)                -> n
  queue acquire <name>                    collectors_dict.acquire(name)  -> ok | err KeyError
-/
import Pamiq.Model.Queue
namespace Pamiq.Queue
open Pamiq

structure DSt where
  user : User := { collector := { q := { maxLen := none } }, maxLen := none }
  dict : Dict := { names := [] }

def showErr : Err → String
  | .index => "err IndexError"
  | .key => "err KeyError"
  | .value => "err ValueError"

def parseMax (s : String) : Option (Option Int) :=
  if s = "none" then some none else s.toInt?.map some

def parseNames (s : String) : Option (List String) := parseList (fun x => if x.isEmpty then none else some x) s

def showNats (l : List Nat) : String := showList toString l

def drive (d : DSt) (toks : List String) : DSt × String :=
  match toks with
  | "reset" :: rest =>
    match (kv rest "max").bind parseMax, (kv rest "names").bind parseNames with
    | some m, some names =>
      match User.init m with
      | .ok u => ({ user := u, dict := { names := names } }, "ok")
      | .error e => (d, showErr e)
    | _, _ => (d, "bad-op")
  | ["collect", x, t] =>
    match x.toNat?, (kv [t] "t").bind parseRat with
    | some x, some t => ({ d with user := d.user.collect x t }, "ok")
    | _, _ => (d, "bad-op")
  | ["update"] =>
    match d.user.update with
    | .ok u => ({ d with user := u }, showNats (u.adds.drop d.user.adds.length))
    | .error e => (d, showErr e)
  | ["updatef", k] =>
    match k.toNat? with
    | some k =>
      match d.user.updateF k with
      | .ok (u, raised) =>
        ({ d with user := u }, showNats (u.adds.drop d.user.adds.length) ++ (if raised then " raised" else ""))
      | .error e => (d, showErr e)
    | none => (d, "bad-op")
  | ["get_data"] =>
    match d.user.getData with
    | .ok (u, data) =>
      ({ d with user := u }, showNats (u.adds.drop d.user.adds.length) ++ " " ++ showNats data)
    | .error e => (d, showErr e)
  | ["count", t] =>
    match parseRat t with
    | some t => (d, toString (d.user.countSince t))
    | none => (d, "bad-op")
  | ["save"] =>
    match d.user.saveState with
    | .ok (u, ts) =>
      ({ d with user := u }, showNats (u.adds.drop d.user.adds.length) ++ " " ++ showList showRat ts)
    | .error e => (d, showErr e)
  | ["len"] => (d, toString d.user.len)
  | ["acquire", name] =>
    match d.dict.acquire name with
    | .ok dict => ({ d with dict := dict }, "ok")
    | .error e => (d, showErr e)
  | _ => (d, "bad-op")

end Pamiq.Queue
