/-
Generic micro-step machine for "several threads call methods of one object, each method body
runs under the object's lock" (`with self._lock:` around the whole body), as in
`DataCollector.collect/_move_data`, `TimeController` and `TorchInferenceModel`.

A thread is a flat program of micro-steps:
* `loc f`   — a step on the thread's own local state only (arguments, results, private objects);
* `acq`     — enter `with self._lock:` (enabled only while nobody holds the lock);
* `body g`  — one micro-step (one source line) of a method body: reads/writes the object and the
              thread's locals; only possible while the thread holds the lock;
* `rel`     — leave the `with` block.
The scheduler picks, at every micro-step, which thread moves: a schedule is a list of thread ids.
`σ` = state of the shared object, `τ` = local state of a thread. Import-free.
-/
namespace Pamiq.LockObj

inductive Step (σ τ : Type)
  | loc (f : τ → τ)
  | acq
  | body (g : σ → τ → σ × τ)
  | rel

/-- Point update of a per-thread table. -/
def upd {α : Type} (f : Nat → α) (i : Nat) (v : α) : Nat → α := fun j => if j = i then v else f j

structure Cfg (σ τ : Type) where
  obj : σ
  /-- holder of the lock -/
  lock : Option Nat
  loc : Nat → τ
  /-- remaining program of each thread -/
  prog : Nat → List (Step σ τ)

variable {σ τ : Type}

/-- Thread `i` performs its next micro-step; `none` when it has none or the step is not enabled
(blocked on the lock, or a body step outside / a local step inside a critical section). -/
def step (c : Cfg σ τ) (i : Nat) : Option (Cfg σ τ) :=
  match c.prog i with
  | [] => none
  | .loc f :: rest =>
    if c.lock = some i then none
    else some { c with loc := upd c.loc i (f (c.loc i)), prog := upd c.prog i rest }
  | .acq :: rest =>
    if c.lock = none then some { c with lock := some i, prog := upd c.prog i rest } else none
  | .body g :: rest =>
    if c.lock = some i then
      some { c with obj := (g c.obj (c.loc i)).1, loc := upd c.loc i (g c.obj (c.loc i)).2,
                    prog := upd c.prog i rest }
    else none
  | .rel :: rest =>
    if c.lock = some i then some { c with lock := none, prog := upd c.prog i rest } else none

/-- Run a schedule (every step must be enabled). -/
def exec (c : Cfg σ τ) : List Nat → Option (Cfg σ τ)
  | [] => some c
  | i :: sch => (step c i).bind fun c' => exec c' sch

/-- Is the next micro-step of thread `i` an acquisition? -/
def atAcq (c : Cfg σ τ) (i : Nat) : Bool :=
  match c.prog i with
  | .acq :: _ => true
  | _ => false

/-- The lock-acquisition order of a run: the threads of the `acq` steps, in schedule order. -/
def acqOrder (c : Cfg σ τ) : List Nat → List Nat
  | [] => []
  | i :: sch =>
    match step c i with
    | none => []
    | some c' => (if atAcq c i then [i] else []) ++ acqOrder c' sch

/-! ### The atomic reference -/

/-- Execute the leading body steps of a program and the closing `rel`. -/
def runBody : σ → τ → List (Step σ τ) → σ × τ × List (Step σ τ)
  | s, l, .body g :: rest => runBody (g s l).1 (g s l).2 rest
  | s, l, .rel :: rest => (s, l, rest)
  | s, l, p => (s, l, p)

/-- Execute the leading local steps of a program. -/
def runLoc : τ → List (Step σ τ) → τ × List (Step σ τ)
  | l, .loc f :: rest => runLoc (f l) rest
  | l, p => (l, p)

/-- Thread `i`, standing at an `acq`, executes the whole critical section atomically (and then
its own local steps up to its next `acq`). -/
def atomicCall (c : Cfg σ τ) (i : Nat) : Cfg σ τ :=
  match c.prog i with
  | .acq :: rest =>
    let r := runBody c.obj (c.loc i) rest
    let r' := runLoc r.2.1 r.2.2
    { c with obj := r.1, loc := upd c.loc i r'.1, prog := upd c.prog i r'.2 }
  | _ => c

/-- The run that executes the critical sections atomically, in the given order. -/
def serial (c : Cfg σ τ) (order : List Nat) : Cfg σ τ := order.foldl atomicCall c

/-- Normal form of a configuration: the critical section in progress (if any) is completed and
every thread has done its local steps up to its next `acq`. A configuration in which nobody holds
the lock and no thread stands at a local step is its own normal form. -/
def norm (c : Cfg σ τ) : Cfg σ τ :=
  match c.lock with
  | none =>
    { obj := c.obj, lock := none
      loc := fun j => (runLoc (c.loc j) (c.prog j)).1
      prog := fun j => (runLoc (c.loc j) (c.prog j)).2 }
  | some h =>
    let r := runBody c.obj (c.loc h) (c.prog h)
    { obj := r.1, lock := none
      loc := fun j => if j = h then (runLoc r.2.1 r.2.2).1 else (runLoc (c.loc j) (c.prog j)).1
      prog := fun j => if j = h then (runLoc r.2.1 r.2.2).2 else (runLoc (c.loc j) (c.prog j)).2 }

end Pamiq.LockObj
