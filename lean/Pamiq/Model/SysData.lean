/-
`SysData` — the thread protocol `Proto` together with the *values* the components hold
(DESIGN.md §7.4 "Model additions"): agent / environment step counters, the collector queue
(`data/interface.py DataCollector`, bounded, oldest dropped), the samples delivered to the buffer
(`DataUser.update`), per-trainer run counters, an abstract system clock, and the state directory a
save is writing.

It is a product: a `Proto` action moves the protocol state exactly as `Proto.step` does (so every
`Proto` theorem applies to the protocol component of every reachable product state); a *data* action
changes component values and is enabled only where the real code can perform it:

  agentStep / envObserve / envAffect   inside a step callback of the inference thread (thread 0)
  trainRun i                           inside a step callback of the training thread (thread 1)
  update                               `DataUser.update()` by the training thread during its tick
                                       (`is_trainable`, `get_data`)
  clockTick                            real time passing while the system clock is not paused
  write c                              a component's `save_state` while the control thread writes a state
                                       (`DataUser.save_state` flushes the collector first)

Thread numbering is the harness's (`protofollow.TID`): 0 = inference, 1 = training.
-/
import Pamiq.Model.Proto
namespace Pamiq.SysData
open Pamiq.Proto

/-- The values held by the components. -/
structure Vals where
  agentSteps : Nat := 0
  envObs : Nat := 0
  envAct : Nat := 0
  trainRuns : List Nat := []       -- runs of trainer `i`
  queue : List Nat := []           -- collector queue, oldest first
  delivered : List Nat := []       -- every `buffer.add`, in order
  clock : Nat := 0                 -- abstract system time
deriving DecidableEq, Repr

/-- What a consistent snapshot must show: the component values, with the samples still in the
collector counted as part of the data (a save flushes them). -/
structure Obs where
  agentSteps : Nat := 0
  envObs : Nat := 0
  envAct : Nat := 0
  trainRuns : List Nat := []
  data : List Nat := []
  clock : Nat := 0
deriving DecidableEq, Repr

def Vals.obs (v : Vals) : Obs :=
  { agentSteps := v.agentSteps, envObs := v.envObs, envAct := v.envAct, trainRuns := v.trainRuns,
    data := v.delivered ++ v.queue, clock := v.clock }

inductive Comp | agent | env | data | trainer (i : Nat) | time
deriving DecidableEq, Repr

/-- What the save in progress has written so far. -/
structure Snap where
  agentSteps : Option Nat := none
  env : Option (Nat × Nat) := none
  data : Option (List Nat) := none
  trainRuns : List (Nat × Nat) := []      -- (trainer, runs) in writing order
  clock : Option Nat := none
deriving DecidableEq, Repr

structure D where
  qcap : Option Nat := none       -- `max_queue_size` of the collector
  v : Vals := {}
  ack : Obs := {}                 -- ghost: the observable values at the last acknowledged pause
  snap : Snap := {}
deriving DecidableEq, Repr

/-- `deque(maxlen=cap).append`. -/
def push (cap : Option Nat) (q : List Nat) (x : Nat) : List Nat :=
  match cap with
  | none => q ++ [x]
  | some c => (q ++ [x]).drop ((q ++ [x]).length - c)

def incrAt (l : List Nat) (i : Nat) : List Nat :=
  if i < l.length then l.set i (l.getD i 0 + 1) else l

/-- `DataUser.update()`: the whole queue is handed over, in order. -/
def Vals.flush (v : Vals) : Vals := { v with delivered := v.delivered ++ v.queue, queue := [] }

inductive DAct
  | p (a : Proto.Act)
  | agentStep | envObserve | envAffect
  | trainRun (i : Nat)
  | update
  | clockTick
  | write (c : Comp)
deriving DecidableEq, Repr

def D.write (d : D) : Comp → D
  | .agent => { d with snap := { d.snap with agentSteps := some d.v.agentSteps } }
  | .env => { d with snap := { d.snap with env := some (d.v.envObs, d.v.envAct) } }
  | .data => { d with v := d.v.flush, snap := { d.snap with data := some d.v.flush.delivered } }
  | .trainer i => { d with snap := { d.snap with trainRuns := d.snap.trainRuns ++ [(i, d.v.trainRuns.getD i 0)] } }
  | .time => { d with snap := { d.snap with clock := some d.v.clock } }

/-- The data effect of a protocol action. -/
def protoEffect (d : D) : Proto.Act → D
  | .cClockPause => { d with ack := d.v.obs }
  | .cSaveBegin => { d with snap := {} }
  | .cFinalSaveBegin => { d with snap := {} }
  | _ => d

def inStep (s : St) (t : Nat) : Bool :=
  match s.thr[t]? with
  | some th => th.inCb == some .step
  | none => false

def inTick (s : St) (t : Nat) : Bool :=
  match s.thr[t]? with
  | some th => th.pc == .tick
  | none => false

def dstep (s : St) (d : D) : DAct → Option (St × D)
  | .p a =>
    match Proto.step s a with
    | some s' => some (s', protoEffect d a)
    | none => none
  | .agentStep =>
    if inStep s 0 then
      some (s, { d with v := { d.v with agentSteps := d.v.agentSteps + 1,
                                        queue := push d.qcap d.v.queue (d.v.agentSteps + 1) } })
    else none
  | .envObserve => if inStep s 0 then some (s, { d with v := { d.v with envObs := d.v.envObs + 1 } }) else none
  | .envAffect => if inStep s 0 then some (s, { d with v := { d.v with envAct := d.v.envAct + 1 } }) else none
  | .trainRun i =>
    if inStep s 1 then some (s, { d with v := { d.v with trainRuns := incrAt d.v.trainRuns i } }) else none
  | .update => if inTick s 1 then some (s, { d with v := d.v.flush }) else none
  | .clockTick => if s.clockPaused = false then some (s, { d with v := { d.v with clock := d.v.clock + 1 } }) else none
  | .write c =>
    if s.ctl.pc = .svIn ∨ s.ctl.pc = .finalIn then some (s, d.write c) else none

def drun (s : St) (d : D) : List DAct → Option (St × D)
  | [] => some (s, d)
  | a :: rest =>
    match dstep s d a with
    | some (s', d') => drun s' d' rest
    | none => none

def dinit (n mx : Nat) (qcap : Option Nat) (v0 : Vals) : St × D :=
  (Proto.init n mx, { qcap := qcap, v := v0, ack := v0.obs })

end Pamiq.SysData
