/- Line protocol for the Clock model (see `Driver.lean`). Import-free. -/
import Pamiq.Model.Clock
namespace Pamiq.Clock
open Pamiq

structure Reads where
  now : R3
  t : List Rat
  p : List Rat
  m : List Rat

/-- k-th reading (0-based) of each source made by the implementation during this operation,
falling back to the frozen instant when the implementation made fewer reads. -/
def Reads.nth (rd : Reads) (k : Nat) : R3 :=
  ⟨(rd.t[k]?).getD rd.now.t, (rd.p[k]?).getD rd.now.p, (rd.m[k]?).getD rd.now.m⟩

def parseR3 (s : String) : Option R3 :=
  match s.splitOn "," with
  | [a, b, c] => do pure ⟨← parseRat a, ← parseRat b, ← parseRat c⟩
  | _ => none

def parseReads (toks : List String) : Option Reads := do
  let now ← parseR3 (← kv toks "now")
  let t ← parseList parseRat ((kv toks "t").getD "[]")
  let p ← parseList parseRat ((kv toks "p").getD "[]")
  let m ← parseList parseRat ((kv toks "m").getD "[]")
  pure ⟨now, t, p, m⟩

def parseSrc : String → Option Src
  | "time" => some .time | "perf_counter" => some .perf | "monotonic" => some .mono | _ => none

def showSaved (d : Saved) : String := s!"{showRat d.t},{showRat d.p},{showRat d.m}"

/-- One protocol line → new state and reply. `variant` = `exportReanchors`. -/
def drive (variant : Bool) (c : Ctl) (toks : List String) : Ctl × String :=
  match toks with
  | "init" :: rest =>
    match parseReads rest with
    | some rd => (init (rd.nth 0) (rd.nth 1), "ok")
    | none => (c, "bad-op")
  | "read" :: src :: rest =>
    match parseSrc src, parseReads rest with
    | some s, some rd => (c, showRat (c.read s ((rd.nth 0).get s)))
    | _, _ => (c, "bad-op")
  | "set_scale" :: k :: rest =>
    match parseRat k, parseReads rest with
    | some k, some rd =>
      -- while paused `_update_scaled_anchor_values` makes no stdlib read, so the anchors get the
      -- first reading of each source
      let r2 := if c.paused then rd.nth 0 else rd.nth 1
      match setScale c k (rd.nth 0) r2 with
      | .ok c' => (c', "ok")
      | .error _ => (c, "err AssertionError")
    | _, _ => (c, "bad-op")
  | "get_scale" :: _ => (c, showRat c.scale)
  | "is_paused" :: _ => (c, showBool c.paused)
  | "pause" :: rest =>
    match parseReads rest with
    | some rd => (pause c (rd.nth 0), "ok")
    | none => (c, "bad-op")
  | "resume" :: rest =>
    match parseReads rest with
    | some rd => (resume c (rd.nth 0), "ok")
    | none => (c, "bad-op")
  | "state_dict" :: rest =>
    match parseReads rest with
    | some rd =>
      -- when running, `_update_scaled_anchor_values` makes the first read of each source and
      -- `_update_anchor_values` the second; when paused only the latter reads.
      let r2 := if c.paused then rd.nth 0 else rd.nth 1
      let (c', d) := stateDict variant c (rd.nth 0) r2
      (c', showSaved d)
    | none => (c, "bad-op")
  | "load_state_dict" :: d :: rest =>
    match parseR3 d, parseReads rest with
    | some d, some rd => (loadStateDict c ⟨d.t, d.p, d.m⟩ (rd.nth 0), "ok")
    | _, _ => (c, "bad-op")
  | "sleep" :: d :: _ =>
    match parseRat d with
    | some d => (c, match sleepReal c d with | some x => showRat x | none => "none")
    | none => (c, "bad-op")
  | _ => (c, "bad-op")

end Pamiq.Clock
