/- Line protocol: `stats reset <guarded>`, `stats tick <fires>` → `ok n=<k> logged=[…]` | `err StatisticsError`;
   `uptime <scale> <limit> [e0,e1,…]` → first reached check or `none`. -/
import Pamiq.Model.Bookkeep
namespace Pamiq.Bookkeep
open Pamiq

structure DSt where
  guarded : Bool := true
  st : Stats := {}

def drive (d : DSt) (toks : List String) : DSt × String :=
  match toks with
  | ["reset", g] => match parseBool g with
    | some g => ({ guarded := g, st := {} }, "ok")
    | none => (d, "bad-op")
  | ["tick", f] => match parseBool f with
    | some f => match tick d.guarded d.st f with
      | .ok s' => ({ d with st := s' }, s!"ok n={s'.n} logged={showList toString s'.logged}")
      | .error _ => (d, "err StatisticsError")
    | none => (d, "bad-op")
  | ["uptime", sc, lim, es] =>
    match parseRat sc, parseRat lim, parseList parseRat es with
    | some sc, some lim, some es =>
      (d, match firstReached sc lim es with | some e => showRat e | none => "none")
    | _, _, _ => (d, "bad-op")
  | _ => (d, "bad-op")

end Pamiq.Bookkeep
