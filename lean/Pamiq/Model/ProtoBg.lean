/-
A background thread's own transition graph, cut out of `Proto.bstep` the way `ProtoCtl.cedge` is cut out of
`cstep`: what an action of the thread does to the thread's record, given the values the shared flags have
at that instant (`res` = resume event, `sd` = shutdown event) and a free resume lock. `bedge` runs `bstep`
itself on a synthetic state holding only this thread; `Lemmas/ProtoBg.lean` proves that on every state
`bstep` acts on the thread's record as `bedge` says. The translated `ControllerCommandHandler`
(`Gen/CommandHandlerTie.lean`) is interpreted over this graph.
-/
import Pamiq.Model.Proto
namespace Pamiq.Proto

/-- a state with the given flag values, a free lock, and this thread only -/
def synthB (th : BThread) (res sd : Bool) : St := { resume := res, shutdown := sd, thr := [th] }

/-- the thread's graph: `res`, `sd` are the values of the resume / shutdown events at this instant -/
def bedge (th : BThread) (a : Act) (res sd : Bool) : Option BThread :=
  (bstep (synthB th res sd) 0 th a).bind (fun s' => s'.thr[0]?)

/-- what the environment has to contribute: the resume lock is free when the thread takes it -/
def envOkB (s : St) (a : Act) : Prop :=
  match a with
  | .bAcquire _ => s.ctl.holds = false ∧ s.thr.all (fun x => !x.holds) = true
  | _ => True

/-- follow a sequence of actions, each with the flag values it sees -/
def brun (th : BThread) : List (Act × Bool × Bool) → Option BThread
  | [] => some th
  | (a, res, sd) :: rest => match bedge th a res sd with
    | some th' => brun th' rest
    | none => none

end Pamiq.Proto
