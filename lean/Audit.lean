/-
Axiom audit: `lake env lean --run Audit.lean Pamiq.Props.C06 [more modules]`
prints one line per theorem declared in each given module:
  `thm <module> <name> axioms=[a,b,c]`
and one line `defs <module> <n>` with the number of non-theorem declarations, so that the caller
can verify that *every* theorem of a property file was looked at and which axioms it rests on.
-/
import Lean
open Lean

def isInternalName (n : Name) : Bool :=
  n.isInternalDetail || n.isImplementationDetail

unsafe def main (args : List String) : IO UInt32 := do
  initSearchPath (← findSysroot)
  unsafe enableInitializersExecution
  let mods := args.map String.toName
  let env ← importModules (mods.toArray.map fun m => { module := m }) {} (trustLevel := 1024)
    (loadExts := true)
  for m in mods do
    let some idx := env.getModuleIdx? m
      | IO.eprintln s!"module {m} not found"; return 1
    let mut nThm := 0
    let mut nDef := 0
    let names := env.header.moduleData[idx.toNat]!.constNames
    for name in names do
      let some ci := env.find? name | continue
      match ci with
      | .thmInfo _ =>
        if isInternalName name then continue
        let (axsArr, _) ← (collectAxioms name : CoreM (Array Name)).toIO
          { fileName := "<audit>", fileMap := default } { env := env }
        let axs := axsArr.toList.map toString
        IO.println s!"thm {m} {name} axioms=[{",".intercalate axs}]"
        nThm := nThm + 1
      | .axiomInfo _ =>
        IO.println s!"axiom {m} {name}"
      | _ => nDef := nDef + 1
    IO.println s!"summary {m} theorems={nThm} other={nDef}"
  return 0
