import Pamiq.Model.Util
import Pamiq.Model.Clock
import Pamiq.Model.ClockDriver
import Pamiq.Props.C06
