/-
Line-protocol driver for the executable models: one line in, one line out.
`lake env lean --run Driver.lean < ops.txt`. The first token selects the model.
Unknown or malformed lines answer `bad-op` (never defaulted).
-/
import Pamiq.Model.ClockDriver
import Pamiq.Model.ProtoDriver
import Pamiq.Model.WebQDriver
import Pamiq.Model.TreeDriver
import Pamiq.Model.ModelsDriver
import Pamiq.Model.BufferDriver
import Pamiq.Model.KeeperDriver
import Pamiq.Model.BookkeepDriver
import Pamiq.Model.SchedDriver
import Pamiq.Model.AdjustDriver
import Pamiq.Model.TrainerDriver
import Pamiq.Model.GymDriver
import Pamiq.Model.QueueDriver
import Pamiq.Model.TorchSyncDriver
import Pamiq.Model.PersistDriver
import Pamiq.Model.SysDataDriver
import Pamiq.Model.TorchTrainerDriver
import Pamiq.Model.TickDriver
open Pamiq

structure DState where
  clock : Clock.Ctl := Clock.init ⟨0, 0, 0⟩ ⟨0, 0, 0⟩
  clockVariant : Bool := true
  proto : Proto.St := {}
  protoCov : List String := []      -- (action @ program counter) pairs followed since the last `proto cov`
  webq : WebQ.Q := { cap := 1 }
  -- C12 Tree
  tree : Tree.DSt := {}
  -- C14 Models
  models : Option Models.Sys := none
  -- C11 (Buffer)
  buf : Buffer.BufSt := {}
  -- C18 (Keeper)
  keeper : Option Keeper.St := none
  stats : Bookkeep.DSt := {}
  -- C15 Sched / C16 Adjust / C13 Trainer
  sched : Sched.DSt := {}
  adjust : Adjust.DSt := {}
  trainer : Trainer.DSt := {}
  -- Gym (C20)
  gym : Gym.DSt := {}
  -- Queue (C07)
  queue : Queue.DSt := {}
  -- C19 (TorchSync)
  torchsync : TorchSync.DSt := none
  -- C05/C10 (Persist)
  persist : Persist.DSt := {}
  -- C04 data layer (SysData)
  sysdata : SysData.DSt := {}
  -- C05 PyTorch trainer part
  ttrainer : TorchTrainer.DSt := {}

def handle (st : DState) (line : String) : DState × String :=
  match (line.trimAscii.toString.splitOn " ").filter (· ≠ "") with
  | "clock" :: "variant" :: v :: _ =>
    match parseBool v with
    | some b => ({ st with clockVariant := b }, "ok")
    | none => (st, "bad-op")
  | "clock" :: rest =>
    let (c, out) := Clock.drive st.clockVariant st.clock rest
    ({ st with clock := c }, out)
  | "tick" :: rest => (st, Tick.drive rest)
  | ["proto", "cov"] =>
    ({ st with protoCov := [] }, "[" ++ ",".intercalate st.protoCov ++ "]")
  | "proto" :: rest =>
    let (p, out) := Proto.drive st.proto rest
    let cov := match rest with
      | "act" :: a =>
        if out.startsWith "ok" then
          match Proto.covKey st.proto a with
          | some k => if st.protoCov.contains k then st.protoCov else k :: st.protoCov
          | none => st.protoCov
        else st.protoCov
      | _ => st.protoCov
    ({ st with proto := p, protoCov := cov }, out)
  | "webq" :: rest =>
    let (w, out) := WebQ.drive st.webq rest
    ({ st with webq := w }, out)
  -- C12 Tree
  | "tree" :: rest =>
    let (t, out) := Tree.drive st.tree rest
    ({ st with tree := t }, out)
  -- C14 Models
  | "models" :: rest =>
    let (m, out) := Models.drive st.models rest
    ({ st with models := m }, out)
  -- C11 (Buffer)
  | "buf" :: rest =>
    let (b, out) := Buffer.drive st.buf rest
    ({ st with buf := b }, out)
  -- C18 (Keeper)
  | "keeper" :: rest =>
    let (k, out) := Keeper.drive st.keeper rest
    ({ st with keeper := k }, out)
  | "stats" :: rest =>
    let (b, out) := Bookkeep.drive st.stats rest
    ({ st with stats := b }, out)
  | "sched" :: rest =>
    let (d, out) := Sched.drive st.sched rest
    ({ st with sched := d }, out)
  | "adjust" :: rest =>
    let (d, out) := Adjust.drive st.adjust rest
    ({ st with adjust := d }, out)
  | "trainer" :: rest =>
    let (d, out) := Trainer.drive st.trainer rest
    ({ st with trainer := d }, out)
  -- Gym (C20)
  | "gym" :: rest =>
    let (d, out) := Gym.drive st.gym rest
    ({ st with gym := d }, out)
  -- Queue (C07)
  | "queue" :: rest =>
    let (d, out) := Queue.drive st.queue rest
    ({ st with queue := d }, out)
  -- C19 (TorchSync)
  | "torchsync" :: rest =>
    let (t, out) := TorchSync.drive st.torchsync rest
    ({ st with torchsync := t }, out)
  -- C05/C10 (Persist)
  | "persist" :: rest =>
    let (p, out) := Persist.drive st.persist rest
    ({ st with persist := p }, out)
  | "sysdata" :: rest =>
    let (p, out) := SysData.drive st.sysdata rest
    ({ st with sysdata := p }, out)
  | "ttrainer" :: rest =>
    let (p, out) := TorchTrainer.drive st.ttrainer rest
    ({ st with ttrainer := p }, out)
  | _ => (st, "bad-op")

partial def loop (h : IO.FS.Stream) (out : IO.FS.Stream) (st : DState) : IO Unit := do
  let line ← h.getLine
  if line.isEmpty then return ()
  let (st', reply) := handle st line
  out.putStrLn reply
  out.flush
  loop h out st'

def main : IO Unit := do
  let stdin ← IO.getStdin
  let stdout ← IO.getStdout
  loop stdin stdout {}
