/-
Line-protocol driver for the executable models: one line in, one line out.
`lake env lean --run Driver.lean < ops.txt`. The first token selects the model.
Unknown or malformed lines answer `bad-op` (never defaulted).
-/
import Pamiq.Model.ClockDriver
open Pamiq

structure DState where
  clock : Clock.Ctl := Clock.init ⟨0, 0, 0⟩ ⟨0, 0, 0⟩
  clockVariant : Bool := true

def handle (st : DState) (line : String) : DState × String :=
  match (line.trimAscii.toString.splitOn " ").filter (· ≠ "") with
  | "clock" :: "variant" :: v :: _ =>
    match parseBool v with
    | some b => ({ st with clockVariant := b }, "ok")
    | none => (st, "bad-op")
  | "clock" :: rest =>
    let (c, out) := Clock.drive st.clockVariant st.clock rest
    ({ st with clock := c }, out)
  | _ => (st, "bad-op")

partial def loop (h : IO.FS.Stream) (out : IO.FS.Stream) (st : DState) : IO Unit := do
  let line ← h.getLine
  if line.isEmpty then return ()
  let (st', reply) := handle st line
  out.putStrLn reply
  out.flush
  loop h out st'

def main : IO Unit := do
  let stdin ← IO.getStdin
  let stdout ← IO.getStdout
  loop stdin stdout {}
