"""Python -> Lean translation of a *control-flow dominated* class (DESIGN §2, third translator): the methods of
`ControlThread` become Lean actions in `StateT W Option` whose only effects are

  * `call n`     - a call on a collaborator / module whose value is not used (`self._controller.pause()`,
                   `time.pause()`, `self._state_store.save_state()`): one log entry `(n, none)`,
  * `ask n`      - a call / property whose Boolean value steers the control flow
                   (`self._controller.is_pause()`, `self._save_state_condition()`, `self.is_max_uptime_reached`):
                   consumes the next answer of the world's answer list, log entry `(n, some answer)`,
  * the command queue of the web API (`has_commands()` reads it, `receive_command()` pops it),
  * Boolean attributes of `self` assigned outside `__init__` (`_running`).

Control flow is translated in continuation-passing style (a `return` drops the continuation, an `if` in the
middle of a block binds the rest of the block once and uses it in both branches, `for _ in range(n)` and `while c`
become structurally recursive helper definitions - the `while` on a fuel argument whose sufficiency the tie
theorems prove). `self.m()` is either the translated `m` (inlined semantics) or, for the names in `opaque`,
one log entry `self.m` (used to tie one level of the call tree at a time). `super().m()` is resolved through the
given base classes; a body that is only a docstring / `pass` contributes nothing. Logging calls are dropped.
Anything else raises `Untranslatable` and nothing is claimed for the class.
"""
from __future__ import annotations

import ast
import hashlib
from pathlib import Path

from translate import Untranslatable

PRELUDE = """structure W where
  running : Bool := true
  ans : List Bool := []
  cmds : List Tick.Cmd := []
  log : List (String × Option Bool) := []
deriving DecidableEq, Repr

abbrev M := StateT W Option
def call (n : String) : M Unit := modify fun w => { w with log := w.log ++ [(n, none)] }
def ask (n : String) : M Bool := do
  let w ← get
  match w.ans with
  | a :: rest => set { w with ans := rest, log := w.log ++ [(n, some a)] }; pure a
  | [] => failure
def hasCmds : M Bool := do return !(← get).cmds.isEmpty
def recv : M Tick.Cmd := do
  let w ← get
  match w.cmds with
  | c :: rest => set { w with cmds := rest, log := w.log ++ [("receive_command", none)] }; pure c
  | [] => failure
"""


def lname(n: str) -> str:
    return n.lstrip("_")


class SkelTr:
    def __init__(self, repo: Path, spec: dict, opaque=(), trace_calls: bool = False) -> None:
        self.spec, self.opaque = spec, set(opaque)
        self.trace_calls = trace_calls      # log `enter m` / `ret m [value]` around every translated method
        self.src: dict[str, str] = {}
        self.classes: list[tuple[str, ast.ClassDef]] = []
        for rel, cls in [(spec["rel"], spec["cls"])] + list(spec.get("bases", [])):
            path = repo / "src" / "pamiq_core" / rel
            try:
                text = path.read_text()
                tree = ast.parse(text)
            except (OSError, SyntaxError) as e:
                raise Untranslatable(f"cannot read {rel}: {e}")
            self.src[rel] = text
            c = next((n for n in ast.walk(tree) if isinstance(n, ast.ClassDef) and n.name == cls), None)
            if c is None:
                raise Untranslatable(f"class {cls} not found in {rel}")
            self.classes.append((rel, c))
        self.own = {n.name: n for n in self.classes[0][1].body if isinstance(n, ast.FunctionDef)}
        self.props = {n.name for n in self.own.values()
                      if any(isinstance(d, ast.Name) and d.id == "property" for d in n.decorator_list)}
        self.helpers: list[str] = []
        self.loops: list[tuple[str, str]] = []      # (text of `continue`, text of `break`) of the enclosing loops
        self.super_level = 1                        # where `super()` starts looking in the chain of bases
        self.nhelp = 0

    # ---- resolution ------------------------------------------------------------------------------------
    def base_method(self, name: str) -> ast.FunctionDef | None:
        for rel, c in self.classes[1:]:
            for n in c.body:
                if isinstance(n, ast.FunctionDef) and n.name == name:
                    return n
        return None

    def base_method_from(self, name: str, level: int):
        """The method `name` in the first base class at position >= level (1 = the first base), and that position."""
        for i, (rel, c) in enumerate(self.classes[1:], start=1):
            if i < level:
                continue
            for n in c.body:
                if isinstance(n, ast.FunctionDef) and n.name == name:
                    return n, i
        return None, level

    @staticmethod
    def trivial(fn: ast.FunctionDef) -> bool:
        return all(isinstance(s, ast.Pass) or
                   (isinstance(s, ast.Expr) and isinstance(s.value, ast.Constant) and isinstance(s.value.value, str))
                   for s in fn.body)

    @staticmethod
    def q(n: str) -> str:
        """The Lean string expression for a call name (a name built from a cursor value is a concatenation)."""
        return f'("{n}")' if "++" in n else f'"{n}"'

    def self_attr(self, e: ast.expr) -> str | None:
        if isinstance(e, ast.Attribute) and isinstance(e.value, ast.Name) and e.value.id == "self":
            return e.attr
        return None

    def collab_call(self, e: ast.expr) -> str | None:
        """`self._x.m(...)` / `module.m(...)` / `self._callable()` -> the log name, else None."""
        if not isinstance(e, ast.Call):
            return None
        f = e.func
        if isinstance(f, ast.Attribute):
            a = self.self_attr(f.value)
            if a is not None and a in self.spec["collaborators"]:
                return f"{lname(a)}.{f.attr}"
            if isinstance(f.value, ast.Name) and f.value.id in self.spec.get("modules", ()):
                return f"{f.value.id}.{f.attr}"
            # `module.Class.method(...)`: the dotted name
            parts, cur = [f.attr], f.value
            while isinstance(cur, ast.Attribute):
                parts.append(cur.attr)
                cur = cur.value
            if isinstance(cur, ast.Name) and cur.id in self.spec.get("modules", ()) and len(parts) > 1:
                return ".".join([cur.id] + parts[::-1])
        a = self.self_attr(f)
        if a is not None and a in self.spec.get("callables", ()):
            return lname(a)
        if isinstance(f, ast.Attribute) and isinstance(f.value, ast.Name) and f.value.id in getattr(self, "elem_locals", {}):
            coll, v = self.elem_locals[f.value.id]
            return f"{coll}[\" ++ toString {v} ++ \"].{f.attr}"
        return None

    # ---- expressions (Boolean) -------------------------------------------------------------------------
    def bexpr(self, e: ast.expr, locs: set[str]) -> str:
        if isinstance(e, ast.Constant) and isinstance(e.value, bool):
            return "true" if e.value else "false"
        if isinstance(e, ast.UnaryOp) and isinstance(e.op, ast.Not):
            return f"(!{self.bexpr(e.operand, locs)})"
        if isinstance(e, ast.Name) and e.id in locs:
            return e.id
        if isinstance(e, ast.BoolOp) and len(e.values) == 2:
            # short-circuit: the right operand (it may be a call) is evaluated only when the left one does not decide
            a, b = self.bexpr(e.values[0], locs), self.bexpr(e.values[1], locs)
            if isinstance(e.op, ast.Or):
                return f"(← (if {a} then pure true else (do pure {b})))"
            return f"(← (if {a} then (do pure {b}) else pure false))"
        if isinstance(e, ast.Compare) and len(e.ops) == 1 and isinstance(e.comparators[0], ast.Constant) \
                and isinstance(e.comparators[0].value, int) and not isinstance(e.comparators[0].value, bool) \
                and isinstance(e.left, ast.Call) and isinstance(e.left.func, ast.Name) and e.left.func.id == "len" \
                and len(e.left.args) == 1 and self.self_attr(e.left.args[0]) in self.spec.get("len_fields", {}):
            # `len(self._x) <op> k`: the length is a natural number given from outside
            op = {ast.Eq: "=", ast.NotEq: "≠", ast.Lt: "<", ast.LtE: "≤", ast.Gt: ">", ast.GtE: "≥"}.get(type(e.ops[0]))
            if op is None:
                raise Untranslatable(ast.unparse(e))
            return f"decide (cfg.{self.spec['len_fields'][self.self_attr(e.left.args[0])]} {op} {e.comparators[0].value})"
        if isinstance(e, ast.Compare) and len(e.ops) == 1 and isinstance(e.comparators[0], ast.Constant) \
                and e.comparators[0].value is None and isinstance(e.ops[0], (ast.Is, ast.IsNot)):
            a = self.self_attr(e.left)
            if a in self.spec.get("opt_state", {}):
                fld = self.spec["opt_state"][a]
                return f"(!(← get).{fld})" if isinstance(e.ops[0], ast.Is) else f"(← get).{fld}"
            flag = self.spec.get("flags", {}).get(a or "")
            if flag is None:
                raise Untranslatable(f"`is None` test on {ast.unparse(e.left)}")
            return f"(!cfg.{flag})" if isinstance(e.ops[0], ast.Is) else f"cfg.{flag}"
        q = self.spec.get("queue", {})
        if isinstance(e, ast.Call) and isinstance(e.func, ast.Attribute):
            a = self.self_attr(e.func.value)
            if a is not None and f"{a}.{e.func.attr}" in q:
                return f"(← {q[f'{a}.{e.func.attr}']})"
            if a is None and self.self_attr(e.func) is not None and e.func.attr in self.own and not e.args:
                m = e.func.attr
                if m in self.opaque:
                    return f"(← ask \"self.{m}\")"
                self.called.add(m)
                return f"(← {m} cfg)"
        n = self.collab_call(e)
        if n is not None:
            return f"(← ask {self.q(n)})"
        a = self.self_attr(e)
        if a is not None:
            if a in self.spec.get("bool_fields", {}):
                return f"(← get).{self.spec['bool_fields'][a]}"
            if a in self.props or a in self.spec.get("props", ()):
                if a in self.spec.get("props", ()):
                    return f"(← ask \"{a}\")"
        raise Untranslatable(f"unsupported condition `{ast.unparse(e)}`")

    # ---- natural-number expressions over `self` (a cursor, a length) ------------------------------------
    def nexpr(self, e: ast.expr) -> str:
        if isinstance(e, ast.Constant) and isinstance(e.value, int) and not isinstance(e.value, bool) and e.value >= 0:
            return str(e.value)
        a = self.self_attr(e)
        if a is not None and a in self.spec.get("nat_state", {}):
            return f"w.{self.spec['nat_state'][a]}"
        if isinstance(e, ast.Call) and isinstance(e.func, ast.Name) and e.func.id == "len" and len(e.args) == 1 \
                and self.self_attr(e.args[0]) in self.spec.get("len_fields", {}):
            return f"cfg.{self.spec['len_fields'][self.self_attr(e.args[0])]}"
        if isinstance(e, ast.BinOp) and isinstance(e.op, (ast.Add, ast.Mod, ast.Mult)):
            op = {ast.Add: "+", ast.Mod: "%", ast.Mult: "*"}[type(e.op)]
            return f"({self.nexpr(e.left)} {op} {self.nexpr(e.right)})"
        raise Untranslatable(f"unsupported number `{ast.unparse(e)}`")

    # ---- statements, continuation-passing --------------------------------------------------------------
    def is_log(self, s: ast.stmt) -> bool:
        return isinstance(s, ast.Expr) and isinstance(s.value, ast.Call) and isinstance(s.value.func, ast.Attribute) \
            and self.self_attr(s.value.func.value) in self.spec.get("skip", ())

    def blk(self, body: list[ast.stmt], k: str, ind: str, ret: str, locs: set[str], mname: str) -> list[str]:
        """Lines of a `do` block executing `body` and then the action `k` (a Lean term of type `M ret`)."""
        out: list[str] = []
        for idx, s in enumerate(body):
            rest = body[idx + 1:]
            if self.is_log(s) or isinstance(s, ast.Pass) or \
                    (isinstance(s, ast.Expr) and isinstance(s.value, ast.Constant) and isinstance(s.value.value, str)):
                continue
            if isinstance(s, ast.Return):
                if s.value is None:
                    if self.trace_calls:
                        out.append(f"{ind}call \"ret {mname}\"")
                    out.append(f"{ind}pure ()")
                else:
                    v = self.bexpr(s.value, locs)
                    if self.trace_calls:
                        out.append(f"{ind}call \"ret {mname}" + (f" {v}" if v in ("true", "false") else "") + "\"")
                    out.append(f"{ind}pure {v}")
                return out
            if isinstance(s, ast.Break):
                if not self.loops:
                    raise Untranslatable("`break` outside a loop")
                out.append(f"{ind}{self.loops[-1][1]}")
                return out
            if isinstance(s, ast.Continue):
                if not self.loops:
                    raise Untranslatable("`continue` outside a loop")
                out.append(f"{ind}{self.loops[-1][0]}")
                return out
            if isinstance(s, (ast.If, ast.For, ast.While, ast.Match)):
                # bind the rest of the block once - as a function of the locals the statement may assign
                if any(not (self.is_log(r) or isinstance(r, ast.Pass)) for r in rest):
                    self.nhelp += 1
                    kn = f"k{self.nhelp}"
                    vs = sorted(self.assigned(s) & locs)
                    if vs:
                        out.append(f"{ind}let {kn} : {' → '.join(['Bool'] * len(vs))} → M {ret} := fun {' '.join(vs)} => do")
                    else:
                        out.append(f"{ind}let {kn} : M {ret} := do")
                    out += self.blk(rest, k, ind + "  ", ret, locs, mname)
                    knext = kn + "".join(" " + v for v in vs)
                else:
                    knext = k
                out += self.compound(s, knext, ind, ret, locs, mname)
                return out
            out += self.simple(s, ind, locs)
            if isinstance(s, ast.Assign) and isinstance(s.targets[0], ast.Name):
                pass
        out.append(f"{ind}{k}")
        return out

    @staticmethod
    def assigned(s: ast.stmt) -> set[str]:
        return {t.id for n in ast.walk(s) if isinstance(n, ast.Assign) for t in n.targets if isinstance(t, ast.Name)}

    def simple(self, s: ast.stmt, ind: str, locs: set[str]) -> list[str]:
        if isinstance(s, ast.Assign) and len(s.targets) == 1:
            t = s.targets[0]
            a0 = self.self_attr(t)
            if a0 is not None and a0 in self.spec.get("opt_state", {}):
                # an optional attribute given a value (`None` -> something): only its presence is state
                fld = self.spec["opt_state"][a0]
                isnone = isinstance(s.value, ast.Constant) and s.value.value is None
                pre = [f"{ind}call {self.q(n)}"] if (n := self.collab_call(s.value)) is not None else []
                return pre + [f"{ind}modify fun w => {{ w with {fld} := {'false' if isnone else 'true'} }}"]
            if a0 is not None and a0 in self.spec.get("nat_state", {}):
                f = self.spec["nat_state"][a0]
                return [f"{ind}modify fun w => {{ w with {f} := {self.nexpr(s.value)} }}"]
            if isinstance(t, ast.Tuple) and isinstance(s.value, ast.Subscript) and \
                    self.self_attr(s.value.value) in self.spec.get("indexed", {}) and \
                    self.self_attr(s.value.slice) in self.spec.get("nat_state", {}):
                # `name, item = self._items[self._cursor]`: the names stand for the element at the cursor *now*
                coll = self.spec["indexed"][self.self_attr(s.value.value)]
                cur = self.spec["nat_state"][self.self_attr(s.value.slice)]
                self.tmp_elem += 1
                v = f"at{self.tmp_elem}"
                for el in t.elts:
                    if isinstance(el, ast.Name):
                        self.elem_locals[el.id] = (coll, v)
                return [f"{ind}let {v} := (← get).{cur}"]
            if isinstance(t, ast.Name) and isinstance(s.value, ast.Constant) and isinstance(s.value.value, bool):
                locs.add(t.id)
                return [f"{ind}let {t.id} := {'true' if s.value.value else 'false'}"]
            a = self.self_attr(t)
            if a is not None and a in self.spec.get("bool_fields", {}):
                return [f"{ind}modify fun w => {{ w with {self.spec['bool_fields'][a]} := {self.bexpr(s.value, locs)} }}"]
            if isinstance(t, ast.Name) and isinstance(s.value, ast.IfExp):
                # `x = f(...) if c else const`: the call happens on one side only
                def side(v: ast.expr) -> str:
                    n = self.collab_call(v)
                    if n is not None:
                        return f"call \"{n}\""
                    if isinstance(v, ast.Constant):
                        return "pure ()"
                    raise Untranslatable(f"unsupported operand `{ast.unparse(v)}`")
                return [f"{ind}if {self.bexpr(s.value.test, locs)} then {side(s.value.body)} else {side(s.value.orelse)}"]
            if isinstance(t, ast.Name):
                n = self.collab_call(s.value)
                if n is not None and t.id in self.cond_names:
                    locs.add(t.id)
                    return [f"{ind}let {t.id} ← ask {self.q(n)}"]
                if n is not None:
                    return [f"{ind}call {self.q(n)}"]      # the value is opaque (a path, an object)
        if isinstance(s, ast.Expr) and isinstance(s.value, ast.Call):
            c = s.value
            n = self.collab_call(c)
            if n is not None:
                return [f"{ind}call {self.q(n)}"]
            if isinstance(c.func, ast.Attribute):
                if self.self_attr(c.func) is not None and c.func.attr in self.own and not c.args:
                    m = c.func.attr
                    if m in self.opaque:
                        return [f"{ind}call \"self.{m}\""]
                    self.called.add(m)
                    fn = self.own[m]
                    isb = fn.returns is not None and ast.unparse(fn.returns) == "bool"
                    return [f"{ind}let _ ← {m} cfg" if isb else f"{ind}{m} cfg"]
                if isinstance(c.func.value, ast.Call) and isinstance(c.func.value.func, ast.Name) and \
                        c.func.value.func.id == "super" and not c.args:
                    b, lvl = self.base_method_from(c.func.attr, self.super_level)
                    if b is None:
                        raise Untranslatable(f"super().{c.func.attr} not found in the given bases")
                    if self.trivial(b):
                        return []
                    # a base method with a body: its statements in place (straight-line bodies only), its own
                    # `super()` resolved further up the chain
                    saved, self.super_level = self.super_level, lvl + 1
                    try:
                        lines: list[str] = []
                        for st in b.body:
                            if self.is_log(st) or isinstance(st, ast.Pass) or (isinstance(st, ast.Expr) and
                                    isinstance(st.value, ast.Constant) and isinstance(st.value.value, str)):
                                continue
                            if not isinstance(st, (ast.Expr, ast.Assign)):
                                raise Untranslatable(f"super().{c.func.attr}: body is not straight-line")
                            lines += self.simple(st, ind, locs)
                        return lines
                    finally:
                        self.super_level = saved
        raise Untranslatable(f"unsupported statement `{ast.unparse(s).splitlines()[0]}`")

    def compound(self, s: ast.stmt, k: str, ind: str, ret: str, locs: set[str], mname: str) -> list[str]:
        out: list[str] = []
        if isinstance(s, ast.If):
            out.append(f"{ind}if {self.bexpr(s.test, locs)} then do")
            out += self.blk(s.body, k, ind + "  ", ret, set(locs), mname)
            out.append(f"{ind}else do")
            out += self.blk(s.orelse, k, ind + "  ", ret, set(locs), mname)
            return out
        if isinstance(s, ast.For) and isinstance(s.iter, ast.Call) and isinstance(s.iter.func, ast.Attribute) \
                and s.iter.func.attr in ("items", "values") and \
                self.self_attr(s.iter.func.value) in self.spec.get("iterables", {}) and not s.orelse:
            # `for key, item in self._coll.items():` - the elements in order, index `i`; locals assigned in the body
            # are carried from one iteration to the next
            coll, cnt = self.spec["iterables"][self.self_attr(s.iter.func.value)]
            self.nloop += 1
            h = f"{mname}_for{self.nloop}"
            vs = sorted(self.assigned(s) & locs)
            args = "".join(" " + v for v in vs)
            saved = dict(self.elem_locals)
            names = [e.id for e in (s.target.elts if isinstance(s.target, ast.Tuple) else [s.target]) if isinstance(e, ast.Name)]
            for nme in names:
                self.elem_locals[nme] = (coll, "i")
            body = self.blk(s.body, f"{h} cfg k n (i + 1){args}", "    ", ret, set(locs), mname)
            self.elem_locals = saved
            kty = " → ".join(["Bool"] * len(vs) + [f"M {ret}"])
            pat0 = "".join(", " + v for v in vs)
            self.helpers.append(
                f"/-- the loop of `{mname}` over `{coll}`: `n` elements left, the next one has index `i`"
                + (f"; carried: {', '.join(vs)}" if vs else "") + " -/\n"
                f"def {h} (cfg : Cfg) (k : {kty}) : Nat → Nat → {kty}\n  | 0, _{pat0} => k{args}\n"
                f"  | n + 1, i{pat0} => do\n" + "\n".join(body))
            kfun = f"(fun{args} => {k})" if vs else f"({k})"
            out.append(f"{ind}{h} cfg {kfun} cfg.{cnt} 0{args}")
            return out
        if isinstance(s, ast.For):
            it = s.iter
            if not (isinstance(it, ast.Call) and isinstance(it.func, ast.Name) and it.func.id == "range"
                    and len(it.args) == 1 and self.self_attr(it.args[0]) in self.spec.get("nat_fields", {})
                    and not s.orelse):
                raise Untranslatable(f"unsupported loop `{ast.unparse(s).splitlines()[0]}`")
            self.nloop += 1
            h = f"{mname}_for{self.nloop}"
            body = self.blk(s.body, f"{h} cfg k n", "    ", ret, set(locs), mname)
            self.helpers.append(
                f"/-- the `for` loop of `{mname}`: `n` iterations left, then `k` -/\n"
                f"def {h} (cfg : Cfg) (k : M {ret}) : Nat → M {ret}\n  | 0 => k\n  | n + 1 => do\n" + "\n".join(body))
            out.append(f"{ind}{h} cfg ({k}) cfg.{self.spec['nat_fields'][self.self_attr(it.args[0])]}")
            return out
        if isinstance(s, ast.While):
            fuel = self.spec.get("fuel", {}).get(mname)
            if fuel is None or s.orelse:
                raise Untranslatable(f"`while` in {mname} without a declared fuel")
            self.nloop += 1
            h = f"{mname}_while{self.nloop}"
            vs = sorted(self.assigned(s) & locs)            # locals carried from one iteration to the next
            args = "".join(" " + v for v in vs)
            again, leave = f"{h} cfg k fuel{args}", f"k{args}"
            self.loops.append((again, leave))
            always = isinstance(s.test, ast.Constant) and s.test.value is True
            body = self.blk(s.body, again, "    " if always else "      ", ret, set(locs), mname)
            self.loops.pop()
            kty = " → ".join(["Bool"] * len(vs) + [f"M {ret}"])
            pat0 = "".join(", _" for _ in vs)
            pat1 = "".join(", " + v for v in vs)
            head = (f"/-- the `while` loop of `{mname}` (fuel: an upper bound of the iterations; `none` when exhausted)"
                    + (f"; carried from one iteration to the next: {', '.join(vs)}" if vs else "") + " -/\n"
                    f"def {h} (cfg : Cfg) (k : {kty}) : Nat → {kty}\n  | 0{pat0} => failure\n  | fuel + 1{pat1} => do\n")
            if always:
                self.helpers.append(head + "\n".join(body))
            else:
                self.helpers.append(head + f"    if {self.bexpr(s.test, locs)} then do\n" + "\n".join(body) +
                                    f"\n    else do\n      {leave}")
            kfun = f"(fun{args} => {k})" if vs else f"({k})"
            out.append(f"{ind}{h} cfg {kfun} ({fuel}){args}")
            return out
        if isinstance(s, ast.Match):
            q = self.spec.get("queue", {})
            subj = s.subject
            key = None
            if isinstance(subj, ast.Call) and isinstance(subj.func, ast.Attribute):
                a = self.self_attr(subj.func.value)
                key = q.get(f"{a}.{subj.func.attr}") if a is not None else None
            if key is None:
                raise Untranslatable(f"unsupported match subject `{ast.unparse(subj)}`")
            out.append(f"{ind}match (← {key}) with")
            seen = set()
            for case in s.cases:
                p = case.pattern
                if not (isinstance(p, ast.MatchValue) and isinstance(p.value, ast.Attribute)
                        and isinstance(p.value.value, ast.Name) and case.guard is None):
                    raise Untranslatable(f"unsupported case `{ast.unparse(p)}`")
                en = self.spec["enums"].get(p.value.value.id, {})
                ctor = en.get(p.value.attr)
                if ctor is None:
                    raise Untranslatable(f"unknown enum member {ast.unparse(p.value)}")
                seen.add(ctor)
                out.append(f"{ind}| {ctor} => do")
                out += self.blk(case.body, k, ind + "    ", ret, set(locs), mname)
            allc = set(next(iter(self.spec["enums"].values())).values())
            for ctor in sorted(allc - seen):
                out.append(f"{ind}| {ctor} => do")
                out.append(f"{ind}    {k}")
            return out
        raise Untranslatable(f"unsupported statement `{ast.unparse(s).splitlines()[0]}`")

    # ---- methods ---------------------------------------------------------------------------------------
    def method(self, name: str) -> tuple[str, set[str]]:
        fn = self.own.get(name)
        if fn is None:
            raise Untranslatable(f"method {name} not found")
        ann = ast.unparse(fn.returns) if fn.returns is not None else "None"
        ret = {"bool": "Bool", "None": "Unit"}.get(ann)
        if ret is None:
            raise Untranslatable(f"{name}: return type {ann}")
        if len(fn.args.args) != 1:
            raise Untranslatable(f"{name}: takes arguments")
        self.called = set()
        # locals that steer the control flow later on (used in the test of an `if` / `while`): their value is asked for
        self.cond_names = {n.id for st in ast.walk(fn) if isinstance(st, (ast.If, ast.While))
                           for n in ast.walk(st.test) if isinstance(n, ast.Name)}
        self.nhelp = self.nloop = 0
        self.tmp_elem, self.elem_locals = 0, {}
        k0 = "pure ()" if ret == "Unit" else "failure"
        if self.trace_calls and ret == "Unit":
            k0 = f"(do call \"ret {name}\"; pure ())"
        nh0 = len(self.helpers)
        lines = self.blk(list(fn.body), k0, "  ", ret, set(), name)
        if self.trace_calls:
            lines.insert(0, f"  call \"enter {name}\"")
        rel = self.spec["rel"]
        text = ast.get_source_segment(self.src[rel], fn) or ""
        head = f"/-- generated from `{rel}:{self.spec['cls']}.{name}` (sha1 {hashlib.sha1(text.encode()).hexdigest()[:12]}) -/"
        body = "\n\n".join(self.helpers[nh0:] + [head + f"\ndef {name} (cfg : Cfg) : M {ret} := do\n" + "\n".join(lines)])
        del self.helpers[nh0:]
        return body, set(self.called)

    def generate(self, names: list[str]) -> str:
        parts, deps = {}, {}
        todo = list(names)
        while todo:
            n = todo.pop()
            if n in parts:
                continue
            parts[n], deps[n] = self.method(n)
            todo += [d for d in deps[n] if d not in parts]
        order: list[str] = []

        def visit(n, seen=()):
            if n in order:
                return
            if n in seen:
                raise Untranslatable("recursive methods")
            for d in sorted(deps[n]):
                visit(d, seen + (n,))
            order.append(n)
        for n in names + [k for k in parts if k not in names]:
            visit(n)
        cfg = "structure Cfg where\n" + "\n".join(
            [f"  {f} : Bool" for f in self.spec.get("flags", {}).values()] +
            [f"  {f} : Nat" for f in self.spec.get("nat_fields", {}).values()] +
            [f"  {f} : Nat" for f in self.spec.get("len_fields", {}).values()] +
            [f"  {c} : Nat" for _, c in self.spec.get("iterables", {}).values()]) + "\n"
        return cfg + "\n" + "\n\n".join(parts[n] for n in order) + "\n"


CONTROL_SPEC = dict(
    rel="thread/threads/control.py", cls="ControlThread",
    bases=[("thread/threads/base.py", "Thread"), ("thread/thread_control.py", "ThreadEventMixin")],
    flags={"_states_keeper": "hasKeeper", "_web_api_server": "hasWeb"},
    nat_fields={"_max_attempts_to_pause_all_threads": "maxAttempts"},
    bool_fields={"_running": "running"},
    collaborators={"_controller", "_thread_statuses_monitor", "_state_store", "_states_keeper"},
    callables={"_save_state_condition"},
    props={"is_max_uptime_reached"},
    modules={"time"},
    skip={"_logger"},
    queue={"_web_api_server.has_commands": "hasCmds", "_web_api_server.receive_command": "recv"},
    enums={"ControlCommands": {"PAUSE": ".pause", "RESUME": ".resume", "SHUTDOWN": ".shutdown", "SAVE_STATE": ".save"}},
    fuel={"process_received_web_api_commands": "(← get).cmds.length + 1"},
)

def hooks_spec(rel: str, cls: str, comp: str) -> dict:
    """`on_paused` / `on_resumed` of a background thread class: the user's hooks (of `comp`) and the paused flag."""
    return dict(rel=rel, cls=cls,
                bases=[("thread/threads/base.py", "BackgroundThread"), ("thread/threads/base.py", "Thread"),
                       ("thread/thread_control.py", "ThreadEventMixin")],
                collaborators={comp, "_thread_status"})


MONITOR_SPEC = dict(
    rel="thread/thread_control.py", cls="ThreadStatusesMonitor", bases=[], skip={"_logger"},
    iterables={"_statuses": ("statuses", "nStatuses")},
)

TRAINING_TICK_SPEC = dict(
    rel="thread/threads/training.py", cls="TrainingThread",
    bases=[("thread/threads/base.py", "BackgroundThread"), ("thread/threads/base.py", "Thread"),
           ("thread/thread_control.py", "ThreadEventMixin")],
    modules={"time"}, skip={"_logger"},
    len_fields={"_trainers": "nTrainers"}, nat_state={"_current_trainer_index": "cursor"},
    indexed={"_trainers_items": "trainers_items"},
)

INFERENCE_TICK_SPEC = dict(
    rel="thread/threads/inference.py", cls="InferenceThread",
    bases=[("thread/threads/base.py", "BackgroundThread"), ("thread/threads/base.py", "Thread"),
           ("thread/thread_control.py", "ThreadEventMixin")],
    collaborators={"_tick_times", "_interaction", "_log_tick_time_scheduler"}, modules={"time"}, skip={"_logger"},
    opt_state={"_tick_start": "tickStart"},
)

STATS_SPEC = dict(
    rel="thread/threads/inference.py", cls="InferenceThread",
    bases=[("thread/threads/base.py", "BackgroundThread"), ("thread/threads/base.py", "Thread"),
           ("thread/thread_control.py", "ThreadEventMixin")],
    collaborators={"_tick_times"}, modules={"statistics"}, skip={"_logger"},
    len_fields={"_tick_times": "nTimes"},
)

HANDLER_SPEC = dict(
    rel="thread/thread_control.py", cls="ControllerCommandHandler", bases=[],
    collaborators={"_controller"}, callables={"on_paused", "on_resumed"},
    # every iteration of the loop in `stop_if_pause` takes at least one answer (the wait)
    fuel={"stop_if_pause": "(← get).ans.length + 1"},
)

if __name__ == "__main__":
    import sys
    t = SkelTr(Path(sys.argv[1] if len(sys.argv) > 1 else "/repo"), CONTROL_SPEC, opaque=sys.argv[2:])
    print(PRELUDE)
    print(t.generate(["on_tick", "on_finally", "save_state", "try_pause", "resume", "shutdown", "is_running"]))
