"""Trace refinement against the Lean model `Pamiq.SysData` (protocol × component values, C04 data part).

The implementation trace (sysharness) is projected onto the product alphabet: the `Proto` actions of
`protofollow.project` interleaved, in trace order, with the data actions the recording components and
the observation wrappers logged (`agentStep`, `envObserve`, `envAffect`, `trainRun i`, `update`,
`write c`) and a `clockTick` whenever two consecutive readings of the system clock differ. The driver
replays them through `SysData.dstep`; the first action the model does not allow is a correspondence
failure (e.g. a step that completes, a hand-over that happens, or a clock that moves while the model
says a pause is acknowledged). At every `save_end` the model's predicted snapshot (`sysdata snap`) is
compared with the files the real save wrote.
"""
from __future__ import annotations

import re

import protofollow

BUF_CAP = 8           # sysharness launches with SequentialBuffer(8)


def _ints(text: str) -> list[int]:
    m = re.search(r"\[(.*?)\]", text)
    return [int(x) for x in m.group(1).split(",") if x.strip()] if m else []


def initial_values(events: list[tuple], n_trainers: int) -> str:
    files = next((e[3] for e in events if e[1] == "data" and e[2] == "init"), None)
    steps = obs = act = 0
    deliv: list[int] = []
    if files:
        steps = int(files.get("interaction/agent/steps", 0))
        o, a = files.get("interaction/environment/counts", "0,0").split(",")
        obs, act = int(o), int(a)
        deliv = _ints(files.get("data/buf/buffer.pkl", "[]"))
    runs = "[" + ",".join("0" for _ in range(n_trainers)) + "]"
    return f"{BUF_CAP} {steps} {obs} {act} {runs} [{','.join(map(str, deliv))}]"


def project(events: list[tuple], n_threads: int = 2) -> list[tuple[int, str]]:
    out = [(i, "act " + a) for i, a in protofollow.project(events, n_threads)]
    last_clock = None          # (event index, value) of the previous system-clock reading
    started = False
    clock_paused = False       # as the implementation's own pause()/resume() calls say
    resumed_at = None          # index of the last clock_resume since the previous reading
    for i, (th, kind, obj, val) in enumerate(events):
        if th == "control" and kind == "spawn" and obj in protofollow.TID:
            started = True
        if kind == "data" and started:
            if obj in ("agentStep", "envObserve", "envAffect", "update"):
                if not (obj == "update" and th == "control"):
                    out.append((i, obj))
            elif obj == "trainRun":
                out.append((i, f"trainRun {val}"))
            elif obj == "write":
                out.append((i, f"write {val}"))
        elif kind == "clock_pause":
            clock_paused = True
        elif kind == "clock_resume":
            clock_paused = False
            resumed_at = i
        elif kind == "sysclock" and started:
            if last_clock is not None and val != last_clock[1]:
                # the system clock advanced between the two readings: place the tick where the clock
                # was running - right after the previous reading, or right after the resume that
                # followed it; if it was paused all the way, at this reading (the model will refuse it)
                if not last_clock[2]:
                    out.append((last_clock[0] + 0.5, "clockTick"))
                elif resumed_at is not None and resumed_at > last_clock[0]:
                    out.append((resumed_at + 0.5, "clockTick"))
                else:
                    out.append((i, "clockTick"))
            last_clock = (i, val, clock_paused)
            resumed_at = None
    out.sort(key=lambda p: p[0])          # stable: a Proto action and a data action never share an event
    return out


def follow(driver, events: list[tuple], saves: list[dict], max_attempts: int, n_trainers: int,
           n_threads: int = 2):
    """Returns (divergence | None, snapshot mismatches, number of actions)."""
    acts = project(events, n_threads)
    save_at = {sv["event_index"]: k for k, sv in enumerate(saves)}
    lines = [f"sysdata reset {n_threads} {max_attempts} {initial_values(events, n_trainers)}"]
    tags: list[tuple] = [("reset", None)]
    for i, a in acts:
        lines.append("sysdata " + a)
        tags.append(("act", (i, a)))
        if a in ("act cSaveEnd", "act cFinalSaveEnd") and i in save_at:
            lines.append("sysdata snap")
            tags.append(("snap", save_at[i]))
    replies = driver.batch(lines)
    mismatches: list[str] = []
    for (tag, info), r in zip(tags, replies):
        if tag == "reset":
            if r != "ok":
                return ({"event_index": 0, "event": ["reset"], "action": lines[0], "model": r, "context": []},
                        mismatches, len(acts))
        elif tag == "act":
            if r != "ok":
                i, a = info
                i = int(i)
                lo = max(0, i - 12)
                return ({"event_index": i, "event": list(map(str, events[i][:3])) + [str(events[i][3])[:60]],
                         "action": a, "model": r,
                         "context": [list(map(str, e[:3])) + [str(e[3])[:60]] for e in events[lo:i + 1]]},
                        mismatches, len(acts))
        else:
            files = saves[info]["files"]
            snap = dict(kv.split("=", 1) for kv in r.split(" "))
            got = files.get("interaction/agent/steps")
            if snap["agent"] != "-" and got is not None and got != snap["agent"]:
                mismatches.append(f"save #{info}: agent wrote steps={got}, model snapshot says {snap['agent']}")
            got = files.get("interaction/environment/counts")
            if snap["env"] != "-" and got is not None and got != snap["env"]:
                mismatches.append(f"save #{info}: environment wrote counts={got}, model snapshot says {snap['env']}")
            got = files.get("data/buf/buffer.pkl")
            if snap["data"] != "-" and got is not None:
                want = _ints(snap["data"])[-BUF_CAP:]
                if _ints(got) != want:
                    mismatches.append(f"save #{info}: buffer file holds {_ints(got)}, model snapshot "
                                      f"(delivered ++ in transit, newest {BUF_CAP}) says {want}")
            for ent in _pairs(snap["runs"]):
                t, runs = ent
                got = files.get(f"trainers/trainer{t}/runs")
                if got is not None and int(got) != runs:
                    mismatches.append(f"save #{info}: trainer{t} wrote runs={got}, model snapshot says {runs}")
    return None, mismatches, len(acts)


def _pairs(text: str) -> list[tuple[int, int]]:
    inner = text.strip()[1:-1]
    return [tuple(int(x) for x in p.split(":")) for p in inner.split(",") if p]
