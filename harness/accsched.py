"""Access-granular scheduling on top of `linesched` (DESIGN.md §4.3): preemption exactly at the
accesses to state that two threads can share, and enumeration of ALL schedules up to the
commutation of independent accesses (sleep sets), for scenarios whose line-level schedule space is
astronomically large.

`AccessSched` is a `linesched.LineSched` whose logical threads yield

* before every acquisition of an `AccLock` (its `RLock()` factory; drop-in for `threading.RLock`),
* wherever the harness announces an access with `sched.access(loc, write)` — typically from an
  observation hook of a stand-in library or from a property that shadows a shared attribute —,
* and, with `all_lines=True`, additionally before every traced source line (as `LineSched`).

A *transition* of a thread is the announced access together with the thread-local code up to its
next yield. Two transitions of different threads are independent unless they touch the same
location and one of them writes (a lock acquisition is a write to the lock; a lock release rides on
the transition that performs it and only affects threads that are blocked, hence not asleep).

`explore(build)` enumerates one schedule per equivalence class of complete executions (stateless
depth-first search with sleep sets; runs in which every enabled thread is asleep are cut and
counted as `pruned`). Executions are replayable: `result.schedule` is the `LineSched` schedule of
the run (choice among the runnable threads at every point where more than one could run).

Events of a run (`result.events`, in the order in which things really happened):
  (thread, "acc", loc, write)     an announced access is about to be performed
  (thread, "x", ...)              whatever the harness logged with `sched.emit(...)`
  plus linesched's own ("acquire"/"release"/"want"/"block"/"line"/"start"/"end"/"raise").
"""
from __future__ import annotations

import sys
import threading
from pathlib import Path
from typing import Any, Callable, Iterable, Iterator, Sequence

sys.path.insert(0, str(Path(__file__).resolve().parent))
import linesched  # noqa: E402

Pending = tuple  # (loc, write)


def independent(a: Pending | None, b: Pending | None) -> bool:
    if a is None or b is None:          # thread start / purely local transition
        return True
    return a[0] != b[0] or not (a[1] or b[1])


class AccLock(linesched.SchedLock):
    """`SchedLock` that announces its acquisition as a write access to `lock:<name>`."""

    def acquire(self, blocking: bool = True, timeout: float = -1) -> bool:
        me = self._sched._current_lt()
        if me is not None and self._owner != me:
            me.pending = ("lock:" + self.name, True)
        return super().acquire(blocking, timeout)


class _Node:
    __slots__ = ("enabled", "pending", "sleep", "done", "chosen")

    def __init__(self, enabled, pending, sleep):
        self.enabled: list[int] = enabled
        self.pending: dict[int, Pending | None] = pending
        self.sleep: set[int] = sleep
        self.done: list[int] = []
        self.chosen: int | None = None


class Dfs:
    """Sleep-set depth-first strategy over repeated runs."""

    def __init__(self) -> None:
        self.stack: list[_Node] = []
        self.depth = 0
        self.pruned_run = False
        self.mismatch: str | None = None

    def begin_run(self) -> None:
        self.depth = 0
        self.pruned_run = False

    def choose(self, enabled: list[int], pending: dict[int, Pending | None]) -> int | None:
        d = self.depth
        self.depth += 1
        if d < len(self.stack):
            node = self.stack[d]
            if node.enabled != enabled:
                self.mismatch = f"replay diverged at depth {d}: {node.enabled} vs {enabled}"
            return node.chosen
        if d == 0:
            sleep: set[int] = set()
        else:
            par = self.stack[d - 1]
            mine = par.pending.get(par.chosen)
            sleep = {u for u in (par.sleep | set(par.done))
                     if u != par.chosen and independent(par.pending.get(u), mine)}
        node = _Node(list(enabled), dict(pending), sleep)
        cand = [t for t in enabled if t not in sleep]
        if not cand:
            self.pruned_run = True
            return None
        node.chosen = cand[0]
        self.stack.append(node)
        return node.chosen

    def backtrack(self) -> bool:
        """Prepare the next run; False when the search is complete."""
        while self.stack:
            node = self.stack[-1]
            node.done.append(node.chosen)
            cand = [t for t in node.enabled if t not in node.sleep and t not in node.done]
            if cand:
                node.chosen = cand[0]
                return True
            self.stack.pop()
        return False


class AccessSched(linesched.LineSched):
    def __init__(self, trace: Iterable[Any] = (), *, all_lines: bool = False,
                 max_steps: int = 20000) -> None:
        super().__init__(trace, max_steps=max_steps, preempt="both" if all_lines else "locks")
        self.strategy: Dfs | None = None
        self.on_yield: Callable[[int], None] | None = None

    # ---- lock factory -------------------------------------------------------------------------
    def RLock(self, name: str | None = None) -> AccLock:        # noqa: N802
        lk = AccLock(self, name or f"lock{self._n_locks}")
        self._n_locks += 1
        return lk

    Lock = RLock

    # ---- announcing accesses ------------------------------------------------------------------
    def access(self, loc: str, write: bool) -> bool:
        """Called by the running logical thread right before it touches `loc`. Returns False when
        the caller is not a logical thread of a run in progress (set-up code)."""
        me = self._current_lt()
        if me is None or me.state != "ready":
            return False
        me.pending = (loc, bool(write))
        self._switch(me)
        return True

    def emit(self, *ev: Any) -> None:
        me = self._current_lt()
        self._record(((me.idx if me is not None else -1), "x") + tuple(ev))

    def current(self) -> int | None:
        me = self._current_lt()
        return None if me is None else me.idx

    # ---- overrides ----------------------------------------------------------------------------
    def _on_line(self, code, line):
        me = self._by_ident.get(threading.get_ident())
        if me is None or not self._running or me.state != "ready":
            return None
        self._record((me.idx, "line", code.co_name, line))
        if self._yield_on_lines:
            me.pending = ("*", True)            # an unanalysed line: dependent on everything
            self._switch(me)
        return None

    def _switch(self, me) -> None:
        if self.on_yield is not None:
            self.on_yield(me.idx)
        super()._switch(me)
        p = getattr(me, "pending", None)
        if p is not None and me.state == "ready":
            self._record((me.idx, "acc", p[0], p[1]))
            if not p[0].startswith("lock:"):
                me.pending = None

    def _finish(self, me) -> None:
        if self.on_yield is not None and not self._aborting:
            try:
                self.on_yield(me.idx)
            except BaseException:
                pass
        me.pending = None
        super()._finish(me)

    def _choose(self, current):
        if self.strategy is None:
            return super()._choose(current)
        runnable = [t for t in self._threads if t.state == "ready"]
        if not runnable:
            return None
        enabled = [t.idx for t in runnable]
        pend = {t.idx: getattr(t, "pending", None) for t in runnable}
        c = self.strategy.choose(enabled, pend)
        if c is None:
            # every enabled thread is asleep: cut the run (reported as a deadlock by LineSched;
            # `strategy.pruned_run` tells the two apart)
            for t in runnable:
                t.state = "blocked"
            return None
        if len(runnable) > 1:
            self._result.choices.append((enabled.index(c), len(enabled)))
        nxt = next(t for t in runnable if t.idx == c)
        if current is not None and current.state == "ready" and nxt is not current:
            self._result.preemptions += 1
        return nxt

    def run(self, threads: Sequence[Callable[[], Any]], schedule: Sequence[int] = (), **kw: Any):
        if self.strategy is not None:
            self.strategy.begin_run()
        res = super().run(threads, schedule, **kw)
        res.pruned = bool(self.strategy is not None and self.strategy.pruned_run)   # type: ignore[attr-defined]
        return res


def explore(build: Callable[[AccessSched], Any], *, trace: Iterable[Any] = (),
            max_runs: int | None = None, max_steps: int = 20000,
            stats: dict | None = None) -> Iterator[tuple[linesched.RunResult, Any]]:
    """One complete execution per class of schedules that differ only in the order of independent
    accesses. `build(sched)` creates fresh objects and returns `(threads, context)`. Yields
    `(result, context)` for complete runs; pruned runs are only counted in `stats`."""
    codes = linesched.code_objects(*trace)
    dfs = Dfs()
    n = 0
    st = stats if stats is not None else {}
    st.setdefault("runs", 0)
    st.setdefault("pruned", 0)
    while True:
        sched = AccessSched(codes, max_steps=max_steps)
        sched.strategy = dfs
        threads, ctx = build(sched)
        res = sched.run(threads)
        n += 1
        if dfs.mismatch is not None:
            raise RuntimeError("nondeterministic scenario: " + dfs.mismatch)
        if res.pruned:                      # type: ignore[attr-defined]
            st["pruned"] += 1
            cleanup = ctx.get("cleanup") if isinstance(ctx, dict) else None
            if cleanup:
                cleanup()
        else:
            st["runs"] += 1
            yield res, ctx
        if max_runs is not None and n >= max_runs:
            st["truncated"] = True
            return
        if not dfs.backtrack():
            return


def happens_before(events: list[tuple]) -> tuple[list[int], dict[int, dict[int, int]]]:
    """Vector clocks of the `acc` events of a run under the dependency relation of `independent`
    (+ program order). Returns (indices of the acc events in `events`, clock per such index)."""
    clocks: dict[int, dict[int, int]] = {}
    last_of_thread: dict[int, dict[int, int]] = {}
    last_write: dict[str, dict[int, int]] = {}
    reads: dict[str, dict[int, int]] = {}
    idxs = []

    def join(a, b):
        out = dict(a)
        for k, v in b.items():
            if out.get(k, 0) < v:
                out[k] = v
        return out

    for i, ev in enumerate(events):
        if len(ev) == 3 and ev[1] in ("acquire", "release"):
            t, loc, write = ev[0], "lock:" + ev[2], True     # real acquisition / release of a lock
        elif len(ev) == 4 and ev[1] == "acc" and not ev[2].startswith("lock:"):
            t, _, loc, write = ev
        else:
            continue
        vc = dict(last_of_thread.get(t, {}))
        vc = join(vc, last_write.get(loc, {}))
        if write:
            vc = join(vc, reads.get(loc, {}))
        vc[t] = vc.get(t, 0) + 1
        clocks[i] = vc
        last_of_thread[t] = vc
        if write:
            last_write[loc] = vc
            reads[loc] = {}
        else:
            reads[loc] = join(reads.get(loc, {}), vc)
        idxs.append(i)
    return idxs, clocks
