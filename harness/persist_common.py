"""Shared by harness/corr/c05.py and harness/corr/c10.py: real pamiq-core systems built from a
JSON-able description (the real composite classes around small user components that keep one
integer of state), their registration in a real `StateStore` exactly as `launch()` does it, the
canonical dump of their public observables, and the lines that build the same system in the Lean
model `Pamiq/Model/Persist.lean`.

System description (`spec`):
  tree     ["I", agent, env]  in the notation of c12:  agent ["A", id, [[name, agent]…]],
           env ["E", id] | ["EM", sensor, actuator] | ["EW", env, w, w],
           sensor ["S", id] | ["SD", [[name, sensor]…]] | ["SW", sensor, w],
           actuator ["C", id] | ["CD", [[name, actuator]…]] | ["CW", actuator, w],  w ["W", id] | ["F", id]
  states   {id: int}                      state of every user component
  models   [[name, version, sync, inference_version]]
  users    [[name, kind, cap, p, hist]]   kind seq|dseq|rrb|drrb; hist: ["c", x, t, u, i] | ["u"]
  trainers [[name, prev, cond_user|None]] prev: "-inf" | "inf" | "nan" | fraction
"""
from __future__ import annotations

import contextlib
import math
import os
import pickle
import sys
import types
from fractions import Fraction as F
from pathlib import Path

SELF = "__self__"
REGISTRATION = ["interaction", "models", "data", "trainers", "time"]


def show_frac(q) -> str:
    q = F(q)
    return str(q.numerator) if q.denominator == 1 else f"{q.numerator}/{q.denominator}"


def canon_exc(e: BaseException) -> str:
    """Exception classes as the model names them."""
    if isinstance(e, (EOFError, pickle.UnpicklingError)):
        return "UnpicklingError"          # every way `pickle.load` rejects a truncated file
    for cls in (FileNotFoundError, FileExistsError, NotADirectoryError, IsADirectoryError):
        if isinstance(e, cls):
            return cls.__name__
    if isinstance(e, ValueError):
        return "ValueError"
    return type(e).__name__


def canon_load_exc(e: BaseException, anchor) -> str:
    """As `canon_exc`, plus — for the OS errors, which carry it — the file the exception is about,
    relative to `anchor` (the directory that contains `states/`)."""
    name = canon_exc(e)
    if isinstance(e, OSError) and name in ("FileNotFoundError", "FileExistsError",
                                           "NotADirectoryError", "IsADirectoryError"):
        fn = e.filename
        if fn is None:
            # StateStore.load_state raises FileNotFoundError(message) for a missing directory
            return name + "@?"
        return name + "@" + os.path.relpath(os.fspath(fn), os.fspath(anchor))
    return name


def ext_of_float(x: float) -> str:
    if math.isnan(x):
        return "nan"
    if math.isinf(x):
        return "inf" if x > 0 else "-inf"
    return show_frac(F(x))


def float_of_ext(s: str) -> float:
    if s in ("inf", "-inf", "nan"):
        return float(s)
    return float(F(s))


# ------------------------------------------------------------------------------------------------
# terms for the driver
# ------------------------------------------------------------------------------------------------

def term(t) -> str:
    k = t[0]
    if k == "I":
        return f"I({term(t[1])},{term(t[2])})"
    if k == "A":
        return f"A{t[1]}{{" + ",".join(f"{n}:{term(c)}" for n, c in t[2]) + "}"
    if k in ("E", "S", "C", "W", "F"):
        return f"{k}{t[1]}"
    if k in ("SD", "CD"):
        return k + "{" + ",".join(f"{n}:{term(c)}" for n, c in t[1]) + "}"
    if k in ("SW", "CW", "EM"):
        return f"{k}({term(t[1])},{term(t[2])})"
    if k == "EW":
        return f"EW({term(t[1])},{term(t[2])},{term(t[3])})"
    raise ValueError(k)


def tree_ids(t) -> list[int]:
    k = t[0]
    if k == "I":
        return tree_ids(t[1]) + tree_ids(t[2])
    if k == "A":
        return [t[1]] + [i for _, c in t[2] for i in tree_ids(c)]
    if k in ("E", "S", "C", "W", "F"):
        return [t[1]]
    if k in ("SD", "CD"):
        return [i for _, c in t[1] for i in tree_ids(c)]
    if k in ("SW", "CW", "EM"):
        return tree_ids(t[1]) + tree_ids(t[2])
    if k == "EW":
        return tree_ids(t[1]) + tree_ids(t[2]) + tree_ids(t[3])
    raise ValueError(k)


def user_leaves(t, path: str) -> list[tuple[str, int]]:
    """(file path relative to the state directory, component id) of every user component, in load
    order — the top-down reading of the tree (independent of the Lean model)."""
    k = t[0]
    if k == "I":
        return user_leaves(t[1], path + "/agent") + user_leaves(t[2], path + "/environment")
    if k == "A":
        if not t[2]:
            return [(path, t[1])]
        return [(path + "/" + SELF, t[1])] + [x for n, c in t[2] for x in user_leaves(c, path + "/" + n)]
    if k in ("E", "S", "C", "W"):
        return [(path, t[1])]
    if k == "F":
        return []
    if k in ("SD", "CD"):
        return [x for n, c in t[1] for x in user_leaves(c, path + "/" + n)]
    if k == "SW":
        return user_leaves(t[1], path + "/sensor") + user_leaves(t[2], path + "/wrapper")
    if k == "CW":
        return user_leaves(t[1], path + "/actuator") + user_leaves(t[2], path + "/wrapper")
    if k == "EM":
        return user_leaves(t[1], path + "/sensor") + user_leaves(t[2], path + "/actuator")
    if k == "EW":
        return (user_leaves(t[1], path + "/env") + user_leaves(t[2], path + "/obs_wrapper")
                + user_leaves(t[3], path + "/act_wrapper"))
    raise ValueError(k)


def model_lines(spec: dict, slot: str, clock_lines: list[str]) -> list[str]:
    """Driver lines that build `spec` in the work area and commit it to `slot`."""
    ids = tree_ids(spec["tree"])
    states = ",".join(f"{i}:{spec['states'][str(i)]}" for i in ids)
    out = [f"persist tree {term(spec['tree'])} states=[{states}]"]
    for name, v, sync, iv in spec["models"]:
        out.append(f"persist model {name} v={v} sync={1 if sync else 0} iv={iv}")
    for name, kind, cap, p, hist in spec["users"]:
        if kind in ("seq", "dseq"):
            out.append(f"persist user {name} kind=seq cap={cap}")
        else:
            out.append(f"persist user {name} kind=rrb cap={cap} p={p}")
        for h in hist:
            if h[0] == "c":
                out.append(f"persist collect {name} x={h[1]} t={h[2]} u={h[3]} i={h[4]}")
            else:
                out.append(f"persist update {name}")
    for name, prev, _cond in spec["trainers"]:
        out.append(f"persist trainer {name} prev={prev}")
    out += clock_lines
    out.append(f"persist commit {slot}")
    return out


# ------------------------------------------------------------------------------------------------
# real components
# ------------------------------------------------------------------------------------------------

class AnyAction:
    """An action every actuator tree accepts: indexing it by any key gives it back."""

    def __getitem__(self, key):
        return self


ANY_ACTION = AnyAction()


class Rec:
    """Shared record of what the user components were asked to do."""

    def __init__(self) -> None:
        self.setups: list[int] = []
        self.loads: list[int] = []
        self.events: list[tuple] = []


_CLASSES = None


def make_classes():
    global _CLASSES
    if _CLASSES is not None:
        return _CLASSES
    from pamiq_core.interaction import Agent, Environment
    from pamiq_core.interaction.modular_env import Actuator, Sensor
    from pamiq_core.interaction.wrappers import Wrapper
    from pamiq_core.state_persistence import load_pickle, save_pickle

    class Leaf:
        """A user component with one integer of state, kept in one file."""

        def _init_leaf(self, rec: Rec, lid: int, state: int, tolerant: bool) -> None:
            self.rec, self.lid, self.state, self.tolerant = rec, lid, state, tolerant

        def _own_file(self, path: Path) -> Path:
            return path

        def setup(self):
            self.rec.setups.append(self.lid)
            self.rec.events.append(("setup", self.lid, self.state))
            super().setup()

        def save_state(self, path):
            save_pickle(self.state, self._own_file(path))
            super().save_state(path)

        def load_state(self, path):
            self.rec.loads.append(self.lid)
            f = self._own_file(path)
            if self.tolerant:
                # a component that treats its file as optional (worst case for C10)
                try:
                    self.state = load_pickle(f)
                except Exception:
                    pass
            else:
                self.state = load_pickle(f)
            super().load_state(path)

    class SAgent(Leaf, Agent):
        def __init__(self, rec, lid, state, tolerant, children):
            Agent.__init__(self, children if children else None)
            self._init_leaf(rec, lid, state, tolerant)
            self._has_children = bool(children)

        def _own_file(self, path: Path) -> Path:
            return path / SELF if self._has_children else path

        def save_state(self, path):
            if self._has_children:
                path.mkdir(exist_ok=True)        # documented pattern for agents
            Leaf.save_state(self, path)

        def step(self, observation):
            self.state += 1
            return ANY_ACTION

    class SEnv(Leaf, Environment):
        def __init__(self, rec, lid, state, tolerant):
            self._init_leaf(rec, lid, state, tolerant)

        def observe(self):
            self.state += 1
            return None

        def affect(self, action):
            pass

    class SSensor(Leaf, Sensor):
        def __init__(self, rec, lid, state, tolerant):
            self._init_leaf(rec, lid, state, tolerant)

        def read(self):
            self.state += 1
            return None

    class SActuator(Leaf, Actuator):
        def __init__(self, rec, lid, state, tolerant):
            self._init_leaf(rec, lid, state, tolerant)

        def operate(self, action):
            self.state += 1

    class SWrapper(Leaf, Wrapper):
        def __init__(self, rec, lid, state, tolerant):
            self._init_leaf(rec, lid, state, tolerant)

        def wrap(self, value):
            self.state += 1
            return value

    _CLASSES = (SAgent, SEnv, SSensor, SActuator, SWrapper)
    return _CLASSES


def build_interaction(tree, states: dict, tolerant: bool, rec: Rec, agent_cls=None):
    """Tree description -> real `Interaction`; returns (interaction, {id: component})."""
    SAgent, SEnv, SSensor, SActuator, SWrapper = make_classes()
    if agent_cls is not None:
        SAgent = agent_cls
    from pamiq_core.interaction import Interaction
    from pamiq_core.interaction.modular_env import ActuatorsDict, ModularEnvironment, SensorsDict
    from pamiq_core.interaction.wrappers import ActuatorWrapper, EnvironmentWrapper, SensorWrapper
    comps: dict[int, object] = {}

    def st(i):
        return states[str(i)]

    def keep(i, c):
        comps[i] = c
        return c

    def wrap(w):
        if w[0] == "W":
            return keep(w[1], SWrapper(rec, w[1], st(w[1]), tolerant))
        return lambda value: value

    def agent(a):
        return keep(a[1], SAgent(rec, a[1], st(a[1]), tolerant, {n: agent(c) for n, c in a[2]}))

    def sensor(s):
        if s[0] == "S":
            return keep(s[1], SSensor(rec, s[1], st(s[1]), tolerant))
        if s[0] == "SD":
            return SensorsDict({n: sensor(c) for n, c in s[1]})
        return SensorWrapper(sensor(s[1]), wrap(s[2]))

    def actuator(a):
        if a[0] == "C":
            return keep(a[1], SActuator(rec, a[1], st(a[1]), tolerant))
        if a[0] == "CD":
            return ActuatorsDict({n: actuator(c) for n, c in a[1]})
        return ActuatorWrapper(actuator(a[1]), wrap(a[2]))

    def env(e):
        if e[0] == "E":
            return keep(e[1], SEnv(rec, e[1], st(e[1]), tolerant))
        if e[0] == "EM":
            return ModularEnvironment(sensor(e[1]), actuator(e[2]))
        return EnvironmentWrapper(env(e[1]), wrap(e[2]), wrap(e[3]))

    return Interaction(agent(tree[1]), env(tree[2])), comps


_MODEL_CLASSES = None


def model_classes():
    global _MODEL_CLASSES
    if _MODEL_CLASSES is not None:
        return _MODEL_CLASSES
    from pamiq_core.model import InferenceModel, TrainingModel
    from pamiq_core.state_persistence import load_pickle, save_pickle

    class VInf(InferenceModel):
        def __init__(self, version: int) -> None:
            self.version = version

        def infer(self):
            return self.version

    class VModel(TrainingModel):
        """Parameters = one version number; the inference model holds its own copy."""

        def __init__(self, version: int, sync: bool, tolerant: bool) -> None:
            super().__init__(has_inference_model=True, inference_thread_only=not sync)
            self.version = version
            self.tolerant = tolerant

        def _create_inference_model(self):
            return VInf(self.version)

        def forward(self):
            return self.version

        def sync_impl(self, inference_model):
            inference_model.version = self.version

        def save_state(self, path):
            save_pickle(self.version, path)

        def load_state(self, path):
            if self.tolerant:
                try:
                    self.version = load_pickle(path)
                except Exception:
                    pass
            else:
                self.version = load_pickle(path)

    _MODEL_CLASSES = (VModel, VInf)
    return _MODEL_CLASSES


class FakeRandom:
    """Stand-in for the `random` module inside random_replacement_buffer.py."""

    def __init__(self) -> None:
        self.u = F(0)
        self.i = 0
        self.calls: list[str] = []

    def random(self) -> float:
        self.calls.append("random")
        return float(self.u)

    def randint(self, a: int, b: int) -> int:
        self.calls.append(f"randint({a},{b})")
        return self.i


# the dict buffers take their keys as an iterable: here a set (no order of its own, and another iteration order in
# a process with another hash seed); the second column is a function of the first, so that a value coming back
# under the wrong key or next to the wrong partner is seen
DICT_KEYS = {"a", "b"}


def make_buffer(name: str, kind: str, cap: int, p: str, fake_random: FakeRandom, draws: dict):
    """A real built-in buffer; for the random-replacement kinds `add` is wrapped at instance level
    so that the scripted `random` module hands out the draws that belong to the sample."""
    from pamiq_core.data.impls import (DictRandomReplacementBuffer, DictSequentialBuffer,
                                       RandomReplacementBuffer, SequentialBuffer)
    if kind == "seq":
        return SequentialBuffer(cap)
    if kind == "dseq":
        return DictSequentialBuffer(DICT_KEYS, cap)
    buf = (RandomReplacementBuffer(cap, replace_probability=float(F(p))) if kind == "rrb"
           else DictRandomReplacementBuffer(DICT_KEYS, cap, replace_probability=float(F(p))))
    orig_add = buf.add

    def add(data):
        x = data["a"] if isinstance(data, dict) else data
        fake_random.u, fake_random.i = draws.get((name, x), (F(0), 0))
        return orig_add(data)

    buf.add = add
    return buf


def sample_of(kind: str, x: int):
    return {"b": x + 1000, "a": x} if kind in ("dseq", "drrb") else x


def data_of(kind: str, got) -> list[int]:
    if kind in ("dseq", "drrb"):
        a, b = list(got["a"]), list(got["b"])
        if sorted(got) != ["a", "b"] or len(a) != len(b) or any(y != x + 1000 for x, y in zip(a, b)):
            return [-10 ** 9] + a + b          # columns misaligned or under the wrong keys: never equal to anything expected
        return a
    return list(got)


@contextlib.contextmanager
def patched(fake_random: FakeRandom | None, now_fn=None):
    """Scripted `random` for RandomReplacementBuffer and scripted system clock for timestamps."""
    import pamiq_core.data.impls.random_replacement_buffer as rrb
    import pamiq_core.data.interface as di
    old_r, old_t = rrb.random, di.time
    if fake_random is not None:
        rrb.random = fake_random
    if now_fn is not None:
        di.time = types.SimpleNamespace(time=now_fn)
    try:
        yield
    finally:
        rrb.random, di.time = old_r, old_t


class System:
    """The objects `launch()` would be given, plus the containers it builds from them."""

    def __init__(self, spec: dict, tolerant: bool, time_ctl, apply_hist: bool = True) -> None:
        from pamiq_core.data import DataUsersDict
        from pamiq_core.model import TrainingModelsDict
        from pamiq_core.trainer import Trainer, TrainersDict
        VModel, _ = model_classes()
        self.spec = spec
        self.rec = Rec()
        self.fake_random = FakeRandom()
        self.draws: dict[tuple, tuple] = {}
        self.interaction, self.comps = build_interaction(spec["tree"], spec["states"], tolerant, self.rec)
        self.models = {}
        for name, v, sync, iv in spec["models"]:
            m = VModel(iv, sync, tolerant)
            self.models[name] = m
        self.training_models = TrainingModelsDict(self.models)     # creates the inference models
        for name, v, sync, iv in spec["models"]:
            self.models[name].version = v                          # trained since, not yet synced
        self.kinds = {name: kind for name, kind, *_ in spec["users"]}
        self.buffers = {name: make_buffer(name, kind, cap, p, self.fake_random, self.draws)
                        for name, kind, cap, p, _h in spec["users"]}
        self.data_users = DataUsersDict.from_data_buffers(self.buffers)

        class RTrainer(Trainer):
            def train(self) -> None:
                pass

        self.trainers = {}
        for name, prev, cond in spec["trainers"]:
            t = RTrainer(training_condition_data_user=cond, min_new_data_count=1)
            # no public setter exists: the marker is only ever assigned by `is_trainable`
            t._previous_training_time = float_of_ext(prev)
            self.trainers[name] = t
        self.trainers_dict = TrainersDict(self.trainers)
        self.trainers_dict.attach_training_models(self.training_models)
        self.trainers_dict.attach_data_users(self.data_users)
        self.interaction.agent.attach_inference_models(self.training_models.inference_models_dict)
        self.interaction.agent.attach_data_collectors(self.data_users.data_collectors_dict)
        self.time_ctl = time_ctl
        self._now = F(0)
        if apply_hist:
            with patched(self.fake_random, lambda: float(self._now)):
                for name, kind, cap, p, hist in spec["users"]:
                    coll = self.data_users.data_collectors_dict[name]
                    for h in hist:
                        if h[0] == "c":
                            self._now = F(h[2])
                            self.draws[(name, h[1])] = (F(h[3]), h[4])
                            coll.collect(sample_of(kind, h[1]))
                        else:
                            self.data_users[name].update()

    def register(self, store, order: list[str] | None = None) -> None:
        objs = {"interaction": self.interaction, "models": self.training_models,
                "data": self.data_users, "trainers": self.trainers_dict, "time": self.time_ctl}
        for name in (order or REGISTRATION):
            store.register(name, objs[name])

    # -------- observables ------------------------------------------------------------------
    def dump(self) -> str:
        """Same format as `Persist.dump` in the driver; public getters wherever they exist."""
        leaves = ",".join(f"{p}={self.comps[i].state}" for p, i in
                          user_leaves(self.spec["tree"], "interaction"))
        models = ",".join(f"{n}:{m.version}:{m.inference_model.version}" for n, m in self.models.items())
        with patched(self.fake_random):
            data = ",".join(
                f"{n}:{len(u)}:{self.buffers[n].max_queue_size}:"
                f"[{','.join(str(x) for x in data_of(self.kinds[n], u.get_data()))}]"
                for n, u in self.data_users.items())
        trainers = ",".join(f"{n}:{ext_of_float(t._previous_training_time)}"
                            for n, t in self.trainers.items())
        return f"leaves=[{leaves}] models=[{models}] data=[{data}] trainers=[{trainers}]"

    def count(self, name: str, x: str) -> int:
        return self.data_users[name].count_data_added_since(float_of_ext(x))


def fresh_spec(spec: dict, caps: dict | None = None) -> dict:
    """The description of the freshly constructed system that will load `spec`'s state."""
    caps = caps or {}
    return {
        "tree": spec["tree"],
        "states": {k: 0 for k in spec["states"]},
        "models": [[n, 0, sync, 0] for n, _v, sync, _iv in spec["models"]],
        "users": [[n, kind, caps.get(n, cap), p, []] for n, kind, cap, p, _h in spec["users"]],
        "trainers": [[n, "-inf", cond] for n, _p, cond in spec["trainers"]],
    }


def tree_listing(root: Path) -> dict[str, str]:
    """relative path -> 'dir' | sha1 of the content, for every entry below `root`."""
    import hashlib
    out: dict[str, str] = {}
    for dirpath, dirnames, filenames in os.walk(root):
        rel = os.path.relpath(dirpath, root)
        for d in dirnames:
            out[os.path.normpath(os.path.join(rel, d))] = "dir"
        for f in filenames:
            p = os.path.join(dirpath, f)
            with open(p, "rb") as fh:
                out[os.path.normpath(os.path.join(rel, f))] = hashlib.sha1(fh.read()).hexdigest()
    return out
