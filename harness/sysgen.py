"""Scenario generators for the system-level (launch) checks."""
from __future__ import annotations

import random

CMDS = [["POST", "/api/pause"], ["POST", "/api/resume"], ["POST", "/api/save-state"],
        ["GET", "/api/status"]]
BAD = [["GET", "/api/nope"], ["GET", "/api/pause"], ["POST", "/api/status"], ["DELETE", "/api/resume"],
       ["POST", "/api"], ["PUT", "/api/shutdown"]]
FAULT_POINTS = [("agent", "setup"), ("env", "setup"), ("agent", "step"), ("env", "observe"),
                ("env", "affect"), ("agent", "on_paused"), ("env", "on_paused"),
                ("agent", "on_resumed"), ("env", "on_resumed"), ("trainer0", "train"),
                ("trainer0", "t_setup"), ("trainer0", "t_teardown"), ("trainer0", "on_paused"),
                ("trainer0", "on_resumed"), ("agent", "teardown"), ("child", "step")]
CTL_FAULT_POINTS = [("agent", "save"), ("env", "save"), ("trainer0", "save")]


def gen_scenario(rng: random.Random, focus: str = "any") -> dict:
    sc: dict = {
        "trainers": rng.choice([0, 1, 1, 2]),
        "conditioned": rng.random() < 0.3,
        "child_agent": rng.random() < 0.3,
        "max_attempts": rng.choice([1, 2, 3]),
        "queue_size": rng.choice([1, 2, 3]),
        "timed": False,
    }
    if rng.random() < 0.3:
        sc["time_scale"] = rng.choice([0.5, 2.0, 4.0])
    elif focus in ("C02", "any") and rng.random() < 0.15:
        sc["pre_scale"] = rng.choice([0.5, 4.0])     # scale set by the application beforehand, LaunchConfig at its default
    if focus in ("C09", "C12") and rng.random() < 0.25:
        sc["swap_env"] = True
    if focus in ("C01", "C04") and rng.random() < 0.15:
        sc["lazy_points"] = [rng.choice(["clock_resume", "clock_pause", "save_begin"])]
    elif focus in ("C17", "C01") and rng.random() < 0.25:
        # the thread that answers status requests is slow between its reads (a request preempted half-way)
        sc["lazy_points"] = ["webapi:read"]
    if focus in ("C04", "any") and rng.random() < 0.2:
        sc["prelaunch"] = True     # start from the final state of a preparatory launch (load path)
    n = rng.randint(1, 6)
    client = []
    for _ in range(n):
        r = rng.random()
        if r < 0.12:
            client.append(rng.choice(BAD))
        else:
            client.append(rng.choices(CMDS, weights=[4, 3, 3, 2])[0])
    if focus == "C17":
        # bursts
        client += [rng.choice(CMDS[:3]) for _ in range(rng.randint(0, 4))]
        if rng.random() < 0.3:
            client.insert(rng.randrange(len(client) + 1), ["POST", "/api/shutdown"])
    client.append(["POST!", "/api/shutdown"])
    sc["client"] = client
    if focus == "C17" and rng.random() < 0.2:
        # a pause that times out on every attempt (a step far longer than the time-out), a resume, and then
        # nobody sends anything for a while: whatever was accepted has been carried out, nothing else is
        sc["timed"] = True
        sc["max_attempts"] = rng.choice([1, 2])
        sc["pause_timeout"] = 0.5
        sc["durations"] = {"step": rng.choice([3.0, 6.0]), "train": 0.0}
        sc["client"] = [["delay", 0.5], ["POST", "/api/pause"], ["delay", rng.choice([2.0, 4.0])],
                        ["POST", "/api/resume"], ["delay", rng.choice([6.0, 12.0])], ["GET", "/api/status"],
                        ["delay", 2.0], ["POST!", "/api/shutdown"]]
        return sc
    if focus == "C01" or (focus in ("any", "C02") and rng.random() < 0.25):
        # handshake-heavy scripts: back-to-back pause / resume / save, failed attempts
        sc["queue_size"] = 3
        sc["max_attempts"] = rng.choice([1, 2, 3])
        seqs = [["pause", "resume", "pause"], ["save-state", "pause"], ["pause", "save-state", "resume"],
                ["save-state", "save-state"], ["pause", "resume", "save-state", "pause", "resume"],
                ["resume", "pause", "resume", "pause"]]
        client = []
        for _ in range(rng.randint(1, 3)):
            client += [["POST", "/api/" + c] for c in rng.choice(seqs)]
            if rng.random() < 0.3:
                client.append(["GET", "/api/status"])
        client.append(["POST!", "/api/shutdown"])
        sc["client"] = client
    if rng.random() < 0.12:
        # a save condition that stays true: every tick saves, also the tick that sees SHUTDOWN
        sc["save_condition"] = [False] * rng.randint(0, 6) + [True] * 60
    elif rng.random() < 0.35:
        k = rng.randint(1, 12)
        sc["save_condition"] = [False] * k + [True] + ([False] * rng.randint(0, 5) + [True] if rng.random() < 0.3 else [])
    if focus in ("C03", "C09") or (focus == "any" and rng.random() < 0.15):
        if rng.random() < 0.8:
            comp, cb = rng.choice(FAULT_POINTS)
            sc["faults"] = [{"comp": comp, "cb": cb, "k": rng.choice([1, 1, 2, 3])}]
            if focus == "C03" and rng.random() < 0.15:
                # the same component objects in a second launch() of the process (a first, fault-free one went before;
                # C03 only: the harness components' own counters carry over, which the data monitors of C04 do not expect)
                sc["prelaunch"] = True
                sc["reuse_components"] = True
            if comp.startswith("trainer"):
                sc["trainers"] = max(1, sc["trainers"])
            if comp == "child":
                sc["child_agent"] = True
        else:
            if rng.random() < 0.5:
                comp, cb = rng.choice(CTL_FAULT_POINTS)
                sc["faults"] = [{"comp": comp, "cb": cb, "k": rng.choice([1, 2])}]
                if comp.startswith("trainer"):
                    sc["trainers"] = max(1, sc["trainers"])
                if not any(c[1] == "/api/save-state" for c in client):
                    client.insert(0, ["POST", "/api/save-state"])
            else:
                sc["save_condition"] = [False] * rng.randint(0, 5) + ["raise"]
    if focus == "C04" and rng.random() < 0.2:
        # a background thread fails while states keep being saved: a save must not land on a thread that
        # is still tearing its components down
        comp, cb = rng.choice([p for p in FAULT_POINTS if p[1] != "teardown"])
        sc["faults"] = [{"comp": comp, "cb": cb, "k": rng.choice([1, 2, 3])}]
        if comp.startswith("trainer"):
            sc["trainers"] = max(1, sc["trainers"])
        if comp == "child":
            sc["child_agent"] = True
        sc["save_condition"] = [False] * rng.randint(0, 4) + [True] * 60
        if rng.random() < 0.5:
            # ... and the teardown takes a while (virtual seconds): the control loop ticks many times meanwhile
            sc["timed"] = True
            sc["pause_timeout"] = rng.choice([1.0, 5.0])
            sc["durations"] = {"teardown": rng.choice([1.0, 3.0]), "step": rng.choice([0.0, 0.5])}
            sc["client"] = [["delay", rng.choice([2.0, 6.0])]] + \
                [c for c in sc["client"] if c[0] != "POST!"][:2] + [["delay", 30.0], ["POST!", "/api/shutdown"]]
    if sc.get("faults") and not sc.get("timed") and rng.random() < 0.5:
        # nobody sends a command for a while after the scripted ones: a system that keeps going with a
        # dead thread is then seen to keep going (the final shutdown request comes several ticks later)
        cl = sc["client"]
        if rng.random() < 0.5 and not any(c[1] == "/api/pause" for c in cl if c[0] == "POST"):
            cl.insert(rng.randrange(len(cl)), ["POST", "/api/pause"])
        cl.insert(len(cl) - 1, ["linger", rng.choice([4, 6])])
    if focus == "C02" and rng.random() < 0.5:
        sc["timed"] = True
        sc["pause_timeout"] = rng.choice([5.0, 20.0])
        sc["durations"] = {"step": rng.choice([0.0, 0.5, 2.0]), "train": rng.choice([0.0, 1.0, 3.0]),
                           "on_paused": rng.choice([0.0, 0.25]), "on_resumed": rng.choice([0.0, 0.25])}
        if rng.random() < 0.5:
            # time-out just above what the in-flight work can need (the boundary of "acknowledged at
            # the first attempt"), with the clock scaled: budgets must be in real seconds
            d = sc["durations"]
            n_inf = 3 if sc.get("child_agent") else 2
            inf_path = d["step"] * (n_inf - 1) + n_inf * (d["on_paused"] + d["on_resumed"])
            tr_path = d["train"] + max(1, sc["trainers"]) * (d["on_paused"] + d["on_resumed"])
            sc["pause_timeout"] = max(inf_path, tr_path) + 1.5 + rng.choice([0.25, 0.5, 1.0])
            sc["time_scale"] = rng.choice([1.0, 2.0, 4.0, 8.0])
        tcl = []
        for c in client:
            tcl.append(["delay", rng.choice([0.0, 0.5, 1.5, 4.0])])
            tcl.append(c)
        sc["client"] = tcl
    if focus == "C18":
        # state retention inside the running system: saves by command and by condition, running and paused
        sc["faults"] = []
        sc["prelaunch"] = False
        sc["keeper_max_keep"] = rng.choice([0, 1, 2, 2])
        sc["custom_keeper"] = rng.random() < 0.35
        sc["queue_size"] = 3
        cl = []
        for _ in range(rng.randint(2, 6)):
            cl.append(rng.choice([["POST", "/api/save-state"], ["POST", "/api/save-state"], ["POST", "/api/pause"],
                                  ["POST", "/api/resume"], ["GET", "/api/status"]]))
        cl += [["linger", 3], ["POST!", "/api/shutdown"]]
        sc["client"] = cl
        sc["save_condition"] = [rng.random() < 0.3 for _ in range(rng.randint(0, 12))]
        return sc
    if focus == "C16":
        # fixed-interval interaction inside launch(): timed runs with pauses / saves between and during steps
        sc["timed"] = True
        sc["faults"] = []
        sc["child_agent"] = False
        sc["pause_timeout"] = 30.0
        sc["time_scale"] = rng.choice([0.5, 1.0, 2.0, 4.0])
        sc["fixed_interval"] = rng.choice([2.0, 4.0]) * sc["time_scale"]
        sc["interval_offset"] = rng.choice([0.0, 0.0, 0.25]) * sc["time_scale"]
        sc["durations"] = {"step": rng.choice([0.0, 0.25, 0.5]) , "train": rng.choice([0.0, 1.0]),
                           "on_resumed": rng.choice([0.0, 0.5])}
        if rng.random() < 0.4:
            # a trainer that waits on the system clock (pamiq_core.time.sleep) for longer than the interval
            sc["trainers"] = max(1, sc["trainers"])
            sc["train_clock_sleep"] = rng.choice([3.0, 7.0]) * sc["time_scale"]
        cl = []
        for _ in range(rng.randint(1, 4)):
            cl.append(["delay", rng.choice([0.5, 3.0, 5.0])])
            cl.append(rng.choice([["POST", "/api/pause"], ["POST", "/api/resume"], ["POST", "/api/save-state"],
                                  ["POST", "/api/pause"], ["POST", "/api/resume"]]))
        cl += [["delay", rng.choice([3.0, 9.0])], ["POST", "/api/resume"], ["delay", 6.0], ["POST!", "/api/shutdown"]]
        sc["client"] = cl
        sc["save_condition"] = []
        if rng.random() < 0.35:
            # the control thread is descheduled right where it releases / freezes the clock
            sc["lazy_points"] = [rng.choice(["clock_resume", "clock_pause"])]
        if rng.random() < 0.15:
            # a checkpoint whose write fails with an OSError (disk full) while the system is running
            sc["faults"] = [{"comp": rng.choice(["agent", "env"]), "cb": "save", "k": 2}]
            sc["client"] = [["delay", 0.5], ["POST", "/api/save-state"]] + sc["client"]
        return sc
    if focus == "C08":
        # timed runs over step durations x logging intervals x scales x limits x pause scripts
        sc["timed"] = True
        sc["faults"] = []
        sc["pause_timeout"] = 20.0
        step = rng.choice([0.25, 0.5, 1.0, 2.0])
        sc["durations"] = {"step": step, "train": rng.choice([0.0, 0.5, 1.5])}
        sc["log_interval"] = rng.choice([0.0, 0.1, step * 0.5, step * 1.5, step * 3.0, 60.0])
        sc["time_scale"] = rng.choice([0.5, 1.0, 2.0, 4.0])
        cl = []
        for _ in range(rng.randint(0, 3)):
            cl.append(["delay", rng.choice([0.5, 1.5, 3.0])])
            cl.append(rng.choice([["POST", "/api/pause"], ["POST", "/api/resume"], ["POST", "/api/resume"],
                                  ["GET", "/api/status"]]))
        if rng.random() < 0.6:
            sc["max_uptime"] = rng.choice([2.0, 5.0, 12.0])
            cl += [["delay", 3.0], ["POST", "/api/resume"]]
        else:
            cl += [["delay", rng.choice([1.0, 6.0])], ["POST!", "/api/shutdown"]]
        sc["client"] = cl
        sc["save_condition"] = []
        resumed = False
        if sc.get("max_uptime") is not None and rng.random() < 0.35:
            # a run resumed from a checkpoint after some down time: the limit counts the resumed run's own time
            sc["prelaunch"] = True
            sc["downtime"] = rng.choice([5.0, 40.0, 3600.0])
            resumed = True
        if not resumed and rng.random() < 0.3:
            sc["keeper_max_keep"] = rng.choice([0, 1, 2])
            sc["custom_keeper"] = rng.random() < 0.5
            sc["save_condition"] = [False] * rng.randint(2, 8) + [True, False, False, True]
            if rng.random() < 0.5:
                # old checkpoints are moved away by hand while the system runs
                sc["archive_states"] = True
                sc["save_condition"] = [False] * rng.randint(1, 4) + [True, False, True, False, False, True, True]
        if rng.random() < 0.12:
            # "no limit" written as a huge finite number (also: far beyond any calendar date)
            sc["max_uptime"] = rng.choice([1e12, 1e18, 1.7e308])
            sc["client"] = [c for c in sc["client"] if c[0] != "POST!"] + \
                [["delay", rng.choice([1.0, 6.0])], ["POST!", "/api/shutdown"]]
    if focus == "C02" and rng.random() < 0.15:
        sc["interrupt_at"] = rng.randint(5, 120)
    if focus in ("C02", "C03", "C09") and rng.random() < 0.06:
        # an interrupt while launch() is still starting the threads
        sc["boot_interrupt"] = rng.choice(["inference", "training", "webapi", "after:inference", "after:training"])
    if focus == "C02" and rng.random() < 0.06:
        # the final save fails (a component's save_state raises in launch()'s epilogue), clock scaled
        sc["faults"] = [{"comp": rng.choice(["agent", "env"]), "cb": "save", "k": "final"}]
        sc["time_scale"] = rng.choice([0.5, 2.0, 4.0])
    if focus == "C02" and rng.random() < 0.15 and sc["timed"]:
        sc["max_uptime"] = rng.choice([3.0, 10.0])
        sc["client"] = [c for c in sc["client"] if c[0] != "POST!"]
    return sc
